(** C07 (lock structure) — theorems about the skeleton REGENERATED from /repo's sources by
    tools/skel on every run of the check (gen/SkelGen.v).  Each is closed by computation of the
    executable checkers of Model/Skel.v on the generated skeleton; what the checkers guarantee
    for the interleaving semantics is proved once and for all in Proofs/SkelProofs.v. *)
From Xds Require Import Model.Base Model.Skel.
From Xds Require Import gen.SkelGen.

(** every function of the manager and the client, entered with no lock held: locks are taken in strictly
    increasing rank (m.mu < c.mu < cipResolver.mu) and never re-entered; every way out releases what was
    taken; every access to a guarded field holds its owning lock (write mode for writes); no channel
    operation blocks under a lock except sends to the request queue (capacity assumption); handlers are only
    called inside a write section of m.mu; nothing irregular was met by the translator *)
Theorem C07_lock_discipline : v_all (sv (check_all true skel)) = true.
Proof. vm_compute. reflexivity. Qed.

(** by the time a lookup can see a resource, every registered handler has completed for the update that
    delivered it: in UpdateResource every handler call precedes the first write of the cache, and the whole
    function is one write section of m.mu *)
Theorem C07_policy_before_data : check_policy_before_data skel = true /\ check_update_is_one_section skel = true.
Proof. vm_compute. split; reflexivity. Qed.

(** update handlers never call back into the manager *)
Theorem C07_handlers_do_not_reenter : check_no_reentry skel = true.
Proof. vm_compute. reflexivity. Qed.

(** known finding D13, as a theorem about the generated skeleton: without the assumption that the request
    queue always has a free slot, a producer can block on it while holding m.mu and c.mu *)
Theorem C07_blocking_send_under_locks_without_capacity : v_block (sv (check_all false skel)) = false.
Proof. vm_compute. reflexivity. Qed.

Print Assumptions C07_lock_discipline.
Print Assumptions C07_policy_before_data.
Print Assumptions C07_handlers_do_not_reenter.
Print Assumptions C07_blocking_send_under_locks_without_capacity.
