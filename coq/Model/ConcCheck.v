(** Comparison and specification functions for the interleaving model of Get (C05, C06, C07),
    evaluated on schedules executed on the real code. *)
From Xds Require Import Model.Base Model.Conc.
Open Scope N_scope.

Record tobs := {
  to_id : N;
  to_result : option result;     (* None: the lookup never returned *)
  to_need_fire : bool;           (* it could only return after its deadline was fired by the drain *)
  to_done_at : option N          (* index of the event at which it returned; None: in the drain *)
}.

Record conc_case := {
  cc_events : list (event * bool);    (* executed events; flag: the implementation did execute it (so it must be enabled in the model) *)
  cc_drain : list event;              (* the drain, as the harness performed it *)
  cc_threads : list tobs;
  cc_notifiers : list key;            (* keys that still have a registered notifier at the end *)
  cc_watches : list key;              (* keys in the order they first appeared in a subscription request *)
  cc_nreq : N;                        (* number of subscription requests sent *)
  cc_fatal : bool
}.

Definition result_eqb (a b : result) : bool :=
  match a, b with
  | RVal x, RVal y => N.eqb x y
  | RErr, RErr | RNil, RNil | RBad, RBad => true
  | _, _ => false
  end.

Fixpoint run_checked (s : cstate) (evs : list (event * bool)) : cstate * bool :=
  match evs with
  | [] => (s, true)
  | (e, must) :: r =>
      let ok := if must then enabled s e else true in
      let '(s1, ok1) := run_checked (cstep s e) r in (s1, ok && ok1)
  end.

Definition conc_agree (c : conc_case) : bool :=
  negb (cc_fatal c) &&
  let '(s1, ok) := run_checked cinit (cc_events c) in
  let s2 := fold_left cstep (cc_drain c) s1 in
  ok &&
  forallb (fun t => opt_eqb result_eqb (thread_result s2 (to_id t)) (to_result t)) (cc_threads c) &&
  (* registered notifiers and subscription requests *)
  forallb (fun k => nmem k (cc_notifiers c)) (map fst (c_nmap s2)) &&
  forallb (fun k => nmem k (map fst (c_nmap s2))) (cc_notifiers c) &&
  Nat.eqb (length (c_nmap s2)) (length (cc_notifiers c)) &&
  list_eqb N.eqb (fold_left (fun acc k => if nmem k acc then acc else (acc ++ [k])%list) (c_watches s2) []) (cc_watches c) &&
  N.eqb (N.of_nat (length (c_watches s2))) (cc_nreq c).

(** ---- history of the cache, from the deliveries alone ---- *)
Definition apply_delivery (cache : list (key * N)) (e : event) : list (key * N) :=
  match e with
  | EDeliver full up scope =>
      let c1 := fold_left (fun acc kv => kset (fst kv) (snd kv) acc) up cache in
      if full then fold_left (fun acc k => match kget k up with Some _ => acc | None => kdel k acc end) scope c1 else c1
  | _ => cache
  end.
(** cache after the first n events *)
Definition cache_after (evs : list event) (n : nat) : list (key * N) := fold_left apply_delivery (firstn n evs) [].

Definition index_of_invoke (evs : list event) (t : N) : option nat :=
  (fix go (l : list event) (i : nat) := match l with
     | [] => None
     | EInvoke t' _ :: r | EInvokeBad t' :: r => if N.eqb t t' then Some i else go r (S i)
     | _ :: r => go r (S i) end) evs 0%nat.
Definition key_of_thread (evs : list event) (t : N) : option key :=
  (fix go (l : list event) := match l with
     | [] => None
     | EInvoke t' k :: r => if N.eqb t t' then Some k else go r
     | _ :: r => go r end) evs.
Definition first_fire (evs : list event) (t : N) : option nat :=
  (fix go (l : list event) (i : nat) := match l with
     | [] => None
     | EFire t' :: r => if N.eqb t t' then Some i else go r (S i)
     | _ :: r => go r (S i) end) evs 0%nat.

Definition read_of (cache : list (key * N)) (k : key) : result :=
  match kget k cache with Some v => RVal v | None => RErr end.

(** results a lookup of k may return if it reads the cache at some point between event index a and b (inclusive of states after a..b events) *)
Definition reads_between (evs : list event) (k : key) (a b : nat) : list result :=
  map (fun n => read_of (cache_after evs n) k) (seq a (S (b - a))).

(** ---- C05: value xor error, of the requested kind; every lookup returns; unknown kinds rejected ---- *)
Definition spec_c05 (c : conc_case) : bool :=
  negb (cc_fatal c) &&
  forallb (fun t => match to_result t with
                    | Some (RVal _) | Some RErr => true
                    | _ => false end) (cc_threads c) &&
  (* a lookup of an unknown kind returns an error at once and subscribes to nothing *)
  forallb (fun t => match index_of_invoke (map fst (cc_events c)) (to_id t), key_of_thread (map fst (cc_events c)) (to_id t) with
                    | Some i, None => opt_eqb result_eqb (to_result t) (Some RErr) &&
                                      opt_eqb N.eqb (to_done_at t) (Some (N.of_nat i))
                    | _, _ => true end) (cc_threads c).

(** ---- C06: a resource accepted before the deadline is returned, without waiting for the deadline ---- *)
Definition spec_c06 (c : conc_case) : bool :=
  negb (cc_fatal c) &&
  let evs := map fst (cc_events c) in
  let n := length evs in
  forallb (fun t =>
    match index_of_invoke evs (to_id t), key_of_thread evs (to_id t) with
    | Some inv, Some k =>
        let fin := match to_done_at t with Some d => N.to_nat d | None => n end in
        let fire := match first_fire evs (to_id t) with Some f => f | None => S n end in
        (* deliveries carrying k strictly after the invocation started, before the lookup returned and before its deadline fired *)
        let hits := filter (fun p => match nth p evs (EFire 0) with
                                     | EDeliver _ up _ => match kget k up with Some _ => true | None => false end
                                     | _ => false end && Nat.ltb inv p && Nat.leb p fin && Nat.ltb p fire)
                           (seq 0 n) in
        match hits with
        | [] => true
        | p :: _ =>
            let upto := match to_done_at t with Some d => S (N.to_nat d) | None => n end in
            let reads := reads_between evs k (S p) upto in
            if forallb (fun r => match r with RVal _ => true | _ => false end) reads
            then (* the resource stays available from that delivery on: the lookup returns it (one of the contents it had in
                    between) and does not need its deadline to fire *)
                 negb (to_need_fire t) &&
                 match to_result t with
                 | Some r => existsb (result_eqb r) reads
                 | None => false
                 end
            else (* a later accepted full response removed it again before the lookup returned: value or error are both explained *)
                 match to_result t with
                 | Some r => existsb (result_eqb r) reads
                 | None => false
                 end
        end
    | _, _ => true
    end) (cc_threads c).

(** ---- C07: every result is explained by the register value of its key at some point inside
    the lookup's own interval (hence no stale value after a newer one was observed, no value
    that was never current); an error needs a reason *)
Definition spec_c07 (c : conc_case) : bool :=
  negb (cc_fatal c) &&
  let evs := map fst (cc_events c) in
  let n := length evs in
  forallb (fun t =>
    match index_of_invoke evs (to_id t), key_of_thread evs (to_id t) with
    | Some inv, Some k =>
        let fin := match to_done_at t with Some d => S (N.to_nat d) | None => n end in
        match to_result t with
        | Some (RVal v) => existsb (result_eqb (RVal v)) (reads_between evs k inv fin)
        | Some RErr =>
            (* absent at some point of the interval, or the deadline fired / had to be fired *)
            existsb (result_eqb RErr) (reads_between evs k inv fin)
        | _ => false
        end
    | _, _ => true
    end) (cc_threads c).

Definition conc_check (c : conc_case) : bool * (bool * bool * bool) :=
  (conc_agree c, (spec_c05 c, spec_c06 c, spec_c07 c)).

(** ---- C05, wall-clock part (a monitor, not a proof): a lookup returns no later than its own
    deadline - the fetch timeout or the caller's deadline/cancellation, whichever is first - plus
    scheduling slack; and when the resource arrives earlier, it returns then ---- *)
Definition lookup_deadline (fetch_ms : N) (caller_ms : option N) : N :=
  match caller_ms with Some c => N.min fetch_ms c | None => fetch_ms end.

Record dl_case := {
  dl_fetch : N; dl_caller : option N; dl_deliver : option N;
  dl_elapsed : N; dl_result : option result }.
Definition slack_ms : N := 500.
Definition dl_ok (c : dl_case) : bool :=
  let d := lookup_deadline (dl_fetch c) (dl_caller c) in
  match dl_deliver c with
  | Some t =>
      if t + 60 <? d then (* supplied well before the deadline: returned then, as a value *)
        match dl_result c with Some (RVal _) => (t <=? dl_elapsed c + 5) && (dl_elapsed c <=? t + slack_ms) | _ => false end
      else if d + 60 <? t then
        match dl_result c with Some RErr => (d <=? dl_elapsed c + 5) && (dl_elapsed c <=? d + slack_ms) | _ => false end
      else match dl_result c with Some (RVal _) | Some RErr => dl_elapsed c <=? N.max d t + slack_ms | _ => false end
  | None => match dl_result c with Some RErr => (d <=? dl_elapsed c + 5) && (dl_elapsed c <=? d + slack_ms) | _ => false end
  end.
Definition dl_check (c : dl_case) : bool * bool := (dl_ok c, dl_ok c).

(** ---- C07, deadlock part on the running code: the sender held inside a Send while lookups of missing names pile
    requests up, optionally across a stream failure; then the Send is let go ---- *)
Record stall_case := {
  sl_pending : N; sl_recv_err : bool; sl_resub_fail : bool;
  sl_queue_max : N; sl_stuck : N; sl_hot_after_ok : bool; sl_streams : N; sl_resub : bool; sl_failed : N }.
Definition queue_cap : N := 1024.
(** the code's request queue has [queue_cap] slots; a stream failure opens exactly one new stream *)
Definition stall_agree (c : stall_case) : bool :=
  if sl_resub_fail c
  then (* the stream fails, the re-subscription on the second one fails with it, the third one works *)
       N.eqb (sl_streams c) 3
  else N.eqb (sl_queue_max c) (N.min (sl_pending c) queue_cap) && N.eqb (sl_streams c) (if sl_recv_err c then 2 else 1).
(** no deadlock: once the Send returns every lookup returns, the cached name is served, and the subscriptions were
    re-requested on the new stream *)
Definition stall_spec (c : stall_case) : bool :=
  N.eqb (sl_stuck c) 0 && sl_hot_after_ok c && N.eqb (sl_failed c) 0 && (if sl_recv_err c || sl_resub_fail c then sl_resub c else true).
Definition stall_check (c : stall_case) : bool * bool := (stall_agree c, stall_spec c).

(** ---- C07, random concurrent mix on the running code (with the race detector in the thorough tier) ---- *)
Record stress_case := { st_races : N; st_bad : N; st_unfinished : bool; st_lookups : N; st_overlap : N; st_regress : N;
                        st_behind : N; st_shrinks : N; st_wire_stale : N }.
(** no report of the race detector, every lookup returned a value xor an error, everything returned, and no update
    handler was ever run twice at once or handed an older cluster set after a newer one (handlers are serialised with
    the updates: registration replays the cache inside the manager's write section) *)
Definition stress_spec (c : stress_case) : bool :=
  N.eqb (st_races c) 0 && N.eqb (st_bad c) 0 && negb (st_unfinished c) && N.eqb (st_overlap c) 0 && N.eqb (st_regress c) 0 &&
  (* no lookup exposed a cluster set newer than what a handler registered before the lookup had been run for (policy before
     data); along every stream the names a type lists never shrank (nothing is evicted in these runs: C03); once quiet,
     the last request of every subscribed type on the live stream lists the interest set (C03) *)
  N.eqb (st_behind c) 0 && N.eqb (st_shrinks c) 0 && N.eqb (st_wire_stale c) 0.
Definition stress_check (c : stress_case) : bool * bool := (true, stress_spec c).
