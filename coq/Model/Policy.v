(** Model of the xdssuite policy consumers driven by the manager's update handlers:
    circuitbreak.go (C16), retry.go updateRetryPolicy (C17), limiter.go (C18).
    A handler is invoked with the update map of every accepted response of its type, and
    with the whole cached map of the type when it registers.  Definitions only. *)
From Xds Require Import Model.Base Model.Fqdn Model.Proto Model.Decode Model.Sys.
Open Scope string_scope.

(** ---- C16 circuit breaker ---- *)
(** per-destination configuration: (enabled, failure-percentage threshold, minimum sample) *)
Definition cbcfg := (bool * N * N)%type.
Definition cb_disabled : cbcfg := (false, 0, 0).
Record cb_state := { cb_cfg : list (string * cbcfg); cb_last : option (list string) }.
Definition cb_init : cb_state := {| cb_cfg := []; cb_last := None |}.

Definition cb_of_cluster (c : clres) : option cbcfg :=
  match c_outlier c with
  | None => None
  | Some (thr, vol) => Some (if negb (N.eqb vol 0) && negb (N.eqb thr 0) then (true, thr, vol) else cb_disabled)
  end.

(** updateCircuitPolicy: the policies derived from one update *)
Definition cb_policies (up : list (string * cval)) : list (string * cbcfg) :=
  flat_map (fun kv => match snd kv with
                      | VCl c => match cb_of_cluster c with Some p => [(fst kv, p)] | None => [] end
                      | _ => [] end) up.

(** updateAllCircuitConfigs *)
Definition cb_update (s : cb_state) (up : list (string * cval)) : cb_state :=
  let pol := cb_policies up in
  let cfg1 := fold_left (fun acc kv => aset (fst kv) (snd kv) acc) pol (cb_cfg s) in
  let cfg2 := match cb_last s with
              | None => cfg1
              | Some last => fold_left (fun acc k => if amem k pol then acc else aset k cb_disabled acc) last cfg1
              end in
  {| cb_cfg := cfg2; cb_last := Some (map fst pol) |}.

(** ---- C17 retry policies ---- *)
Record rpol := {
  rq_times : N;            (* MaxRetryTimes *)
  rq_dur : N;              (* MaxDurationMS: uint32(per-try ms) * uint32(attempts), wraps mod 2^32 *)
  rq_rate : N;             (* error-rate ceiling as float64 bits *)
  rq_bo : N * N * N        (* back-off: (0 none | 1 fixed | 2 random, fix/min ms, max ms) *)
}.
Definition ms_of (d : Z) : Z := Z.quot d 1000000.
Definition u32 (n : N) : N := n mod 4294967296.
Definition u32z (z : Z) : N := Z.to_N (z mod 4294967296).

Definition rpol_of_route (r : route) : rpol :=
  let rp := r_retry r in
  {| rq_times := rp_num rp;
     rq_dur := u32 (u32z (ms_of (rp_pertry rp)) * u32 (rp_num rp));
     rq_rate := rp_cbrate rp;
     rq_bo := match rp_backoff rp with
              | None => (0, 0, 0)
              | Some (base, mx) => if (base <? mx)%Z then (2, Z.to_N (ms_of base), Z.to_N (ms_of mx))
                                   else (1, Z.to_N (ms_of base), 0)
              end |}.

(** the (key, policy) notifications of one route table, in order *)
Definition rt_of_routes (rs : list route) : list (string * rpol) :=
  flat_map (fun r => flat_map (fun c => (fst c, rpol_of_route r) ::
                                        map (fun m => (fst c ++ "|" ++ m, rpol_of_route r)) (rp_methods (r_retry r)))
                              (r_clusters r)) rs.
Definition rt_of_rc (v : cval) : list (string * rpol) :=
  match v with
  | VRc rc => match rc_http rc with Some vhs => rt_of_routes (concat (map snd vhs)) | None => [] end
  | _ => []
  end.

(** installed policies: for each key the candidates among which Go's map iteration order picks
    (within one route table the last notification wins; the order among tables is random) *)
Record rt_state := { rt_pol : list (string * list rpol); rt_last : list string }.
Definition rt_init : rt_state := {| rt_pol := []; rt_last := [] |}.

(** the final notification of each key within one table *)
Definition table_finals (v : cval) : list (string * rpol) :=
  fold_left (fun acc kv => aset (fst kv) (snd kv) acc) (rt_of_rc v) [].

(** updateRetryPolicy on the map handed to the handler *)
Definition rt_update (s : rt_state) (up : list (string * cval)) : rt_state :=
  let finals := flat_map (fun kv => table_finals (snd kv)) up in
  let keys := map fst finals in
  let pol1 := fold_left (fun acc k => aset k (map snd (filter (fun kv => String.eqb (fst kv) k) finals)) acc) keys (rt_pol s) in
  let pol2 := fold_left (fun acc k => if smem k keys then acc else adel k acc) (rt_last s) pol1 in
  {| rt_pol := pol2; rt_last := keys |}.

(** ---- C18 limiter ---- *)
(** None = unlimited *)
Definition limit_of_tokens (t : N) : option N := if N.eqb t 0 then None else Some t.

(** getLimiterPolicy: port -> tokens per fill, later filters override *)
Definition limiter_ports (up : list (string * cval)) : option (list (N * N)) :=
  match aget reserved_lds up with
  | Some (VLis l) =>
      Some (fold_left (fun acc f => match nf_inline f with
                                    | Some rc => (nf_port f, rc_tpf rc) :: filter (fun p => negb (N.eqb (fst p) (nf_port f))) acc
                                    | None => acc end) l [])
  | _ => None
  end.
Definition port_get (p : N) (m : list (N * N)) : option N :=
  match find (fun x => N.eqb (fst x) p) m with Some x => Some (snd x) | None => None end.

(** listenerUpdater: the QPS limit after an update *)
Definition limiter_qps (port : N) (up : list (string * cval)) : option N :=
  match limiter_ports up with
  | None => None
  | Some m => match port_get port m with
              | Some t => limit_of_tokens t
              | None => match port_get 0 m with Some t => limit_of_tokens t | None => None end
              end
  end.

Record lim_state := { lm_port : N; lm_qps : option N; lm_pushes : list (option N) }.
Definition lim_update (s : lim_state) (up : list (string * cval)) : lim_state :=
  let q := limiter_qps (lm_port s) up in
  {| lm_port := lm_port s; lm_qps := q; lm_pushes := (lm_pushes s ++ [q])%list |}.

(** ---- all consumers together, as registered on one manager ---- *)
Record pstate := { p_cb : option cb_state; p_rt : option rt_state; p_lim : option lim_state }.
Definition p_init : pstate := {| p_cb := None; p_rt := None; p_lim := None |}.

Definition p_apply (p : pstate) (u : update) : pstate :=
  match u_type u with
  | TCl => {| p_cb := option_map (fun s => cb_update s (u_map u)) (p_cb p); p_rt := p_rt p; p_lim := p_lim p |}
  | TRc => {| p_cb := p_cb p; p_rt := option_map (fun s => rt_update s (u_map u)) (p_rt p); p_lim := p_lim p |}
  | TLis => {| p_cb := p_cb p; p_rt := p_rt p; p_lim := option_map (fun s => lim_update s (u_map u)) (p_lim p) |}
  | _ => p
  end.

(** registering a consumer: it starts empty and is then replayed the current cache of its
    type (the [updates] the manager emits for ORegister); the limiter's updater is attached
    right after and receives the current option *)
Inductive consumer := KCb | KRetry | KLimiter (port : N).
Definition consumer_type (k : consumer) : rtype := match k with KCb => TCl | KRetry => TRc | KLimiter _ => TLis end.
Definition p_register (p : pstate) (k : consumer) (replay : list update) : pstate :=
  let p0 := match k with
            | KCb => {| p_cb := Some cb_init; p_rt := p_rt p; p_lim := p_lim p |}
            | KRetry => {| p_cb := p_cb p; p_rt := Some rt_init; p_lim := p_lim p |}
            | KLimiter port => {| p_cb := p_cb p; p_rt := p_rt p; p_lim := Some {| lm_port := port; lm_qps := None; lm_pushes := [] |} |}
            end in
  let p1 := fold_left p_apply replay p0 in
  match k with
  | KLimiter _ => {| p_cb := p_cb p1; p_rt := p_rt p1;
                     p_lim := option_map (fun s => {| lm_port := lm_port s; lm_qps := lm_qps s; lm_pushes := [lm_qps s] |}) (p_lim p1) |}
  | _ => p1
  end.
