(** Model of xdssuite/router.go pickCluster (C09).
    The uniform draw of fastrand is an input [t] (0 <= t < total). Arithmetic is over
    unbounded N: the code sums the uint32 weights in a uint64, which cannot wrap for fewer
    than 2^32 clusters (hypothesis [nsum ws < 2^64] in the theorems). *)
From Xds Require Import Model.Base.

(** the cumulative scan: first index whose running sum exceeds the draw *)
Fixpoint scan (ws : list N) (curr t : N) (idx : nat) : outcome nat :=
  match ws with
  | [] => Err                       (* "random pick failed" *)
  | w :: r => if t <? curr + w then Ok idx else scan r (curr + w) t (S idx)
  end.

Definition pick (ws : list N) (t : N) : outcome nat :=
  match ws with
  | [] => Err                       (* no weighted clusters in route *)
  | [_] => Ok 0%nat                     (* single cluster: chosen whatever its weight *)
  | _ => if nsum ws =? 0 then Err   (* total weight invalid *)
         else scan ws 0 t 0%nat
  end.

(** sum of the first [i] weights *)
Definition prefix (ws : list N) (i : nat) : N := nsum (firstn i ws).
Definition weight (ws : list N) (i : nat) : N := nth i ws 0.

(** number of draws t in [0, total) that select index i (by enumeration; used by the
    correspondence check for small totals and by the counting theorem) *)
Definition nrange (n : N) : list N := map N.of_nat (seq 0 (N.to_nat n)).
Definition outN_eqb (a b : outcome nat) : bool :=
  match a, b with
  | Ok x, Ok y => Nat.eqb x y
  | Err, Err => true
  | Panic, Panic => true
  | _, _ => false
  end.
Definition count_picks (ws : list N) (i : nat) : N :=
  N.of_nat (length (filter (fun t => outN_eqb (pick ws t) (Ok i)) (nrange (nsum ws)))).
