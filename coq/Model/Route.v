(** Model of xdssuite/router.go (matchRoute, matchHTTPRoute, matchThriftRoute, routeMatched),
    core/xdsresource/rds.go MatchPath/MatchMeta, matcher.go Match, and of the routing
    middleware / retry-key / resolver decision logic (C08, C15).  Definitions only. *)
From Xds Require Import Model.Base Model.Fqdn Model.Proto Model.Decode Model.Pick.
Open Scope string_scope.

Record call := {
  k_service : string;     (* ri.To().ServiceName(): the listener looked up *)
  k_pkg : string;         (* invocation package name *)
  k_svc : string;         (* invocation service name *)
  k_method : string;      (* invocation method name *)
  k_to_method : string;   (* ri.To().Method(): what Thrift routes compare with *)
  k_grpc : bool;          (* transport protocol is gRPC *)
  k_md : list (string * string)  (* metadata from the extractor *)
}.

(** /<package>.<service>/<method> (package omitted when empty) *)
Definition call_path (k : call) : string :=
  "/" ++ (if String.eqb (k_pkg k) "" then k_svc k else k_pkg k ++ "." ++ k_svc k) ++ "/" ++ k_method k.

(** matcher.go *)
Definition matcher_ok (o : oracle) (m : matcher) (v : string) : bool :=
  match m with
  | MExact s => String.eqb s v
  | MPrefix s => String.prefix s v
  | MRegex r => o_re_match o r v
  end.
Definition matchers_ok (o : oracle) (ms : matchers) (md : list (string * string)) : bool :=
  forallb (fun kv => match aget (fst kv) md with
                     | Some v => matcher_ok o (snd kv) v
                     | None => false
                     end) ms.

(** routeMatched *)
Definition route_matched (o : oracle) (path : string) (md : list (string * string)) (r : route) : bool :=
  match r_match r with
  | HttpMatch p pre hs => (if String.eqb p "" then String.eqb pre "/" else String.eqb p path) && matchers_ok o hs md
  | ThriftMatch m _ tags => (if String.eqb m "" then true else String.eqb m path) && matchers_ok o tags md
  end.

Definition match_http (o : oracle) (k : call) (rc : rcres) : option route :=
  match rc_http rc with
  | None => None
  | Some vhs => find (route_matched o (call_path k) (k_md k)) (concat (map snd vhs))
  end.

Definition match_thrift (o : oracle) (k : call) (rc : rcres) : option route :=
  match rc_thrift rc with
  | None => None
  | Some rs => find (route_matched o (k_to_method k) (k_md k)) rs
  end.

(** the last network filter of each type *)
Definition last_filter (thrift : bool) (l : lisres) : option nfres :=
  fold_left (fun acc f => if Bool.eqb (nf_thrift f) thrift then Some f else acc) l None.

(** result of a manager lookup as seen by the router: a resource or an error *)
Inductive got (A : Type) := GOk (a : A) | GErr.
Arguments GOk {A} a. Arguments GErr {A}.

(** matchRoute: [None] = routing error *)
Definition match_route (o : oracle) (k : call) (lis : got lisres) (named : string -> got rcres) : option route :=
  match lis with
  | GErr => None
  | GOk l =>
      let try_thrift :=
        if k_grpc k then None
        else match last_filter true l with
             | Some f => match nf_inline f with Some rc => match_thrift o k rc | None => None end
             | None => None
             end in
      match try_thrift with
      | Some r => Some r
      | None =>
          match last_filter false l with
          | None => None
          | Some f =>
              let try_inline := match nf_inline f with Some rc => match_http o k rc | None => None end in
              match try_inline with
              | Some r => Some r
              | None => match named (nf_rcname f) with
                        | GErr => None
                        | GOk rc => match_http o k rc
                        end
              end
          end
      end
  end.

(** XDSRouter.Route with the draw t: (cluster, timeout) or error *)
Definition route_call (o : oracle) (k : call) (lis : got lisres) (named : string -> got rcres) (t : N) : option (string * Z) :=
  match match_route o k lis named with
  | None => None
  | Some r => match pick (map snd (r_clusters r)) t with
              | Ok i => Some (nth i (map fst (r_clusters r)) "", r_timeout r)
              | _ => None
              end
  end.

(** ---- the property on the SOURCE tables (what the control plane sent) ---- *)
Definition src_cond_ok (o : oracle) (md : list (string * string)) (h : header_pb) : bool :=
  match h_spec h with
  | HSString (SMExact s) => if String.eqb s "" then true
                            else match aget (h_name h) md with Some v => String.eqb s v | None => false end
  | HSString (SMPrefix s) => if String.eqb s "" then true
                             else match aget (h_name h) md with Some v => String.prefix s v | None => false end
  | HSString (SMRegex s) => if String.eqb s "" then true else if negb (o_re_valid o s) then true
                            else match aget (h_name h) md with Some v => o_re_match o s v | None => false end
  | _ => true     (* unsupported kinds of condition are not decoded *)
  end.
Definition src_path_ok (path : string) (p : path_spec) : bool :=
  match p with
  | PPath s => negb (String.eqb s "") && String.eqb s path
  | PPrefix s => String.eqb s "/"
  | _ => false
  end.
Definition src_route_ok (o : oracle) (k : call) (r : route_pb) : bool :=
  match rt_match r with
  | Some m => src_path_ok (call_path k) (rm_path m) && forallb (src_cond_ok o (k_md k)) (rm_headers m)
  | None => false
  end.
Definition src_troute_ok (o : oracle) (k : call) (r : troute_pb) : bool :=
  match tr_match r with
  | Some m => match tm_spec m with
              | TMMethod s => String.eqb s "" || String.eqb s (k_to_method k)
              | _ => true
              end && forallb (src_cond_ok o (k_md k)) (tm_headers m)
  | None => false
  end.

Definition src_clusters (cs : cluster_spec) : list (string * N) :=
  match cs with CSCluster s => [(s, 1)] | CSWeighted l => wclusters l | _ => [] end.
Definition src_tclusters (a : taction_spec) : list (string * N) :=
  match a with TACluster s => [(s, 1)] | TAWeighted l => wclusters l | _ => [] end.

(** (weighted clusters, timeout) of the route that must be used *)
Definition src_http_first (o : oracle) (k : call) (rc : rc_pb) : option (list (string * N) * Z) :=
  match find (src_route_ok o k) (concat (map vh_routes (rcp_vhosts rc))) with
  | Some r => match rt_action r with
              | ARoute a => Some (src_clusters (ra_spec a), dz (ra_timeout a))
              | _ => Some ([], 0%Z)
              end
  | None => None
  end.
Definition src_thrift_first (o : oracle) (k : call) (tp : tproxy_pb) : option (list (string * N) * Z) :=
  match tp_rc tp with
  | None => None
  | Some rc => match find (src_troute_ok o k) (trc_routes rc) with
               | Some r => Some (match tr_route r with Some a => src_tclusters a | None => [] end, 0%Z)
               | None => None
               end
  end.

Definition all_filters (l : listener_pb) : list nfilter :=
  (concat (map fc_filters (l_chains l)) ++ match l_default l with Some fc => fc_filters fc | None => [] end)%list.
Definition last_thrift_src (l : listener_pb) : option tproxy_pb :=
  fold_left (fun acc f => match f with NFThrift tp => Some tp | _ => acc end) (all_filters l) None.
Definition last_hcm_src (l : listener_pb) : option hcm_pb :=
  fold_left (fun acc f => match f with NFHcm h => Some h | _ => acc end) (all_filters l) None.

(** the route the property designates: Thrift route first for non-gRPC calls, then the inline
    table, then the named one; None = the call must fail with a routing error *)
Definition src_route (o : oracle) (k : call) (lis : option listener_pb) (named : string -> option rc_pb)
  : option (list (string * N) * Z) :=
  match lis with
  | None => None
  | Some l =>
      let t := if k_grpc k then None
               else match last_thrift_src l with Some tp => src_thrift_first o k tp | None => None end in
      match t with
      | Some r => Some r
      | None =>
          match last_hcm_src l with
          | None => None
          | Some h =>
              match hcm_spec h with
              | RSInline rc =>
                  match src_http_first o k rc with
                  | Some r => Some r
                  | None => match named (rcp_name rc) with Some rc' => src_http_first o k rc' | None => None end
                  end
              | RSRds n => match named n with Some rc' => src_http_first o k rc' | None => None end
              | _ => match named "" with Some rc' => src_http_first o k rc' | None => None end
              end
          end
      end
  end.

(** what may be observed for a designated route: a cluster of its support with its timeout, or
    an error when it has no clusters / zero total weight *)
Definition support (cs : list (string * N)) : list string :=
  match cs with
  | [] => []
  | [(n, _)] => [n]
  | _ => map fst (filter (fun c => N.ltb 0 (snd c)) cs)
  end.
Definition obs_explained (want : option (list (string * N) * Z)) (obs : option (string * Z)) : bool :=
  match want, obs with
  | None, None => true
  | Some (cs, tmo), None => match support cs with [] => true | _ => false end
  | Some (cs, tmo), Some (c, t) => smem c (support cs) && Z.eqb t tmo
  | None, Some _ => false
  end.

(** ---- check functions ---- *)
Record route_obs := { ro_result : option (string * Z); ro_panic : bool }.
Record route_case := {
  rk_valid : list (string * bool);
  rk_match : list (string * list (string * bool));
  rk_src_lis : option listener_pb;          (* what the control plane sent (None: listener lookup fails) *)
  rk_src_named : list (string * rc_pb);     (* named route tables available *)
  rk_lis : got lisres;                      (* what the router received from the manager (decoded by the implementation) *)
  rk_named : list (string * rcres);
  rk_calls : list (call * route_obs)
}.

Definition rk_oracle (c : route_case) : oracle := mk_oracle_route (rk_valid c) (rk_match c).

Definition named_fun {A} (l : list (string * A)) : string -> got A :=
  fun n => match aget n l with Some a => GOk a | None => GErr end.

Definition pair_obs_eqb (a b : option (string * Z)) : bool :=
  match a, b with
  | None, None => true
  | Some (c, t), Some (c', t') => String.eqb c c' && Z.eqb t t'
  | _, _ => false
  end.

(** agreement: for some draw the model produces exactly the observation (the generator makes
    routes single-cluster, so the draw does not matter there) *)
Definition route_agree1 (c : route_case) (ko : call * route_obs) : bool :=
  let '(k, ob) := ko in
  negb (ro_panic ob) &&
  match match_route (rk_oracle c) k (rk_lis c) (named_fun (rk_named c)) with
  | None => match ro_result ob with None => true | Some _ => false end
  | Some r => obs_explained (Some (r_clusters r, r_timeout r)) (ro_result ob)
  end.

Definition route_spec1 (c : route_case) (ko : call * route_obs) : bool :=
  let '(k, ob) := ko in
  negb (ro_panic ob) &&
  obs_explained (src_route (rk_oracle c) k (rk_src_lis c) (fun n => aget n (rk_src_named c))) (ro_result ob).

Definition route_check (c : route_case) : bool * bool :=
  (forallb (route_agree1 c) (rk_calls c), forallb (route_spec1 c) (rk_calls c)).
