(** Sequential state machine of the xDS client + resource manager (core/manager/client.go,
    manager.go): subscriptions, discovery responses (decode, ACK/NACK, filter by interest,
    cache update with full/merge semantics), lookups that miss, stream failures, eviction.
    Each op is one atomic step: in the code every one of them runs under c.mu / m.mu
    (lock structure: C07).  Composes Model/Decode.v (payload decoding) and Model/Fqdn.v
    (listener-name binding).  Definitions only.  (C01-C04, C10, C14, C16-C19) *)
From Xds Require Import Model.Base Model.Fqdn Model.Proto Model.Decode Model.Pick Model.Route Model.Mw.
Open Scope string_scope.

Inductive rtype := TLis | TRc | TCl | TEp | TNt.
Definition rtype_eqb (a b : rtype) : bool :=
  match a, b with TLis, TLis | TRc, TRc | TCl, TCl | TEp, TEp | TNt, TNt => true | _, _ => false end.

(** one value per resource type (Go: map[ResourceType]X) *)
Record tmap (A : Type) := { m_lis : A; m_rc : A; m_cl : A; m_ep : A; m_nt : A }.
Arguments m_lis {A}. Arguments m_rc {A}. Arguments m_cl {A}. Arguments m_ep {A}. Arguments m_nt {A}.
Definition tget {A} (t : rtype) (m : tmap A) : A :=
  match t with TLis => m_lis m | TRc => m_rc m | TCl => m_cl m | TEp => m_ep m | TNt => m_nt m end.
Definition tset {A} (t : rtype) (v : A) (m : tmap A) : tmap A :=
  match t with
  | TLis => {| m_lis := v; m_rc := m_rc m; m_cl := m_cl m; m_ep := m_ep m; m_nt := m_nt m |}
  | TRc => {| m_lis := m_lis m; m_rc := v; m_cl := m_cl m; m_ep := m_ep m; m_nt := m_nt m |}
  | TCl => {| m_lis := m_lis m; m_rc := m_rc m; m_cl := v; m_ep := m_ep m; m_nt := m_nt m |}
  | TEp => {| m_lis := m_lis m; m_rc := m_rc m; m_cl := m_cl m; m_ep := v; m_nt := m_nt m |}
  | TNt => {| m_lis := m_lis m; m_rc := m_rc m; m_cl := m_cl m; m_ep := m_ep m; m_nt := v |}
  end.
Definition tconst {A} (v : A) : tmap A := {| m_lis := v; m_rc := v; m_cl := v; m_ep := v; m_nt := v |}.

(** RequireFullADSResponse *)
Definition full_type (t : rtype) : bool := match t with TLis | TCl => true | _ => false end.

(** cached resource values *)
Inductive cval := VLis (l : lisres) | VRc (r : rcres) | VCl (c : clres) | VEp (e : option epres)
| VNil.   (* a nil placeholder (typed-nil pointer) observed in the implementation's cache; never produced by the model *)

Definition reserved_lds : string := "virtualInbound".

Record scfg := { sc_nds_required : bool; sc_f : fcfg }.

(** a DiscoveryRequest as observed on a stream *)
Record request := { q_type : rtype; q_version : string; q_nonce : string; q_names : list string; q_error : bool }.

Record state := {
  s_watched : tmap (option (list string));     (* None: the type was never watched *)
  s_version : tmap string;
  s_nonce : tmap string;
  s_table : table;
  s_cache : tmap (list (string * cval));
  s_has_cache : tmap bool;                     (* the per-type cache map exists (created by the first non-empty update) *)
  s_meta : tmap (list (string * N));           (* last access (logical ms) of every entry having a meta record *)
  s_now : N;
  s_stream : N;                                (* id of the stream the receiver reads *)
  s_sender_ok : bool;                          (* the sender still has a usable stream *)
  s_closed : bool                              (* client stopped for good (authentication rejection) *)
}.

Definition init_state : state :=
  {| s_watched := tconst None; s_version := tconst ""; s_nonce := tconst ""; s_table := [];
     s_cache := tconst []; s_has_cache := tconst false; s_meta := tconst []; s_now := 1000000; s_stream := 0; s_sender_ok := true; s_closed := false |}.

Definition watched_names (s : state) (t : rtype) : list string :=
  match tget t (s_watched s) with Some l => l | None => [] end.

Definition mk_request (s : state) (t : rtype) (err : bool) : request :=
  {| q_type := t; q_version := tget t (s_version s); q_nonce := tget t (s_nonce s); q_names := watched_names s t; q_error := err |}.

(** requests reach the wire only while the client is open and the sender has a stream *)
Definition emit (s : state) (q : request) : list (N * request) :=
  if s_closed s then [] else if s_sender_ok s then [(s_stream s, q)] else [].

(** xdsClient.Watch *)
Definition watch (s : state) (t : rtype) (n : string) (remove : bool) : state * list (N * request) :=
  let cur := watched_names s t in
  let nw := if remove then sdel n cur else sadd n cur in
  let s' := {| s_watched := tset t (Some nw) (s_watched s); s_version := s_version s; s_nonce := s_nonce s; s_table := s_table s;
               s_cache := s_cache s; s_has_cache := s_has_cache s; s_meta := s_meta s; s_now := s_now s; s_stream := s_stream s;
               s_sender_ok := s_sender_ok s; s_closed := s_closed s |} in
  (s', emit s' (mk_request s' t false)).

(** payloads by type *)
Inductive payload :=
| PLds (rs : list (res_pb listener_pb))
| PRds (rs : list (res_pb rc_pb))
| PCds (rs : list (res_pb cluster_pb))
| PEds (rs : list (res_pb cla_pb))
| PNds (rs : list (res_pb nt_pb)).
Definition payload_type (p : payload) : rtype :=
  match p with PLds _ => TLis | PRds _ => TRc | PCds _ => TCl | PEds _ => TEp | PNds _ => TNt end.

(** result of decoding a payload: an update map of cache values, or a new name table *)
Inductive decoded := DMap (m : list (string * cval)) | DTable (t : table).
Definition vmap {A} (f : A -> cval) (m : list (string * A)) : list (string * cval) := map (fun kv => (fst kv, f (snd kv))) m.
Definition decode_payload (o : oracle) (p : payload) : option decoded :=
  match p with
  | PLds rs => option_map (fun m => DMap (vmap VLis m)) (decode_lds o rs)
  | PRds rs => option_map (fun m => DMap (vmap VRc m)) (decode_rds o rs)
  | PCds rs => option_map (fun m => DMap (vmap VCl m)) (decode_cds rs)
  | PEds rs => option_map (fun m => DMap (vmap VEp m)) (decode_eds rs)
  | PNds rs => option_map DTable (decode_nds rs)
  end.

(** filtering by the interest set (handleLDS / handleRDS / handleCDS / handleEDS) *)
Definition filter_update (c : scfg) (s : state) (t : rtype) (res : list (string * cval)) : list (string * cval) :=
  match t with
  | TLis =>
      flat_map (fun n =>
        if sc_nds_required c && negb (String.eqb n reserved_lds) then
          match listener_name (sc_f c) (s_table s) n with
          | Some ln => match aget ln res with Some v => [(n, v)] | None => [] end
          | None => []
          end
        else match aget n res with Some v => [(n, v)] | None => [] end) (watched_names s TLis)
  | _ => filter (fun kv => smem (fst kv) (watched_names s t)) res
  end.

(** xdsResourceManager.UpdateResource: cache and meta *)
Definition apply_update (s : state) (t : rtype) (up : list (string * cval)) : state :=
  let old := tget t (s_cache s) in
  let merged := fold_left (fun acc kv => aset (fst kv) (snd kv) acc) up old in
  let nc := if full_type t then filter (fun kv => amem (fst kv) up) merged else merged in
  let om := tget t (s_meta s) in
  let nm := fold_left (fun acc kv => if amem (fst kv) acc then acc else aset (fst kv) (s_now s) acc) nc om in
  {| s_watched := s_watched s; s_version := s_version s; s_nonce := s_nonce s; s_table := s_table s;
     s_cache := tset t nc (s_cache s);
     s_has_cache := (match up with [] => s_has_cache s | _ => tset t true (s_has_cache s) end);
     s_meta := tset t nm (s_meta s); s_now := s_now s; s_stream := s_stream s;
     s_sender_ok := s_sender_ok s; s_closed := s_closed s |}.

Definition set_ack (s : state) (t : rtype) (version : option string) (nonce : string) : state :=
  {| s_watched := s_watched s;
     s_version := match version with Some v => tset t v (s_version s) | None => s_version s end;
     s_nonce := tset t nonce (s_nonce s); s_table := s_table s; s_cache := s_cache s; s_has_cache := s_has_cache s; s_meta := s_meta s;
     s_now := s_now s; s_stream := s_stream s; s_sender_ok := s_sender_ok s; s_closed := s_closed s |}.

Definition set_table (s : state) (tb : table) : state :=
  {| s_watched := s_watched s; s_version := s_version s; s_nonce := s_nonce s; s_table := tb; s_cache := s_cache s; s_has_cache := s_has_cache s;
     s_meta := s_meta s; s_now := s_now s; s_stream := s_stream s; s_sender_ok := s_sender_ok s; s_closed := s_closed s |}.

(** what an accepted response hands to UpdateResource (the update the handlers see) *)
Record update := { u_type : rtype; u_map : list (string * cval) }.

(** handleResponse for a known type url *)
Definition handle_resp (c : scfg) (o : oracle) (s : state) (version nonce : string) (p : payload)
  : state * list (N * request) * list update :=
  let t := payload_type p in
  if s_closed s then (s, [], [])
  else match tget t (s_watched s) with
  | None => (s, [], [])                               (* never subscribed: neither acknowledged nor applied *)
  | Some _ =>
      match decode_payload o p with
      | None =>                                       (* NACK: last accepted version, new nonce, error detail *)
          let s1 := set_ack s t None nonce in
          (s1, emit s1 (mk_request s1 t true), [])
      | Some d =>
          let s1 := set_ack s t (Some version) nonce in
          let ack := emit s1 (mk_request s1 t false) in
          match d with
          | DTable tb => (set_table s1 tb, ack, [])
          | DMap res =>
              let up := filter_update c s1 t res in
              let s2 := apply_update s1 t up in
              (* the handlers see the resources in force after this update: for full-state types that
                 is the update itself, for merge types the cache overlaid with the update *)
              (s2, ack, [{| u_type := t; u_map := tget t (s_cache s2) |}])
          end
      end
  end.

(** lookups *)
(** what a lookup can return; the last four are never produced by the model (C05) *)
Inductive lookup_result :=
| LHit (v : cval)       (* a value of the requested kind, nil error *)
| LMiss                 (* an error, nil value *)
| LNil                  (* nil value and nil error *)
| LBoth                 (* value and error *)
| LPanic
| LHang                 (* did not return *)
| LResolved (r : option (list (string * N)))   (* result of XDSResolver.Resolve: instances (address, weight) or an error *)
| LOther.               (* a value of another kind *)

Definition touch (s : state) (t : rtype) (n : string) : state :=
  match aget n (tget t (s_meta s)) with
  | None => s
  | Some _ =>
      {| s_watched := s_watched s; s_version := s_version s; s_nonce := s_nonce s; s_table := s_table s; s_cache := s_cache s; s_has_cache := s_has_cache s;
         s_meta := tset t (aset n (s_now s) (tget t (s_meta s))) (s_meta s); s_now := s_now s; s_stream := s_stream s;
         s_sender_ok := s_sender_ok s; s_closed := s_closed s |}
  end.

(** Get with an already expired context: a hit returns the value; a miss subscribes (one
    request) and returns an error *)
Definition lookup (s : state) (t : rtype) (n : string) : state * list (N * request) * lookup_result :=
  let s0 := touch s t n in
  match aget n (tget t (s_cache s0)) with
  | Some v => (s0, [], LHit v)
  | None => let '(s1, rq) := watch s0 t n false in (s1, rq, LMiss)
  end.

(** stream events *)
Definition all_types : list rtype := [TLis; TRc; TCl; TEp; TNt].

(** a non-authentication Recv error: new stream, nonces forgotten, every subscribed type re-requested *)
Definition reconnect (s : state) : state * list (N * request) :=
  let s1 := {| s_watched := s_watched s; s_version := s_version s; s_nonce := tconst ""; s_table := s_table s; s_cache := s_cache s; s_has_cache := s_has_cache s;
               s_meta := s_meta s; s_now := s_now s; s_stream := s_stream s + 1; s_sender_ok := true; s_closed := s_closed s |} in
  (s1, flat_map (fun t => match tget t (s_watched s1) with
                          | Some _ => emit s1 (mk_request s1 t false)
                          | None => [] end) all_types).

Definition close_client (s : state) : state :=
  {| s_watched := s_watched s; s_version := s_version s; s_nonce := s_nonce s; s_table := s_table s; s_cache := s_cache s; s_has_cache := s_has_cache s;
     s_meta := s_meta s; s_now := s_now s; s_stream := s_stream s; s_sender_ok := false; s_closed := true |}.

Definition send_fails (s : state) : state :=
  {| s_watched := s_watched s; s_version := s_version s; s_nonce := s_nonce s; s_table := s_table s; s_cache := s_cache s; s_has_cache := s_has_cache s;
     s_meta := s_meta s; s_now := s_now s; s_stream := s_stream s; s_sender_ok := false; s_closed := s_closed s |}.

(** eviction sweep: entries idle for more than the expiry period, except the reserved listener *)
Definition expire_ms : N := 30000.
Definition is_reserved (t : rtype) (n : string) : bool :=
  match t with TLis => String.eqb n reserved_lds | _ => false end.

Definition evict_one (s : state) (t : rtype) (n : string) : state * list (N * request) :=
  let s1 := {| s_watched := s_watched s; s_version := s_version s; s_nonce := s_nonce s; s_table := s_table s;
               s_cache := tset t (adel n (tget t (s_cache s))) (s_cache s); s_has_cache := s_has_cache s;
               s_meta := tset t (adel n (tget t (s_meta s))) (s_meta s);
               s_now := s_now s; s_stream := s_stream s; s_sender_ok := s_sender_ok s; s_closed := s_closed s |} in
  watch s1 t n true.

Definition idle_names (s : state) (t : rtype) : list string :=
  map fst (filter (fun kv => negb (is_reserved t (fst kv)) && N.ltb (snd kv + expire_ms) (s_now s)) (tget t (s_meta s))).

Definition sweep (s : state) : state * list (N * request) :=
  fold_left (fun acc t =>
     fold_left (fun acc2 n => let '(s2, rq) := evict_one (fst acc2) t n in (s2, (snd acc2 ++ rq)%list))
               (idle_names (fst acc) t) acc) all_types (s, []).

Definition tick (s : state) (d : N) : state :=
  {| s_watched := s_watched s; s_version := s_version s; s_nonce := s_nonce s; s_table := s_table s; s_cache := s_cache s; s_has_cache := s_has_cache s;
     s_meta := s_meta s; s_now := s_now s + d; s_stream := s_stream s; s_sender_ok := s_sender_ok s; s_closed := s_closed s |}.

(** operations of a history *)
Inductive op :=
| OSubscribe (t : rtype) (n : string)                       (* start-up subscription *)
| OLookup (t : rtype) (n : string)
| OLookups (t : rtype) (ns : list string)                   (* a burst of lookups, observed once at the end *)
| OResolve (desc : string)                                   (* XDSResolver.Resolve: cluster lookup, then endpoint lookup if needed *)
| OLookupUnknown                                            (* a kind the manager does not know *)
| OResp (version nonce : string) (p : payload)
| ORespUnknown                                              (* a type url the client does not know *)
| ORegister (t : rtype)                                      (* RegisterXDSUpdateHandler: the handler is replayed the current cache of the type *)
| ORecvErr (auth : bool)
| OSendErr
| OTick (d : N)
| OBackdate (t : rtype) (n : string) (d : N)                (* test device: shift the recorded access time of an entry into the past *)
| OSweep.

Record out := { o_reqs : list (N * request); o_lookup : option lookup_result; o_updates : list update }.
Definition no_out : out := {| o_reqs := []; o_lookup := None; o_updates := [] |}.

Definition step (c : scfg) (o : oracle) (s : state) (x : op) : state * out :=
  match x with
  | OSubscribe t n => let '(s1, rq) := watch s t n false in (s1, {| o_reqs := rq; o_lookup := None; o_updates := [] |})
  | OLookup t n => let '(s1, rq, r) := lookup s t n in (s1, {| o_reqs := rq; o_lookup := Some r; o_updates := [] |})
  | OLookups t ns =>
      let '(s1, rq, r) := fold_left (fun acc n => let '(sa, rqa, _) := acc in let '(sb, rqb, rb) := lookup sa t n in (sb, (rqa ++ rqb)%list, rb))
                                    ns (s, [], LMiss) in
      (s1, {| o_reqs := rq; o_lookup := Some r; o_updates := [] |})
  | OResolve d =>
      let '(s1, rq1, r1) := lookup s TCl d in
      match r1 with
      | LHit (VCl c) =>
          match c_inline c with
          | Some _ => (s1, {| o_reqs := rq1; o_lookup := Some (LResolved (resolve (GOk c) (fun _ => GErr))); o_updates := [] |})
          | None =>
              let '(s2, rq2, r2) := lookup s1 TEp (c_epname c) in
              let eds := fun _ : string => match r2 with LHit (VEp e) => GOk e | _ => GErr end in
              (s2, {| o_reqs := (rq1 ++ rq2)%list; o_lookup := Some (LResolved (resolve (GOk c) eds)); o_updates := [] |})
          end
      | _ => (s1, {| o_reqs := rq1; o_lookup := Some (LResolved None); o_updates := [] |})
      end
  | OLookupUnknown => (s, {| o_reqs := []; o_lookup := Some LMiss; o_updates := [] |})
  | OResp v n p => let '(s1, rq, ups) := handle_resp c o s v n p in (s1, {| o_reqs := rq; o_lookup := None; o_updates := ups |})
  | ORespUnknown => (s, no_out)
  | ORegister t => (s, {| o_reqs := []; o_lookup := None;
                          o_updates := if tget t (s_has_cache s) then [{| u_type := t; u_map := tget t (s_cache s) |}] else [] |})
  | ORecvErr true => (if s_closed s then s else close_client s, no_out)
  | ORecvErr false => if s_closed s then (s, no_out)
                      else let '(s1, rq) := reconnect s in (s1, {| o_reqs := rq; o_lookup := None; o_updates := [] |})
  | OSendErr => (if s_closed s then s else send_fails s, no_out)
  | OTick d => (tick s d, no_out)
  | OBackdate t n d =>
      (match aget n (tget t (s_meta s)) with
       | None => s
       | Some tm =>
           {| s_watched := s_watched s; s_version := s_version s; s_nonce := s_nonce s; s_table := s_table s; s_cache := s_cache s;
              s_has_cache := s_has_cache s; s_meta := tset t (aset n (tm - d) (tget t (s_meta s))) (s_meta s); s_now := s_now s;
              s_stream := s_stream s; s_sender_ok := s_sender_ok s; s_closed := s_closed s |}
       end, no_out)
  | OSweep => let '(s1, rq) := sweep s in (s1, {| o_reqs := rq; o_lookup := None; o_updates := [] |})
  end.

Fixpoint run (c : scfg) (o : oracle) (s : state) (h : list op) : state * list out :=
  match h with
  | [] => (s, [])
  | x :: r => let '(s1, ot) := step c o s x in let '(s2, ots) := run c o s1 r in (s2, ot :: ots)
  end.
Definition final (c : scfg) (o : oracle) (h : list op) : state := fst (run c o init_state h).
