(** Model of the routing middleware (xdssuite/router.go NewXDSRouterMiddleware), the retry-key
    computation (xdssuite/retry.go genRetryServiceKey) and the resolver (xdssuite/resolver.go)
    (C15, C10).  Lookup results are inputs ([got]): under C05's guarantee a lookup yields a
    resource of the requested kind or an error.  Definitions only. *)
From Xds Require Import Model.Base Model.Fqdn Model.Proto Model.Decode Model.Pick Model.Route.
Open Scope string_scope.

(** what the routing step does to the call: error class (0 none, 1 routing error), how often
    the call was passed on, destination tag, whether it is locked, call timeout *)
Record mw_out := { mo_err : N; mo_next : N; mo_tag : option string; mo_locked : bool; mo_timeout : Z }.

(** [pre]: destination already decided (tag present); [r]: outcome of Route *)
Definition mw_step (pre : option string) (t0 : Z) (r : option (string * Z)) : mw_out :=
  match pre with
  | Some t => {| mo_err := 0; mo_next := 1; mo_tag := Some t; mo_locked := false; mo_timeout := t0 |}
  | None =>
      match r with
      | None => {| mo_err := 1; mo_next := 0; mo_tag := None; mo_locked := false; mo_timeout := t0 |}
      | Some (c, tmo) => {| mo_err := 0; mo_next := 1; mo_tag := Some c; mo_locked := true; mo_timeout := tmo |}
      end
  end.

(** retry key: (key, effect on the call) *)
Definition key_step (pre : option string) (t0 : Z) (match_method : bool) (to_method : string)
                    (r : option (string * Z)) : string * mw_out :=
  match pre with
  | Some t => (t, {| mo_err := 0; mo_next := 0; mo_tag := Some t; mo_locked := false; mo_timeout := t0 |})
  | None =>
      match r with
      | None => ("", {| mo_err := 0; mo_next := 0; mo_tag := None; mo_locked := false; mo_timeout := t0 |})
      | Some (c, tmo) =>
          (if match_method then c ++ "|" ++ to_method else c,
           {| mo_err := 0; mo_next := 0; mo_tag := Some c; mo_locked := true; mo_timeout := tmo |})
      end
  end.

(** resolver.go getEndpoints + Resolve: instances (address, weight) or error *)
Definition inst_weight (w : N) : N := w.   (* discovery.NewInstance keeps the weight as given (Kitex v0.11.3) *)

Definition resolve (cl : got clres) (eds : string -> got (option epres)) : option (list (string * N)) :=
  match cl with
  | GErr => None
  | GOk c =>
      let eps := match c_inline c with
                 | Some e => GOk (Some e)
                 | None => eds (c_epname c)
                 end in
      match eps with
      | GErr => None
      | GOk None => None
      | GOk (Some []) => None
      | GOk (Some locs) =>
          match concat locs with
          | [] => None                       (* no endpoints at all: an error, never an empty success *)
          | flat => Some (map (fun e => (fst e, inst_weight (snd e))) flat)
          end
      end
  end.

(** ---- check functions ---- *)
Definition mw_out_eqb (a b : mw_out) : bool :=
  N.eqb (mo_err a) (mo_err b) && N.eqb (mo_next a) (mo_next b) && opt_eqb String.eqb (mo_tag a) (mo_tag b) &&
  Bool.eqb (mo_locked a) (mo_locked b) && Z.eqb (mo_timeout a) (mo_timeout b).

Record mw_case := {
  mk_valid : list (string * bool);
  mk_match : list (string * list (string * bool));
  mk_lis : got lisres;
  mk_named : list (string * rcres);
  mk_call : call;
  mk_pre : option string;
  mk_t0 : Z;
  mk_match_method : bool;
  mk_tlocked : bool;   (* the caller fixed the call's timeout (client.WithRPCTimeout / callopt): routing cannot change it *)
  (* observations *)
  mk_obs_mw : mw_out; mk_mw_panic : bool;
  mk_obs_key : string; mk_obs_key_eff : mw_out; mk_key_panic : bool
}.

(** candidates for Route's outcome: one per cluster of the support, or the error *)
Definition route_outcomes0 (c : mw_case) : list (option (string * Z)) :=
  let o := mk_oracle_route (mk_valid c) (mk_match c) in
  match match_route o (mk_call c) (mk_lis c) (named_fun (mk_named c)) with
  | None => [None]
  | Some r => match support (r_clusters r) with
              | [] => [None]
              | ss => map (fun s => Some (s, r_timeout r)) ss
              end
  end.

(** a timeout the caller has locked stays what it was: the route's timeout is without effect, the decision is not *)
Definition route_outcomes (c : mw_case) : list (option (string * Z)) :=
  if mk_tlocked c then map (option_map (fun ct : string * Z => (fst ct, mk_t0 c))) (route_outcomes0 c) else route_outcomes0 c.

Definition mw_agree (c : mw_case) : bool :=
  negb (mk_mw_panic c) && negb (mk_key_panic c) &&
  existsb (fun r => mw_out_eqb (mw_step (mk_pre c) (mk_t0 c) r) (mk_obs_mw c)) (route_outcomes c) &&
  existsb (fun r => let '(k, e) := key_step (mk_pre c) (mk_t0 c) (mk_match_method c) (k_to_method (mk_call c)) r in
                    String.eqb k (mk_obs_key c) && mw_out_eqb e (mk_obs_key_eff c)) (route_outcomes c).

(** the property on the observation: decide once, fail closed, never panic *)
Definition mw_spec (c : mw_case) : bool :=
  negb (mk_mw_panic c) && negb (mk_key_panic c) &&
  let ob := mk_obs_mw c in
  match mk_pre c with
  | Some t =>   (* already decided: changes nothing, passes the call on once *)
      N.eqb (mo_err ob) 0 && N.eqb (mo_next ob) 1 && opt_eqb String.eqb (mo_tag ob) (Some t) &&
      negb (mo_locked ob) && Z.eqb (mo_timeout ob) (mk_t0 c)
  | None =>
      if N.eqb (mo_err ob) 0
      then (* routed: passed on exactly once with a locked destination that Route can produce, and its timeout *)
        N.eqb (mo_next ob) 1 && mo_locked ob &&
        existsb (fun r => match r with
                          | Some (s, tmo) => opt_eqb String.eqb (mo_tag ob) (Some s) && Z.eqb (mo_timeout ob) tmo
                          | None => false end) (route_outcomes c)
      else (* failed closed: routing error, not passed on, destination and timeout untouched; only when Route can fail *)
        N.eqb (mo_err ob) 1 && N.eqb (mo_next ob) 0 && opt_eqb String.eqb (mo_tag ob) None && negb (mo_locked ob) &&
        Z.eqb (mo_timeout ob) (mk_t0 c) &&
        existsb (fun r => match r with None => true | Some _ => false end) (route_outcomes c)
  end.

(** the retry-key computation is the same decision: it records the selected CLUSTER (not the key) as the locked
    destination with the route's timeout, or leaves the call untouched; the key is the cluster, or cluster|method *)
Definition key_spec (c : mw_case) : bool :=
  let e := mk_obs_key_eff c in
  match mk_pre c with
  | Some t => String.eqb (mk_obs_key c) t && opt_eqb String.eqb (mo_tag e) (Some t) && negb (mo_locked e) && Z.eqb (mo_timeout e) (mk_t0 c)
  | None =>
      existsb (fun r => match r with
                        | Some (s, tmo) =>
                            opt_eqb String.eqb (mo_tag e) (Some s) && mo_locked e && Z.eqb (mo_timeout e) tmo &&
                            String.eqb (mk_obs_key c) (if mk_match_method c then s ++ "|" ++ k_to_method (mk_call c) else s)
                        | None => opt_eqb String.eqb (mo_tag e) None && negb (mo_locked e) && Z.eqb (mo_timeout e) (mk_t0 c) && String.eqb (mk_obs_key c) ""
                        end) (route_outcomes c)
  end.

Definition mw_check (c : mw_case) : bool * bool := (mw_agree c, mw_spec c && key_spec c).

(** resolver *)
Record res_case := {
  rs_cluster : got clres;
  rs_eds : list (string * got (option epres));    (* lookup results by endpoint name; absent = error *)
  rs_desc : string;
  rs_obs : option (list (string * N));            (* instances (address, weight) or error *)
  rs_cacheable : bool; rs_cache_key : string;
  rs_panic : bool
}.
Definition eds_fun (l : list (string * got (option epres))) : string -> got (option epres) :=
  fun n => match aget n l with Some g => g | None => GErr end.
Definition insts_eqb (a b : option (list (string * N))) : bool :=
  opt_eqb (list_eqb (fun x y => String.eqb (fst x) (fst y) && N.eqb (snd x) (snd y))) a b.
Definition res_agree (c : res_case) : bool :=
  negb (rs_panic c) && insts_eqb (resolve (rs_cluster c) (eds_fun (rs_eds c))) (rs_obs c) &&
  match rs_obs c with Some _ => rs_cacheable c && String.eqb (rs_cache_key c) (rs_desc c) | None => true end.
(** never an empty success; successes are cacheable under the cluster name; a cluster that
    cannot be fetched yields an error *)
Definition res_spec (c : res_case) : bool :=
  negb (rs_panic c) &&
  match rs_obs c with
  | Some [] => false
  | Some _ => rs_cacheable c && String.eqb (rs_cache_key c) (rs_desc c) &&
              match rs_cluster c with GErr => false | GOk _ => true end
  | None => true
  end.
Definition res_check (c : res_case) : bool * bool := (res_agree c, res_spec c).

(** the same, with what the control plane SENT (the messages as read back by the independent summariser) and the
    faults injected into the lookups: the result must be exactly the endpoints the control plane lists for the cluster *)
Record res_src := {
  r2_case : res_case;
  r2_cluster : option (res_pb cluster_pb);        (* None: no cluster was offered *)
  r2_eds : list (res_pb cla_pb);
  r2_fault_cl : bool; r2_fault_ep : bool
}.
Definition src_cluster (c : res_src) : got clres :=
  if r2_fault_cl c then GErr
  else match r2_cluster c with Some (RGood cp) => GOk (snd (decode_cluster cp)) | _ => GErr end.
Definition src_eds (c : res_src) (n : string) : got (option epres) :=
  if r2_fault_ep c then GErr
  else match find (fun r => match r with RGood cla => String.eqb (cla_name cla) n | _ => false end) (rev (r2_eds c)) with
       | Some (RGood cla) => GOk (parse_cla (Some cla))
       | _ => GErr
       end.
Definition src_spec (c : res_src) : bool := insts_eqb (rs_obs (r2_case c)) (resolve (src_cluster c) (src_eds c)).
Definition res_check2 (c : res_src) : bool * bool := (res_agree (r2_case c), res_spec (r2_case c) && src_spec c).
