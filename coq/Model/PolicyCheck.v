(** Comparison and specification functions for the policy consumers (C16-C18), evaluated on
    traces of the real manager with the real xdssuite consumers registered. *)
From Xds Require Import Model.Base Model.Fqdn Model.Proto Model.Decode Model.DecodeCheck Model.Sys Model.SysCheck Model.Policy.
Open Scope string_scope.

(** what the harness reads back from the consumers after every operation *)
Record pol_obs := {
  po_cb : option (list (string * cbcfg));          (* CBSuite service configs, sorted by key *)
  po_rt : option (list (string * rpol));           (* retry container policies (after Kitex's own normalisation of the rate), sorted by key *)
  po_lim : option (option N * list (option N))     (* limiter: current QPS limit (None = unlimited), values pushed to the updater so far *)
}.

Inductive pop := POp (x : op) | PReg (k : consumer).

Record pol_case := {
  pk_cfg : scfg;
  pk_ovalid : list (string * bool);
  pk_orates : list (string * option N);
  pk_startup : list op;
  pk_start_obs : option step_obs;
  pk_trace : list (pop * step_obs * pol_obs);
  pk_fatal : bool
}.
Definition pk_oracle (k : pol_case) : oracle := mk_oracle (pk_ovalid k) (pk_orates k) [].

(** Kitex's normalisation of the error-rate ceiling: outside (0, 0.3] the default 0.1 is used.
    Rates are float64 bit patterns; positive floats order like their bit patterns. *)
Definition bits_0_3 : N := 4599075939470750515.   (* 0.3 *)
Definition bits_0_1 : N := 4591870180066957722.   (* 0.1 *)
Definition kitex_rate (bits : N) : N :=
  if (N.ltb 0 bits) && (N.leb bits bits_0_3) then bits else bits_0_1.
Definition rpol_norm (p : rpol) : rpol :=
  {| rq_times := rq_times p; rq_dur := rq_dur p; rq_rate := kitex_rate (rq_rate p); rq_bo := rq_bo p |}.

Definition cbcfg_eqb (a b : cbcfg) : bool :=
  let '(e1, t1, m1) := a in let '(e2, t2, m2) := b in Bool.eqb e1 e2 && N.eqb t1 t2 && N.eqb m1 m2.
Definition rpol_eqb (a b : rpol) : bool :=
  N.eqb (rq_times a) (rq_times b) && N.eqb (rq_dur a) (rq_dur b) && N.eqb (rq_rate a) (rq_rate b) &&
  let '(k1, x1, y1) := rq_bo a in let '(k2, x2, y2) := rq_bo b in N.eqb k1 k2 && N.eqb x1 x2 && N.eqb y1 y2.
Definition oN_eqb := opt_eqb N.eqb.

Definition same_keys {A B} (a : list (string * A)) (b : list (string * B)) : bool := names_eqb (map fst a) (map fst b).

Definition cb_agrees (m : option cb_state) (ob : option (list (string * cbcfg))) : bool :=
  match m, ob with
  | None, None => true
  | Some s, Some l => same_keys (cb_cfg s) l &&
                      forallb (fun kv => opt_eqb cbcfg_eqb (aget (fst kv) (cb_cfg s)) (Some (snd kv))) l
  | _, _ => false
  end.
Definition rt_agrees (m : option rt_state) (ob : option (list (string * rpol))) : bool :=
  match m, ob with
  | None, None => true
  | Some s, Some l => same_keys (rt_pol s) l &&
                      forallb (fun kv => match aget (fst kv) (rt_pol s) with
                                         | Some cands => existsb (fun c => rpol_eqb (rpol_norm c) (snd kv)) cands
                                         | None => false end) l
  | _, _ => false
  end.
Definition lim_agrees (m : option lim_state) (ob : option (option N * list (option N))) : bool :=
  match m, ob with
  | None, None => true
  | Some s, Some (q, pushes) => oN_eqb (lm_qps s) q && list_eqb oN_eqb (lm_pushes s) pushes
  | _, _ => false
  end.

(** the manager and the registered consumers together: one step of a history with registrations *)
Definition jstep (c : scfg) (o : oracle) (sp : state * pstate) (x : pop) : state * pstate :=
  match x with
  | POp y => let '(s1, ot) := step c o (fst sp) y in (s1, fold_left p_apply (o_updates ot) (snd sp))
  | PReg k => let '(s1, ot) := step c o (fst sp) (ORegister (consumer_type k)) in (s1, p_register (snd sp) k (o_updates ot))
  end.
Definition jrun (c : scfg) (o : oracle) (h : list pop) : state * pstate := fold_left (jstep c o) h (init_state, p_init).

Fixpoint pol_agree (c : scfg) (o : oracle) (s : state) (p : pstate) (tr : list (pop * step_obs * pol_obs)) : bool * bool * bool :=
  match tr with
  | [] => (true, true, true)
  | (x, sob, ob) :: r =>
      let '(s1, p1) :=
        match x with
        | POp y => let '(s1, ot) := step c o s y in (s1, fold_left p_apply (o_updates ot) p)
        | PReg k => let '(s1, ot) := step c o s (ORegister (consumer_type k)) in (s1, p_register p k (o_updates ot))
        end in
      let '(a, b, d) := pol_agree c o s1 p1 r in
      (* a consumer only reads what it is handed: with consumers registered the cache is still the state machine's *)
      let ca := cache_agrees s1 (so_snap sob) in
      (ca && cb_agrees (p_cb p1) (po_cb ob) && a, ca && rt_agrees (p_rt p1) (po_rt ob) && b, ca && lim_agrees (p_lim p1) (po_lim ob) && d)
  end.

(** ---- specifications, computed from the history and the implementation's own snapshots ---- *)
(** the update map a response hands to the handlers, from the previous snapshot's interest set *)
Definition impl_update (c : scfg) (o : oracle) (prev : snap) (p : payload) : option (list (string * cval)) :=
  let t := payload_type p in
  if sn_closed prev then None
  else match snap_watched prev t, (if payload_ok o p then decode_payload o p else None) with
  | Some ws, Some (DMap res) =>
      Some (match t with
            | TLis => flat_map (fun n =>
                        if sc_nds_required c && negb (String.eqb n reserved_lds) then
                          match listener_name (sc_f c) (sn_table prev) n with
                          | Some ln => match aget ln res with Some v => [(n, v)] | None => [] end
                          | None => [] end
                        else match aget n res with Some v => [(n, v)] | None => [] end) ws
            | _ => filter (fun kv => smem (fst kv) ws) res
            end)
  | _, _ => None
  end.

(** C16: the configuration is derived from the LATEST cluster update alone; clusters configured
    by an earlier update and not by the latest are disabled; others are absent *)
Fixpoint c16_ok (c : scfg) (o : oracle) (prev : snap) (reg : bool) (ever : list string) (latest : list (string * cval))
                (tr : list (pop * step_obs * pol_obs)) : bool :=
  match tr with
  | [] => true
  | (x, sob, ob) :: r =>
      let sn := so_snap sob in
      let '(reg1, ever1, latest1) :=
        match x with
        | PReg KCb => (true, map fst (cb_policies (snap_cache prev TCl)), snap_cache prev TCl)
        | POp (OResp _ _ (PCds rs)) =>
            if reg then match impl_update c o prev (PCds rs) with
                        | Some up => (true, (map fst (cb_policies up) ++ ever)%list, up)
                        | None => (reg, ever, latest) end
            else (reg, ever, latest)
        | _ => (reg, ever, latest)
        end in
      match po_cb ob with
      | None => negb reg1
      | Some l =>
          reg1 &&
          forallb (fun kv => match aget (fst kv) latest1 with
                             | Some (VCl cl) => match c_outlier cl with
                                                | Some (thr, vol) => cbcfg_eqb (snd kv) (if negb (N.eqb thr 0) && negb (N.eqb vol 0) then (true, thr, vol) else cb_disabled)
                                                | None => smem (fst kv) ever1 && cbcfg_eqb (snd kv) cb_disabled end
                             | _ => smem (fst kv) ever1 && cbcfg_eqb (snd kv) cb_disabled
                             end) l &&
          forallb (fun k => amem k l) ever1
      end && c16_ok c o sn reg1 ever1 latest1 r
  end.

(** C17: the installed policies are exactly those of the named route tables currently cached *)
Definition cached_candidates (sn : snap) : list (string * rpol) :=
  flat_map (fun kv => rt_of_rc (snd kv)) (snap_cache sn TRc).
Fixpoint c17_ok (reg : bool) (tr : list (pop * step_obs * pol_obs)) : bool :=
  match tr with
  | [] => true
  | (x, sob, ob) :: r =>
      let reg1 := match x with PReg KRetry => true | _ => reg end in
      match po_rt ob with
      | None => negb reg1
      | Some l =>
          let cands := cached_candidates (so_snap sob) in
          reg1 && sseteq (map fst l) (map fst cands) &&
          forallb (fun kv => existsb (fun c => String.eqb (fst c) (fst kv) && rpol_eqb (rpol_norm (snd c)) (snd kv)) cands) l
      end && c17_ok reg1 r
  end.

(** C18: the QPS limit is the one of the cached inbound listener; every handler run is pushed *)
Fixpoint c18_ok (c : scfg) (o : oracle) (prev : snap) (port : option N) (npush : nat) (tr : list (pop * step_obs * pol_obs)) : bool :=
  match tr with
  | [] => true
  | (x, sob, ob) :: r =>
      let sn := so_snap sob in
      let '(port1, npush1) :=
        match x with
        | PReg (KLimiter p) => (Some p, 1%nat)
        | POp (OResp _ _ (PLds rs)) =>
            match port, impl_update c o prev (PLds rs) with
            | Some _, Some _ => (port, S npush)
            | _, _ => (port, npush) end
        | _ => (port, npush)
        end in
      match po_lim ob, port1 with
      | None, None => true
      | Some (q, pushes), Some p =>
          oN_eqb q (limiter_qps p (snap_cache sn TLis)) &&
          Nat.eqb (length pushes) npush1 &&
          oN_eqb (last pushes None) q
      | _, _ => false
      end && c18_ok c o sn port1 npush1 r
  end.

Definition pol_check (k : pol_case) : (bool * bool * bool) * (bool * bool * bool) :=
  if pk_fatal k then ((false, false, false), (false, false, false))
  else
    let '(s0, _) := run (pk_cfg k) (pk_oracle k) init_state (pk_startup k) in
    let start := match pk_start_obs k with Some ob => so_snap ob | None => empty_snap end in
    (pol_agree (pk_cfg k) (pk_oracle k) s0 p_init (pk_trace k),
     (c16_ok (pk_cfg k) (pk_oracle k) start false [] [] (pk_trace k),
      c17_ok false (pk_trace k),
      c18_ok (pk_cfg k) (pk_oracle k) start None 0 (pk_trace k))).
