(** Executable check functions for C09, evaluated by the correspondence run on the
    implementation's observations (no proofs here). *)
From Xds Require Import Model.Base Model.Pick.

Record pick_case := {
  pc_ws : list N;       (* weights as sent *)
  pc_n : N;             (* number of calls routed *)
  pc_counts : list N;   (* how often each cluster was chosen by the implementation *)
  pc_errs : N;          (* calls that returned a routing error *)
  pc_panics : N;        (* calls that panicked *)
  pc_other : N          (* calls that returned a cluster not in the route *)
}.

(** |c*T - n*m| <= 12 * sigma + 20*T with sigma = sqrt(n*m*(T-m)) the standard deviation of
    c*T for c ~ Binomial(n, m/T) *)
Definition within (c n m T : N) : bool :=
  let d := if c * T <=? n * m then n * m - c * T else c * T - n * m in
  d <=? 12 * (N.sqrt (n * m * (T - m)) + 1) + 20 * T.

Fixpoint shares_ok (n T : N) (shares counts : list N) : bool :=
  match shares, counts with
  | [], [] => true
  | m :: ss, c :: cs =>
      (if m =? 0 then c =? 0 else true) &&
      (if 40 * T <=? n * m then 0 <? c else true) &&
      within c n m T && shares_ok n T ss cs
  | _, _ => false
  end.

Definition clean (c : pick_case) : bool :=
  (pc_errs c =? 0) && (pc_panics c =? 0) && (pc_other c =? 0).

(** [expect shares c]: the observation is explained by per-cluster shares [shares] out of
    the total weight *)
Definition expect (shares : list N) (c : pick_case) : bool :=
  match pc_ws c with
  | [] => (pc_errs c =? pc_n c) && (pc_panics c =? 0) && (pc_other c =? 0) && (nsum (pc_counts c) =? 0)
  | [_] => clean c && list_eqb N.eqb (pc_counts c) [pc_n c]
  | ws => if nsum ws =? 0
          then (pc_errs c =? pc_n c) && (pc_panics c =? 0) && (pc_other c =? 0) && (nsum (pc_counts c) =? 0)
          else clean c && (nsum (pc_counts c) =? pc_n c) && shares_ok (pc_n c) (nsum ws) shares (pc_counts c)
  end.

(** shares according to the model, by enumerating every draw (small totals) *)
Definition model_shares (ws : list N) : list N :=
  map (count_picks ws) (seq 0 (length ws)).

(** correspondence: the implementation's frequencies are those of the model *)
Definition pick_agree (c : pick_case) : bool :=
  if nsum (pc_ws c) <=? 4096 then expect (model_shares (pc_ws c)) c else expect (pc_ws c) c.

(** the property itself: shares are weight_i / total *)
Definition pick_spec (c : pick_case) : bool := expect (pc_ws c) c.

Definition pick_check (c : pick_case) : bool * bool := (pick_agree c, pick_spec c).
