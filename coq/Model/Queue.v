(** The asynchronous path from the client's state to the wire (core/manager/client.go: sendRequest / reqCh, sender,
    streamCh, reconnect, reqWhenReconnect).  Model/Sys.v treats every request as sent the moment it is built; in the code
    a request is built and queued under c.mu and sent later by the sender goroutine, which may meanwhile be switched to
    a new stream (it then re-subscribes from the CURRENT state, before the older requests still queued behind).  This
    model keeps what that path needs: the interest set per type, the queue, the sender's stream, the one-slot hand-over
    channel, and what has been sent on which stream.  Definitions only. *)
From Xds Require Import Model.Base Model.Fqdn Model.Proto Model.Decode Model.Pick Model.Route Model.Mw Model.Sys.
Open Scope string_scope.

Record qstate := {
  q_sub : tmap (option (list string));        (* interest set per type (None: never subscribed) *)
  q_queue : list (rtype * list string);       (* reqCh: requests built and not yet taken by the sender, oldest first *)
  q_cur : option N;                           (* the stream the sender sends on (None: it lost its stream) *)
  q_pending : option N;                       (* streamCh (one slot): a new stream handed over by the receiver, not yet taken *)
  q_offer : option N;                         (* the receiver is blocked handing a stream over (the slot is occupied) *)
  q_live : N;                                 (* the newest stream: the one the receiver reads *)
  q_sent : list (N * (rtype * list string))   (* what was sent, on which stream, in order *)
}.
Definition q_init : qstate :=
  {| q_sub := tconst None; q_queue := []; q_cur := Some 0%N; q_pending := None; q_offer := None; q_live := 0%N; q_sent := [] |}.

Inductive qevent :=
| QChange (t : rtype) (ws : list string)   (* Watch / ACK: the interest of [t] is [ws] now; a request listing it is queued *)
| QSend                                     (* the sender takes the oldest queued request and sends it on its stream (dropped if it has none) *)
| QSendFail                                 (* ... and the Send fails: the sender loses its stream *)
| QReconnect                                (* the receiver opened a new stream: queue cleared (under c.mu), then it offers the stream *)
| QOffer                                    (* the blocked hand-over completes (the slot is free) *)
| QPickup (drop : nat).                     (* the sender takes the new stream: it discards [drop] queued requests while waiting for
                                               c.mu (repair of D13), then re-subscribes every subscribed type from the current state *)

Definition resub (s : qstate) (j : N) : list (N * (rtype * list string)) :=
  flat_map (fun t => match tget t (q_sub s) with Some ws => [(j, (t, ws))] | None => [] end) all_types.

Definition qstep (s : qstate) (e : qevent) : qstate :=
  match e with
  | QChange t ws =>
      {| q_sub := tset t (Some ws) (q_sub s); q_queue := (q_queue s ++ [(t, ws)])%list; q_cur := q_cur s; q_pending := q_pending s;
         q_offer := q_offer s; q_live := q_live s; q_sent := q_sent s |}
  | QSend =>
      match q_queue s with
      | [] => s
      | r :: rest =>
          {| q_sub := q_sub s; q_queue := rest; q_cur := q_cur s; q_pending := q_pending s; q_offer := q_offer s; q_live := q_live s;
             q_sent := match q_cur s with Some i => (q_sent s ++ [(i, r)])%list | None => q_sent s end |}
      end
  | QSendFail =>
      match q_queue s, q_cur s with
      | r :: rest, Some _ =>
          {| q_sub := q_sub s; q_queue := rest; q_cur := None; q_pending := q_pending s; q_offer := q_offer s; q_live := q_live s; q_sent := q_sent s |}
      | _, _ => s
      end
  | QReconnect =>
      match q_offer s with
      | Some _ => s                                   (* the receiver is still blocked in the previous hand-over *)
      | None =>
          let j := (q_live s + 1)%N in
          match q_pending s with
          | None => {| q_sub := q_sub s; q_queue := []; q_cur := q_cur s; q_pending := Some j; q_offer := None; q_live := j; q_sent := q_sent s |}
          | Some _ => {| q_sub := q_sub s; q_queue := []; q_cur := q_cur s; q_pending := q_pending s; q_offer := Some j; q_live := j; q_sent := q_sent s |}
          end
      end
  | QOffer =>
      match q_offer s, q_pending s with
      | Some j, None => {| q_sub := q_sub s; q_queue := q_queue s; q_cur := q_cur s; q_pending := Some j; q_offer := None; q_live := q_live s; q_sent := q_sent s |}
      | _, _ => s
      end
  | QPickup drop =>
      match q_pending s with
      | None => s
      | Some j =>
          let s1 := {| q_sub := q_sub s; q_queue := skipn drop (q_queue s); q_cur := Some j; q_pending := None; q_offer := q_offer s;
                       q_live := q_live s; q_sent := q_sent s |} in
          {| q_sub := q_sub s1; q_queue := q_queue s1; q_cur := q_cur s1; q_pending := None; q_offer := q_offer s1; q_live := q_live s1;
             q_sent := (q_sent s ++ resub s1 j)%list |}
      end
  end.

Definition qrun (h : list qevent) : qstate := fold_left qstep h q_init.

(** last request of type [t] sent on stream [j] *)
Definition last_sent (t : rtype) (j : N) (log : list (N * (rtype * list string))) : option (list string) :=
  fold_left (fun acc x => if N.eqb (fst x) j && rtype_eqb (fst (snd x)) t then Some (snd (snd x)) else acc) log None.
(** last queued request of type [t] *)
Definition last_queued (t : rtype) (q : list (rtype * list string)) : option (list string) :=
  fold_left (fun acc x => if rtype_eqb (fst x) t then Some (snd x) else acc) q None.

(** nothing in flight: the queue is empty, no stream waits to be taken, the sender is on the newest stream *)
Definition quiescent (s : qstate) : Prop :=
  q_queue s = [] /\ q_pending s = None /\ q_offer s = None /\ q_cur s = Some (q_live s).

(** ---- monotone wire: what a per-stream monitor of the names listed may demand ---- *)
(** name sets of the requests of type [t] sent on stream [j], oldest first *)
Definition sent_on (t : rtype) (j : N) (log : list (N * (rtype * list string))) : list (list string) :=
  map (fun x => snd (snd x)) (filter (fun x => N.eqb (fst x) j && rtype_eqb (fst (snd x)) t) log).
(** ... leaving out the first one on every stream but the first stream: there it is the re-subscription, built from the
    CURRENT state and therefore fresher than the older requests still queued behind it *)
Definition after_resub (j : N) (l : list (list string)) : list (list string) := if N.eqb j 0 then l else tl l.
(** queued name sets of type [t], oldest first *)
Definition qof (t : rtype) (q : list (rtype * list string)) : list (list string) :=
  map snd (filter (fun x => rtype_eqb (fst x) t) q).
(** the interest sets only grow (lookups that miss, acknowledgements; no eviction) *)
Definition grows (s : qstate) (e : qevent) : Prop :=
  match e with QChange t ws => forall cur, tget t (q_sub s) = Some cur -> incl cur ws | _ => True end.
Fixpoint grow_only (s : qstate) (h : list qevent) : Prop :=
  match h with [] => True | e :: r => grows s e /\ grow_only (qstep s e) r end.
