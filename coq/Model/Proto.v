(** Gallina mirror of the protobuf fields the decoders of core/xdsresource read ("proto AST").
    [option] = a nil-able sub-message or wrapper; one constructor per oneof alternative the
    decoders distinguish, plus "other"/"unset".  Pointers protobuf-go guarantees non-nil (the
    message inside a set oneof member, elements of repeated fields, map values) are not optional.
    Durations are the int64 nanoseconds of Duration.AsDuration(). Definitions only. *)
From Xds Require Import Model.Base.

(** a resource slot of a DiscoveryResponse: an Any *)
Inductive res_pb (A : Type) : Type :=
| RGood (a : A)       (* expected type url, bytes parse as A *)
| RWrongUrl           (* another type url *)
| RUnparsable.        (* expected type url, bytes are not a valid encoding *)
Arguments RGood {A} a.
Arguments RWrongUrl {A}.
Arguments RUnparsable {A}.

(** envoy.type.matcher.v3.StringMatcher.match_pattern *)
Inductive smatch := SMExact (s : string) | SMPrefix (s : string) | SMRegex (s : string) | SMOther | SMNone.
(** envoy.config.route.v3.HeaderMatcher.header_match_specifier *)
Inductive hspec := HSString (m : smatch) | HSOther | HSNone.
Record header_pb := { h_name : string; h_spec : hspec }.

(** RouteMatch.path_specifier *)
Inductive path_spec := PPrefix (s : string) | PPath (s : string) | POther | PNone.
Record wc_pb := { wcp_name : string; wcp_weight : option N }.
(** RouteAction.cluster_specifier *)
Inductive cluster_spec := CSCluster (s : string) | CSWeighted (l : list wc_pb) | CSOther | CSNone.
Record backoff_pb := { bo_base : option Z; bo_max : option Z }.
Record retry_pb := {
  rpp_on : string; rpp_num : option N; rpp_pertry : option Z; rpp_idle : option Z;
  rpp_headers : list header_pb; rpp_backoff : option backoff_pb }.
Record raction_pb := { ra_spec : cluster_spec; ra_timeout : option Z; ra_retry : option retry_pb }.
(** Route.action *)
Inductive action_pb := ARoute (a : raction_pb) | AOther | ANone.
Record rmatch_pb := { rm_path : path_spec; rm_headers : list header_pb }.
Record route_pb := { rt_name : string; rt_match : option rmatch_pb; rt_action : action_pb }.
Record vhost_pb := { vh_name : string; vh_routes : list route_pb }.
Record rc_pb := { rcp_name : string; rcp_vhosts : list vhost_pb }.

(** thrift_proxy.v3 *)
Inductive tmatch_spec := TMMethod (s : string) | TMService (s : string) | TMNone.
Record tmatch_pb := { tm_spec : tmatch_spec; tm_headers : list header_pb }.
Inductive taction_spec := TACluster (s : string) | TAWeighted (l : list wc_pb) | TAOther | TANone.
Record troute_pb := { tr_match : option tmatch_pb; tr_route : option taction_spec }.
Record trc_pb := { trc_name : string; trc_routes : list troute_pb }.
Record tproxy_pb := { tp_rc : option trc_pb }.

(** google.protobuf.Value as far as the TypedStruct rate-limit reading goes *)
Inductive tsval := TVNum (n : N) | TVOther.
Inductive tb_val := TBNotStruct | TBStruct (maxt : option tsval) (tpf : option tsval).

(** HttpFilter.config_type / typed_config by type url *)
Inductive hfilter_cfg :=
| HFRateLimit (bucket : option (N * option N))  (* LocalRateLimit.token_bucket: max_tokens, tokens_per_fill *)
| HFRateLimitBad
| HFTypedStruct (tb : option tb_val)             (* udpa TypedStruct: value.fields["token_bucket"] *)
| HFTypedStructBad
| HFUnknownUrl
| HFNotTyped.

(** HttpConnectionManager.route_specifier *)
Inductive route_spec := RSRds (name : string) | RSInline (rc : rc_pb) | RSOther | RSNone.
Record hcm_pb := { hcm_filters : list hfilter_cfg; hcm_spec : route_spec }.

(** listener.v3.Filter.config_type / typed_config by type url *)
Inductive nfilter :=
| NFThrift (tp : tproxy_pb) | NFThriftBad
| NFHcm (h : hcm_pb) | NFHcmBad
| NFUnknownUrl | NFNotTyped.
Record fchain_pb := { fc_port : option N; fc_filters : list nfilter }.
Record listener_pb := { l_name : string; l_chains : list fchain_pb; l_default : option fchain_pb }.

(** endpoint.v3.ClusterLoadAssignment *)
Record sockaddr_pb := { sa_addr : string; sa_port : N }.   (* port_value; 0 for named_port / unset *)
Record lbep_pb := { lbe_sock : option sockaddr_pb;         (* endpoint.address.socket_address, None if any link is absent *)
                    lbe_weight : option N }.
Record cla_pb := { cla_name : string; cla_localities : list (list lbep_pb) }.

(** cluster.v3.Cluster *)
Record outlier_pb := { od_threshold : option N; od_volume : option N }.
Record cluster_pb := {
  cl_name : string;
  cl_type : option N;          (* cluster_discovery_type = type(n); None for custom cluster_type / unset *)
  cl_lb : N;                   (* lb_policy enum value *)
  cl_eds_service : option string;  (* eds_cluster_config.service_name; None if eds_cluster_config absent *)
  cl_outlier : option outlier_pb;
  cl_load : option cla_pb }.

(** istio NameTable *)
Record nt_pb := { nt_table : list (string * list string) }.
