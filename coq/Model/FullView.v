(** The complete per-key view of the client/manager state machine: content, membership in the interest set, access
    record and clock - enough to follow EVERY operation of Model/Sys.v, eviction sweeps included (C01 + C19 together).
    Unlike [kv_step] of Model/SysCheck.v, which carries the whole interest set of the type and therefore cannot follow
    sweeps (which remove other names from it), this view only records whether the key itself is of interest.
    Definitions only. *)
From Xds Require Import Model.Base Model.Fqdn Model.Proto Model.Decode Model.DecodeCheck Model.Pick Model.Route Model.Mw Model.Sys Model.SysCheck.
Open Scope string_scope.

Record fview := {
  fv_open : bool;                 (* the client has not been stopped *)
  fv_table : table;               (* name table *)
  fv_nds : bool;                  (* the name table is subscribed *)
  fv_sub : bool;                  (* the key's type is subscribed *)
  fv_in : bool;                   (* the key is in the interest set of its type *)
  fv_val : option cval;           (* content served for the key *)
  fv_meta : option N;             (* last access recorded for the key *)
  fv_now : N                      (* clock *)
}.
Definition fv_init : fview :=
  {| fv_open := true; fv_table := []; fv_nds := false; fv_sub := false; fv_in := false; fv_val := None; fv_meta := None; fv_now := 1000000 |}.

Definition fv_set_nds (v : fview) : fview :=
  {| fv_open := fv_open v; fv_table := fv_table v; fv_nds := true; fv_sub := fv_sub v; fv_in := fv_in v; fv_val := fv_val v; fv_meta := fv_meta v; fv_now := fv_now v |}.
Definition fv_nds_if (v : fview) (t' : rtype) : fview := if rtype_eqb t' TNt then fv_set_nds v else v.

(** Watch(add) of name [n'] of the key's type *)
Definition fv_watch (n : string) (v : fview) (n' : string) : fview :=
  {| fv_open := fv_open v; fv_table := fv_table v; fv_nds := fv_nds v; fv_sub := true; fv_in := fv_in v || String.eqb n n';
     fv_val := fv_val v; fv_meta := fv_meta v; fv_now := fv_now v |}.

Definition fv_subscribe (t : rtype) (n : string) (v : fview) (t' : rtype) (n' : string) : fview :=
  let v1 := fv_nds_if v t' in if rtype_eqb t' t then fv_watch n v1 n' else v1.

(** a lookup: the access record of the looked-up name is refreshed (if it has one); a miss subscribes *)
Definition fv_lookup (t : rtype) (n : string) (v : fview) (t' : rtype) (n' : string) : fview :=
  let v1 := fv_nds_if v t' in
  if rtype_eqb t' t then
    if String.eqb n n' then
      let v2 := {| fv_open := fv_open v1; fv_table := fv_table v1; fv_nds := fv_nds v1; fv_sub := fv_sub v1; fv_in := fv_in v1; fv_val := fv_val v1;
                   fv_meta := match fv_meta v1 with Some _ => Some (fv_now v1) | None => None end; fv_now := fv_now v1 |} in
      match fv_val v2 with Some _ => v2 | None => fv_watch n v2 n' end
    else fv_watch n v1 n'      (* another name of the type: served (then already of interest) or subscribed now *)
  else v1.

Definition fv_step (c : scfg) (o : oracle) (t : rtype) (n : string) (v : fview) (x : op) : fview :=
  match x with
  | OSubscribe t' n' => fv_subscribe t n v t' n'
  | OLookup t' n' => fv_lookup t n v t' n'
  | OLookups t' ns => fold_left (fun a n' => fv_lookup t n a t' n') ns v
  | OResolve d => fv_lookup t n v TCl d       (* for keys that are not endpoint sets *)
  | OResp _ _ p =>
      if negb (fv_open v) then v
      else match p with
      | PNds rs =>
          if fv_nds v && payload_ok o p then
            match decode_nds rs with
            | Some tb => {| fv_open := true; fv_table := tb; fv_nds := true; fv_sub := fv_sub v; fv_in := fv_in v; fv_val := fv_val v; fv_meta := fv_meta v; fv_now := fv_now v |}
            | None => v
            end
          else v
      | _ =>
          if rtype_eqb (payload_type p) t && payload_ok o p && fv_sub v then
            match decode_payload o p with
            | Some (DMap res) =>
                let carried :=
                  if fv_in v then
                    if rtype_eqb t TLis && sc_nds_required c && negb (String.eqb n reserved_lds)
                    then match listener_name (sc_f c) (fv_table v) n with Some ln => aget ln res | None => None end
                    else aget n res
                  else None in
                let val' := match carried with Some cv => Some cv | None => if full_type t then None else fv_val v end in
                {| fv_open := true; fv_table := fv_table v; fv_nds := fv_nds v; fv_sub := true; fv_in := fv_in v; fv_val := val';
                   fv_meta := match val', fv_meta v with Some _, None => Some (fv_now v) | _, m => m end; fv_now := fv_now v |}
            | _ => v
            end
          else v
      end
  | ORecvErr true => {| fv_open := false; fv_table := fv_table v; fv_nds := fv_nds v; fv_sub := fv_sub v; fv_in := fv_in v; fv_val := fv_val v; fv_meta := fv_meta v; fv_now := fv_now v |}
  | OTick d => {| fv_open := fv_open v; fv_table := fv_table v; fv_nds := fv_nds v; fv_sub := fv_sub v; fv_in := fv_in v; fv_val := fv_val v; fv_meta := fv_meta v; fv_now := fv_now v + d |}
  | OBackdate t' n' d =>
      if rtype_eqb t' t && String.eqb n n'
      then {| fv_open := fv_open v; fv_table := fv_table v; fv_nds := fv_nds v; fv_sub := fv_sub v; fv_in := fv_in v; fv_val := fv_val v;
              fv_meta := match fv_meta v with Some tm => Some (tm - d) | None => None end; fv_now := fv_now v |}
      else v
  | OSweep =>
      match fv_meta v with
      | Some tm =>
          if negb (is_reserved t n) && N.ltb (tm + expire_ms) (fv_now v)
          then (* idle: evicted and withdrawn from the interest set *)
               {| fv_open := fv_open v; fv_table := fv_table v; fv_nds := fv_nds v; fv_sub := fv_sub v; fv_in := false; fv_val := None; fv_meta := None; fv_now := fv_now v |}
          else v
      | None => v
      end
  | _ => v
  end.

(** ---- the complete view evaluated on the implementation's traces (C19: histories with real sweeps) ---- *)
Fixpoint fkey_ok (c : scfg) (o : oracle) (t : rtype) (n : string) (v : fview) (tr : list (op * step_obs)) : bool :=
  match tr with
  | [] => true
  | (x, ob) :: r =>
      let v1 := fv_step c o t n v x in
      opt_eqb cval_eqb (aget n (snap_cache (so_snap ob) t)) (fv_val v1) &&
      Bool.eqb (smem n (match snap_watched (so_snap ob) t with Some l => l | None => [] end)) (fv_in v1) &&
      fkey_ok c o t n v1 r
  end.

(** for every key mentioned in the history or seen in a snapshot: content and interest follow the fold, sweeps included *)
Definition spec_full (k : sys_case) : bool :=
  negb (sk_fatal k) &&
  forallb (fun t => forallb (fun n =>
      fkey_ok (sk_cfg k) (sk_oracle k) t n (fold_left (fv_step (sk_cfg k) (sk_oracle k) t n) (sk_startup k) fv_init) (sk_trace k))
    (flat_map op_names (sk_startup k) ++ flat_map (fun m => map fst m) (sn_cache (start_snap k)) ++ trace_names (sk_trace k))%list) data_types.

Definition sys_check_full (k : sys_case) := (sys_check k, spec_full k).

(** ---- endpoint-set keys under resolver lookups, and resolution after ANY history (sweeps included) ---- *)
Definition cl_fview (c : scfg) (o : oracle) (pre : list op) (d : string) : fview := fold_left (fv_step c o TCl d) pre fv_init.

(** the complete fold for an endpoint set: as [fv_step], except that a resolution looks up the endpoint set named by the
    cluster it finds (read off the cluster's own complete fold over the history so far) *)
Fixpoint ep_ffold (c : scfg) (o : oracle) (n : string) (pre : list op) (v : fview) (h : list op) : fview :=
  match h with
  | [] => v
  | x :: r =>
      let v' := match x with
                | OResolve d =>
                    match fv_val (cl_fview c o pre d) with
                    | Some (VCl cl) => match c_inline cl with
                                       | Some _ => v
                                       | None => fv_lookup TEp n v TEp (c_epname cl)
                                       end
                    | _ => v
                    end
                | _ => fv_step c o TEp n v x
                end in
      ep_ffold c o n (pre ++ [x])%list v' r
  end.
Definition ep_fview (c : scfg) (o : oracle) (pre : list op) (n : string) : fview := ep_ffold c o n [] fv_init pre.

Definition expected_resolution_full (c : scfg) (o : oracle) (pre : list op) (d : string) : option (list (string * N)) :=
  resolve (match fv_val (cl_fview c o pre d) with Some (VCl cl) => GOk cl | _ => GErr end)
          (fun e => match fv_val (ep_fview c o pre e) with Some (VEp x) => GOk x | _ => GErr end).
