(** Model of the decoders of core/xdsresource (lds.go, rds.go, matcher.go, cds.go, eds.go, nds.go)
    over the proto AST of Model/Proto.v (C11, C12, C13).  The Go control flow is followed
    (early returns, map-keyed matchers, first-error aborts).  [None] = the decoder returned an
    error (the response is NACKed).  Definitions only.

    Oracles (library behaviour taken as given, passed in as data by the correspondence run):
    validity of a regular expression for Go's regexp, strconv.ParseFloat of the error-rate
    header (in units of 1/10000). *)
From Xds Require Import Model.Base Model.Fqdn Model.Proto.
From Coq Require Import DecimalString.
Open Scope string_scope.

Record oracle := {
  o_re_valid : string -> bool;
  o_rate : string -> option N;
  o_re_match : string -> string -> bool   (* regex, value: used by Route.v only *)
}.

Definition mk_oracle_route (re_valid : list (string * bool)) (re_match : list (string * list (string * bool))) : oracle :=
  {| o_re_valid := fun r => match aget r re_valid with Some b => b | None => false end;
     o_rate := fun _ => None;
     o_re_match := fun r v => match aget r re_match with
                              | Some l => match aget v l with Some b => b | None => false end
                              | None => false
                              end |}.

(** ---- decoded resources (xdsresource.* structs) ---- *)
Inductive matcher := MExact (s : string) | MPrefix (s : string) | MRegex (s : string).
Definition matchers := list (string * matcher).     (* Go: map[string]Matcher *)

Record retry := {
  rp_on : string; rp_num : N; rp_pertry : Z; rp_idle : Z;
  rp_cbrate : N;                         (* CBErrorRate in 1/10000 *)
  rp_backoff : option (Z * Z);           (* BaseInterval, MaxInterval *)
  rp_methods : list string }.
Definition no_retry : retry :=
  {| rp_on := ""; rp_num := 0; rp_pertry := 0%Z; rp_idle := 0%Z; rp_cbrate := 0; rp_backoff := None; rp_methods := [] |}.

Inductive rmatch :=
| HttpMatch (path prefix : string) (hs : matchers)
| ThriftMatch (method service : string) (tags : matchers).

Record route := { r_match : rmatch; r_clusters : list (string * N); r_timeout : Z; r_retry : retry }.

Record rcres := {
  rc_http : option (list (string * list route));   (* HTTPRouteConfig.VirtualHosts *)
  rc_thrift : option (list route);                 (* ThriftRouteConfig.Routes *)
  rc_maxtok : N; rc_tpf : N }.

Record nfres := { nf_thrift : bool; nf_rcname : string; nf_port : N; nf_inline : option rcres }.
Definition lisres := list nfres.                   (* ListenerResource.NetworkFilters *)

Definition epres := list (list (string * N)).      (* localities of (address "host:port", weight) *)
Record clres := {
  c_dtype : N;      (* 0 EDS, 1 LOGICAL_DNS, 2 Static *)
  c_lb : N;         (* 0 round robin, 1 ring hash *)
  c_epname : string;
  c_inline : option epres;
  c_outlier : option (N * N) }.   (* FailurePercentageThreshold, FailurePercentageRequestVolume *)

(** ---- matcher.go BuildMatchers ---- *)
Definition add_matcher (o : oracle) (ms : matchers) (h : header_pb) : matchers :=
  match h_spec h with
  | HSString (SMExact s) => if String.eqb s "" then ms else aset (h_name h) (MExact s) ms
  | HSString (SMPrefix s) => if String.eqb s "" then ms else aset (h_name h) (MPrefix s) ms
  | HSString (SMRegex s) =>
      if String.eqb s "" then ms
      else if o_re_valid o s then aset (h_name h) (MRegex s) ms else ms
  | _ => ms
  end.
Definition build_matchers (o : oracle) (hs : list header_pb) : matchers :=
  sort_map (fold_left (add_matcher o) hs []).

Definition dz (d : option Z) : Z := match d with Some z => z | None => 0%Z end.
Definition dn (d : option N) : N := match d with Some n => n | None => 0 end.

Definition wclusters (l : list wc_pb) : list (string * N) :=
  map (fun w => (wcp_name w, dn (wcp_weight w))) l.

(** ---- rds.go unmarshalRoutes: retry policy ---- *)
Definition retry_header (o : oracle) (rp : retry) (h : header_pb) : retry :=
  match h_spec h with
  | HSString (SMExact v) =>
      if String.eqb v "" then rp
      else if String.eqb (h_name h) "kitexRetryErrorRate" then
        match o_rate o v with
        | Some r => {| rp_on := rp_on rp; rp_num := rp_num rp; rp_pertry := rp_pertry rp; rp_idle := rp_idle rp;
                       rp_cbrate := r; rp_backoff := rp_backoff rp; rp_methods := rp_methods rp |}
        | None => rp
        end
      else if String.eqb (h_name h) "kitexRetryMethods" then
        {| rp_on := rp_on rp; rp_num := rp_num rp; rp_pertry := rp_pertry rp; rp_idle := rp_idle rp;
           rp_cbrate := rp_cbrate rp; rp_backoff := rp_backoff rp; rp_methods := split_on ","%char v |}
      else rp
  | _ => rp
  end.

Definition decode_retry (o : oracle) (p : retry_pb) : retry :=
  let base := {| rp_on := rpp_on p; rp_num := dn (rpp_num p); rp_pertry := dz (rpp_pertry p); rp_idle := dz (rpp_idle p);
                 rp_cbrate := 0; rp_backoff := None; rp_methods := [] |} in
  let r := fold_left (retry_header o) (rpp_headers p) base in
  {| rp_on := rp_on r; rp_num := rp_num r; rp_pertry := rp_pertry r; rp_idle := rp_idle r;
     rp_cbrate := rp_cbrate r;
     rp_backoff := match rpp_backoff p with
                   | Some b => Some (dz (bo_base b), dz (bo_max b))
                   | None => None
                   end;
     rp_methods := rp_methods r |}.

Definition decode_route (o : oracle) (r : route_pb) : option route :=
  match rt_match r with
  | None => None                                   (* no match in route *)
  | Some m =>
      let '(path, prefix) := match rm_path m with
                             | PPrefix s => (""%string, s)
                             | PPath s => (s, ""%string)
                             | _ => (""%string, ""%string)
                             end in
      let mt := HttpMatch path prefix (build_matchers o (rm_headers m)) in
      match rt_action r with
      | ANone => None                              (* no action in route *)
      | AOther => Some {| r_match := mt; r_clusters := []; r_timeout := 0%Z; r_retry := no_retry |}
      | ARoute a =>
          let cs := match ra_spec a with
                    | CSCluster s => [(s, 1)]
                    | CSWeighted l => wclusters l
                    | _ => []
                    end in
          Some {| r_match := mt; r_clusters := cs; r_timeout := dz (ra_timeout a);
                  r_retry := match ra_retry a with Some p => decode_retry o p | None => no_retry end |}
      end
  end.

(** all-or-nothing map (the first error aborts) *)
Fixpoint map_opt {A B} (f : A -> option B) (l : list A) : option (list B) :=
  match l with
  | [] => Some []
  | x :: r => match f x with
              | None => None
              | Some y => match map_opt f r with None => None | Some ys => Some (y :: ys) end
              end
  end.

Definition decode_vhost (o : oracle) (v : vhost_pb) : option (string * list route) :=
  match map_opt (decode_route o) (vh_routes v) with
  | Some rs => Some (vh_name v, rs)
  | None => None
  end.

(** rds.go unmarshalRouteConfig *)
Definition decode_rc (o : oracle) (rc : rc_pb) : option rcres :=
  match map_opt (decode_vhost o) (rcp_vhosts rc) with
  | Some vhs => Some {| rc_http := Some vhs; rc_thrift := None; rc_maxtok := 0; rc_tpf := 0 |}
  | None => None
  end.

(** a response: every resource must decode, later resources of the same name win *)
Fixpoint decode_all {A B} (f : A -> option (string * B)) (rs : list (res_pb A)) (acc : list (string * B))
  : option (list (string * B)) :=
  match rs with
  | [] => Some acc
  | RGood a :: r => match f a with
                    | Some (n, b) => decode_all f r (aset n b acc)
                    | None => None
                    end
  | _ :: _ => None
  end.

Definition decode_rds (o : oracle) (rs : list (res_pb rc_pb)) : option (list (string * rcres)) :=
  decode_all (fun rc => match decode_rc o rc with Some r => Some (rcp_name rc, r) | None => None end) rs [].

(** ---- lds.go unmarshalThriftProxy ---- *)
Definition decode_troute (o : oracle) (r : troute_pb) : option route :=
  match tr_match r with
  | None => None
  | Some m =>
      let '(method, service) := match tm_spec m with
                                | TMMethod s => (s, ""%string)
                                | TMService s => (""%string, s)
                                | TMNone => (""%string, ""%string)
                                end in
      let mt := ThriftMatch method service (build_matchers o (tm_headers m)) in
      match tr_route r with
      | None => None
      | Some a =>
          let cs := match a with
                    | TACluster s => [(s, 1)]
                    | TAWeighted l => wclusters l
                    | _ => []
                    end in
          Some {| r_match := mt; r_clusters := cs; r_timeout := 0%Z; r_retry := no_retry |}
      end
  end.

Definition decode_thrift (o : oracle) (tp : tproxy_pb) : option rcres :=
  let rs := match tp_rc tp with Some rc => trc_routes rc | None => [] end in
  match map_opt (decode_troute o) rs with
  | Some routes => Some {| rc_http := None; rc_thrift := Some routes; rc_maxtok := 0; rc_tpf := 0 |}
  | None => None
  end.

(** ---- lds.go getLocalRateLimitFromHttpConnectionManager ---- *)
Definition tsnum (v : tsval) : N := match v with TVNum n => n | TVOther => 0 end.

Fixpoint rate_limit (fs : list hfilter_cfg) : option (N * N) :=
  match fs with
  | [] => Some (0, 0)
  | HFRateLimitBad :: _ | HFTypedStructBad :: _ => None
  | HFRateLimit (Some (mx, tpf)) :: _ => Some (mx, dn tpf)
  | HFTypedStruct (Some (TBStruct (Some mx) (Some tpf))) :: _ => Some (tsnum mx, tsnum tpf)
  | _ :: r => rate_limit r
  end.

(** lds.go unmarshallHTTPConnectionManager: (route config name, inline/limits resource) *)
Definition decode_hcm (o : oracle) (h : hcm_pb) : option (string * option rcres) :=
  match rate_limit (hcm_filters h) with
  | None => None
  | Some (mx, tpf) =>
      match hcm_spec h with
      | RSRds name =>
          if String.eqb name "" then None
          else Some (name, Some {| rc_http := None; rc_thrift := None; rc_maxtok := mx; rc_tpf := tpf |})
      | RSInline rc =>
          match decode_rc o rc with
          | None => None
          | Some r => Some (rcp_name rc, Some {| rc_http := rc_http r; rc_thrift := rc_thrift r; rc_maxtok := mx; rc_tpf := tpf |})
          end
      | RSOther | RSNone => Some (""%string, None)
      end
  end.

(** lds.go unmarshalFilterChain *)
Fixpoint decode_filters (o : oracle) (port : N) (fs : list nfilter) : option (list nfres) :=
  match fs with
  | [] => Some []
  | f :: r =>
      match decode_filters o port r with
      | None => match f with _ => None end
      | Some rest =>
          match f with
          | NFThrift tp => match decode_thrift o tp with
                           | Some rc => Some ({| nf_thrift := true; nf_rcname := ""; nf_port := 0; nf_inline := Some rc |} :: rest)
                           | None => None
                           end
          | NFHcm h => match decode_hcm o h with
                       | Some (n, rc) => Some ({| nf_thrift := false; nf_rcname := n; nf_port := port; nf_inline := rc |} :: rest)
                       | None => None
                       end
          | NFThriftBad | NFHcmBad => None
          | NFUnknownUrl | NFNotTyped => Some rest
          end
      end
  end.

Definition decode_chain (o : oracle) (fc : fchain_pb) : option (list nfres) :=
  decode_filters o (dn (fc_port fc)) (fc_filters fc).

Definition decode_listener (o : oracle) (l : listener_pb) : option (string * lisres) :=
  match map_opt (decode_chain o) (l_chains l) with
  | None => None
  | Some nfss =>
      match l_default l with
      | None => Some (l_name l, concat nfss)
      | Some fc => match decode_chain o fc with
                   | Some d => Some (l_name l, concat nfss ++ d)%list
                   | None => None
                   end
      end
  end.

Definition decode_lds (o : oracle) (rs : list (res_pb listener_pb)) : option (list (string * lisres)) :=
  decode_all (decode_listener o) rs [].

(** ---- eds.go parseClusterLoadAssignment ---- *)
Definition dec_string (n : N) : string := NilEmpty.string_of_uint (N.to_uint n).
Definition has_colon (s : string) : bool := negb (no_char colon s).
Definition join_host_port (host : string) (port : N) : string :=
  if has_colon host then "[" ++ host ++ "]:" ++ dec_string port else host ++ ":" ++ dec_string port.

Definition decode_lbep (e : lbep_pb) : string * N :=
  (match lbe_sock e with
   | Some sa => join_host_port (sa_addr sa) (sa_port sa)
   | None => join_host_port "" 0
   end, dn (lbe_weight e)).

Definition parse_cla (c : option cla_pb) : option epres :=
  match c with
  | None => None
  | Some c => match cla_localities c with
              | [] => None
              | ls => Some (map (map decode_lbep) ls)
              end
  end.

(** the cache value of an endpoint resource may be a nil *EndpointsResource: [None] *)
Definition decode_eds (rs : list (res_pb cla_pb)) : option (list (string * option epres)) :=
  decode_all (fun c => Some (cla_name c, parse_cla (Some c))) rs [].

(** ---- cds.go unmarshalCluster ---- *)
Definition conv_dtype (t : option N) : N :=
  match t with
  | Some 3 => 0        (* EDS *)
  | Some 2 => 1        (* LOGICAL_DNS *)
  | Some 0 | None => 2 (* STATIC (also the getter's default when no type is set) *)
  | Some _ => 0
  end.
Definition conv_lb (l : N) : N := if N.eqb l 2 then 1 else 0.

Definition decode_cluster (c : cluster_pb) : string * clres :=
  (cl_name c,
   {| c_dtype := conv_dtype (cl_type c);
      c_lb := conv_lb (cl_lb c);
      c_epname := match cl_eds_service c with
                  | Some s => if String.eqb s "" then cl_name c else s
                  | None => cl_name c
                  end;
      c_inline := parse_cla (cl_load c);
      c_outlier := match cl_outlier c with
                   | Some od => Some (dn (od_threshold od), dn (od_volume od))
                   | None => None
                   end |}).

Definition decode_cds (rs : list (res_pb cluster_pb)) : option (list (string * clres)) :=
  decode_all (fun c => Some (decode_cluster c)) rs [].

(** ---- nds.go UnmarshalNDS: only the first resource is read ---- *)
Definition decode_nds (rs : list (res_pb nt_pb)) : option table :=
  match rs with
  | [] => None
  | RGood nt :: _ => Some (fold_left (fun acc kv => aset (fst kv) (snd kv) acc) (nt_table nt) [])
  | _ :: _ => None
  end.
