(** Model of core/manager/bootstrap.go tryExpandFQDN and core/manager/client.go
    resolveAddr / getListenerName (C14).  Definitions only. *)
From Xds Require Import Model.Base.
Open Scope string_scope.

(** strings from byte lists (used by generated case files for non-printable bytes) *)
Fixpoint bs (l : list N) : string :=
  match l with [] => EmptyString | b :: r => String (ascii_of_N b) (bs r) end.

(** strings.Contains *)
Fixpoint contains (s sub : string) : bool :=
  String.prefix sub s ||
  match s with EmptyString => false | String _ r => contains r sub end.

(** strings.Split(s, sep) for a one-byte separator: always at least one part *)
Fixpoint split_on (c : ascii) (s : string) : list string :=
  match s with
  | EmptyString => [EmptyString]
  | String a r =>
      if Ascii.eqb a c then EmptyString :: split_on c r
      else match split_on c r with
           | [] => [String a EmptyString]          (* unreachable: split_on is never empty *)
           | p :: ps => String a p :: ps
           end
  end.

(** strings.ToLower restricted to ASCII *)
Definition lower_ascii (a : ascii) : ascii :=
  let n := N_of_ascii a in
  if (65 <=? n)%N && (n <=? 90)%N then ascii_of_N (n + 32) else a.
Fixpoint lower (s : string) : string :=
  match s with EmptyString => EmptyString | String a r => String (lower_ascii a) (lower r) end.

Record fcfg := { f_ns : string; f_dom : string }.

Definition dot : ascii := "."%char.
Definition colon : ascii := ":"%char.

(** BootstrapConfig.tryExpandFQDN *)
Definition expand (c : fcfg) (host : string) : string :=
  if contains host ".svc." then host
  else match split_on dot host with
       | [_] => host ++ "." ++ f_ns c ++ ".svc." ++ f_dom c
       | [_; _] => host ++ ".svc." ++ f_dom c
       | [_; _; p3] => if String.eqb p3 "svc" then host ++ "." ++ f_dom c else host
       | _ => host ++ "." ++ f_ns c ++ ".svc." ++ f_dom c
       end.

(** the name table: host -> addresses, as an association list (Go map) *)
Definition table := list (string * list string).

(** ndsResolver.lookupHost + the [ok && len(cip) > 0] test: the first address, if any *)
Definition first_addr (t : table) (host : string) : option string :=
  match aget host t with
  | Some (ip :: _) => Some ip
  | _ => None
  end.

(** xdsClient.resolveAddr ("" when unresolved) *)
Definition resolve (c : fcfg) (t : table) (host : string) : string :=
  let h := lower host in
  let fq := expand c h in
  match first_addr t fq with
  | Some ip => ip
  | None => if String.eqb fq h then ""
            else match first_addr t h with Some ip => ip | None => "" end
  end.

(** xdsClient.getListenerName: None = error *)
Definition listener_name (c : fcfg) (t : table) (rname : string) : option string :=
  match split_on colon rname with
  | [addr] => match resolve c t addr with
              | EmptyString => None
              | ip => Some (ip ++ "_" ++ "80")
              end
  | [addr; port] => match resolve c t addr with
                    | EmptyString => None
                    | ip => Some (ip ++ "_" ++ port)
                    end
  | _ => None
  end.

Definition no_char (c : ascii) (s : string) : bool :=
  match split_on c s with [_] => true | _ => false end.

(** ---- check functions for the correspondence run ---- *)
Record fq_case := {
  fq_cfg : fcfg;
  fq_table : table;
  fq_host : string;             (* input, possibly with :port *)
  fq_obs_expand : string;       (* implementation: tryExpandFQDN(host) *)
  fq_obs_expand2 : string;      (* implementation: tryExpandFQDN(tryExpandFQDN(host)) *)
  fq_obs_resolve : string;      (* implementation: resolveAddr(host) *)
  fq_obs_lname : option string  (* implementation: getListenerName(host), None = error *)
}.

Definition fq_agree (k : fq_case) : bool :=
  String.eqb (expand (fq_cfg k) (fq_host k)) (fq_obs_expand k) &&
  String.eqb (expand (fq_cfg k) (expand (fq_cfg k) (fq_host k))) (fq_obs_expand2 k) &&
  String.eqb (resolve (fq_cfg k) (fq_table k) (fq_host k)) (fq_obs_resolve k) &&
  opt_eqb String.eqb (listener_name (fq_cfg k) (fq_table k) (fq_host k)) (fq_obs_lname k).

(** the property, stated on the observation without using [expand]/[resolve]/[listener_name]
    except where the statement itself refers to expansion *)
Definition has_suffix (s suf : string) : bool :=
  let n := String.length s in let m := String.length suf in
  (m <=? n)%nat && String.eqb (substring (n - m) m s) suf.

Definition fq_spec (k : fq_case) : bool :=
  let c := fq_cfg k in
  (* idempotent; qualified names unchanged; expansion only appends *)
  String.eqb (fq_obs_expand2 k) (fq_obs_expand k) &&
  (if contains (fq_host k) ".svc." then String.eqb (fq_obs_expand k) (fq_host k) else true) &&
  String.prefix (fq_host k) (fq_obs_expand k) &&
  (String.eqb (fq_obs_expand k) (fq_host k) ||
   has_suffix (fq_obs_expand k) ("." ++ f_dom c)) &&
  (* binding: <first address of expanded lower host, else of literal lower host>_<port|80> *)
  match split_on colon (fq_host k) with
  | [h] | [h; _] =>
      let port := match split_on colon (fq_host k) with [_; p] => p | _ => "80" end in
      let lh := lower h in
      let want :=
        match first_addr (fq_table k) (expand c lh) with
        | Some ip => Some ip
        | None => first_addr (fq_table k) lh
        end in
      match want with
      | Some (String a r) => opt_eqb String.eqb (fq_obs_lname k) (Some (String a r ++ "_" ++ port))
      | _ => match fq_obs_lname k with None => true | Some _ => false end
      end
  | _ => match fq_obs_lname k with None => true | Some _ => false end
  end.

Definition fq_check (k : fq_case) : bool * bool := (fq_agree k, fq_spec k).
