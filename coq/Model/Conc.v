(** Interleaving semantics of xdsResourceManager.Get at its lock-free gaps, against
    UpdateResource and caller cancellations (C05, C06, C07).  Each event is one atomic
    section of the code (what runs under m.mu, or a lock-free hand-over); that these
    sections are atomic is what the generated lock skeleton states (C07).  Definitions only.

    A lookup (thread) of key k goes through:
      TInit     --step-->  TDone (hit)                         unlocked cache read
                --step-->  TMissed                             (yield point 1)
      TMissed   --step-->  TDone (hit under the lock)          re-check, then register/share the notifier
                --step-->  TWaiting nid                        (yield point 2, then the select)
      TWaiting  --wake-->  TDone                               notifier closed: re-read (yield point 3)
                --timeout--> TDone                             deadline fired: leave the notifier (yield point 4);
                                                               if the notifier was closed meanwhile the value is returned *)
From Xds Require Import Model.Base.
Open Scope N_scope.

Definition key := N.

Inductive result :=
| RVal (v : N)        (* a value (content stamp) of the requested kind *)
| RErr                (* an error *)
| RNil                (* neither value nor error: never produced by the model *)
| RBad.               (* anything else (both, wrong kind, panic): never produced by the model *)

Inductive tstate :=
| TInit
| TMissed
| TWaiting (nid : N)
| TDone (r : result).

Record thread := { th_key : key; th_st : tstate; th_fired : bool }.

Record notif := { nf_id : N; nf_waiters : N }.

Record cstate := {
  c_cache : list (key * N);          (* content stamp per cached key *)
  c_nmap : list (key * notif);       (* registered notifiers *)
  c_closed : list N;                 (* ids of closed notifiers *)
  c_next : N;                        (* next notifier id *)
  c_threads : list (N * thread);     (* lookups by id *)
  c_watches : list key               (* keys for which a subscription request was issued (in order) *)
}.

Definition cinit : cstate :=
  {| c_cache := []; c_nmap := []; c_closed := []; c_next := 0; c_threads := []; c_watches := [] |}.

Fixpoint kget {V} (k : N) (m : list (N * V)) : option V :=
  match m with [] => None | (k', v) :: r => if N.eqb k k' then Some v else kget k r end.
Fixpoint kdel {V} (k : N) (m : list (N * V)) : list (N * V) :=
  match m with [] => [] | (k', v) :: r => if N.eqb k k' then kdel k r else (k', v) :: kdel k r end.
Definition kset {V} (k : N) (v : V) (m : list (N * V)) : list (N * V) := (k, v) :: kdel k m.
Definition nmem (x : N) (l : list N) : bool := existsb (N.eqb x) l.

Definition set_thread (s : cstate) (t : N) (th : thread) : cstate :=
  {| c_cache := c_cache s; c_nmap := c_nmap s; c_closed := c_closed s; c_next := c_next s;
     c_threads := kset t th (c_threads s); c_watches := c_watches s |}.

Definition finish (s : cstate) (t : N) (th : thread) (r : result) : cstate :=
  set_thread s t {| th_key := th_key th; th_st := TDone r; th_fired := th_fired th |}.

Definition read_result (s : cstate) (k : key) : result :=
  match kget k (c_cache s) with Some v => RVal v | None => RErr end.

Inductive event :=
| EInvoke (t : N) (k : key)        (* a caller starts a lookup: the unlocked cache read *)
| EInvokeBad (t : N)               (* a lookup of a kind the manager does not know: rejected at once *)
| EStep (t : N)                    (* the lookup's next own section: registration (from TMissed) *)
| EWake (t : N)                    (* a waiting lookup whose notifier is closed re-reads the cache *)
| ETimeout (t : N)                 (* a waiting lookup whose deadline fired leaves *)
| EFire (t : N)                    (* the caller's deadline fires / the caller cancels *)
| EDeliver (full : bool) (up : list (key * N)) (scope : list key).
  (* UpdateResource of one type: [up] key -> stamp; for full-state types the keys of [scope]
     (all keys of that type) that are absent from [up] are removed *)

(** one event; an event that is not enabled leaves the state unchanged *)
Definition cstep (s : cstate) (e : event) : cstate :=
  match e with
  | EInvoke t k =>
      match kget t (c_threads s) with
      | Some _ => s
      | None =>
          let th := {| th_key := k; th_st := TInit; th_fired := false |} in
          match kget k (c_cache s) with
          | Some v => finish s t th (RVal v)
          | None => set_thread s t {| th_key := k; th_st := TMissed; th_fired := false |}
          end
      end
  | EInvokeBad t =>
      match kget t (c_threads s) with
      | Some _ => s
      | None => set_thread s t {| th_key := 0; th_st := TDone RErr; th_fired := false |}
      end
  | EStep t =>
      match kget t (c_threads s) with
      | Some th =>
          match th_st th with
          | TMissed =>
              let k := th_key th in
              match kget k (c_cache s) with
              | Some v => finish s t th (RVal v)                      (* delivered since the unlocked read *)
              | None =>
                  match kget k (c_nmap s) with
                  | Some nf =>                                         (* share the registered notifier *)
                      {| c_cache := c_cache s; c_nmap := kset k {| nf_id := nf_id nf; nf_waiters := nf_waiters nf + 1 |} (c_nmap s);
                         c_closed := c_closed s; c_next := c_next s;
                         c_threads := kset t {| th_key := k; th_st := TWaiting (nf_id nf); th_fired := th_fired th |} (c_threads s);
                         c_watches := c_watches s |}
                  | None =>                                            (* new notifier, one subscription request *)
                      {| c_cache := c_cache s; c_nmap := kset k {| nf_id := c_next s; nf_waiters := 1 |} (c_nmap s);
                         c_closed := c_closed s; c_next := c_next s + 1;
                         c_threads := kset t {| th_key := k; th_st := TWaiting (c_next s); th_fired := th_fired th |} (c_threads s);
                         c_watches := (c_watches s ++ [k])%list |}
                  end
              end
          | _ => s
          end
      | None => s
      end
  | EWake t =>
      match kget t (c_threads s) with
      | Some th =>
          match th_st th with
          | TWaiting nid => if nmem nid (c_closed s) then finish s t th (read_result s (th_key th)) else s
          | _ => s
          end
      | None => s
      end
  | ETimeout t =>
      match kget t (c_threads s) with
      | Some th =>
          match th_st th with
          | TWaiting nid =>
              if th_fired th then
                let k := th_key th in
                (* leave the notifier: only the last waiter removes it, and only if it is still the registered one *)
                let nm := match kget k (c_nmap s) with
                          | Some nf => if N.eqb (nf_id nf) nid
                                       then if N.eqb (nf_waiters nf) 1 then kdel k (c_nmap s)
                                            else kset k {| nf_id := nid; nf_waiters := nf_waiters nf - 1 |} (c_nmap s)
                                       else c_nmap s
                          | None => c_nmap s
                          end in
                let s1 := {| c_cache := c_cache s; c_nmap := nm; c_closed := c_closed s; c_next := c_next s;
                             c_threads := c_threads s; c_watches := c_watches s |} in
                (* a delivery that happened while timing out is not lost *)
                finish s1 t th (if nmem nid (c_closed s) then read_result s (th_key th) else RErr)
              else s
          | _ => s
          end
      | None => s
      end
  | EFire t =>
      match kget t (c_threads s) with
      | Some th => set_thread s t {| th_key := th_key th; th_st := th_st th; th_fired := true |}
      | None => s
      end
  | EDeliver full up scope =>
      let cache1 := fold_left (fun acc kv => kset (fst kv) (snd kv) acc) up (c_cache s) in
      let cache2 := if full then fold_left (fun acc k => match kget k up with Some _ => acc | None => kdel k acc end) scope cache1 else cache1 in
      let notified := flat_map (fun kv => match kget (fst kv) (c_nmap s) with Some nf => [nf_id nf] | None => [] end) up in
      {| c_cache := cache2;
         c_nmap := fold_left (fun acc kv => kdel (fst kv) acc) up (c_nmap s);
         c_closed := (c_closed s ++ notified)%list; c_next := c_next s; c_threads := c_threads s; c_watches := c_watches s |}
  end.

Definition crun (h : list event) : cstate := fold_left cstep h cinit.

Definition thread_result (s : cstate) (t : N) : option result :=
  match kget t (c_threads s) with
  | Some th => match th_st th with TDone r => Some r | _ => None end
  | None => None
  end.

(** is an event enabled (does something)? *)
Definition enabled (s : cstate) (e : event) : bool :=
  match e with
  | EInvoke t _ | EInvokeBad t => match kget t (c_threads s) with None => true | Some _ => false end
  | EStep t => match kget t (c_threads s) with Some th => match th_st th with TMissed => true | _ => false end | None => false end
  | EWake t => match kget t (c_threads s) with
               | Some th => match th_st th with TWaiting nid => nmem nid (c_closed s) | _ => false end | None => false end
  | ETimeout t => match kget t (c_threads s) with
                  | Some th => match th_st th with TWaiting _ => th_fired th | _ => false end | None => false end
  | EFire t => match kget t (c_threads s) with Some _ => true | None => false end
  | EDeliver _ _ _ => true
  end.
