(** Base definitions shared by all models: outcomes, association-list maps, small helpers.
    This file contains definitions only (no proofs). *)
From Coq Require Export Bool String Ascii.
From Coq Require Export List NArith ZArith.
Export ListNotations.
Open Scope N_scope.

(** Go failure modes are explicit outcomes of the models. *)
Inductive outcome (A : Type) : Type :=
| Ok (a : A)
| Err
| Panic.
Arguments Ok {A} a.
Arguments Err {A}.
Arguments Panic {A}.

Definition is_ok {A} (o : outcome A) : bool := match o with Ok _ => true | _ => false end.
Definition is_err {A} (o : outcome A) : bool := match o with Err => true | _ => false end.
Definition is_panic {A} (o : outcome A) : bool := match o with Panic => true | _ => false end.

(** Association lists keyed by strings: Go's map[string]V.  [aset] keeps at most one
    binding per key provided the input had at most one. *)
Section Assoc.
  Context {V : Type}.
  Fixpoint aget (k : string) (m : list (string * V)) : option V :=
    match m with
    | [] => None
    | (k', v) :: r => if String.eqb k k' then Some v else aget k r
    end.
  Fixpoint adel (k : string) (m : list (string * V)) : list (string * V) :=
    match m with
    | [] => []
    | (k', v) :: r => if String.eqb k k' then adel k r else (k', v) :: adel k r
    end.
  Definition aset (k : string) (v : V) (m : list (string * V)) : list (string * V) :=
    (k, v) :: adel k m.
  Definition akeys (m : list (string * V)) : list string := map fst m.
  Definition amem (k : string) (m : list (string * V)) : bool :=
    match aget k m with Some _ => true | None => false end.
End Assoc.

(** canonical (key-sorted) form of a map with unique keys, so that Go maps (dumped sorted by
    key) and model maps compare structurally *)
Fixpoint insert_sorted {V} (k : string) (v : V) (m : list (string * V)) : list (string * V) :=
  match m with
  | [] => [(k, v)]
  | (k', v') :: r => if String.leb k k' then (k, v) :: m else (k', v') :: insert_sorted k v r
  end.
Definition sort_map {V} (m : list (string * V)) : list (string * V) :=
  fold_right (fun kv acc => insert_sorted (fst kv) (snd kv) acc) [] m.

Fixpoint smem (k : string) (l : list string) : bool :=
  match l with [] => false | x :: r => String.eqb k x || smem k r end.
Fixpoint sdel (k : string) (l : list string) : list string :=
  match l with [] => [] | x :: r => if String.eqb k x then sdel k r else x :: sdel k r end.
Definition sadd (k : string) (l : list string) : list string :=
  if smem k l then l else k :: l.

(** set equality of string lists (order- and multiplicity-insensitive) *)
Definition ssub (a b : list string) : bool := forallb (fun x => smem x b) a.
Definition sseteq (a b : list string) : bool := ssub a b && ssub b a.

Fixpoint list_eqb {A} (eqb : A -> A -> bool) (a b : list A) : bool :=
  match a, b with
  | [], [] => true
  | x :: a', y :: b' => eqb x y && list_eqb eqb a' b'
  | _, _ => false
  end.

Definition opt_eqb {A} (eqb : A -> A -> bool) (a b : option A) : bool :=
  match a, b with
  | None, None => true
  | Some x, Some y => eqb x y
  | _, _ => false
  end.

Fixpoint nsum (l : list N) : N := match l with [] => 0 | x :: r => x + nsum r end.
