(** Lock skeletons (C07): a small structured command language into which tools/skel transcribes
    the functions of core/manager and xdssuite (gen/SkelGen.v, regenerated from /repo on every
    run), path enumeration over it, and the executable checkers:
      - locks are acquired in strictly increasing rank (m.mu < c.mu < cipResolver.mu), never re-entered,
        and every path releases what it acquired;
      - every access to a guarded field happens with its owning lock held (write mode for writes);
      - no blocking channel operation while a lock is held, except sends to the request queue
        (capacity assumption, see D13);
      - update handlers are called only inside a write section of m.mu, and in UpdateResource before
        the first write of the cache; handler code never calls back into the manager.
    The soundness theorems (Proofs/SkelProofs.v) relate the first two checkers to an interleaving
    semantics of threads running such paths.  Definitions only. *)
From Xds Require Import Model.Base.
Open Scope string_scope.

Inductive lockid := LM | LC | LR.
Definition lock_eqb (a b : lockid) : bool :=
  match a, b with LM, LM | LC, LC | LR, LR => true | _, _ => false end.
Definition rank (l : lockid) : nat := match l with LM => 1 | LC => 2 | LR => 3 end.

Inductive cmd :=
| Acq (l : lockid) (w : bool)
| TryAcq (l : lockid) (w : bool)                  (* `for !mu.TryLock() { ... }` has been left: the lock is held, nobody was waited for *)
| Rel (l : lockid) (w : bool)
| DeferRel (l : lockid) (w : bool)
| Access (f : string) (l : lockid) (w : bool)     (* field, owning lock, write? *)
| Send (ch : string)
| Recv (ch : string)
| CloseCh (ch : string)
| Call (f : string)
| CallHandler
| Ext (name : string)
| GoStmt (f : string)
| Seq (l : list cmd)
| Branch (alts : list cmd)
| Select (alts : list cmd)
| SelDefault
| Loop (body : cmd)
| LoopExit
| Return
| Irregular (what : string).

(** linear paths *)
Inductive atom :=
| AAcq (l : lockid) (w : bool)
| ATryAcq (l : lockid) (w : bool)          (* acquisition that never waits *)
| ARel (l : lockid) (w : bool)
| ADefer (l : lockid) (w : bool)
| AAccess (f : string) (l : lockid) (w : bool)
| ABlock (ch : string) (send : bool)      (* a channel operation that may block *)
| ATry (ch : string)                      (* a channel operation inside a select that has a default case *)
| ASelBlock (chs : list (string * bool))  (* a select without default: blocks until one of these operations can proceed *)
| AHandler
| AExt (name : string)                    (* an external call that must only happen under a given lock (see locked_externals) *)
| ACall (f : string)                      (* call left after inlining ran out of fuel / unknown function *)
| ARet
| AEnter | ALeave                         (* begin / end of an inlined callee: its deferred releases run at ALeave *)
| ABad (what : string).

(** a path is a list of atoms with a flag: did it end by Return / LoopExit (1 = returned, 2 = left the loop) *)
Definition path := (list atom * nat)%type.

Definition seq_paths (ps qs : list path) : list path :=
  flat_map (fun p => match snd p with
                     | O => map (fun q => ((fst p ++ fst q)%list, snd q)) qs
                     | _ => [p] end) ps.

(** the first operation of a select alternative *)
Fixpoint first_op (fuel : nat) (a : cmd) : list (string * bool) :=
  match fuel with
  | O => []
  | S f => match a with
           | Send ch => [(ch, true)]
           | Recv ch => [(ch, false)]
           | Seq l => match l with x :: _ => first_op f x | [] => [] end
           | _ => []
           end
  end.
Definition is_default (a : cmd) : bool :=
  match a with
  | SelDefault => true
  | Seq l => match l with SelDefault :: _ => true | _ => false end
  | _ => false
  end.

(** paths of a command; calls are inlined up to depth [calls]; loops are taken zero times and
    once; [fuel] bounds the structural recursion (running out of either yields ABad, which
    fails the check) *)
Fixpoint paths (env : list (string * cmd)) (calls fuel : nat) (c : cmd) {struct fuel} : list path :=
  match fuel with
  | O => [([ABad "fuel"], 0%nat)]
  | S fuel' =>
      match c with
      | Acq l w => [([AAcq l w], 0%nat)]
      | TryAcq l w => [([ATryAcq l w], 0%nat)]
      | Rel l w => [([ARel l w], 0%nat)]
      | DeferRel l w => [([ADefer l w], 0%nat)]
      | Access f l w => [([AAccess f l w], 0%nat)]
      | Send ch => [([ABlock ch true], 0%nat)]
      | Recv ch => [([ABlock ch false], 0%nat)]
      | CloseCh _ | GoStmt _ | SelDefault => [([], 0%nat)]
      | Ext n => [([AExt n], 0%nat)]
      | CallHandler => [([AHandler], 0%nat)]
      | Call f => match aget f env, calls with
                  | Some body, S calls' =>    (* a return ends the callee only; its deferred releases run when it returns *)
                      map (fun p => ((AEnter :: filter (fun a => match a with ARet => false | _ => true end) (fst p)) ++ [ALeave], 0%nat)%list)
                          (paths env calls' fuel' body)
                  | Some _, O => [([ABad "call depth"], 0%nat)]
                  | None, _ => [([ACall f], 0%nat)]
                  end
      | Seq l => fold_right (fun x acc => seq_paths (paths env calls fuel' x) acc) [([], 0%nat)] l
      | Branch alts => flat_map (paths env calls fuel') alts
      | Select alts =>
          let has_default := existsb is_default alts in
          let chs := flat_map (first_op 4) alts in
          flat_map (fun a => map (fun p => match fst p with
                                           | ABlock ch _ :: r => ((if has_default then ATry ch :: r else ASelBlock chs :: r), snd p)
                                           | _ => p end) (paths env calls fuel' a)) alts
      | Loop body =>
          ([], 0%nat) :: map (fun p => (fst p, match snd p with 2%nat => 0%nat | n => n end)) (paths env calls fuel' body)
      | LoopExit => [([], 2%nat)]
      | Return => [([ARet], 1%nat)]
      | Irregular w => [([ABad w], 0%nat)]
      end
  end.

Definition call_depth : nat := 6.
Definition struct_fuel : nat := 60.
Definition all_paths (env : list (string * cmd)) (c : cmd) : list path := paths env call_depth struct_fuel c.

(** ---- checking one path ---- *)
Definition held := list (lockid * bool).
Definition holds (h : held) (l : lockid) : bool := existsb (fun x => lock_eqb (fst x) l) h.
Definition holds_w (h : held) (l : lockid) : bool := existsb (fun x => lock_eqb (fst x) l && snd x) h.
Fixpoint release (h : held) (l : lockid) (w : bool) : option held :=
  match h with
  | [] => None
  | (l', w') :: r => if lock_eqb l l' && Bool.eqb w w' then Some r
                     else match release r l w with Some r' => Some ((l', w') :: r') | None => None end
  end.

(** channels on which an operation may be performed while holding a lock: sends to the request
    queue (it has 1024 slots and a dedicated consumer: capacity assumption) *)
Definition serviceable (ch : string) (send : bool) : bool := send && String.eqb ch "c.reqCh".

Record verdict := { v_rank : bool; v_lockset : bool; v_block : bool; v_handler : bool; v_balanced : bool; v_regular : bool }.
Definition v_ok : verdict := {| v_rank := true; v_lockset := true; v_block := true; v_handler := true; v_balanced := true; v_regular := true |}.
Definition v_and (a b : verdict) : verdict :=
  {| v_rank := v_rank a && v_rank b; v_lockset := v_lockset a && v_lockset b; v_block := v_block a && v_block b;
     v_handler := v_handler a && v_handler b; v_balanced := v_balanced a && v_balanced b; v_regular := v_regular a && v_regular b |}.
Definition v_all (v : verdict) : bool := v_rank v && v_lockset v && v_block v && v_handler v && v_balanced v && v_regular v.

(** [assume_capacity]: sends to the request queue never block *)
(** external calls that must run under a lock: the JSON serialisation of the cache in Dump (it reads guarded
    state through aliases), and the manager's calls of the client's Watch (a subscription change must be
    atomic with the cache / notifier change that causes it: lookup miss, eviction) *)
Definition locked_externals : list (string * lockid) := [("json.MarshalIndent", LM); ("m.client.Watch", LM)].
Definition ext_locked (h : held) (n : string) : bool :=
  match aget n locked_externals with Some l => holds h l | None => true end.

(** deferred releases of one function activation run when it returns (last deferred first) *)
Definition run_defers (h : held) (defers : list (lockid * bool)) : option held :=
  fold_left (fun acc d => match acc with
                          | Some hh => release hh (fst d) (snd d)
                          | None => None end) defers (Some h).

(** end of the outermost function: nothing may stay held *)
Definition finish_path (h : held) (frames : list (list (lockid * bool))) : verdict :=
  {| v_rank := true; v_lockset := true; v_block := true; v_handler := true;
     v_balanced := match frames with
                   | [top] => match run_defers h top with Some [] => true | _ => false end
                   | _ => false end;
     v_regular := true |}.

Definition v_fail_balanced : verdict :=
  {| v_rank := true; v_lockset := true; v_block := true; v_handler := true; v_balanced := false; v_regular := true |}.

(** [frames]: deferred releases per function activation (innermost first) *)
Fixpoint check_path (assume_capacity : bool) (h : held) (frames : list (list (lockid * bool))) (p : list atom) : verdict :=
  match p with
  | [] => finish_path h frames
  | a :: r =>
      match a with
      | AAcq l w | ATryAcq l w =>
          v_and {| v_rank := negb (holds h l) && forallb (fun x => Nat.ltb (rank (fst x)) (rank l)) h;
                   v_lockset := true; v_block := true; v_handler := true; v_balanced := true; v_regular := true |}
                (check_path assume_capacity ((l, w) :: h) frames r)
      | ARel l w =>
          match release h l w with
          | Some h' => check_path assume_capacity h' frames r
          | None => v_fail_balanced
          end
      | ADefer l w =>
          match frames with
          | top :: rest => check_path assume_capacity h (((l, w) :: top) :: rest) r
          | [] => v_fail_balanced
          end
      | AEnter => check_path assume_capacity h ([] :: frames) r
      | ALeave =>
          match frames with
          | top :: rest => match run_defers h top with
                           | Some h' => check_path assume_capacity h' rest r
                           | None => v_fail_balanced end
          | [] => v_fail_balanced
          end
      | AAccess f l w =>
          v_and {| v_rank := true; v_lockset := if w then holds_w h l else holds h l; v_block := true; v_handler := true; v_balanced := true; v_regular := true |}
                (check_path assume_capacity h frames r)
      | ABlock ch send =>
          v_and {| v_rank := true; v_lockset := true;
                   v_block := match h with [] => true | _ => assume_capacity && serviceable ch send end;
                   v_handler := true; v_balanced := true; v_regular := true |}
                (check_path assume_capacity h frames r)
      | ATry _ => check_path assume_capacity h frames r
      | AExt n =>
          v_and {| v_rank := true; v_lockset := ext_locked h n; v_block := true; v_handler := true; v_balanced := true; v_regular := true |}
                (check_path assume_capacity h frames r)
      | ASelBlock chs =>
          v_and {| v_rank := true; v_lockset := true;
                   v_block := match h with [] => true | _ => assume_capacity && existsb (fun c => serviceable (fst c) (snd c)) chs end;
                   v_handler := true; v_balanced := true; v_regular := true |}
                (check_path assume_capacity h frames r)
      | AHandler =>
          v_and {| v_rank := true; v_lockset := true; v_block := true; v_handler := holds_w h LM; v_balanced := true; v_regular := true |}
                (check_path assume_capacity h frames r)
      | ACall f =>
          v_and {| v_rank := true; v_lockset := true; v_block := true; v_handler := true; v_balanced := true; v_regular := false |}
                (check_path assume_capacity h frames r)
      | ARet => finish_path h frames
      | ABad _ => {| v_rank := true; v_lockset := true; v_block := true; v_handler := true; v_balanced := true; v_regular := false |}
      end
  end.

(** ---- checking a structured command without enumerating its paths ----
    The verdict of a path depends only on the checker state reached (locks held, deferred releases per
    activation, two flags), so sets of paths are represented by the (small) set of states they reach. *)
Record cst := { cs_held : held; cs_frames : list (list (lockid * bool));
                cs_wrote_cache : bool;      (* a write of the cache has happened on this path *)
                cs_released_lm : bool }.    (* m.mu has been released on this path *)
Definition lw_eqb (a b : lockid * bool) : bool := lock_eqb (fst a) (fst b) && Bool.eqb (snd a) (snd b).
Definition cst_eqb (a b : cst) : bool :=
  list_eqb lw_eqb (cs_held a) (cs_held b) && list_eqb (list_eqb lw_eqb) (cs_frames a) (cs_frames b) &&
  Bool.eqb (cs_wrote_cache a) (cs_wrote_cache b) && Bool.eqb (cs_released_lm a) (cs_released_lm b).
Definition add_st (s : cst) (l : list cst) : list cst := if existsb (cst_eqb s) l then l else s :: l.
Definition union_st (a b : list cst) : list cst := fold_right add_st b a.

(** extra verdict components of the structured check *)
Record sverdict := { sv : verdict; sv_handler_first : bool }.   (* handlers only before the first cache write *)
Definition sv_ok : sverdict := {| sv := v_ok; sv_handler_first := true |}.
Definition sv_and (a b : sverdict) : sverdict := {| sv := v_and (sv a) (sv b); sv_handler_first := sv_handler_first a && sv_handler_first b |}.

(** one atom from one state: the new state (None: the path cannot continue) and what was checked *)
Definition atom_step (cap : bool) (s : cst) (a : atom) : option cst * sverdict :=
  let h := cs_held s in
  let keep := fun h' fr w rl => Some {| cs_held := h'; cs_frames := fr; cs_wrote_cache := w; cs_released_lm := rl |} in
  let bad_bal := {| sv := v_fail_balanced; sv_handler_first := true |} in
  let only := fun (v : verdict) => {| sv := v; sv_handler_first := true |} in
  match a with
  | AAcq l w | ATryAcq l w =>
      (keep ((l, w) :: h) (cs_frames s) (cs_wrote_cache s) (cs_released_lm s),
       only {| v_rank := negb (holds h l) && forallb (fun x => Nat.ltb (rank (fst x)) (rank l)) h;
               v_lockset := true; v_block := true; v_handler := true; v_balanced := true; v_regular := true |})
  | ARel l w =>
      match release h l w with
      | Some h' => (keep h' (cs_frames s) (cs_wrote_cache s) (cs_released_lm s || lock_eqb l LM), sv_ok)
      | None => (None, bad_bal)
      end
  | ADefer l w =>
      match cs_frames s with
      | top :: rest => (keep h (((l, w) :: top) :: rest) (cs_wrote_cache s) (cs_released_lm s), sv_ok)
      | [] => (None, bad_bal)
      end
  | AEnter => (keep h ([] :: cs_frames s) (cs_wrote_cache s) (cs_released_lm s), sv_ok)
  | ALeave =>
      match cs_frames s with
      | top :: rest => match run_defers h top with
                       | Some h' => (keep h' rest (cs_wrote_cache s) (cs_released_lm s || existsb (fun d => lock_eqb (fst d) LM) top), sv_ok)
                       | None => (None, bad_bal) end
      | [] => (None, bad_bal)
      end
  | AAccess f l w =>
      (keep h (cs_frames s) (cs_wrote_cache s || (w && String.eqb f "cache")) (cs_released_lm s),
       only {| v_rank := true; v_lockset := if w then holds_w h l else holds h l; v_block := true; v_handler := true; v_balanced := true; v_regular := true |})
  | ABlock ch send =>
      (Some s, only {| v_rank := true; v_lockset := true; v_block := match h with [] => true | _ => cap && serviceable ch send end;
                       v_handler := true; v_balanced := true; v_regular := true |})
  | ATry _ => (Some s, sv_ok)
  | AExt n => (Some s, only {| v_rank := true; v_lockset := ext_locked h n; v_block := true; v_handler := true; v_balanced := true; v_regular := true |})
  | ASelBlock chs =>
      (Some s, only {| v_rank := true; v_lockset := true;
                       v_block := match h with [] => true | _ => cap && existsb (fun c => serviceable (fst c) (snd c)) chs end;
                       v_handler := true; v_balanced := true; v_regular := true |})
  | AHandler =>
      (Some s, {| sv := {| v_rank := true; v_lockset := true; v_block := true; v_handler := holds_w h LM; v_balanced := true; v_regular := true |};
                  sv_handler_first := negb (cs_wrote_cache s) |})
  | ACall _ | ABad _ =>
      (Some s, only {| v_rank := true; v_lockset := true; v_block := true; v_handler := true; v_balanced := true; v_regular := false |})
  | ARet => (Some s, sv_ok)
  end.

(** result of running a command from a set of states: states that fall through, states that returned
    from the current function, states that left the innermost loop, and the accumulated verdict *)
Record outcome := { oc_next : list cst; oc_ret : list cst; oc_exit : list cst; oc_v : sverdict }.
Definition oc_of (n : list cst) (v : sverdict) : outcome := {| oc_next := n; oc_ret := []; oc_exit := []; oc_v := v |}.

Definition step_all (cap : bool) (a : atom) (ss : list cst) : list cst * sverdict :=
  fold_right (fun s acc => let '(o, v) := atom_step cap s a in
                           (match o with Some s' => add_st s' (fst acc) | None => fst acc end, sv_and v (snd acc)))
             ([], sv_ok) ss.

Fixpoint run_cmd (cap : bool) (env : list (string * cmd)) (calls fuel : nat) (c : cmd) (ss : list cst) {struct fuel} : outcome :=
  match fuel with
  | O => {| oc_next := []; oc_ret := []; oc_exit := []; oc_v := {| sv := {| v_rank := true; v_lockset := true; v_block := true; v_handler := true; v_balanced := true; v_regular := false |}; sv_handler_first := true |} |}
  | S fuel' =>
      let atom1 := fun a => let '(n, v) := step_all cap a ss in oc_of n v in
      match c with
      | Acq l w => atom1 (AAcq l w)
      | TryAcq l w => atom1 (ATryAcq l w)
      | Rel l w => atom1 (ARel l w)
      | DeferRel l w => atom1 (ADefer l w)
      | Access f l w => atom1 (AAccess f l w)
      | Send ch => atom1 (ABlock ch true)
      | Recv ch => atom1 (ABlock ch false)
      | CloseCh _ | GoStmt _ | SelDefault => oc_of ss sv_ok
      | Ext n => atom1 (AExt n)
      | CallHandler => atom1 AHandler
      | Irregular w => atom1 (ABad w)
      | Call f =>
          match aget f env, calls with
          | Some body, S calls' =>
              let '(s1, v1) := step_all cap AEnter ss in
              let o := run_cmd cap env calls' fuel' body s1 in
              (* falling off the end and returning both end the callee: its deferred releases run *)
              let '(s2, v2) := step_all cap ALeave (union_st (oc_next o) (oc_ret o)) in
              oc_of s2 (sv_and v1 (sv_and (oc_v o) v2))
          | Some _, O => atom1 (ABad "call depth")
          | None, _ => atom1 (ACall f)
          end
      | Seq l =>
          fold_left (fun acc x =>
                       let o := run_cmd cap env calls fuel' x (oc_next acc) in
                       {| oc_next := oc_next o; oc_ret := union_st (oc_ret o) (oc_ret acc); oc_exit := union_st (oc_exit o) (oc_exit acc);
                          oc_v := sv_and (oc_v acc) (oc_v o) |}) l (oc_of ss sv_ok)
      | Branch alts =>
          fold_left (fun acc x =>
                       let o := run_cmd cap env calls fuel' x ss in
                       {| oc_next := union_st (oc_next o) (oc_next acc); oc_ret := union_st (oc_ret o) (oc_ret acc);
                          oc_exit := union_st (oc_exit o) (oc_exit acc); oc_v := sv_and (oc_v acc) (oc_v o) |})
                    alts {| oc_next := []; oc_ret := []; oc_exit := []; oc_v := sv_ok |}
      | Select alts =>
          let has_default := existsb is_default alts in
          let chs := flat_map (first_op 4) alts in
          (* the wait itself: a select without default blocks until one of its operations can proceed *)
          let '(s0, v0) := if has_default then (ss, sv_ok) else step_all cap (ASelBlock chs) ss in
          fold_left (fun acc x =>
                       (* the alternative's own first channel operation has been accounted for by the wait *)
                       let body := match x with
                                   | Send _ | Recv _ => Seq []
                                   | Seq (Send _ :: r) | Seq (Recv _ :: r) => Seq r
                                   | _ => x end in
                       let o := run_cmd cap env calls fuel' body s0 in
                       {| oc_next := union_st (oc_next o) (oc_next acc); oc_ret := union_st (oc_ret o) (oc_ret acc);
                          oc_exit := union_st (oc_exit o) (oc_exit acc); oc_v := sv_and (oc_v acc) (oc_v o) |})
                    alts {| oc_next := []; oc_ret := []; oc_exit := []; oc_v := v0 |}
      | Loop body =>
          (* zero iterations, or one: the body must bring every state back into the entry set (lock-balanced),
             so further iterations meet no new state *)
          let o := run_cmd cap env calls fuel' body ss in
          let back := union_st (oc_next o) (oc_exit o) in
          let stable := forallb (fun s => existsb (cst_eqb s) ss) back in
          {| oc_next := union_st back ss; oc_ret := oc_ret o; oc_exit := [];
             oc_v := sv_and (oc_v o) {| sv := {| v_rank := true; v_lockset := true; v_block := true; v_handler := true;
                                                 v_balanced := stable || forallb (fun s => existsb (fun s0 => list_eqb lw_eqb (cs_held s) (cs_held s0) && list_eqb (list_eqb lw_eqb) (cs_frames s) (cs_frames s0)) ss) back;
                                                 v_regular := true |}; sv_handler_first := true |} |}
      | LoopExit => {| oc_next := []; oc_ret := []; oc_exit := ss; oc_v := sv_ok |}
      | Return => {| oc_next := []; oc_ret := ss; oc_exit := []; oc_v := sv_ok |}
      end
  end.

Definition init_cst : cst := {| cs_held := []; cs_frames := [[]]; cs_wrote_cache := false; cs_released_lm := false |}.

(** a function entered with no lock held: every atom of every path is checked in every state that can reach
    it, and every way of leaving the function leaves nothing held *)
Definition check_function (cap : bool) (env : list (string * cmd)) (f : string) : sverdict :=
  match aget f env with
  | None => {| sv := {| v_rank := true; v_lockset := true; v_block := true; v_handler := true; v_balanced := true; v_regular := false |}; sv_handler_first := true |}
  | Some body =>
      let o := run_cmd cap env call_depth struct_fuel body [init_cst] in
      let ends := union_st (oc_next o) (oc_ret o) in
      sv_and (oc_v o)
             {| sv := {| v_rank := true; v_lockset := true; v_block := true; v_handler := true;
                         v_balanced := forallb (fun s => v_balanced (finish_path (cs_held s) (cs_frames s))) ends && match oc_exit o with [] => true | _ => false end;
                         v_regular := true |}; sv_handler_first := true |}
  end.

Definition entry_points : list string :=
  ["Get"; "UpdateResource"; "RegisterXDSUpdateHandler"; "Dump"; "cleaner"; "getFromCache";
   "Watch"; "updateAndACK"; "reconnect"; "reqWhenReconnect"; "handleResponse"; "sender"; "receiver";
   "version"; "nonce"; "lookupHost"; "updateLookupTable"; "resolveAddr"].

Definition check_all (cap : bool) (env : list (string * cmd)) : sverdict :=
  fold_left (fun acc f => sv_and acc (check_function cap env f)) entry_points sv_ok.

(** UpdateResource: handlers run before the first write of the cache, and the whole function is one write
    section of m.mu (acquired first, released only by the deferred unlock at the end) *)
Definition check_policy_before_data (env : list (string * cmd)) : bool :=
  sv_handler_first (check_function true env "UpdateResource").

Definition check_update_is_one_section (env : list (string * cmd)) : bool :=
  match aget "UpdateResource" env with
  | Some (Seq (Acq LM true :: DeferRel LM true :: rest)) =>
      let o := run_cmd true env call_depth struct_fuel (Seq rest)
                       [{| cs_held := [(LM, true)]; cs_frames := [[(LM, true)]]; cs_wrote_cache := false; cs_released_lm := false |}] in
      forallb (fun s => negb (cs_released_lm s)) (union_st (oc_next o) (oc_ret o))
  | _ => false
  end.

(** handler code (the xdssuite consumers) never calls into the manager *)
Fixpoint mentions_manager (fuel : nat) (c : cmd) : bool :=
  match fuel with
  | O => true
  | S fuel' =>
      match c with
      | Ext n => String.prefix "m." n || String.prefix "manager." n || String.prefix "xdsResourceManager." n
      | Call f => smem f ["Get"; "UpdateResource"; "RegisterXDSUpdateHandler"; "Watch"]
      | Seq l | Branch l | Select l => existsb (mentions_manager fuel') l
      | Loop b => mentions_manager fuel' b
      | _ => false
      end
  end.
Definition handler_functions : list string :=
  ["suite.updateRetryPolicy"; "suite.updateCircuitPolicy"; "suite.updateAllCircuitConfigs"; "suite.listenerUpdater";
   "suite.updateHandler"; "suite.getLimiterPolicy"; "suite.setLimitOption"].
Definition check_no_reentry (env : list (string * cmd)) : bool :=
  forallb (fun f => match aget f env with Some b => negb (mentions_manager 50 b) | None => false end) handler_functions.

(** the only consumer of the request queue never waits for a lock (so a producer that waits for a queue slot while
    holding locks waits for a thread that is not waiting for any of them) *)
Definition waits_somewhere (p : list atom) : bool := existsb (fun a => match a with AAcq _ _ => true | _ => false end) p.
Definition check_consumer_never_waits (env : list (string * cmd)) : bool :=
  match aget "sender" env with
  | Some b => forallb (fun p => negb (waits_somewhere (fst p))) (all_paths env b)
  | None => false
  end.

(** ---- policy before data, path by path (independent of the abstract interpreter) ---- *)
(** on one path: every handler call precedes the first write of the cache, and m.mu is never released by an explicit
    unlock (only by the deferred unlock of the function itself, when the path ends) *)
Fixpoint handlers_before_write (wrote : bool) (p : list atom) : bool :=
  match p with
  | [] => true
  | AHandler :: r => negb wrote && handlers_before_write wrote r
  | AAccess f _ w :: r => handlers_before_write (wrote || (w && String.eqb f "cache")) r
  | _ :: r => handlers_before_write wrote r
  end.
Definition never_unlocks_lm (p : list atom) : bool :=
  forallb (fun a => match a with ARel LM _ => false | _ => true end) p.
Definition starts_write_section (p : list atom) : bool :=
  match p with AAcq LM true :: ADefer LM true :: _ => true | _ => false end.
Definition check_policy_paths (env : list (string * cmd)) : bool :=
  match aget "UpdateResource" env with
  | Some b => forallb (fun p => starts_write_section (fst p) && handlers_before_write false (fst p) && never_unlocks_lm (fst p)) (all_paths env b)
  | None => false
  end.
