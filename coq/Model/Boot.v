(** Model of core/manager/bootstrap.go newBootstrapConfig / parseMetaEnvs / nodeId and of the
    first-wins singleton of xdssuite/xds.go + xds.go Init (C20).  Definitions only.
    The JSON text of KITEX_XDS_METAS is parsed by protojson in the code; the model starts
    from the parsed form ([Unset] | [Invalid] | [Fields kvs]); the parse step is glue exercised
    by the correspondence run. *)
From Xds Require Import Model.Base Model.Fqdn.
Open Scope string_scope.

(** a metadata value: a JSON string, or anything else (number, bool, object, ... - carried opaquely, tagged by an id) *)
Inductive mval := MStr (s : string) | MOther (tag : N).

Inductive metas := Unset | Invalid | Fields (kvs : list (string * mval)).

Record env := {
  e_ns : string;        (* POD_NAMESPACE *)
  e_name : string;      (* POD_NAME *)
  e_ip : string;        (* INSTANCE_IP *)
  e_domain : string;    (* KITEX_XDS_DOMAIN *)
  e_istio : string;     (* ISTIO_VERSION *)
  e_metas : metas       (* KITEX_XDS_METAS *)
}.

Record boot := {
  b_node_id : string;
  b_meta : list (string * mval);
  b_ns : string;        (* namespace used for name expansion *)
  b_domain : string
}.

Definition str_of (v : mval) : string := match v with MStr s => s | MOther _ => "" end.

Definition comma : ascii := ","%char.

(** membership of the pod IP among the comma-separated elements *)
Definition ip_listed (ips ip : string) : bool := smem ip (split_on comma ips).

Definition fix_instance_ips (ip : string) (kvs : list (string * mval)) : list (string * mval) :=
  match aget "INSTANCE_IPS" kvs with
  | None => kvs
  | Some v =>
      let exist := str_of v in
      let new := if String.eqb exist "" then ip
                 else if ip_listed exist ip then exist
                 else exist ++ "," ++ ip in
      aset "INSTANCE_IPS" (MStr new) kvs
  end.

Definition parse_meta (m : metas) (istio ip : string) : list (string * mval) :=
  match m with
  | Unset | Invalid => [("ISTIO_VERSION", MStr istio)]
  | Fields kvs => fix_instance_ips ip kvs
  end.

Definition node_id (ip name ns dom : string) : string :=
  "sidecar~" ++ ip ++ "~" ++ name ++ "." ++ ns ++ "~" ++ ns ++ ".svc." ++ dom.

Definition new_bootstrap (e : env) : option boot :=
  if String.eqb (e_ns e) "" then None
  else if String.eqb (e_name e) "" then None
  else if String.eqb (e_ip e) "" then None
  else
    let dom := if String.eqb (e_domain e) "" then "cluster.local" else e_domain e in
    let meta := parse_meta (e_metas e) (e_istio e) (e_ip e) in
    let ns := match aget "NAMESPACE" meta with
              | Some v => if String.eqb (str_of v) "" then e_ns e else str_of v
              | None => e_ns e
              end in
    Some {| b_node_id := node_id (e_ip e) (e_name e) (e_ns e) dom; b_meta := meta; b_ns := ns; b_domain := dom |}.

(** first-wins singleton: Init / SetXDSResourceManager keep the first manager *)
Inductive init_op := SetMgr (id : N) | InitCall (env_ok : bool) (id : N).
(* InitCall: xds.Init; if no manager is installed it builds one (id) from the environment,
   failing when the environment is incomplete *)
Definition init_step (cur : option N) (o : init_op) : option N * bool (* error? *) :=
  match cur, o with
  | Some m, _ => (Some m, false)
  | None, SetMgr id => (Some id, false)
  | None, InitCall true id => (Some id, false)
  | None, InitCall false _ => (None, true)
  end.
Definition init_run (ops : list init_op) : option N :=
  fold_left (fun cur o => fst (init_step cur o)) ops None.

(** ---- check functions ---- *)
Definition mval_eqb (a b : mval) : bool :=
  match a, b with
  | MStr x, MStr y => String.eqb x y
  | MOther x, MOther y => N.eqb x y
  | _, _ => false
  end.

(** metadata maps compared as finite maps (order-insensitive; keys unique on both sides) *)
Definition meta_sub (a b : list (string * mval)) : bool :=
  forallb (fun kv => opt_eqb mval_eqb (aget (fst kv) b) (Some (snd kv))) a.
Definition meta_eqb (a b : list (string * mval)) : bool := meta_sub a b && meta_sub b a.

Definition boot_eqb (a b : boot) : bool :=
  String.eqb (b_node_id a) (b_node_id b) && meta_eqb (b_meta a) (b_meta b) &&
  String.eqb (b_ns a) (b_ns b) && String.eqb (b_domain a) (b_domain b).

Record boot_case := {
  bc_env : env;
  bc_obs : option boot;              (* implementation: newBootstrapConfig; None = error *)
  bc_req_node : option (string * list (string * mval))   (* node id + metadata on the first request, if a client was started *)
}.

Definition boot_agree (k : boot_case) : bool :=
  opt_eqb boot_eqb (new_bootstrap (bc_env k)) (bc_obs k) &&
  match bc_obs k, bc_req_node k with
  | Some b, Some (id, md) => String.eqb id (b_node_id b) && meta_eqb md (b_meta b)
  | None, Some _ => false
  | _, None => true
  end.

(** the property, stated directly on the observation *)
Definition boot_spec (k : boot_case) : bool :=
  let e := bc_env k in
  let missing := String.eqb (e_ns e) "" || String.eqb (e_name e) "" || String.eqb (e_ip e) "" in
  match bc_obs k with
  | None => missing
  | Some b =>
      negb missing &&
      let dom := if String.eqb (e_domain e) "" then "cluster.local" else e_domain e in
      String.eqb (b_node_id b)
        ("sidecar~" ++ e_ip e ++ "~" ++ e_name e ++ "." ++ e_ns e ++ "~" ++ e_ns e ++ ".svc." ++ dom) &&
      String.eqb (b_domain b) dom &&
      (* metadata *)
      match e_metas e with
      | Unset | Invalid => meta_eqb (b_meta b) [("ISTIO_VERSION", MStr (e_istio e))]
      | Fields kvs =>
          (* every user field other than INSTANCE_IPS carried unchanged, nothing invented *)
          forallb (fun kv => String.eqb (fst kv) "INSTANCE_IPS" || opt_eqb mval_eqb (aget (fst kv) (b_meta b)) (Some (snd kv))) kvs &&
          forallb (fun kv => amem (fst kv) kvs) (b_meta b) &&
          (* pod IP an element of INSTANCE_IPS whenever the key is supplied; supplied addresses kept *)
          match aget "INSTANCE_IPS" kvs with
          | None => true
          | Some v => match aget "INSTANCE_IPS" (b_meta b) with
                      | Some (MStr s) => (negb (no_char comma (e_ip e)) || ip_listed s (e_ip e)) &&
                                         (String.eqb (str_of v) "" || String.prefix (str_of v) s)
                      | _ => false
                      end
          end
      end &&
      (* NAMESPACE in the metadata overrides the pod namespace for expansion *)
      String.eqb (b_ns b)
        (match e_metas e with
         | Fields kvs => match aget "NAMESPACE" kvs with
                         | Some (MStr s) => if String.eqb s "" then e_ns e else s
                         | _ => e_ns e
                         end
         | _ => e_ns e
         end) &&
      (* requests carry that node *)
      match bc_req_node k with
      | Some (id, md) => String.eqb id (b_node_id b) && meta_eqb md (b_meta b)
      | None => true
      end
  end.

Definition boot_check (k : boot_case) : bool * bool := (boot_agree k, boot_spec k).

(** first-wins check: ops and the id of the manager that served a lookup afterwards *)
Record init_case := { ic_ops : list init_op; ic_served : option N; ic_errs : list bool }.
Definition init_errs (ops : list init_op) : list bool :=
  snd (fold_left (fun st o => let '(cur, acc) := st in
                              let '(cur', e) := init_step cur o in (cur', (acc ++ [e])%list)) ops (None, [])).
Definition first_installed (ops : list init_op) : option N :=
  match filter (fun o => match o with SetMgr _ => true | InitCall ok _ => ok end) ops with
  | SetMgr id :: _ | InitCall _ id :: _ => Some id
  | [] => None
  end.
Definition init_check (k : init_case) : bool * bool :=
  (opt_eqb N.eqb (init_run (ic_ops k)) (ic_served k) && list_eqb Bool.eqb (init_errs (ic_ops k)) (ic_errs k),
   opt_eqb N.eqb (first_installed (ic_ops k)) (ic_served k)).
