(** Executable comparison and specification functions for the client/manager state machine,
    evaluated on traces observed on the real code (C01-C04). *)
From Xds Require Import Model.Base Model.Fqdn Model.Proto Model.Decode Model.DecodeCheck Model.Pick Model.Route Model.Mw Model.Sys.
Open Scope string_scope.

(** what the harness reads back after every operation *)
Record snap := {
  sn_cache : list (list (string * cval));        (* lds rds cds eds, each sorted by name *)
  sn_watched : list (option (list string));      (* lds rds cds eds nds *)
  sn_versions : list string;
  sn_nonces : list string;
  sn_table : table;
  sn_closed : bool }.

Definition empty_snap : snap := {| sn_cache := [[]; []; []; []]; sn_watched := [None; None; None; None; None];
                                   sn_versions := [""; ""; ""; ""; ""]; sn_nonces := [""; ""; ""; ""; ""]; sn_table := []; sn_closed := false |}.

(** [so_deferred]: the sender was held inside a Send during this operation, so the requests the
    operation causes are observed later (at the next step that is not deferred, in order) *)
Record step_obs := { so_reqs : list (N * request); so_lookup : option lookup_result; so_snap : snap; so_deferred : bool }.

Record sys_case := {
  sk_cfg : scfg;
  sk_ovalid : list (string * bool);
  sk_orates : list (string * option N);
  sk_startup : list op;               (* warm-up performed inside the constructor: not observable step by step *)
  sk_start_obs : option step_obs;     (* all requests of the warm-up and the state after it *)
  sk_trace : list (op * step_obs);
  sk_nodes_ok : bool;            (* every request carried the configured node *)
  sk_fatal : bool                (* the harness could not complete the history (hang / barrier timeout) *)
}.
Definition sk_oracle (k : sys_case) : oracle := mk_oracle (sk_ovalid k) (sk_orates k) [].

(** ---- equality of values ---- *)
Definition cval_eq_dec (a b : cval) : {a = b} + {a <> b}.
Proof.
  decide equality; [apply lisres_eq_dec|apply rcres_eq_dec|apply clres_eq_dec|apply oepres_eq_dec].
Defined.
Definition cval_eqb := eqb_of cval_eq_dec.
Definition lres_eqb (a b : lookup_result) : bool :=
  match a, b with
  | LHit x, LHit y => cval_eqb x y
  | LResolved x, LResolved y => opt_eqb (list_eqb (fun a b => String.eqb (fst a) (fst b) && N.eqb (snd a) (snd b))) x y
  | LMiss, LMiss | LNil, LNil | LBoth, LBoth | LPanic, LPanic | LOther, LOther | LHang, LHang => true
  | _, _ => false
  end.

Definition type_index (t : rtype) : N := match t with TLis => 0 | TRc => 1 | TCl => 2 | TEp => 3 | TNt => 4 end.
Definition data_types : list rtype := [TLis; TRc; TCl; TEp].

Definition names_eqb (a b : list string) : bool := sseteq a b && Nat.eqb (length a) (length b).
Definition req_eqb (a b : N * request) : bool :=
  N.eqb (fst a) (fst b) && rtype_eqb (q_type (snd a)) (q_type (snd b)) && String.eqb (q_version (snd a)) (q_version (snd b)) &&
  String.eqb (q_nonce (snd a)) (q_nonce (snd b)) && names_eqb (q_names (snd a)) (q_names (snd b)) && Bool.eqb (q_error (snd a)) (q_error (snd b)).

(** requests of one step compared up to order (within a step each type occurs at most once per stream) *)
Fixpoint insert_req (q : N * request) (l : list (N * request)) : list (N * request) :=
  match l with
  | [] => [q]
  | x :: r => if (fst q * 8 + type_index (q_type (snd q)) <=? fst x * 8 + type_index (q_type (snd x)))%N then q :: l else x :: insert_req q r
  end.
Definition sort_reqs (l : list (N * request)) : list (N * request) := fold_right insert_req [] l.
(** long bursts: comparing every name list of every request is quadratic in the burst size; beyond 64
    requests per step every request is compared on (stream, type, version, nonce, error, number of names)
    and the last three in full *)
Definition req_light_eqb (a b : N * request) : bool :=
  N.eqb (fst a) (fst b) && rtype_eqb (q_type (snd a)) (q_type (snd b)) && String.eqb (q_version (snd a)) (q_version (snd b)) &&
  String.eqb (q_nonce (snd a)) (q_nonce (snd b)) && Nat.eqb (length (q_names (snd a))) (length (q_names (snd b))) &&
  Bool.eqb (q_error (snd a)) (q_error (snd b)).
Definition reqs_eqb (a b : list (N * request)) : bool :=
  if Nat.leb (length a) 64 then list_eqb req_eqb (sort_reqs a) (sort_reqs b)
  else list_eqb req_light_eqb a b && list_eqb req_eqb (firstn 3 (rev a)) (firstn 3 (rev b)).

(** model state against a snapshot, component by component *)
Definition cache_agrees (s : state) (sn : snap) : bool :=
  list_eqb (map_eqb cval_eq_dec) (map (fun t => sort_map (tget t (s_cache s))) data_types) (sn_cache sn).
Definition watched_agrees (s : state) (sn : snap) : bool :=
  list_eqb (opt_eqb names_eqb) (map (fun t => tget t (s_watched s)) all_types) (sn_watched sn).
Definition acks_agree (s : state) (sn : snap) : bool :=
  list_eqb String.eqb (map (fun t => tget t (s_version s)) all_types) (sn_versions sn) &&
  list_eqb String.eqb (map (fun t => tget t (s_nonce s)) all_types) (sn_nonces sn).
Definition table_agrees (s : state) (sn : snap) : bool :=
  map_eqb addrs_eq_dec (sort_map (s_table s)) (sn_table sn).

(** (cache, lookups, requests, interest, versions+nonces, table, closed) *)
Record agreement := { ag_cache : bool; ag_lookup : bool; ag_reqs : bool; ag_watched : bool; ag_acks : bool; ag_table : bool; ag_closed : bool }.
Definition ag_and (a b : agreement) : agreement :=
  {| ag_cache := ag_cache a && ag_cache b; ag_lookup := ag_lookup a && ag_lookup b; ag_reqs := ag_reqs a && ag_reqs b;
     ag_watched := ag_watched a && ag_watched b; ag_acks := ag_acks a && ag_acks b; ag_table := ag_table a && ag_table b;
     ag_closed := ag_closed a && ag_closed b |}.
Definition ag_true : agreement := {| ag_cache := true; ag_lookup := true; ag_reqs := true; ag_watched := true; ag_acks := true; ag_table := true; ag_closed := true |}.

Fixpoint agree_trace (c : scfg) (o : oracle) (s : state) (pend : list (N * request)) (tr : list (op * step_obs)) : agreement :=
  match tr with
  | [] => ag_true
  | (x, ob) :: r =>
      let '(s1, ot) := step c o s x in
      let due := (pend ++ o_reqs ot)%list in
      ag_and {| ag_cache := cache_agrees s1 (so_snap ob);
                ag_lookup := opt_eqb lres_eqb (o_lookup ot) (so_lookup ob);
                ag_reqs := if so_deferred ob then match so_reqs ob with [] => true | _ => false end
                           else reqs_eqb due (so_reqs ob);
                ag_watched := watched_agrees s1 (so_snap ob);
                ag_acks := acks_agree s1 (so_snap ob);
                ag_table := table_agrees s1 (so_snap ob);
                ag_closed := Bool.eqb (s_closed s1) (sn_closed (so_snap ob)) |}
             (agree_trace c o s1 (if so_deferred ob then due else []) r)
  end.

(** ---- C01: the served cache is the fold of accepted responses, key by key ---- *)
Definition payload_ok (o : oracle) (p : payload) : bool :=
  match p with
  | PLds rs => all_ok listener_ok rs
  | PRds rs => all_ok rc_ok rs
  | PCds rs | PEds rs => all_ok (fun _ => true) rs
  | PNds rs => nds_ok rs
  end.

(** per-key view of the history: (client open?, name table, interest of type t, content of (t, n)) *)
Record keyview := { kv_open : bool; kv_table : table; kv_nds_sub : bool; kv_interest : option (list string); kv_val : option cval }.
Definition kv_init : keyview := {| kv_open := true; kv_table := []; kv_nds_sub := false; kv_interest := None; kv_val := None |}.

Definition kv_watch (v : keyview) (n : string) : keyview :=
  {| kv_open := kv_open v; kv_table := kv_table v; kv_nds_sub := kv_nds_sub v;
     kv_interest := Some (sadd n (match kv_interest v with Some l => l | None => [] end)); kv_val := kv_val v |}.

(** a subscription or a lookup of the name table's type marks the name table as subscribed *)
Definition kv_nds (v : keyview) (t' : rtype) : keyview :=
  if rtype_eqb t' TNt then {| kv_open := kv_open v; kv_table := kv_table v; kv_nds_sub := true; kv_interest := kv_interest v; kv_val := kv_val v |} else v.
Definition kv_subscribe (t : rtype) (v : keyview) (t' : rtype) (n' : string) : keyview :=
  let v1 := kv_nds v t' in if rtype_eqb t' t then kv_watch v1 n' else v1.
(** a lookup subscribes only when it misses; a name that is served is already of interest *)
Definition kv_lookup (t : rtype) (n : string) (v : keyview) (t' : rtype) (n' : string) : keyview :=
  let v1 := kv_nds v t' in
  if rtype_eqb t' t
  then match kv_val v1 with
       | Some _ => if String.eqb n' n then v1 else kv_watch v1 n'
       | None => kv_watch v1 n'
       end
  else v1.

Definition kv_step (c : scfg) (o : oracle) (t : rtype) (n : string) (v : keyview) (x : op) : keyview :=
  match x with
  | OSubscribe t' n' => kv_subscribe t v t' n'
  | OLookup t' n' => kv_lookup t n v t' n'
  | OResp _ _ p =>
      if negb (kv_open v) then v
      else match p with
      | PNds rs =>
          if kv_nds_sub v && payload_ok o p then
            match decode_nds rs with
            | Some tb => {| kv_open := true; kv_table := tb; kv_nds_sub := true; kv_interest := kv_interest v; kv_val := kv_val v |}
            | None => v
            end
          else v
      | _ =>
          if rtype_eqb (payload_type p) t && payload_ok o p then
            match kv_interest v, decode_payload o p with
            | Some ws, Some (DMap res) =>
                let carried :=
                  if smem n ws then
                    if rtype_eqb t TLis && sc_nds_required c && negb (String.eqb n reserved_lds)
                    then match listener_name (sc_f c) (kv_table v) n with Some ln => aget ln res | None => None end
                    else aget n res
                  else None in
                {| kv_open := true; kv_table := kv_table v; kv_nds_sub := kv_nds_sub v; kv_interest := kv_interest v;
                   kv_val := match carried with
                             | Some cv => Some cv
                             | None => if full_type t then None else kv_val v
                             end |}
            | _, _ => v
            end
          else v
      end
  | OResolve d =>
      (* the resolver looks the cluster up; which endpoint set it then looks up depends on that cluster: the
         per-key view only records the cluster lookup (endpoint keys in such histories are checked through agreement) *)
      kv_lookup t n v TCl d
  | OLookups t' ns => fold_left (fun a n' => kv_lookup t n a t' n') ns v
  | ORecvErr true => {| kv_open := false; kv_table := kv_table v; kv_nds_sub := kv_nds_sub v; kv_interest := kv_interest v; kv_val := kv_val v |}
  | _ => v
  end.

(** names worth probing: everything mentioned in the history or seen in a snapshot *)
Definition op_names (x : op) : list string :=
  match x with OSubscribe _ n | OLookup _ n => [n] | OLookups _ ns => firstn 3 ns | _ => [] end.
Definition trace_names (tr : list (op * step_obs)) : list string :=
  flat_map (fun xo => (op_names (fst xo) ++ flat_map (fun m => map fst m) (sn_cache (so_snap (snd xo))))%list) tr.

Definition snap_cache (sn : snap) (t : rtype) : list (string * cval) :=
  nth (N.to_nat (type_index t)) (sn_cache sn) [].

(** along the trace, for the key (t, n): the snapshot's content always equals the per-key fold,
    and a lookup of it returns exactly that *)
Fixpoint key_ok (c : scfg) (o : oracle) (t : rtype) (n : string) (v : keyview) (tr : list (op * step_obs)) : bool :=
  match tr with
  | [] => true
  | (x, ob) :: r =>
      let v1 := kv_step c o t n v x in
      opt_eqb cval_eqb (aget n (snap_cache (so_snap ob) t)) (kv_val v1) &&
      match x with
      | OLookup t' n' =>
          if rtype_eqb t' t && String.eqb n' n
          then opt_eqb lres_eqb (so_lookup ob) (Some (match kv_val v with Some cv => LHit cv | None => LMiss end))
          else true
      | _ => true
      end && key_ok c o t n v1 r
  end.

Definition start_snap (k : sys_case) : snap := match sk_start_obs k with Some ob => so_snap ob | None => empty_snap end.

Definition spec_c01 (k : sys_case) : bool :=
  negb (sk_fatal k) &&
  forallb (fun t => forallb (fun n =>
      let v0 := fold_left (kv_step (sk_cfg k) (sk_oracle k) t n) (sk_startup k) kv_init in
      opt_eqb cval_eqb (aget n (snap_cache (start_snap k) t)) (kv_val v0) &&
      key_ok (sk_cfg k) (sk_oracle k) t n v0 (sk_trace k))
    (flat_map op_names (sk_startup k) ++ flat_map (fun m => map fst m) (sn_cache (start_snap k)) ++ trace_names (sk_trace k))%list) data_types.

(** ---- C02: one ACK/NACK per response of a subscribed type; a NACK changes nothing ---- *)
Definition snap_watched (sn : snap) (t : rtype) : option (list string) := nth (N.to_nat (type_index t)) (sn_watched sn) None.
Definition snap_version (sn : snap) (t : rtype) : string := nth (N.to_nat (type_index t)) (sn_versions sn) "".
Definition snap_nonce (sn : snap) (t : rtype) : string := nth (N.to_nat (type_index t)) (sn_nonces sn) "".

Definition snap_same_data (a b : snap) : bool :=
  list_eqb (map_eqb cval_eq_dec) (sn_cache a) (sn_cache b) && map_eqb addrs_eq_dec (sn_table a) (sn_table b) &&
  list_eqb String.eqb (sn_versions a) (sn_versions b) && list_eqb (opt_eqb names_eqb) (sn_watched a) (sn_watched b).

(** a reply owed for a response that was handled while the sender was held inside a Send:
    (type, echoed nonce, version it must carry, whether it is a NACK) *)
Definition owed_reply := (rtype * string * string * bool)%type.
Definition owed_eqb (a b : owed_reply) : bool :=
  let '(t1, n1, v1, e1) := a in let '(t2, n2, v2, e2) := b in
  rtype_eqb t1 t2 && String.eqb n1 n2 && String.eqb v1 v2 && Bool.eqb e1 e2.
Definition answers (w : owed_reply) (sq : N * request) : bool :=
  let '(t, n, v, e) := w in let q := snd sq in
  rtype_eqb (q_type q) t && String.eqb (q_nonce q) n && String.eqb (q_version q) v && Bool.eqb (q_error q) e.
(** every owed reply is on the wire (a response repeated with the same nonce is answered as often as it came) *)
Definition owed_ok (owed : list owed_reply) (reqs : list (N * request)) : bool :=
  forallb (fun w => Nat.leb (length (filter (owed_eqb w) owed)) (length (filter (answers w) reqs))) owed.

(** [live]: the sender still has a stream (no Send failure since the last (re)connect) *)
Fixpoint c02_ok (o : oracle) (prev : snap) (live : bool) (pend : bool) (owed : list owed_reply) (tr : list (op * step_obs)) : bool :=
  match tr with
  | [] => true
  | (x, ob) :: r =>
      let sn := so_snap ob in
      if pend || so_deferred ob then
        (* the sender is held in a Send: the replies of this region are observed at its end (the first step that is
           not deferred); a stream failure inside the region cancels what was owed on the old stream *)
        let live1 := match x with OSendErr => false | ORecvErr false => true | _ => live end in
        let owed1 :=
          match x with
          | OResp ver nonce p =>
              let t := payload_type p in
              match snap_watched prev t with
              | Some _ => if sn_closed prev then owed
                          else (owed ++ [(t, nonce, if payload_ok o p then ver else snap_version prev t, negb (payload_ok o p))])%list
              | None => owed
              end
          | OSendErr | ORecvErr _ => []
          | _ => owed
          end in
        (if so_deferred ob then true else negb live1 || owed_ok owed1 (so_reqs ob)) &&
        c02_ok o sn live1 (so_deferred ob) (if so_deferred ob then owed1 else []) r
      else
      let live' := match x with OSendErr => false | ORecvErr false => negb (sn_closed prev) || live | _ => live end in
      match x with
      | OResp ver nonce p =>
          let t := payload_type p in
          match snap_watched prev t with
          | None => match so_reqs ob with [] => true | _ => false end && snap_same_data prev sn &&
                    list_eqb String.eqb (sn_nonces prev) (sn_nonces sn)
          | Some _ =>
              if sn_closed prev then match so_reqs ob with [] => true | _ => false end && snap_same_data prev sn
              else
                let good := payload_ok o p in
                (* exactly one reply (when the sender has a stream), echoing the nonce *)
                match so_reqs ob with
                | [(_, q)] => live && rtype_eqb (q_type q) t && String.eqb (q_nonce q) nonce &&
                              String.eqb (q_version q) (if good then ver else snap_version prev t) &&
                              Bool.eqb (q_error q) (negb good) &&
                              opt_eqb names_eqb (Some (q_names q)) (snap_watched sn t)
                | [] => negb live
                | _ => false
                end &&
                String.eqb (snap_nonce sn t) nonce &&
                String.eqb (snap_version sn t) (if good then ver else snap_version prev t) &&
                (* a rejected response leaves cache, table, versions, interest exactly as they were *)
                (if good then true else snap_same_data prev sn)
          end
      | ORespUnknown => match so_reqs ob with [] => true | _ => false end && snap_same_data prev sn &&
                        list_eqb String.eqb (sn_nonces prev) (sn_nonces sn)
      | _ => true
      end && c02_ok o sn live' false [] r
  end.
Definition spec_c02 (k : sys_case) : bool := negb (sk_fatal k) && c02_ok (sk_oracle k) (start_snap k) true false [] (sk_trace k).

(** ---- C03: requests carry exactly the interest set; it changes only by subscriptions / misses ---- *)
Definition grows_by (a b : option (list string)) (n : string) : bool :=
  let la := match a with Some l => l | None => [] end in
  match b with Some lb => names_eqb lb (sadd n la) | None => false end.

(** last request of each type on the live stream, newest first per type *)
Definition last_req_of (t : rtype) (reqs : list (N * request)) : option request :=
  match filter (fun sq => rtype_eqb (q_type (snd sq)) t) (rev reqs) with
  | sq :: _ => Some (snd sq)
  | [] => None
  end.

(** quiescence: for every subscribed type, the last request sent on the live stream lists exactly the interest set *)
Definition quiescent_ok (sn : snap) (cur : N) (onlive : list (N * request)) : bool :=
  forallb (fun t => match snap_watched sn t with
                    | Some ws => match last_req_of t (filter (fun sq => N.eqb (fst sq) cur) onlive) with
                                 | Some q => names_eqb (q_names q) ws
                                 | None => false
                                 end
                    | None => true
                    end) all_types.

(** interest sets of every type as a snapshot shows them *)
Definition snap_sets (sn : snap) : list (rtype * list string) :=
  flat_map (fun t => match snap_watched sn t with Some ws => [(t, ws)] | None => [(t, [])] end) all_types.
(** every request lists an interest set its type had at some moment of the region it was queued in *)
Definition listed_existed (seen : list (rtype * list string)) (reqs : list (N * request)) : bool :=
  forallb (fun sq => existsb (fun tw => rtype_eqb (fst tw) (q_type (snd sq)) && names_eqb (q_names (snd sq)) (snd tw)) seen) reqs.

Fixpoint c03_ok_seen (seen : list (rtype * list string)) (prev : snap) (pend : bool) (tr : list (op * step_obs)) : bool :=
  match tr with
  | [] => true
  | (x, ob) :: r =>
      let sn := so_snap ob in
      if so_deferred ob then c03_ok_seen ((if pend then seen else snap_sets prev) ++ snap_sets sn)%list sn true r
      else if pend then
        (* the region ends: what was queued in it is now on the wire *)
        (match x with
         | OLookups _ _ | ORecvErr _ | OSendErr => true      (* bursts are listed in abridged form; a stream failure re-subscribes *)
         | _ => listed_existed (seen ++ snap_sets sn)%list (so_reqs ob)
         end) && c03_ok_seen [] sn false r
      else c03_ok_seen [] sn false r
  end.

Fixpoint c03_ok (prev : snap) (cur : N) (onlive : list (N * request)) (live pend : bool) (tr : list (op * step_obs)) : bool :=
  match tr with
  | [] => true
  | (x, ob) :: r =>
      let sn := so_snap ob in
      let cur1 := match x with ORecvErr false => if sn_closed prev then cur else cur + 1 | _ => cur end in
      let onlive1 := (match x with ORecvErr false => if sn_closed prev then onlive else [] | _ => onlive end ++ so_reqs ob)%list in
      let live1 := match x with OSendErr => false | ORecvErr false => true | ORecvErr true => false | _ => live end in
      (* the interest sets change only as allowed *)
      forallb (fun t =>
        let same := opt_eqb names_eqb (snap_watched prev t) (snap_watched sn t) in
        match x with
        | OSubscribe t' n => if rtype_eqb t t' then grows_by (snap_watched prev t) (snap_watched sn t) n else same
        | OLookup t' n =>
            if rtype_eqb t t'
            then match so_lookup ob with
                 | Some (LHit _) => same
                 | _ => grows_by (snap_watched prev t) (snap_watched sn t) n
                 end
            else same
        | OLookups t' ns =>
            if rtype_eqb t t'
            then (* every name of the burst that was not served is now of interest, nothing else was added *)
                 match snap_watched sn t with
                 | Some ws => ssub ns (ws ++ map fst (snap_cache sn t))%list &&
                              ssub ws (ns ++ match snap_watched prev t with Some l => l | None => [] end)%list &&
                              ssub (match snap_watched prev t with Some l => l | None => [] end) ws
                 | None => match ns with [] => true | _ => false end
                 end
            else same
        | OResolve _ | OSweep => true
        | _ => same
        end) all_types &&
      (if so_deferred ob then true
       else if pend then
         (* end of a region in which the sender was held: everything queued has now been sent *)
         (if live1 && negb (sn_closed sn) then quiescent_ok sn cur1 onlive1 else true)
       else
         (* every request lists exactly the interest set of its type *)
         match x with
         | OLookups _ _ | OSweep | OResolve _ => true     (* several requests: each lists the interest set at its own build time *)
         | _ => forallb (fun sq => opt_eqb names_eqb (Some (q_names (snd sq))) (snap_watched sn (q_type (snd sq)))) (so_reqs ob)
         end &&
         (* a change is followed by a request of that type (while the sender has a stream and the client is open) *)
         match x with
         | OSubscribe t n | OLookup t n =>
             if opt_eqb names_eqb (snap_watched prev t) (snap_watched sn t) then true
             else match so_reqs ob with
                  | [(_, q)] => rtype_eqb (q_type q) t
                  | [] => negb live1 || sn_closed sn
                  | _ => false
                  end
         | _ => true
         end &&
         (* hence at quiescence the last request of each type on the live stream is the interest set *)
         (if live1 && negb (sn_closed sn) then
            forallb (fun t => match snap_watched sn t, last_req_of t (filter (fun sq => N.eqb (fst sq) cur1) onlive1) with
                              | Some ws, Some q => names_eqb (q_names q) ws
                              | Some _, None => false
                              | None, _ => true end) all_types
          else true)) &&
      c03_ok sn cur1 onlive1 live1 (so_deferred ob) r
  end.
Definition spec_c03 (k : sys_case) : bool :=
  negb (sk_fatal k) && sk_nodes_ok k &&
  c03_ok (start_snap k) 0 (match sk_start_obs k with Some ob => so_reqs ob | None => [] end) true false (sk_trace k) &&
  c03_ok_seen [] (start_snap k) false (sk_trace k).

(** ---- C04: stream failures ---- *)
(** [cur]: id of the live stream; [issued]: nonces issued on it; [live]: sender has a stream *)
Fixpoint c04_ok (prev : snap) (cur : N) (issued : list string) (live : bool) (pend : bool) (tr : list (op * step_obs)) : bool :=
  match tr with
  | [] => true
  | (x, ob) :: r =>
      let sn := so_snap ob in
      let cache_kept := list_eqb (map_eqb cval_eq_dec) (sn_cache prev) (sn_cache sn) in
      if pend || so_deferred ob then
        (* the sender is held in a Send while streams fail: what matters is the outcome once it is released:
           every subscribed type has been re-requested on the LIVE stream (full names, accepted version, empty nonce) *)
        let cur1 := match x with ORecvErr false => if sn_closed prev then cur else cur + 1 | _ => cur end in
        (match x with ORecvErr _ | OSendErr => cache_kept | _ => true end) &&
        (if so_deferred ob then true
         else forallb (fun t => match snap_watched sn t with
                                | Some ws => existsb (fun sq => N.eqb (fst sq) cur1 && rtype_eqb (q_type (snd sq)) t && negb (q_error (snd sq)) &&
                                                                String.eqb (q_version (snd sq)) (snap_version sn t)) (so_reqs ob)
                                             || N.eqb cur1 cur
                                | None => true end) all_types) &&
        c04_ok sn cur1 (match x with ORecvErr false => [] | _ => issued end)
               (match x with OSendErr => false | ORecvErr false => true | ORecvErr true => false | _ => live end) (so_deferred ob) r
      else
      match x with
      | ORecvErr false =>
          if sn_closed prev then match so_reqs ob with [] => true | _ => false end && cache_kept && c04_ok sn cur issued live false r
          else
            (* every subscribed type re-requested on the new stream: full names, last accepted version, empty nonce *)
            forallb (fun t => match snap_watched sn t with
                              | Some ws => existsb (fun sq => N.eqb (fst sq) (cur + 1) && rtype_eqb (q_type (snd sq)) t &&
                                                              names_eqb (q_names (snd sq)) ws && String.eqb (q_version (snd sq)) (snap_version prev t) &&
                                                              String.eqb (q_nonce (snd sq)) "" && negb (q_error (snd sq))) (so_reqs ob)
                              | None => negb (existsb (fun sq => rtype_eqb (q_type (snd sq)) t) (so_reqs ob))
                              end) all_types &&
            Nat.eqb (length (so_reqs ob)) (length (filter (fun t => match snap_watched sn t with Some _ => true | None => false end) all_types)) &&
            cache_kept && snap_same_data prev sn && negb (sn_closed sn) &&
            c04_ok sn (cur + 1) [] true false r
      | ORecvErr true =>
          match so_reqs ob with [] => true | _ => false end && cache_kept && sn_closed sn && c04_ok sn cur issued false false r
      | OSendErr => match so_reqs ob with [] => true | _ => false end && cache_kept && c04_ok sn cur issued false false r
      | _ =>
          (* requests only on the live stream, with nonces issued on that very stream *)
          forallb (fun sq => N.eqb (fst sq) cur && (String.eqb (q_nonce (snd sq)) "" || smem (q_nonce (snd sq)) (match x with OResp _ nc _ => nc :: issued | _ => issued end)))
                  (so_reqs ob) &&
          (if live && negb (sn_closed prev) then true else match so_reqs ob with [] => true | _ => false end) &&
          (* a stopped client still answers lookups: cached value or error *)
          match x, so_lookup ob with
          | (OLookup _ _ | OLookups _ _), Some (LHit _ | LMiss) => true
          | (OLookup _ _ | OLookups _ _), _ => false
          | _, _ => true
          end &&
          (if sn_closed prev then cache_kept && sn_closed sn else true) &&
          c04_ok sn cur (match x with OResp _ nc _ => if sn_closed prev then issued else nc :: issued | _ => issued end) live false r
      end
  end.
Definition startup_nonces (k : sys_case) : list string :=
  flat_map (fun x => match x with OResp _ nc _ => [nc] | _ => [] end) (sk_startup k).
Definition spec_c04 (k : sys_case) : bool := negb (sk_fatal k) && c04_ok (start_snap k) 0 (startup_nonces k) true false (sk_trace k).

(** ---- C10: resolution returns exactly the endpoints the control plane lists for the cluster ---- *)
(** the cluster [d] according to the fold of the history so far *)
Definition cl_view (c : scfg) (o : oracle) (pre : list op) (d : string) : keyview :=
  fold_left (kv_step c o TCl d) pre kv_init.

(** the per-key fold for an endpoint set: as [kv_step], except that a resolution looks up the endpoint set named by
    the cluster it finds (which is read off the cluster's own fold over the history so far) *)
Fixpoint ep_fold (c : scfg) (o : oracle) (n : string) (pre : list op) (v : keyview) (h : list op) : keyview :=
  match h with
  | [] => v
  | x :: r =>
      let v' := match x with
                | OResolve d =>
                    match kv_val (cl_view c o pre d) with
                    | Some (VCl cl) => match c_inline cl with
                                       | Some _ => v
                                       | None => kv_lookup TEp n v TEp (c_epname cl)
                                       end
                    | _ => v
                    end
                | _ => kv_step c o TEp n v x
                end in
      ep_fold c o n (pre ++ [x])%list v' r
  end.
Definition ep_view (c : scfg) (o : oracle) (pre : list op) (n : string) : keyview := ep_fold c o n [] kv_init pre.

(** what a resolution of [d] must return after the history [pre]: [resolve] applied to the folds *)
Definition expected_resolution (c : scfg) (o : oracle) (pre : list op) (d : string) : option (list (string * N)) :=
  resolve (match kv_val (cl_view c o pre d) with Some (VCl cl) => GOk cl | _ => GErr end)
          (fun e => match kv_val (ep_view c o pre e) with Some (VEp x) => GOk x | _ => GErr end).

(** (a) against the implementation's own previous snapshot; (b) against the fold of the history *)
Fixpoint c10_ok (c : scfg) (o : oracle) (pre : list op) (prev : snap) (tr : list (op * step_obs)) : bool :=
  match tr with
  | [] => true
  | (x, ob) :: r =>
      match x with
      | OResolve d =>
          let cl := match aget d (snap_cache prev TCl) with Some (VCl c) => GOk c | _ => GErr end in
          let eds := fun n => match aget n (snap_cache prev TEp) with Some (VEp e) => GOk e | _ => GErr end in
          opt_eqb lres_eqb (so_lookup ob) (Some (LResolved (resolve cl eds))) &&
          opt_eqb lres_eqb (so_lookup ob) (Some (LResolved (expected_resolution c o pre d))) &&
          match so_lookup ob with Some (LResolved (Some [])) => false | _ => true end
      | _ => true
      end && c10_ok c o (pre ++ [x])%list (so_snap ob) r
  end.
Definition spec_c10 (k : sys_case) : bool :=
  negb (sk_fatal k) && c10_ok (sk_cfg k) (sk_oracle k) (sk_startup k) (start_snap k) (sk_trace k).

(** ---- C19: eviction ---- *)
(** last time each (type, name) was looked up or (failing that) first cached, from the history and
    the snapshots alone; [clock] is the logical time of the step *)
Definition acc_key (t : rtype) (n : string) : string := String (ascii_of_N (48 + type_index t)) n.

Fixpoint c19_ok (prev : snap) (clock : N) (acc : list (string * N)) (tr : list (op * step_obs)) : bool :=
  match tr with
  | [] => true
  | (x, ob) :: r =>
      let sn := so_snap ob in
      let clock1 := match x with OTick d => clock + d | _ => clock end in
      (* entries that appear in the cache get a first-seen time unless known *)
      let seen := fold_left (fun a t => fold_left (fun a2 kv => if amem (acc_key t (fst kv)) a2 then a2 else aset (acc_key t (fst kv)) clock1 a2)
                                                  (snap_cache sn t) a) data_types acc in
      let acc1 := match x with
                  | OLookup t n => if amem n (snap_cache prev t) || amem (acc_key t n) seen then aset (acc_key t n) clock1 seen else seen
                  | OBackdate t n d => match aget (acc_key t n) seen with Some tm => aset (acc_key t n) (tm - d) seen | None => seen end
                  | _ => seen
                  end in
      match x with
      | OSweep =>
          forallb (fun t =>
            forallb (fun kv =>
              let n := fst kv in
              match aget (acc_key t n) acc with
              | Some tm =>
                  if negb (is_reserved t n) && N.ltb (tm + expire_ms) clock
                  then (* idle: removed, withdrawn from the interest set, and a request without it was sent *)
                       negb (amem n (snap_cache sn t)) &&
                       negb (smem n (match snap_watched sn t with Some l => l | None => [] end)) &&
                       existsb (fun sq => rtype_eqb (q_type (snd sq)) t && negb (smem n (q_names (snd sq)))) (so_reqs ob)
                  else (* used within the period, or reserved: stays *)
                       amem n (snap_cache sn t) && smem n (match snap_watched sn t with Some l => l | None => [] end)
              | None => true
              end) (snap_cache prev t) &&
            (* nothing appears, and the last request of the type lists exactly the remaining interest *)
            ssub (map fst (snap_cache sn t)) (map fst (snap_cache prev t)) &&
            match filter (fun sq => rtype_eqb (q_type (snd sq)) t) (so_reqs ob) with
            | [] => opt_eqb names_eqb (snap_watched prev t) (snap_watched sn t)
            | qs => opt_eqb names_eqb (Some (q_names (snd (last qs (0, mk_request init_state t false))))) (snap_watched sn t)
            end) data_types
      | OTick _ | OBackdate _ _ _ => snap_same_data prev sn
      | _ => true
      end && c19_ok sn clock1 acc1 r
  end.
Definition spec_c19 (k : sys_case) : bool := negb (sk_fatal k) && c19_ok (start_snap k) 1000000 [] (sk_trace k).

(** result: the agreement components and the specs *)
Definition sys_check (k : sys_case) : agreement * (bool * bool * bool * bool * bool * bool) :=
  (if sk_fatal k then {| ag_cache := false; ag_lookup := false; ag_reqs := false; ag_watched := false; ag_acks := false; ag_table := false; ag_closed := false |}
   else
     let '(s0, outs) := run (sk_cfg k) (sk_oracle k) init_state (sk_startup k) in
     ag_and (match sk_start_obs k with
             | None => ag_true
             | Some ob => {| ag_cache := cache_agrees s0 (so_snap ob); ag_lookup := true;
                             ag_reqs := reqs_eqb (flat_map o_reqs outs) (so_reqs ob);
                             ag_watched := watched_agrees s0 (so_snap ob); ag_acks := acks_agree s0 (so_snap ob);
                             ag_table := table_agrees s0 (so_snap ob); ag_closed := Bool.eqb (s_closed s0) (sn_closed (so_snap ob)) |}
             end)
            (agree_trace (sk_cfg k) (sk_oracle k) s0 [] (sk_trace k)),
   (spec_c01 k, spec_c02 k, spec_c03 k, spec_c04 k, spec_c10 k, spec_c19 k)).
