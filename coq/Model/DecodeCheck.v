(** Executable specifications and comparison functions for the decoder model (C11, C12, C13),
    evaluated by the correspondence run on the implementation's observations. *)
From Xds Require Import Model.Base Model.Fqdn Model.Proto Model.Decode.
Open Scope string_scope.


(** ---- decidable equality of decoded resources (computable: closed with Defined) ---- *)
Definition pair_eq_dec {A B} (da : forall a b : A, {a = b} + {a <> b}) (db : forall a b : B, {a = b} + {a <> b})
  (x y : A * B) : {x = y} + {x <> y}.
Proof. decide equality. Defined.
Definition option_eq_dec {A} (da : forall a b : A, {a = b} + {a <> b}) (x y : option A) : {x = y} + {x <> y}.
Proof. decide equality. Defined.

Definition matcher_eq_dec (a b : matcher) : {a = b} + {a <> b}.
Proof. decide equality; apply string_dec. Defined.
Definition matchers_eq_dec : forall a b : matchers, {a = b} + {a <> b} :=
  list_eq_dec (pair_eq_dec string_dec matcher_eq_dec).
Definition retry_eq_dec (a b : retry) : {a = b} + {a <> b}.
Proof.
  decide equality; try apply string_dec; try apply N.eq_dec; try apply Z.eq_dec.
  - apply (list_eq_dec string_dec).
  - apply (option_eq_dec (pair_eq_dec Z.eq_dec Z.eq_dec)).
Defined.
Definition rmatch_eq_dec (a b : rmatch) : {a = b} + {a <> b}.
Proof. decide equality; try apply string_dec; apply matchers_eq_dec. Defined.
Definition clusters_eq_dec : forall a b : list (string * N), {a = b} + {a <> b} :=
  list_eq_dec (pair_eq_dec string_dec N.eq_dec).
Definition route_eq_dec (a b : route) : {a = b} + {a <> b}.
Proof.
  decide equality; try apply Z.eq_dec; try apply retry_eq_dec; try apply rmatch_eq_dec; apply clusters_eq_dec.
Defined.
Definition routes_eq_dec : forall a b : list route, {a = b} + {a <> b} := list_eq_dec route_eq_dec.
Definition rcres_eq_dec (a b : rcres) : {a = b} + {a <> b}.
Proof.
  decide equality; try apply N.eq_dec.
  - apply (option_eq_dec routes_eq_dec).
  - apply (option_eq_dec (list_eq_dec (pair_eq_dec string_dec routes_eq_dec))).
Defined.
Definition nfres_eq_dec (a b : nfres) : {a = b} + {a <> b}.
Proof.
  decide equality; try apply N.eq_dec; try apply string_dec; try apply Bool.bool_dec.
  apply (option_eq_dec rcres_eq_dec).
Defined.
Definition lisres_eq_dec : forall a b : lisres, {a = b} + {a <> b} := list_eq_dec nfres_eq_dec.
Definition epres_eq_dec : forall a b : epres, {a = b} + {a <> b} :=
  list_eq_dec (list_eq_dec (pair_eq_dec string_dec N.eq_dec)).
Definition oepres_eq_dec : forall a b : option epres, {a = b} + {a <> b} := option_eq_dec epres_eq_dec.
Definition clres_eq_dec (a b : clres) : {a = b} + {a <> b}.
Proof.
  decide equality; try apply N.eq_dec; try apply string_dec.
  - apply (option_eq_dec (pair_eq_dec N.eq_dec N.eq_dec)).
  - apply oepres_eq_dec.
Defined.
Definition addrs_eq_dec : forall a b : list string, {a = b} + {a <> b} := list_eq_dec string_dec.

Definition eqb_of {A} (dec : forall a b : A, {a = b} + {a <> b}) (a b : A) : bool :=
  if dec a b then true else false.
Definition map_eqb {V} (dec : forall a b : V, {a = b} + {a <> b}) (a b : list (string * V)) : bool :=
  eqb_of (list_eq_dec (pair_eq_dec string_dec dec)) a b.

(** oracles from tables *)
Definition mk_oracle (re_valid : list (string * bool)) (rates : list (string * option N))
                     (re_match : list (string * list (string * bool))) : oracle :=
  {| o_re_valid := fun r => match aget r re_valid with Some b => b | None => false end;
     o_rate := fun s => match aget s rates with Some r => r | None => None end;
     o_re_match := fun r v => match aget r re_match with
                              | Some l => match aget v l with Some b => b | None => false end
                              | None => false
                              end |}.

(** generic response case *)
Record resp_case (A R : Type) := {
  rc_ovalid : list (string * bool);
  rc_orates : list (string * option N);
  rc_resources : list (res_pb A);
  rc_err : bool;                           (* implementation returned an error *)
  rc_panic : bool;                         (* implementation panicked *)
  rc_decoded : option (list (string * R))  (* implementation's result map, sorted by key *)
}.
Arguments rc_ovalid {A R}. Arguments rc_orates {A R}. Arguments rc_resources {A R}.
Arguments rc_err {A R}. Arguments rc_panic {A R}. Arguments rc_decoded {A R}.

Definition case_oracle {A R} (k : resp_case A R) : oracle := mk_oracle (rc_ovalid k) (rc_orates k) [].


(** ---- C13: error iff some resource is unacceptable, never a panic ---- *)
Definition route_ok (r : route_pb) : bool :=
  match rt_match r, rt_action r with
  | Some _, ANone => false
  | Some _, _ => true
  | None, _ => false
  end.
Definition rc_ok (rc : rc_pb) : bool := forallb (fun v => forallb route_ok (vh_routes v)) (rcp_vhosts rc).
Definition troute_ok (r : troute_pb) : bool :=
  match tr_match r, tr_route r with Some _, Some _ => true | _, _ => false end.
(** a rate-limit / TypedStruct payload that does not parse is an error only if the scan
    reaches it (it stops at the first filter that yields a bucket) *)
Fixpoint hfilters_ok (fs : list hfilter_cfg) : bool :=
  match fs with
  | [] => true
  | HFRateLimitBad :: _ | HFTypedStructBad :: _ => false
  | HFRateLimit (Some _) :: _ => true
  | HFTypedStruct (Some (TBStruct (Some _) (Some _))) :: _ => true
  | _ :: r => hfilters_ok r
  end.
Definition hcm_ok (h : hcm_pb) : bool :=
  hfilters_ok (hcm_filters h) &&
  match hcm_spec h with
  | RSRds n => negb (String.eqb n "")
  | RSInline rc => rc_ok rc
  | _ => true
  end.
Definition nfilter_ok (f : nfilter) : bool :=
  match f with
  | NFThriftBad | NFHcmBad => false
  | NFThrift tp => match tp_rc tp with Some rc => forallb troute_ok (trc_routes rc) | None => true end
  | NFHcm h => hcm_ok h
  | _ => true
  end.
Definition chain_ok (fc : fchain_pb) : bool := forallb nfilter_ok (fc_filters fc).
Definition listener_ok (l : listener_pb) : bool :=
  forallb chain_ok (l_chains l) && match l_default l with Some fc => chain_ok fc | None => true end.

Definition all_ok {A} (ok : A -> bool) (rs : list (res_pb A)) : bool :=
  forallb (fun r => match r with RGood a => ok a | _ => false end) rs.
Definition nds_ok (rs : list (res_pb nt_pb)) : bool :=
  match rs with RGood _ :: _ => true | _ => false end.

(** C13 executable statement: no panic; error <-> not acceptable *)
Definition total_spec {A R} (acceptable : bool) (k : resp_case A R) : bool :=
  negb (rc_panic k) && Bool.eqb (rc_err k) (negb acceptable).

(** ---- C11: field preservation, stated per field on the source message ---- *)
Fixpoint forall2b {A B} (f : A -> B -> bool) (a : list A) (b : list B) : bool :=
  match a, b with
  | [], [] => true
  | x :: a', y :: b' => f x y && forall2b f a' b'
  | _, _ => false
  end.

Definition header_supported (o : oracle) (h : header_pb) : option matcher :=
  match h_spec h with
  | HSString (SMExact s) => if String.eqb s "" then None else Some (MExact s)
  | HSString (SMPrefix s) => if String.eqb s "" then None else Some (MPrefix s)
  | HSString (SMRegex s) => if String.eqb s "" then None else if o_re_valid o s then Some (MRegex s) else None
  | _ => None
  end.
(** the condition in force for a header name: the last supported one the source lists for it
    (the decoded form is a Go map keyed by header name, known finding D12) *)
Definition last_supported (o : oracle) (hs : list header_pb) (name : string) : option matcher :=
  fold_left (fun acc h => if String.eqb (h_name h) name
                          then match header_supported o h with Some m => Some m | None => acc end
                          else acc) hs None.
Definition headers_preserved (o : oracle) (hs : list header_pb) (ms : matchers) : bool :=
  forallb (fun h => match header_supported o h with
                    | Some _ => opt_eqb (eqb_of matcher_eq_dec) (aget (h_name h) ms) (last_supported o hs (h_name h))
                    | None => true
                    end) hs &&
  forallb (fun kv => opt_eqb (eqb_of matcher_eq_dec) (last_supported o hs (fst kv)) (Some (snd kv))) ms.

(** every supported header condition of the source is in force (false when two conditions
    on one header name collapse: D12) *)
Definition every_header_in_force (o : oracle) (hs : list header_pb) : bool :=
  forallb (fun h => match header_supported o h with
                    | Some m => opt_eqb (eqb_of matcher_eq_dec) (last_supported o hs (h_name h)) (Some m)
                    | None => true
                    end) hs.

Definition clusters_preserved (cs : cluster_spec) (d : list (string * N)) : bool :=
  match cs with
  | CSCluster s => eqb_of clusters_eq_dec d [(s, 1)]
  | CSWeighted l => forall2b (fun w c => String.eqb (wcp_name w) (fst c) && N.eqb (dn (wcp_weight w)) (snd c)) l d
  | _ => match d with [] => true | _ => false end
  end.

Definition retry_preserved (o : oracle) (p : option retry_pb) (r : retry) : bool :=
  match p with
  | None => eqb_of retry_eq_dec r no_retry
  | Some p =>
      String.eqb (rp_on r) (rpp_on p) && N.eqb (rp_num r) (dn (rpp_num p)) &&
      Z.eqb (rp_pertry r) (dz (rpp_pertry p)) && Z.eqb (rp_idle r) (dz (rpp_idle p)) &&
      (* back-off base and maximum as sent *)
      match rpp_backoff p, rp_backoff r with
      | None, None => true
      | Some b, Some (base, mx) => Z.eqb base (dz (bo_base b)) && Z.eqb mx (dz (bo_max b))
      | _, _ => false
      end &&
      (* retriable-header extensions: the last parsable error rate / the last method list *)
      N.eqb (rp_cbrate r)
            (fold_left (fun acc h => match h_spec h with
                                     | HSString (SMExact v) =>
                                         if negb (String.eqb v "") && String.eqb (h_name h) "kitexRetryErrorRate"
                                         then match o_rate o v with Some x => x | None => acc end else acc
                                     | _ => acc end) (rpp_headers p) 0) &&
      eqb_of (list_eq_dec string_dec) (rp_methods r)
            (fold_left (fun acc h => match h_spec h with
                                     | HSString (SMExact v) =>
                                         if negb (String.eqb v "") && String.eqb (h_name h) "kitexRetryMethods"
                                         then split_on ","%char v else acc
                                     | _ => acc end) (rpp_headers p) [])
  end.

Definition route_preserved (o : oracle) (s : route_pb) (d : route) : bool :=
  match rt_match s, r_match d with
  | Some m, HttpMatch path prefix hs =>
      match rm_path m with
      | PPrefix p => String.eqb prefix p && String.eqb path ""
      | PPath p => String.eqb path p && String.eqb prefix ""
      | _ => String.eqb path "" && String.eqb prefix ""
      end && headers_preserved o (rm_headers m) hs &&
      match rt_action s with
      | ARoute a => clusters_preserved (ra_spec a) (r_clusters d) && Z.eqb (r_timeout d) (dz (ra_timeout a)) &&
                    retry_preserved o (ra_retry a) (r_retry d)
      | AOther => match r_clusters d with [] => true | _ => false end && Z.eqb (r_timeout d) 0 &&
                  eqb_of retry_eq_dec (r_retry d) no_retry
      | ANone => false
      end
  | _, _ => false
  end.

Definition rc_preserved (o : oracle) (s : rc_pb) (d : rcres) : bool :=
  match rc_http d, rc_thrift d with
  | Some vhs, None =>
      forall2b (fun v dv => String.eqb (vh_name v) (fst dv) && forall2b (route_preserved o) (vh_routes v) (snd dv))
               (rcp_vhosts s) vhs
  | _, _ => false
  end.

Definition troute_preserved (o : oracle) (s : troute_pb) (d : route) : bool :=
  match tr_match s, tr_route s, r_match d with
  | Some m, Some a, ThriftMatch method service tags =>
      match tm_spec m with
      | TMMethod x => String.eqb method x && String.eqb service ""
      | TMService x => String.eqb service x && String.eqb method ""
      | TMNone => String.eqb method "" && String.eqb service ""
      end && headers_preserved o (tm_headers m) tags &&
      match a with
      | TACluster c => eqb_of clusters_eq_dec (r_clusters d) [(c, 1)]
      | TAWeighted l => forall2b (fun w c => String.eqb (wcp_name w) (fst c) && N.eqb (dn (wcp_weight w)) (snd c)) l (r_clusters d)
      | _ => match r_clusters d with [] => true | _ => false end
      end
  | _, _, _ => false
  end.

(** the local rate-limit bucket wherever the filter sits: the first HTTP filter that carries
    a bucket (LocalRateLimit with a token_bucket, or a TypedStruct with both numbers) *)
Definition bucket_of (f : hfilter_cfg) : option (N * N) :=
  match f with
  | HFRateLimit (Some (mx, tpf)) => Some (mx, dn tpf)
  | HFTypedStruct (Some (TBStruct (Some mx) (Some tpf))) => Some (tsnum mx, tsnum tpf)
  | _ => None
  end.
Fixpoint first_bucket (fs : list hfilter_cfg) : N * N :=
  match fs with
  | [] => (0, 0)
  | f :: r => match bucket_of f with Some b => b | None => first_bucket r end
  end.

(** decoded network filters of one chain against its source filters *)
Fixpoint chain_preserved (o : oracle) (port : N) (fs : list nfilter) (d : list nfres) : bool :=
  match fs with
  | [] => match d with [] => true | _ => false end
  | NFThrift tp :: r =>
      match d with
      | x :: d' =>
          nf_thrift x && String.eqb (nf_rcname x) "" &&
          match nf_inline x with
          | Some rc => match rc_http rc, rc_thrift rc with
                       | None, Some routes =>
                           forall2b (troute_preserved o)
                                    (match tp_rc tp with Some c => trc_routes c | None => [] end) routes
                       | _, _ => false
                       end
          | None => false
          end && chain_preserved o port r d'
      | [] => false
      end
  | NFHcm h :: r =>
      match d with
      | x :: d' =>
          negb (nf_thrift x) && N.eqb (nf_port x) port &&
          match hcm_spec h, nf_inline x with
          | RSRds n, Some rc =>
              String.eqb (nf_rcname x) n && eqb_of (pair_eq_dec N.eq_dec N.eq_dec) (rc_maxtok rc, rc_tpf rc) (first_bucket (hcm_filters h)) &&
              match rc_http rc, rc_thrift rc with None, None => true | _, _ => false end
          | RSInline src, Some rc =>
              String.eqb (nf_rcname x) (rcp_name src) &&
              eqb_of (pair_eq_dec N.eq_dec N.eq_dec) (rc_maxtok rc, rc_tpf rc) (first_bucket (hcm_filters h)) &&
              rc_preserved o src rc
          | (RSOther | RSNone), None => String.eqb (nf_rcname x) ""
          | _, _ => false
          end && chain_preserved o port r d'
      | [] => false
      end
  | (NFUnknownUrl | NFNotTyped) :: r => chain_preserved o port r d
  | (NFThriftBad | NFHcmBad) :: _ => false
  end.

(** number of decoded filters a chain contributes *)
Definition chain_count (fc : fchain_pb) : nat :=
  length (filter (fun f => match f with NFThrift _ | NFHcm _ => true | _ => false end) (fc_filters fc)).

Fixpoint chains_preserved (o : oracle) (cs : list fchain_pb) (d : list nfres) : bool :=
  match cs with
  | [] => match d with [] => true | _ => false end
  | fc :: r => chain_preserved o (dn (fc_port fc)) (fc_filters fc) (firstn (chain_count fc) d) &&
               chains_preserved o r (skipn (chain_count fc) d)
  end.

Definition listener_preserved (o : oracle) (l : listener_pb) (d : lisres) : bool :=
  chains_preserved o (l_chains l ++ match l_default l with Some fc => [fc] | None => [] end)%list d.

(** a response: every source resource's own name keys its own decoded content (later
    resources of the same name win) *)
Definition resources_preserved {A R} (name : A -> string) (pres : A -> R -> bool)
           (rs : list (res_pb A)) (d : list (string * R)) : bool :=
  let goods := flat_map (fun r => match r with RGood a => [a] | _ => [] end) rs in
  (* every decoded key is the name of a source resource, and carries the content of the LAST source resource of that name *)
  forallb (fun kv => match find (fun a => String.eqb (name a) (fst kv)) (rev goods) with
                     | Some a => pres a (snd kv)
                     | None => false
                     end) d &&
  forallb (fun a => amem (name a) d) goods.

(** ---- C12 ---- *)
Definition cla_preserved (c : option cla_pb) (d : option epres) : bool :=
  match c with
  | None => match d with None => true | Some _ => false end
  | Some c =>
      match cla_localities c, d with
      | [], None => true
      | (_ :: _) as ls, Some locs =>
          forall2b (fun l dl => forall2b (fun e de =>
             String.eqb (fst de) (match lbe_sock e with
                                  | Some sa => join_host_port (sa_addr sa) (sa_port sa)
                                  | None => ":0" end) &&
             N.eqb (snd de) (dn (lbe_weight e))) l dl) ls locs
      | _, _ => false
      end
  end.

Definition cluster_preserved (c : cluster_pb) (d : clres) : bool :=
  N.eqb (c_dtype d) (match cl_type c with Some 3 => 0 | Some 2 => 1 | Some 0 | None => 2 | Some _ => 0 end) &&
  N.eqb (c_lb d) (if N.eqb (cl_lb c) 2 then 1 else 0) &&
  String.eqb (c_epname d) (match cl_eds_service c with Some s => if String.eqb s "" then cl_name c else s | None => cl_name c end) &&
  match cl_outlier c, c_outlier d with
  | None, None => true
  | Some od, Some (t, v) => N.eqb t (dn (od_threshold od)) && N.eqb v (dn (od_volume od))
  | _, _ => false
  end &&
  cla_preserved (cl_load c) (c_inline d).

Definition table_preserved (rs : list (res_pb nt_pb)) (d : table) : bool :=
  match rs with
  | RGood nt :: _ =>
      forallb (fun kv => opt_eqb (eqb_of addrs_eq_dec) (aget (fst kv) d)
                                 (match find (fun x => String.eqb (fst x) (fst kv)) (rev (nt_table nt)) with
                                  | Some x => Some (snd x) | None => None end)) (nt_table nt) &&
      forallb (fun kv => amem (fst kv) (nt_table nt)) d
  | _ => false
  end.

(** ---- the five check functions ----
    result: (verdict agrees, content agrees, C13 spec, C11/C12 spec)
    - verdict agrees: no panic, and error exactly when the model decodes to an error
    - content agrees: when the implementation accepted, its result map equals the model's
    - C13 spec: no panic; error <-> some resource unacceptable
    - C11/C12 spec: when the implementation accepted, every field is preserved; a message
      that is acceptable must have been accepted (otherwise nothing was preserved) *)
Definition verdict_agrees {A R} (model_err : bool) (k : resp_case A R) : bool :=
  negb (rc_panic k) && Bool.eqb (rc_err k) model_err.
Definition content_agrees {A R} (dec : forall a b : R, {a = b} + {a <> b})
           (model : option (list (string * R))) (k : resp_case A R) : bool :=
  match rc_decoded k, model with
  | Some d, Some m => map_eqb dec (sort_map m) d
  | Some _, None => false
  | None, _ => true
  end.
Definition is_none {A} (o : option A) : bool := match o with None => true | Some _ => false end.

Definition lds_check (k : resp_case listener_pb lisres) : bool * bool * bool * bool :=
  let o := case_oracle k in
  let m := decode_lds o (rc_resources k) in
  (verdict_agrees (is_none m) k, content_agrees lisres_eq_dec m k,
   total_spec (all_ok listener_ok (rc_resources k)) k,
   match rc_decoded k with
   | Some d => resources_preserved l_name (listener_preserved o) (rc_resources k) d
   | None => negb (all_ok listener_ok (rc_resources k))
   end).

Definition rds_check (k : resp_case rc_pb rcres) : bool * bool * bool * bool :=
  let o := case_oracle k in
  let m := decode_rds o (rc_resources k) in
  (verdict_agrees (is_none m) k, content_agrees rcres_eq_dec m k,
   total_spec (all_ok rc_ok (rc_resources k)) k,
   match rc_decoded k with
   | Some d => resources_preserved rcp_name (fun s r => rc_preserved o s r && N.eqb (rc_maxtok r) 0 && N.eqb (rc_tpf r) 0) (rc_resources k) d
   | None => negb (all_ok rc_ok (rc_resources k))
   end).

Definition cds_check (k : resp_case cluster_pb clres) : bool * bool * bool * bool :=
  let m := decode_cds (rc_resources k) in
  (verdict_agrees (is_none m) k, content_agrees clres_eq_dec m k,
   total_spec (all_ok (fun _ => true) (rc_resources k)) k,
   match rc_decoded k with
   | Some d => resources_preserved cl_name cluster_preserved (rc_resources k) d
   | None => negb (all_ok (fun _ => true) (rc_resources k))
   end).

Definition eds_check (k : resp_case cla_pb (option epres)) : bool * bool * bool * bool :=
  let m := decode_eds (rc_resources k) in
  (verdict_agrees (is_none m) k, content_agrees oepres_eq_dec m k,
   total_spec (all_ok (fun _ => true) (rc_resources k)) k,
   match rc_decoded k with
   | Some d => resources_preserved cla_name (fun c r => cla_preserved (Some c) r) (rc_resources k) d
   | None => negb (all_ok (fun _ => true) (rc_resources k))
   end).

Definition nds_check (k : resp_case nt_pb (list string)) : bool * bool * bool * bool :=
  let m := decode_nds (rc_resources k) in
  (verdict_agrees (is_none m) k, content_agrees addrs_eq_dec m k,
   total_spec (nds_ok (rc_resources k)) k,
   match rc_decoded k with
   | Some d => table_preserved (rc_resources k) d
   | None => negb (nds_ok (rc_resources k))
   end).
