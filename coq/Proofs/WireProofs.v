(** C03 / C04 over histories: what is on the wire.
    [runw] runs a history and logs every request emitted (with the stream it was sent on) and every response received
    (stream, nonce).  Theorems: whenever the client is open and its sender has a stream, the LAST request of every
    subscribed type on the live stream lists exactly the interest set (quiescence, C03); every request carries either an
    empty nonce or a nonce received on the very stream it is sent on (C04). *)
From Xds Require Import Model.Base Model.Fqdn Model.Proto Model.Decode Model.DecodeCheck Model.Pick Model.Route Model.Mw Model.Sys Model.SysCheck.
From Xds Require Import Proofs.MapLemmas Proofs.SysProofs Proofs.C01Proofs Proofs.SweepProofs.
From Coq Require Import Lia.
Open Scope string_scope.

Fixpoint runw (c : scfg) (o : oracle) (s : state) (h : list op) (sent : list (N * request)) (rcvd : list (N * string))
  : state * list (N * request) * list (N * string) :=
  match h with
  | [] => (s, sent, rcvd)
  | x :: r =>
      let '(s1, ot) := step c o s x in
      runw c o s1 r (sent ++ o_reqs ot)%list
           (match x with OResp _ nonce _ => (rcvd ++ [(s_stream s, nonce)])%list | _ => rcvd end)
  end.

(** the last request of type [t] sent on stream [cur] *)
Definition last_on (t : rtype) (cur : N) (log : list (N * request)) : option request :=
  fold_left (fun acc sq => if N.eqb (fst sq) cur && rtype_eqb (q_type (snd sq)) t then Some (snd sq) else acc) log None.

Lemma last_on_app t cur a b :
  last_on t cur (a ++ b) = match last_on t cur b with Some q => Some q | None => last_on t cur a end.
Proof.
  unfold last_on. rewrite fold_left_app. generalize (fold_left (fun acc sq => if N.eqb (fst sq) cur && rtype_eqb (q_type (snd sq)) t then Some (snd sq) else acc) a None).
  induction b as [|x b IH] using rev_ind; intros acc; [reflexivity|].
  rewrite !fold_left_app. cbn [fold_left]. destruct (N.eqb (fst x) cur && rtype_eqb (q_type (snd x)) t); [reflexivity|apply IH].
Qed.

(** quiescence invariant *)
Definition wire_inv (s : state) (sent : list (N * request)) : Prop :=
  s_closed s = false -> s_sender_ok s = true ->
  forall t ws, tget t (s_watched s) = Some ws ->
  exists q, last_on t (s_stream s) sent = Some q /\ q_names q = ws /\ q_type q = t.

Lemma emit_open s q : s_closed s = false -> s_sender_ok s = true -> emit s q = [(s_stream s, q)].
Proof. intros H1 H2. unfold emit. rewrite H1, H2. reflexivity. Qed.

Lemma last_on_one t cur t' q : q_type q = t' ->
  last_on t cur [(cur, q)] = if rtype_eqb t' t then Some q else None.
Proof. intros <-. unfold last_on. cbn [fold_left fst snd]. rewrite N.eqb_refl. reflexivity. Qed.

Lemma rtype_eqb_sym a b : rtype_eqb a b = rtype_eqb b a.
Proof. destruct a, b; reflexivity. Qed.

Lemma wire_watch s t n rm sent :
  wire_inv s sent -> wire_inv (fst (watch s t n rm)) (sent ++ snd (watch s t n rm)).
Proof.
  intros W Hc Hs t' ws Hw. unfold watch in *. cbn [fst snd s_closed s_sender_ok s_stream s_watched] in *.
  unfold emit. cbn [s_closed s_sender_ok s_stream]. rewrite Hc, Hs.
  rewrite last_on_app, (last_on_one t' (s_stream s) t) by reflexivity.
  rewrite tget_tset in Hw. rewrite (rtype_eqb_sym t t').
  destruct (rtype_eqb t' t) eqn:E.
  - apply rtype_eqb_eq in E. subst t'. injection Hw as <-. eexists. split; [reflexivity|]. split; [|reflexivity].
    unfold mk_request, watched_names. cbn [q_names s_watched]. rewrite tget_tset, rtype_eqb_refl. reflexivity.
  - exact (W Hc Hs t' ws Hw).
Qed.

Lemma wire_same s s' sent :
  s_closed s' = s_closed s -> s_sender_ok s' = s_sender_ok s -> s_stream s' = s_stream s -> s_watched s' = s_watched s ->
  wire_inv s sent -> wire_inv s' sent.
Proof. intros E1 E2 E3 E4 W Hc Hs t ws Hw. rewrite E3. apply W; congruence. Qed.

Lemma touch_wire s t n sent : wire_inv s sent -> wire_inv (touch s t n) sent.
Proof. apply wire_same; unfold touch; destruct (aget n (tget t (s_meta s))); reflexivity. Qed.

Lemma wire_lookup s t n sent :
  wire_inv s sent -> wire_inv (fst (fst (lookup s t n))) (sent ++ snd (fst (lookup s t n))).
Proof.
  intros W. unfold lookup. pose proof (touch_wire s t n sent W) as Wt.
  destruct (aget n (tget t (s_cache (touch s t n)))); cbn [fst snd]; [rewrite app_nil_r; exact Wt|].
  pose proof (wire_watch (touch s t n) t n false sent Wt) as H.
  destruct (watch (touch s t n) t n false) as [s1 rq]. exact H.
Qed.

Lemma wire_emit_same s sent t err :
  wire_inv s sent -> wire_inv s (sent ++ emit s (mk_request s t err)).
Proof.
  intros W Hc Hs t' ws Hw. rewrite (emit_open _ _ Hc Hs), last_on_app, (last_on_one t' (s_stream s) t) by reflexivity.
  rewrite (rtype_eqb_sym t t'). destruct (rtype_eqb t' t) eqn:E; [|exact (W Hc Hs t' ws Hw)].
  apply rtype_eqb_eq in E. subst t'. eexists. split; [reflexivity|]. split; [|reflexivity].
  unfold mk_request, watched_names. cbn [q_names]. rewrite Hw. reflexivity.
Qed.

Lemma wire_handle_resp c o s v nn p sent :
  wire_inv s sent -> wire_inv (fst (fst (handle_resp c o s v nn p))) (sent ++ snd (fst (handle_resp c o s v nn p))).
Proof.
  intros W. unfold handle_resp. destruct (s_closed s) eqn:Ecl; cbn [fst snd]; [rewrite app_nil_r; exact W|].
  destruct (tget (payload_type p) (s_watched s)); cbn [fst snd]; [|rewrite app_nil_r; exact W].
  destruct (decode_payload o p) as [[m|tb]|]; cbn [fst snd].
  - set (s1 := set_ack s (payload_type p) (Some v) nn).
    assert (W1 : wire_inv s1 sent) by (revert W; apply wire_same; reflexivity).
    pose proof (wire_emit_same s1 sent (payload_type p) false W1) as H. revert H. apply wire_same; reflexivity.
  - set (s1 := set_ack s (payload_type p) (Some v) nn).
    assert (W1 : wire_inv s1 sent) by (revert W; apply wire_same; reflexivity).
    pose proof (wire_emit_same s1 sent (payload_type p) false W1) as H. revert H. apply wire_same; reflexivity.
  - set (s1 := set_ack s (payload_type p) None nn).
    assert (W1 : wire_inv s1 sent) by (revert W; apply wire_same; reflexivity).
    exact (wire_emit_same s1 sent (payload_type p) true W1).
Qed.

Lemma wire_reconnect s sent : s_closed s = false ->
  wire_inv (fst (reconnect s)) (sent ++ snd (reconnect s)).
Proof.
  intros Hcl _ _ t ws Hw. unfold reconnect in *. cbn [fst snd s_stream s_watched s_closed] in *.
  rewrite last_on_app.
  set (s1 := {| s_watched := s_watched s; s_version := s_version s; s_nonce := tconst ""; s_table := s_table s; s_cache := s_cache s;
                s_has_cache := s_has_cache s; s_meta := s_meta s; s_now := s_now s; s_stream := s_stream s + 1; s_sender_ok := true; s_closed := s_closed s |}).
  assert (He : forall t0, emit s1 (mk_request s1 t0 false) = [(s_stream s + 1, mk_request s1 t0 false)]%N)
    by (intros t0; apply emit_open; [exact Hcl|reflexivity]).
  assert (Hn : forall t0, q_names (mk_request s1 t0 false) = match tget t0 (s_watched s) with Some l => l | None => [] end) by reflexivity.
  exists (mk_request s1 t false). split; [|split; [rewrite Hn, Hw; reflexivity|reflexivity]].
  unfold all_types. cbn [flat_map]. rewrite !He.
  unfold last_on.
  destruct t; cbn [s_watched] in Hw;
    destruct (tget TLis (s_watched s)), (tget TRc (s_watched s)), (tget TCl (s_watched s)), (tget TEp (s_watched s)), (tget TNt (s_watched s));
    try discriminate; cbn [app fold_left fst snd q_type mk_request rtype_eqb andb]; rewrite ?N.eqb_refl; cbn [andb]; reflexivity.
Qed.

Lemma wire_evict s t n sent : wire_inv s sent -> wire_inv (fst (evict_one s t n)) (sent ++ snd (evict_one s t n)).
Proof.
  intros W. unfold evict_one. apply wire_watch. revert W. apply wire_same; reflexivity.
Qed.

Lemma wire_sweep s sent : wire_inv s sent -> wire_inv (fst (sweep s)) (sent ++ snd (sweep s)).
Proof.
  intros W. rewrite sweep_unfold.
  assert (G1 : forall t ns acc, wire_inv (fst acc) (sent ++ snd acc) -> wire_inv (fst (evict_list t ns acc)) (sent ++ snd (evict_list t ns acc))).
  { intros t ns. induction ns as [|n ns IH]; intros acc Wa; [exact Wa|]. rewrite evict_list_cons. apply IH. cbn [fst snd].
    rewrite app_assoc. apply wire_evict. exact Wa. }
  assert (G2 : forall ts acc, wire_inv (fst acc) (sent ++ snd acc) ->
            wire_inv (fst (fold_left (fun acc t => evict_list t (idle_names (fst acc) t) acc) ts acc))
                     (sent ++ snd (fold_left (fun acc t => evict_list t (idle_names (fst acc) t) acc) ts acc))).
  { induction ts as [|t ts IH]; intros acc Wa; cbn [fold_left]; [exact Wa|]. apply IH. apply G1. exact Wa. }
  apply G2. cbn [fst snd]. rewrite app_nil_r. exact W.
Qed.

Lemma wire_step c o s x sent : wire_inv s sent -> wire_inv (fst (step c o s x)) (sent ++ o_reqs (snd (step c o s x))).
Proof.
  intros W. destruct x as [t n|t n|t ns|d| |v nn p| |t|a| |d|t n d| ]; cbn [step].
  - pose proof (wire_watch s t n false sent W) as H. destruct (watch s t n false) as [s1 rq]. exact H.
  - pose proof (wire_lookup s t n sent W) as H. destruct (lookup s t n) as [[s1 rq] r]. exact H.
  - assert (G : forall ns0 s0 rq r, wire_inv s0 (sent ++ rq) ->
        let res := fold_left (fun acc n => let '(sa, rqa, _) := acc in let '(sb, rqb, rb) := lookup sa t n in (sb, (rqa ++ rqb)%list, rb)) ns0 (s0, rq, r) in
        wire_inv (fst (fst res)) (sent ++ snd (fst res))).
    { induction ns0 as [|n ns0 IH]; intros s0 rq r W0; cbn [fold_left]; [exact W0|].
      pose proof (wire_lookup s0 t n (sent ++ rq) W0) as H. destruct (lookup s0 t n) as [[sb rqb] rb]. cbn [fst snd] in H.
      apply IH. rewrite app_assoc. exact H. }
    specialize (G ns s [] LMiss). rewrite app_nil_r in G. specialize (G W). cbn zeta in G.
    destruct (fold_left _ ns (s, [], LMiss)) as [[s1 rq] r]. exact G.
  - pose proof (wire_lookup s TCl d sent W) as H1. destruct (lookup s TCl d) as [[s1 rq1] r1]. cbn [fst snd] in H1.
    destruct r1 as [[l|r0|cl|e|]| | | | | |r0| ]; try exact H1.
    destruct (c_inline cl); [exact H1|].
    pose proof (wire_lookup s1 TEp (c_epname cl) (sent ++ rq1) H1) as H2.
    destruct (lookup s1 TEp (c_epname cl)) as [[s2 rq2] r2]. cbn [fst snd o_reqs] in *. rewrite app_assoc. exact H2.
  - cbn [fst snd o_reqs]. rewrite app_nil_r. exact W.
  - pose proof (wire_handle_resp c o s v nn p sent W) as H. destruct (handle_resp c o s v nn p) as [[s1 rq] ups]. exact H.
  - cbn [fst snd no_out o_reqs]. rewrite app_nil_r. exact W.
  - cbn [fst snd o_reqs]. rewrite app_nil_r. exact W.
  - destruct a.
    + cbn [fst snd no_out o_reqs]. rewrite app_nil_r. destruct (s_closed s) eqn:E; [exact W|]. intros Hc. discriminate.
    + destruct (s_closed s) eqn:E; [cbn [fst snd no_out o_reqs]; rewrite app_nil_r; exact W|].
      pose proof (wire_reconnect s sent E) as H. destruct (reconnect s) as [s1 rq]. exact H.
  - cbn [fst snd no_out o_reqs]. rewrite app_nil_r. destruct (s_closed s) eqn:E; [exact W|]. intros _ Hs. discriminate.
  - cbn [fst snd no_out o_reqs]. rewrite app_nil_r. revert W. apply wire_same; reflexivity.
  - cbn [fst snd no_out o_reqs]. rewrite app_nil_r. destruct (aget n (tget t (s_meta s))); [revert W; apply wire_same; reflexivity|exact W].
  - pose proof (wire_sweep s sent W) as H. destruct (sweep s) as [s1 rq]. exact H.
Qed.

Lemma runw_wire c o h : forall s sent rcvd, wire_inv s sent ->
  let '(s', sent', _) := runw c o s h sent rcvd in wire_inv s' sent'.
Proof.
  induction h as [|x h IH]; intros s sent rcvd W; cbn [runw]; [exact W|].
  pose proof (wire_step c o s x sent W) as H. destruct (step c o s x) as [s1 ot]. cbn [fst snd] in H.
  apply IH. exact H.
Qed.

(** C03, quiescence over histories: after ANY history (sweeps, reconnects, failures, resolutions included), if the client
    is open and its sender has a stream, the last request of every subscribed type on the live stream lists exactly
    the interest set of that type *)
Theorem quiescent_wire c o h :
  let '(s, sent, _) := runw c o init_state h [] [] in
  s_closed s = false -> s_sender_ok s = true ->
  forall t ws, tget t (s_watched s) = Some ws ->
  exists q, last_on t (s_stream s) sent = Some q /\ q_names q = ws /\ q_type q = t.
Proof.
  pose proof (runw_wire c o h init_state [] []) as H.
  destruct (runw c o init_state h [] []) as [[s sent] rcvd]. apply H.
  intros _ _ t ws Hw. destruct t; discriminate.
Qed.

(** ---- C04: nonces stay on the stream that issued them ---- *)
Definition nonce_ok (rcvd : list (N * string)) (i : N) (x : string) : Prop := x = "" \/ In (i, x) rcvd.

(** the remembered nonce of every type was received on the live stream (or is empty); every request sent so far carries a
    nonce received on its own stream (or none) *)
Definition nonce_inv (s : state) (sent : list (N * request)) (rcvd : list (N * string)) : Prop :=
  (forall t, nonce_ok rcvd (s_stream s) (tget t (s_nonce s))) /\
  (forall i q, In (i, q) sent -> nonce_ok rcvd i (q_nonce q)).

Lemma nonce_ok_mono rcvd extra i x : nonce_ok rcvd i x -> nonce_ok (rcvd ++ extra) i x.
Proof. intros [H|H]; [left; exact H|right; apply in_or_app; left; exact H]. Qed.

Lemma emit_in s q i q' : In (i, q') (emit s q) -> i = s_stream s /\ q' = q.
Proof.
  unfold emit. destruct (s_closed s); [intros []|]. destruct (s_sender_ok s); [|intros []].
  intros [E|[]]. injection E as <- <-. split; reflexivity.
Qed.

Lemma nonce_sent_app s sent rcvd more :
  nonce_inv s sent rcvd ->
  (forall i q, In (i, q) more -> i = s_stream s /\ exists t, q_nonce q = tget t (s_nonce s)) ->
  nonce_inv s (sent ++ more) rcvd.
Proof.
  intros [N1 N2] Hm. split; [exact N1|]. intros i q Hin. apply in_app_or in Hin. destruct Hin as [Hin|Hin]; [apply N2; exact Hin|].
  destruct (Hm i q Hin) as [-> [t ->]]. apply N1.
Qed.

Lemma nonce_same s s' sent rcvd :
  s_stream s' = s_stream s -> s_nonce s' = s_nonce s -> nonce_inv s sent rcvd -> nonce_inv s' sent rcvd.
Proof. intros E1 E2 [N1 N2]. split; [intros t; rewrite E1, E2; apply N1|exact N2]. Qed.

Lemma nonce_watch s t n rm sent rcvd :
  nonce_inv s sent rcvd -> nonce_inv (fst (watch s t n rm)) (sent ++ snd (watch s t n rm)) rcvd.
Proof.
  intros NI. unfold watch. cbn [fst snd].
  match goal with |- nonce_inv ?s1 _ _ => assert (N1 : nonce_inv s1 sent rcvd) by (revert NI; apply nonce_same; reflexivity) end.
  apply nonce_sent_app; [exact N1|]. intros i q Hin. apply emit_in in Hin. destruct Hin as [-> ->]. split; [reflexivity|].
  exists t. reflexivity.
Qed.

Lemma nonce_lookup s t n sent rcvd :
  nonce_inv s sent rcvd -> nonce_inv (fst (fst (lookup s t n))) (sent ++ snd (fst (lookup s t n))) rcvd.
Proof.
  intros NI. unfold lookup.
  assert (Nt : nonce_inv (touch s t n) sent rcvd) by (revert NI; apply nonce_same; unfold touch; destruct (aget n (tget t (s_meta s))); reflexivity).
  destruct (aget n (tget t (s_cache (touch s t n)))); cbn [fst snd]; [rewrite app_nil_r; exact Nt|].
  pose proof (nonce_watch (touch s t n) t n false sent rcvd Nt) as H. destruct (watch (touch s t n) t n false). exact H.
Qed.

Lemma nonce_set_ack s t ver nn sent rcvd :
  nonce_inv s sent rcvd -> nonce_inv (set_ack s t ver nn) sent (rcvd ++ [(s_stream s, nn)]).
Proof.
  intros [N1 N2]. split.
  - intros t'. cbn [set_ack s_stream s_nonce]. rewrite tget_tset. destruct (rtype_eqb t' t).
    + right. apply in_or_app. right. left. reflexivity.
    + apply nonce_ok_mono. apply N1.
  - intros i q Hin. apply nonce_ok_mono. apply N2. exact Hin.
Qed.

Lemma nonce_mono s sent rcvd extra : nonce_inv s sent rcvd -> nonce_inv s sent (rcvd ++ extra).
Proof. intros [N1 N2]. split; [intros t; apply nonce_ok_mono; apply N1|intros i q Hin; apply nonce_ok_mono; apply N2; exact Hin]. Qed.

Lemma nonce_handle_resp c o s v nn p sent rcvd :
  nonce_inv s sent rcvd ->
  nonce_inv (fst (fst (handle_resp c o s v nn p))) (sent ++ snd (fst (handle_resp c o s v nn p))) (rcvd ++ [(s_stream s, nn)]).
Proof.
  intros NI. unfold handle_resp. destruct (s_closed s); cbn [fst snd]; [rewrite app_nil_r; apply nonce_mono; exact NI|].
  destruct (tget (payload_type p) (s_watched s)); cbn [fst snd]; [|rewrite app_nil_r; apply nonce_mono; exact NI].
  assert (G : forall ver err, nonce_inv (set_ack s (payload_type p) ver nn)
                (sent ++ emit (set_ack s (payload_type p) ver nn) (mk_request (set_ack s (payload_type p) ver nn) (payload_type p) err))
                (rcvd ++ [(s_stream s, nn)])).
  { intros ver err. apply nonce_sent_app; [apply nonce_set_ack; exact NI|].
    intros i q Hin. apply emit_in in Hin. destruct Hin as [-> ->]. split; [reflexivity|]. exists (payload_type p). reflexivity. }
  destruct (decode_payload o p) as [[m|tb]|]; cbn [fst snd].
  - generalize (G (Some v) false). apply nonce_same; reflexivity.
  - generalize (G (Some v) false). apply nonce_same; reflexivity.
  - exact (G None true).
Qed.

Lemma nonce_reconnect s sent rcvd :
  nonce_inv s sent rcvd -> nonce_inv (fst (reconnect s)) (sent ++ snd (reconnect s)) rcvd.
Proof.
  intros [N1 N2]. unfold reconnect. cbn [fst snd]. split.
  - intros t. left. destruct t; reflexivity.
  - intros i q Hin. apply in_app_or in Hin. destruct Hin as [Hin|Hin]; [apply N2; exact Hin|].
    apply in_flat_map in Hin. destruct Hin as [t [_ Hin]]. cbn [s_watched] in Hin.
    destruct (tget t (s_watched s)); [|destruct Hin]. apply emit_in in Hin. destruct Hin as [_ ->].
    left. unfold mk_request. cbn [q_nonce s_nonce]. destruct t; reflexivity.
Qed.

Lemma nonce_sweep s sent rcvd : nonce_inv s sent rcvd -> nonce_inv (fst (sweep s)) (sent ++ snd (sweep s)) rcvd.
Proof.
  intros NI. rewrite sweep_unfold.
  assert (G0 : forall s0 t n snt, nonce_inv s0 snt rcvd -> nonce_inv (fst (evict_one s0 t n)) (snt ++ snd (evict_one s0 t n)) rcvd).
  { intros s0 t n snt N0. unfold evict_one. apply nonce_watch. revert N0. apply nonce_same; reflexivity. }
  assert (G1 : forall t ns acc, nonce_inv (fst acc) (sent ++ snd acc) rcvd -> nonce_inv (fst (evict_list t ns acc)) (sent ++ snd (evict_list t ns acc)) rcvd).
  { intros t ns. induction ns as [|n ns IH]; intros acc Wa; [exact Wa|]. rewrite evict_list_cons. apply IH. cbn [fst snd].
    rewrite app_assoc. apply G0. exact Wa. }
  assert (G2 : forall ts acc, nonce_inv (fst acc) (sent ++ snd acc) rcvd ->
            nonce_inv (fst (fold_left (fun acc t => evict_list t (idle_names (fst acc) t) acc) ts acc))
                      (sent ++ snd (fold_left (fun acc t => evict_list t (idle_names (fst acc) t) acc) ts acc)) rcvd).
  { induction ts as [|t ts IH]; intros acc Wa; cbn [fold_left]; [exact Wa|]. apply IH. apply G1. exact Wa. }
  apply G2. cbn [fst snd]. rewrite app_nil_r. exact NI.
Qed.

Lemma nonce_step c o s x sent rcvd : nonce_inv s sent rcvd ->
  nonce_inv (fst (step c o s x)) (sent ++ o_reqs (snd (step c o s x)))
            (match x with OResp _ nonce _ => (rcvd ++ [(s_stream s, nonce)])%list | _ => rcvd end).
Proof.
  intros NI. destruct x as [t n|t n|t ns|d| |v nn p| |t|a| |d|t n d| ]; cbn [step].
  - pose proof (nonce_watch s t n false sent rcvd NI) as H. destruct (watch s t n false) as [s1 rq]. exact H.
  - pose proof (nonce_lookup s t n sent rcvd NI) as H. destruct (lookup s t n) as [[s1 rq] r]. exact H.
  - assert (G : forall ns0 s0 rq r, nonce_inv s0 (sent ++ rq) rcvd ->
        let res := fold_left (fun acc n => let '(sa, rqa, _) := acc in let '(sb, rqb, rb) := lookup sa t n in (sb, (rqa ++ rqb)%list, rb)) ns0 (s0, rq, r) in
        nonce_inv (fst (fst res)) (sent ++ snd (fst res)) rcvd).
    { induction ns0 as [|n ns0 IH]; intros s0 rq r W0; cbn [fold_left]; [exact W0|].
      pose proof (nonce_lookup s0 t n (sent ++ rq) rcvd W0) as H. destruct (lookup s0 t n) as [[sb rqb] rb]. cbn [fst snd] in H.
      apply IH. rewrite app_assoc. exact H. }
    specialize (G ns s [] LMiss). rewrite app_nil_r in G. specialize (G NI). cbn zeta in G.
    destruct (fold_left _ ns (s, [], LMiss)) as [[s1 rq] r]. exact G.
  - pose proof (nonce_lookup s TCl d sent rcvd NI) as H1. destruct (lookup s TCl d) as [[s1 rq1] r1]. cbn [fst snd] in H1.
    destruct r1 as [[l|r0|cl|e|]| | | | | |r0| ]; try exact H1.
    destruct (c_inline cl); [exact H1|].
    pose proof (nonce_lookup s1 TEp (c_epname cl) (sent ++ rq1) rcvd H1) as H2.
    destruct (lookup s1 TEp (c_epname cl)) as [[s2 rq2] r2]. cbn [fst snd o_reqs] in *. rewrite app_assoc. exact H2.
  - cbn [fst snd o_reqs]. rewrite app_nil_r. exact NI.
  - pose proof (nonce_handle_resp c o s v nn p sent rcvd NI) as H. destruct (handle_resp c o s v nn p) as [[s1 rq] ups]. exact H.
  - cbn [fst snd no_out o_reqs]. rewrite app_nil_r. exact NI.
  - cbn [fst snd o_reqs]. rewrite app_nil_r. exact NI.
  - destruct a.
    + cbn [fst snd no_out o_reqs]. rewrite app_nil_r. destruct (s_closed s); [exact NI|revert NI; apply nonce_same; reflexivity].
    + destruct (s_closed s); [cbn [fst snd no_out o_reqs]; rewrite app_nil_r; exact NI|].
      pose proof (nonce_reconnect s sent rcvd NI) as H. destruct (reconnect s) as [s1 rq]. exact H.
  - cbn [fst snd no_out o_reqs]. rewrite app_nil_r. destruct (s_closed s); [exact NI|revert NI; apply nonce_same; reflexivity].
  - cbn [fst snd no_out o_reqs]. rewrite app_nil_r. revert NI. apply nonce_same; reflexivity.
  - cbn [fst snd no_out o_reqs]. rewrite app_nil_r. destruct (aget n (tget t (s_meta s))); [revert NI; apply nonce_same; reflexivity|exact NI].
  - pose proof (nonce_sweep s sent rcvd NI) as H. destruct (sweep s) as [s1 rq]. exact H.
Qed.

Lemma runw_nonce c o h : forall s sent rcvd, nonce_inv s sent rcvd ->
  let '(s', sent', rcvd') := runw c o s h sent rcvd in nonce_inv s' sent' rcvd'.
Proof.
  induction h as [|x h IH]; intros s sent rcvd NI; cbn [runw]; [exact NI|].
  pose proof (nonce_step c o s x sent rcvd NI) as H. destruct (step c o s x) as [s1 ot]. cbn [fst snd] in H.
  apply IH. exact H.
Qed.

(** C04 over histories: every request ever sent carries an empty nonce or a nonce that a response delivered on the very
    stream the request is sent on *)
Theorem nonces_stay_on_their_stream c o h :
  let '(s, sent, rcvd) := runw c o init_state h [] [] in
  forall i q, In (i, q) sent -> q_nonce q = "" \/ In (i, q_nonce q) rcvd.
Proof.
  pose proof (runw_nonce c o h init_state [] []) as H.
  destruct (runw c o init_state h [] []) as [[s sent] rcvd].
  assert (NI : nonce_inv init_state [] []) by (split; [intros t; left; destruct t; reflexivity|intros i q []]).
  exact (proj2 (H NI)).
Qed.

(** the logged run is the run: same final state, same requests *)
Lemma runw_is_run c o h : forall s sent rcvd,
  fst (fst (runw c o s h sent rcvd)) = fst (run c o s h) /\
  snd (fst (runw c o s h sent rcvd)) = (sent ++ flat_map o_reqs (snd (run c o s h)))%list.
Proof.
  induction h as [|x h IH]; intros s sent rcvd; cbn [runw run]; [split; [reflexivity|cbn; rewrite app_nil_r; reflexivity]|].
  destruct (step c o s x) as [s1 ot]. specialize (IH s1 (sent ++ o_reqs ot)%list (match x with OResp _ nonce _ => (rcvd ++ [(s_stream s, nonce)])%list | _ => rcvd end)).
  destruct (run c o s1 h) as [s2 ots]. cbn [fst snd flat_map] in *. destruct IH as [A B]. split; [exact A|]. rewrite B, app_assoc. reflexivity.
Qed.

(** non-vacuity: a history with a subscription, a missing lookup, an accepted response and a reconnect *)
Lemma wire_example_proof :
  let c := {| sc_nds_required := false; sc_f := {| f_ns := "default"; f_dom := "cluster.local" |} |} in
  let o := mk_oracle [] [] [] in
  let cl n := RGood {| cl_name := n; cl_type := Some 3; cl_lb := 0; cl_eds_service := None; cl_outlier := None; cl_load := None |} in
  let h := [OSubscribe TCl "a"; OLookup TCl "b"; OResp "7" "n7" (PCds [cl "a"]); ORecvErr false; OLookup TCl "c"] in
  let '(s, sent, rcvd) := runw c o init_state h [] [] in
  (s_stream s, option_map q_names (last_on TCl (s_stream s) sent), map (fun sq => (fst sq, q_nonce (snd sq))) sent, rcvd) =
  (1%N, Some ["c"; "b"; "a"], [(0%N, ""); (0%N, ""); (0%N, "n7"); (1%N, ""); (1%N, "")], [(0%N, "n7")]).
Proof. vm_compute. reflexivity. Qed.
