(** Lemmas about the decoder model: totality / error characterisation (C13). *)
From Xds Require Import Model.Base Model.Fqdn Model.Proto Model.Decode Model.DecodeCheck.
From Coq Require Import Lia.
Open Scope string_scope.

Definition is_some {A} (o : option A) : bool := match o with Some _ => true | None => false end.

Lemma map_opt_some {A B} (f : A -> option B) l :
  is_some (map_opt f l) = forallb (fun x => is_some (f x)) l.
Proof.
  induction l as [|x l IH]; cbn [map_opt forallb]; [reflexivity|].
  destruct (f x); cbn [is_some andb]; [|reflexivity].
  rewrite <- IH. destruct (map_opt f l); reflexivity.
Qed.

Lemma decode_all_some {A B} (f : A -> option (string * B)) rs : forall acc,
  is_some (decode_all f rs acc) = all_ok (fun a => is_some (f a)) rs.
Proof.
  induction rs as [|r rs IH]; intros acc; cbn [decode_all all_ok forallb]; [reflexivity|].
  destruct r as [a| |]; cbn [andb]; try reflexivity.
  destruct (f a) as [[n b]|]; cbn [is_some andb]; [|reflexivity].
  apply IH.
Qed.

Lemma forallb_ext {A} (f g : A -> bool) l : (forall a, f a = g a) -> forallb f l = forallb g l.
Proof. intros H. induction l as [|x l IH]; cbn [forallb]; [reflexivity|rewrite H, IH; reflexivity]. Qed.

Lemma all_ok_ext {A} (f g : A -> bool) rs : (forall a, f a = g a) -> all_ok f rs = all_ok g rs.
Proof.
  intros H. unfold all_ok. apply forallb_ext. intros [a| |]; [apply H|reflexivity|reflexivity].
Qed.

Lemma decode_route_some o r : is_some (decode_route o r) = route_ok r.
Proof.
  unfold decode_route, route_ok. destruct (rt_match r) as [m|]; [|reflexivity].
  destruct (rm_path m); destruct (rt_action r); reflexivity.
Qed.

Lemma decode_vhost_some o v : is_some (decode_vhost o v) = forallb route_ok (vh_routes v).
Proof.
  unfold decode_vhost. rewrite <- (forallb_ext _ _ _ (decode_route_some o)), <- map_opt_some.
  destruct (map_opt (decode_route o) (vh_routes v)); reflexivity.
Qed.

Lemma decode_rc_some o rc : is_some (decode_rc o rc) = rc_ok rc.
Proof.
  unfold decode_rc, rc_ok. rewrite <- (forallb_ext _ _ _ (decode_vhost_some o)), <- map_opt_some.
  destruct (map_opt (decode_vhost o) (rcp_vhosts rc)); reflexivity.
Qed.

Lemma decode_rds_some o rs : is_some (decode_rds o rs) = all_ok rc_ok rs.
Proof.
  unfold decode_rds. rewrite decode_all_some. apply all_ok_ext. intros rc.
  rewrite <- (decode_rc_some o). destruct (decode_rc o rc); reflexivity.
Qed.

Lemma decode_troute_some o r : is_some (decode_troute o r) = troute_ok r.
Proof.
  unfold decode_troute, troute_ok. destruct (tr_match r) as [m|]; [|reflexivity].
  destruct (tm_spec m); destruct (tr_route r); reflexivity.
Qed.

Lemma decode_thrift_some o tp :
  is_some (decode_thrift o tp) = match tp_rc tp with Some rc => forallb troute_ok (trc_routes rc) | None => true end.
Proof.
  unfold decode_thrift.
  set (rs := match tp_rc tp with Some rc => trc_routes rc | None => [] end).
  assert (E : is_some (map_opt (decode_troute o) rs) = forallb troute_ok rs).
  { rewrite map_opt_some. apply forallb_ext. apply decode_troute_some. }
  destruct (map_opt (decode_troute o) rs); cbn [is_some] in *; rewrite E; subst rs; destruct (tp_rc tp); reflexivity.
Qed.

Lemma rate_limit_some fs : is_some (rate_limit fs) = hfilters_ok fs.
Proof.
  induction fs as [|f fs IH]; [reflexivity|].
  destruct f as [[[mx tpf]|]| |[[|[mx|] [tpf|]]|]| | |]; cbn [rate_limit hfilters_ok is_some]; try reflexivity; exact IH.
Qed.

Lemma decode_hcm_some o h : is_some (decode_hcm o h) = hcm_ok h.
Proof.
  unfold decode_hcm, hcm_ok. rewrite <- rate_limit_some.
  destruct (rate_limit (hcm_filters h)) as [[mx tpf]|]; cbn [is_some andb]; [|reflexivity].
  destruct (hcm_spec h) as [n|rc| |]; try reflexivity.
  - destruct (String.eqb n ""); reflexivity.
  - rewrite <- (decode_rc_some o). destruct (decode_rc o rc); reflexivity.
Qed.

Lemma decode_filters_some o port fs : is_some (decode_filters o port fs) = forallb nfilter_ok fs.
Proof.
  induction fs as [|f fs IH]; [reflexivity|]. cbn [decode_filters forallb].
  destruct (decode_filters o port fs) as [rest|]; cbn [is_some] in IH; rewrite <- IH.
  - destruct f as [tp| |h| | |]; cbn [nfilter_ok andb]; try reflexivity.
    + rewrite <- (decode_thrift_some o). destruct (decode_thrift o tp); reflexivity.
    + rewrite <- (decode_hcm_some o). destruct (decode_hcm o h) as [[n rc]|]; reflexivity.
  - destruct f; cbn [is_some]; rewrite andb_false_r; reflexivity.
Qed.

Lemma decode_chain_some o fc : is_some (decode_chain o fc) = chain_ok fc.
Proof. apply decode_filters_some. Qed.

Lemma decode_listener_some o l : is_some (decode_listener o l) = listener_ok l.
Proof.
  unfold decode_listener, listener_ok.
  rewrite <- (forallb_ext _ _ _ (decode_chain_some o)), <- map_opt_some.
  destruct (map_opt (decode_chain o) (l_chains l)); cbn [is_some andb]; [|reflexivity].
  destruct (l_default l) as [fc|]; [|reflexivity].
  rewrite <- (decode_chain_some o). destruct (decode_chain o fc); reflexivity.
Qed.

Lemma decode_lds_some o rs : is_some (decode_lds o rs) = all_ok listener_ok rs.
Proof.
  unfold decode_lds. rewrite decode_all_some. apply all_ok_ext. apply decode_listener_some.
Qed.

Lemma decode_cds_some rs : is_some (decode_cds rs) = all_ok (fun _ => true) rs.
Proof. unfold decode_cds. rewrite decode_all_some. apply all_ok_ext. reflexivity. Qed.

Lemma decode_eds_some rs : is_some (decode_eds rs) = all_ok (fun _ => true) rs.
Proof. unfold decode_eds. rewrite decode_all_some. apply all_ok_ext. reflexivity. Qed.

Lemma decode_nds_some rs : is_some (decode_nds rs) = nds_ok rs.
Proof. destruct rs as [|[nt| |] rs]; reflexivity. Qed.

(** the executable C13 statement holds of the model's own verdict *)
Lemma total_spec_model {A R} (acceptable : bool) (m : option (list (string * R))) (rs : list (res_pb A)) ov orr :
  is_some m = acceptable ->
  total_spec acceptable {| rc_ovalid := ov; rc_orates := orr; rc_resources := rs; rc_err := is_none m; rc_panic := false;
                           rc_decoded := option_map sort_map m |} = true.
Proof.
  intros <-. unfold total_spec. cbn. destruct m; reflexivity.
Qed.

(** all well-formed responses of structurally acceptable resources decode *)
Lemma all_ok_true_iff {A} (ok : A -> bool) rs :
  all_ok ok rs = true <-> forall r, In r rs -> exists a, r = RGood a /\ ok a = true.
Proof.
  unfold all_ok. rewrite forallb_forall. split; intros H r Hin; specialize (H r Hin).
  - destruct r as [a| |]; try discriminate. exists a. split; [reflexivity|exact H].
  - destruct H as (a & -> & Ha). exact Ha.
Qed.

Lemma C13_example_proof :
  let o := mk_oracle [] [] [] in
  let bad_route := {| rt_name := "r"; rt_match := None; rt_action := ANone |} in
  let rc := {| rcp_name := "rc"; rcp_vhosts := [{| vh_name := "v"; vh_routes := [bad_route] |}] |} in
  decode_rds o [RGood rc] = None /\ decode_rds o [RGood {| rcp_name := "rc"; rcp_vhosts := [] |}] <> None /\
  decode_nds [] = None /\ decode_cds [RWrongUrl] = None /\ decode_eds [RUnparsable] = None.
Proof. cbn. repeat split; try reflexivity. discriminate. Qed.
