(** What the path checker of Model/Skel.v guarantees for threads that run such paths concurrently:
    - ordered acquisition (v_rank) excludes every cycle of threads waiting for each other's locks (deadlock freedom
      of the lock structure; channel operations are covered by v_block: a thread that waits on a channel holds no
      lock, except for sends to the request queue - capacity assumption, D13);
    - lockset discipline (v_lockset) together with the exclusion the locks provide excludes two simultaneous
      accesses to a guarded field of which one is a write (data-race freedom on the guarded fields).
    Threads are (locks held, deferred releases per activation, remaining path); a thread's step executes its next
    atom, an acquisition only when no other thread holds the lock in a conflicting mode. *)
From Xds Require Import Model.Base Model.Skel.
From Coq Require Import Lia Relations.
Open Scope string_scope.

Record thr := { t_held : held; t_frames : list (list (lockid * bool)); t_path : list atom }.

(** a thread's own step: the checker's state update, atom by atom *)
Definition thr_step (t : thr) : option thr :=
  match t_path t with
  | [] => None
  | a :: r =>
      match a with
      | AAcq l w | ATryAcq l w => Some {| t_held := (l, w) :: t_held t; t_frames := t_frames t; t_path := r |}
      | ARel l w => match release (t_held t) l w with
                    | Some h' => Some {| t_held := h'; t_frames := t_frames t; t_path := r |}
                    | None => None end
      | ADefer l w => match t_frames t with
                      | top :: rest => Some {| t_held := t_held t; t_frames := ((l, w) :: top) :: rest; t_path := r |}
                      | [] => None end
      | AEnter => Some {| t_held := t_held t; t_frames := [] :: t_frames t; t_path := r |}
      | ALeave => match t_frames t with
                  | top :: rest => match run_defers (t_held t) top with
                                   | Some h' => Some {| t_held := h'; t_frames := rest; t_path := r |}
                                   | None => None end
                  | [] => None end
      | ARet => None
      | ABad _ => None
      | _ => Some {| t_held := t_held t; t_frames := t_frames t; t_path := r |}
      end
  end.

Definition checked (cap : bool) (t : thr) : verdict := check_path cap (t_held t) (t_frames t) (t_path t).

Lemma v_and_rank a b : v_rank (v_and a b) = v_rank a && v_rank b. Proof. reflexivity. Qed.
Lemma v_and_lockset a b : v_lockset (v_and a b) = v_lockset a && v_lockset b. Proof. reflexivity. Qed.

(** the verdict of a thread covers the verdict of the thread after its step: the checker's conditions hold
    all along an execution, not just at its start *)
Lemma checked_step_rank cap t t' : thr_step t = Some t' -> v_rank (checked cap t) = true -> v_rank (checked cap t') = true.
Proof.
  unfold thr_step, checked. destruct t as [h fr p]. cbn [t_held t_frames t_path].
  destruct p as [|a r]; [discriminate|].
  destruct a; cbn [check_path]; intros E H;
    try (injection E as <-; cbn [t_held t_frames t_path]; rewrite ?v_and_rank in H; try (apply andb_true_iff in H; destruct H as [_ H]); exact H);
    try discriminate.
  - destruct (release h l w); [|discriminate]. injection E as <-. exact H.
  - destruct fr as [|top rest]; [discriminate|]. injection E as <-. exact H.
  - destruct fr as [|top rest]; [discriminate|]. destruct (run_defers h top); [|discriminate]. injection E as <-. exact H.
Qed.

Lemma checked_step_lockset cap t t' : thr_step t = Some t' -> v_lockset (checked cap t) = true -> v_lockset (checked cap t') = true.
Proof.
  unfold thr_step, checked. destruct t as [h fr p]. cbn [t_held t_frames t_path].
  destruct p as [|a r]; [discriminate|].
  destruct a; cbn [check_path]; intros E H;
    try (injection E as <-; cbn [t_held t_frames t_path]; rewrite ?v_and_lockset in H; try (apply andb_true_iff in H; destruct H as [_ H]); exact H);
    try discriminate.
  - destruct (release h l w); [|discriminate]. injection E as <-. exact H.
  - destruct fr as [|top rest]; [discriminate|]. injection E as <-. exact H.
  - destruct fr as [|top rest]; [discriminate|]. destruct (run_defers h top); [|discriminate]. injection E as <-. exact H.
Qed.

(** ---- waiting for locks ---- *)
Definition wants (t : thr) : option (lockid * bool) :=
  match t_path t with AAcq l w :: _ => Some (l, w) | _ => None end.

(** [h] holds [l] in a mode that conflicts with a request in mode [w] (two read locks do not conflict) *)
Definition conflicts (h : held) (l : lockid) (w : bool) : bool :=
  existsb (fun x => lock_eqb (fst x) l && (w || snd x)) h.

(** thread [i] waits for a lock that thread [j] holds *)
Definition waits_for (ts : list thr) (i j : nat) : Prop :=
  i <> j /\ exists ti tj l w, nth_error ts i = Some ti /\ nth_error ts j = Some tj /\
                              wants ti = Some (l, w) /\ conflicts (t_held tj) l w = true.

Definition req_rank (ts : list thr) (i : nat) : nat :=
  match nth_error ts i with
  | Some t => match wants t with Some (l, _) => rank l | None => 0 end
  | None => 0
  end.

Lemma lock_eqb_eq a b : lock_eqb a b = true -> a = b.
Proof. destruct a, b; cbn; congruence. Qed.

Lemma wants_rank cap t l w : v_rank (checked cap t) = true -> wants t = Some (l, w) ->
  forall x, In x (t_held t) -> (rank (fst x) < rank l)%nat.
Proof.
  unfold checked, wants. destruct t as [h fr p]. cbn [t_held t_frames t_path].
  destruct p as [|a r]; [discriminate|]. destruct a; try discriminate. intros H E. injection E as -> ->.
  cbn [check_path] in H. rewrite v_and_rank in H. cbn [v_rank] in H.
  apply andb_true_iff in H. destruct H as [H _]. apply andb_true_iff in H. destruct H as [_ H].
  intros x Hx. rewrite forallb_forall in H. specialize (H x Hx). apply Nat.ltb_lt in H. exact H.
Qed.

(** if i waits for j and j itself waits for a lock, j's request ranks strictly higher than i's *)
Lemma wait_rank_increases cap ts i j :
  (forall t, In t ts -> v_rank (checked cap t) = true) ->
  waits_for ts i j -> (exists tj lw, nth_error ts j = Some tj /\ wants tj = Some lw) ->
  (req_rank ts i < req_rank ts j)%nat.
Proof.
  intros Hall [Hne (ti & tj & l & w & Hi & Hj & Hw & Hc)] (tj' & [l' w'] & Hj' & Hw').
  rewrite Hj in Hj'. injection Hj' as <-. unfold req_rank. rewrite Hi, Hj, Hw, Hw'.
  unfold conflicts in Hc. apply existsb_exists in Hc. destruct Hc as [x [Hx Hc]].
  apply andb_true_iff in Hc. destruct Hc as [Hl _]. apply lock_eqb_eq in Hl.
  pose proof (wants_rank cap tj l' w' (Hall tj (nth_error_In _ _ Hj)) Hw' x Hx) as Hr. rewrite Hl in Hr. exact Hr.
Qed.

(** DEADLOCK FREEDOM of the lock structure: with ordered acquisition there is no cycle of threads each waiting for
    a lock the next one holds - whatever the number of threads and whatever paths they run *)
Definition waits_for_waiting (ts : list thr) (i j : nat) : Prop :=
  waits_for ts i j /\ exists tj lw, nth_error ts j = Some tj /\ wants tj = Some lw.

Theorem no_lock_wait_cycle cap ts :
  (forall t, In t ts -> v_rank (checked cap t) = true) ->
  forall i, ~ clos_trans nat (waits_for_waiting ts) i i.
Proof.
  intros Hall.
  assert (G : forall i j, clos_trans nat (waits_for_waiting ts) i j -> (req_rank ts i < req_rank ts j)%nat).
  { intros i j H. induction H as [i j [Hw Hj]|i k j _ IH1 _ IH2]; [eapply wait_rank_increases; eassumption|lia]. }
  intros i H. specialize (G i i H). lia.
Qed.

(** ... and every chain of waiting threads is short: it ends, after at most three hops, in a thread that holds a lock
    and does not wait for one (it can run; by v_block it is not waiting on a channel either, but for a queue slot) *)
Theorem wait_chain_bounded cap ts i j :
  (forall t, In t ts -> v_rank (checked cap t) = true) ->
  clos_trans nat (waits_for_waiting ts) i j -> (req_rank ts j <= 3)%nat /\ (req_rank ts i < req_rank ts j)%nat.
Proof.
  intros Hall H. split.
  - unfold req_rank. destruct (nth_error ts j) as [t|]; [|lia]. destruct (wants t) as [[l w]|]; [destruct l; cbn; lia|lia].
  - induction H as [i j [Hw Hj]|i k j _ IH1 _ IH2]; [eapply wait_rank_increases; eassumption|lia].
Qed.

(** ---- data races on guarded fields ---- *)
(** what the locks provide: no two threads hold the same lock in conflicting modes *)
Definition exclusive (ts : list thr) : Prop :=
  forall i j ti tj l w, i <> j -> nth_error ts i = Some ti -> nth_error ts j = Some tj ->
    In (l, w) (t_held ti) -> conflicts (t_held tj) l w = false.

Definition accesses (t : thr) : option (string * lockid * bool) :=
  match t_path t with AAccess f l w :: _ => Some (f, l, w) | _ => None end.

Lemma holds_w_In h l : holds_w h l = true -> In (l, true) h.
Proof.
  unfold holds_w. intros H. apply existsb_exists in H. destruct H as [[l' w'] [Hx H]]. cbn [fst snd] in H.
  apply andb_true_iff in H. destruct H as [Hl Hw]. apply lock_eqb_eq in Hl. subst. exact Hx.
Qed.

Lemma holds_conflicts_w h l : holds h l = true -> conflicts h l true = true.
Proof.
  unfold holds, conflicts. intros H. apply existsb_exists in H. destruct H as [x [Hx H]].
  apply existsb_exists. exists x. split; [exact Hx|]. rewrite H. reflexivity.
Qed.

Lemma lock_eqb_refl l : lock_eqb l l = true. Proof. destruct l; reflexivity. Qed.

Lemma holds_w_holds h l : holds_w h l = true -> holds h l = true.
Proof.
  unfold holds_w, holds. intros H. apply existsb_exists in H. destruct H as [x [Hx H]].
  apply existsb_exists. exists x. split; [exact Hx|]. apply andb_true_iff in H. tauto.
Qed.

(** DATA-RACE FREEDOM on guarded fields: two different threads are never both about to access the same field with
    one of the accesses a write *)
Theorem no_race cap ts i j ti tj f l wi wj :
  exclusive ts -> i <> j -> nth_error ts i = Some ti -> nth_error ts j = Some tj ->
  v_lockset (checked cap ti) = true -> v_lockset (checked cap tj) = true ->
  accesses ti = Some (f, l, wi) -> accesses tj = Some (f, l, wj) -> wi || wj = true -> False.
Proof.
  intros Hex Hne Hi Hj Hci Hcj Hai Haj Hw.
  assert (Hacc : forall t f0 l0 w0, v_lockset (checked cap t) = true -> accesses t = Some (f0, l0, w0) ->
                   (if w0 then holds_w (t_held t) l0 else holds (t_held t) l0) = true).
  { intros t f0 l0 w0 Hc Ha. unfold checked, accesses in *. destruct t as [h fr p]. cbn [t_held t_frames t_path] in *.
    destruct p as [|a r]; [discriminate|]. destruct a; try discriminate. injection Ha as -> -> ->.
    cbn [check_path] in Hc. rewrite v_and_lockset in Hc. apply andb_true_iff in Hc. exact (proj1 Hc). }
  pose proof (Hacc ti f l wi Hci Hai) as Hhi. pose proof (Hacc tj f l wj Hcj Haj) as Hhj.
  destruct wi.
  - (* i writes: it holds l in write mode; j holds l in some mode *)
    pose proof (Hex i j ti tj l true Hne Hi Hj (holds_w_In _ _ Hhi)) as Hc.
    assert (Hj' : holds (t_held tj) l = true) by (destruct wj; [apply holds_w_holds|]; exact Hhj).
    rewrite (holds_conflicts_w _ _ Hj') in Hc. discriminate.
  - cbn [orb] in Hw. subst wj.
    pose proof (Hex j i tj ti l true (fun E => Hne (eq_sym E)) Hj Hi (holds_w_In _ _ Hhj)) as Hc.
    rewrite (holds_conflicts_w _ _ Hhi) in Hc. discriminate.
Qed.

(** the exclusion is kept by every step that respects the lock semantics: a thread acquires only when no other thread
    holds the lock in a conflicting mode (releases and all other atoms only shrink or keep the sets held) *)
Definition acquires (t : thr) : option (lockid * bool) :=
  match t_path t with AAcq l w :: _ | ATryAcq l w :: _ => Some (l, w) | _ => None end.
Definition may_step (ts : list thr) (i : nat) (t : thr) : Prop :=
  match acquires t with
  | Some (l, w) => forall j tj, j <> i -> nth_error ts j = Some tj -> conflicts (t_held tj) l w = false
  | None => True
  end.

Lemma release_subset h l w h' : release h l w = Some h' -> forall x, In x h' -> In x h.
Proof.
  revert h'. induction h as [|[l0 w0] h IH]; intros h' E x Hx; cbn [release] in E; [discriminate|].
  destruct (lock_eqb l l0 && Bool.eqb w w0); [injection E as <-; right; exact Hx|].
  destruct (release h l w) as [r'|]; [|discriminate]. injection E as <-. destruct Hx as [<-|Hx]; [left; reflexivity|right; eapply IH; [reflexivity|exact Hx]].
Qed.

Lemma run_defers_subset top : forall h h', run_defers h top = Some h' -> forall x, In x h' -> In x h.
Proof.
  unfold run_defers. induction top as [|d top IH]; intros h h' E x Hx; cbn [fold_left] in E.
  - injection E as <-. exact Hx.
  - destruct (release h (fst d) (snd d)) as [h1|] eqn:Er.
    + eapply release_subset; [exact Er|]. eapply IH; eassumption.
    + assert (G : forall l, fold_left (fun acc d0 => match acc with Some hh => release hh (fst d0) (snd d0) | None => None end) l (@None held) = None)
        by (induction l as [|? ? IHl]; [reflexivity|exact IHl]).
      rewrite G in E. discriminate.
Qed.

Lemma conflicts_subset h h' l w : (forall x, In x h' -> In x h) -> conflicts h l w = false -> conflicts h' l w = false.
Proof.
  intros Hs Hc. unfold conflicts in *. destruct (existsb _ h') eqn:E; [|reflexivity].
  apply existsb_exists in E. destruct E as [x [Hx E]]. assert (existsb (fun x => lock_eqb (fst x) l && (w || snd x)) h = true) by (apply existsb_exists; exists x; split; [apply Hs; exact Hx|exact E]).
  congruence.
Qed.

Lemma conflicts_sym_in h l w l' w' : In (l', w') h -> lock_eqb l' l = true -> (w || w') = true -> conflicts h l w = true.
Proof. intros Hin Hl Hw. apply existsb_exists. exists (l', w'). split; [exact Hin|]. cbn [fst snd]. rewrite Hl, Hw. reflexivity. Qed.

(** replace the i-th thread *)
Fixpoint set_nth (ts : list thr) (i : nat) (t : thr) : list thr :=
  match ts, i with
  | [], _ => []
  | _ :: r, O => t :: r
  | x :: r, S i' => x :: set_nth r i' t
  end.
Lemma nth_set_same ts i t t0 : nth_error ts i = Some t0 -> nth_error (set_nth ts i t) i = Some t.
Proof. revert i. induction ts as [|x r IH]; intros [|i] H; cbn in *; try discriminate; [reflexivity|apply IH; exact H]. Qed.
Lemma nth_set_other ts i j t : i <> j -> nth_error (set_nth ts i t) j = nth_error ts j.
Proof. revert i j. induction ts as [|x r IH]; intros [|i] [|j] H; cbn; try reflexivity; [congruence|apply IH; congruence]. Qed.

Theorem exclusive_step ts i t t' :
  exclusive ts -> nth_error ts i = Some t -> may_step ts i t -> thr_step t = Some t' -> exclusive (set_nth ts i t').
Proof.
  intros Hex Hi Hmay Hst.
  (* the locks held after the step: those held before, plus the one acquired *)
  assert (Hheld : forall x, In x (t_held t') -> In x (t_held t) \/ acquires t = Some x).
  { intros x Hx. unfold thr_step in Hst. unfold acquires. destruct t as [h fr p]. cbn [t_held t_frames t_path] in *.
    destruct p as [|a r]; [discriminate|].
    destruct a; try discriminate; try (injection Hst as <-; cbn [t_held] in Hx; left; exact Hx).
    - injection Hst as <-. cbn [t_held] in Hx. destruct Hx as [<-|Hx]; [right; reflexivity|left; exact Hx].
    - injection Hst as <-. cbn [t_held] in Hx. destruct Hx as [<-|Hx]; [right; reflexivity|left; exact Hx].
    - destruct (release h l w) as [h'|] eqn:Er; [|discriminate]. injection Hst as <-. left. eapply release_subset; eassumption.
    - destruct fr as [|top rest]; [discriminate|]. injection Hst as <-. left. exact Hx.
    - destruct fr as [|top rest]; [discriminate|]. destruct (run_defers h top) as [h'|] eqn:Er; [|discriminate].
      injection Hst as <-. left. eapply run_defers_subset; eassumption. }
  intros a b ta tb l w Hab Ha Hb Hin.
  destruct (Nat.eq_dec a i) as [->|Hai].
  - rewrite (nth_set_same ts i t' t Hi) in Ha. injection Ha as <-.
    rewrite (nth_set_other ts i b t' Hab) in Hb.
    destruct (Hheld (l, w) Hin) as [Hold|Hnew].
    + exact (Hex i b t tb l w Hab Hi Hb Hold).
    + unfold may_step in Hmay. rewrite Hnew in Hmay. apply (Hmay b tb); [congruence|exact Hb].
  - rewrite (nth_set_other ts i a t' (fun E => Hai (eq_sym E))) in Ha.
    destruct (Nat.eq_dec b i) as [->|Hbi].
    + rewrite (nth_set_same ts i t' t Hi) in Hb. injection Hb as <-.
      destruct (conflicts (t_held t') l w) eqn:Ec; [|reflexivity]. exfalso.
      apply existsb_exists in Ec. destruct Ec as [[l' w'] [Hx Ec]]. cbn [fst snd] in Ec. apply andb_true_iff in Ec. destruct Ec as [El Ew].
      destruct (Hheld (l', w') Hx) as [Hold|Hnew].
      * pose proof (Hex a i ta t l w Hai Ha Hi Hin) as Hc.
        rewrite (conflicts_sym_in (t_held t) l w l' w' Hold El Ew) in Hc. discriminate.
      * unfold may_step in Hmay. rewrite Hnew in Hmay. specialize (Hmay a ta Hai Ha).
        apply lock_eqb_eq in El. subst l'.
        rewrite (conflicts_sym_in (t_held ta) l w' l w Hin (lock_eqb_refl l)) in Hmay; [discriminate|].
        rewrite orb_comm. exact Ew.
    + rewrite (nth_set_other ts i b t' (fun E => Hbi (eq_sym E))) in Hb. exact (Hex a b ta tb l w Hab Ha Hb Hin).
Qed.

Lemma exclusive_initial ts : (forall t, In t ts -> t_held t = []) -> exclusive ts.
Proof. intros H i j ti tj l w _ Hi _ Hin. rewrite (H ti (nth_error_In _ _ Hi)) in Hin. destruct Hin. Qed.

(** ---- executions of checked paths ---- *)
Definition start (p : list atom) : thr := {| t_held := []; t_frames := [[]]; t_path := p |}.

Inductive reach : thr -> thr -> Prop :=
| reach_refl t : reach t t
| reach_more t t' t'' : reach t t' -> thr_step t' = Some t'' -> reach t t''.

Lemma reach_rank cap t t' : v_rank (checked cap t) = true -> reach t t' -> v_rank (checked cap t') = true.
Proof. intros H R. induction R as [|t t' t'' _ IH E]; [exact H|]. eapply checked_step_rank; [exact E|apply IH; exact H]. Qed.
Lemma reach_lockset cap t t' : v_lockset (checked cap t) = true -> reach t t' -> v_lockset (checked cap t') = true.
Proof. intros H R. induction R as [|t t' t'' _ IH E]; [exact H|]. eapply checked_step_lockset; [exact E|apply IH; exact H]. Qed.

Lemma v_all_parts v : v_all v = true -> v_rank v = true /\ v_lockset v = true.
Proof. unfold v_all. intros H. repeat (apply andb_true_iff in H; destruct H as [H ?]). split; assumption. Qed.

(** any number of threads, each somewhere along a path that passed the checker from the start of its function:
    no cycle of lock waits ... *)
Theorem checked_paths_no_deadlock cap (P : list (list atom)) :
  (forall p, In p P -> v_all (check_path cap [] [[]] p) = true) ->
  forall ts, (forall t, In t ts -> exists p, In p P /\ reach (start p) t) ->
  forall i, ~ clos_trans nat (waits_for_waiting ts) i i.
Proof.
  intros HP ts Hts. apply (no_lock_wait_cycle cap). intros t Ht. destruct (Hts t Ht) as (p & Hp & R).
  apply (reach_rank cap (start p)); [|exact R]. exact (proj1 (v_all_parts _ (HP p Hp))).
Qed.

(** ... and no two of them about to access the same guarded field, one writing *)
Theorem checked_paths_no_race cap (P : list (list atom)) :
  (forall p, In p P -> v_all (check_path cap [] [[]] p) = true) ->
  forall ts, (forall t, In t ts -> exists p, In p P /\ reach (start p) t) -> exclusive ts ->
  forall i j ti tj f l wi wj, i <> j -> nth_error ts i = Some ti -> nth_error ts j = Some tj ->
    accesses ti = Some (f, l, wi) -> accesses tj = Some (f, l, wj) -> wi || wj = true -> False.
Proof.
  intros HP ts Hts Hex i j ti tj f l wi wj Hne Hi Hj Hai Haj Hw.
  assert (G : forall k t, nth_error ts k = Some t -> v_lockset (checked cap t) = true).
  { intros k t Hk. destruct (Hts t (nth_error_In _ _ Hk)) as (p & Hp & R).
    apply (reach_lockset cap (start p)); [|exact R]. exact (proj2 (v_all_parts _ (HP p Hp))). }
  exact (no_race cap ts i j ti tj f l wi wj Hex Hne Hi Hj (G i ti Hi) (G j tj Hj) Hai Haj Hw).
Qed.

(** ---- a write section excludes every reader: what makes "policy before data" visible to lookups ---- *)
(** while a thread holds a lock in write mode, no other thread (that obeys the lockset discipline) is about to access a
    field guarded by that lock - in particular, while UpdateResource runs its handlers and then writes the cache inside
    one write section of m.mu, no lookup can read the cache in between *)
Theorem writer_excludes_accesses cap ts i j ti tj f l w :
  exclusive ts -> i <> j -> nth_error ts i = Some ti -> nth_error ts j = Some tj ->
  In (l, true) (t_held ti) ->
  v_lockset (checked cap tj) = true -> accesses tj = Some (f, l, w) -> False.
Proof.
  intros Hex Hne Hi Hj Hin Hc Ha.
  assert (Hh : holds (t_held tj) l = true).
  { unfold checked, accesses in *. destruct tj as [h fr p]. cbn [t_held t_frames t_path] in *.
    destruct p as [|a r]; [discriminate|]. destruct a; try discriminate. injection Ha as -> -> ->.
    cbn [check_path] in Hc. rewrite v_and_lockset in Hc. apply andb_true_iff in Hc. destruct Hc as [Hc _]. cbn [v_lockset] in Hc.
    destruct w; [apply holds_w_holds|]; exact Hc. }
  pose proof (Hex i j ti tj l true Hne Hi Hj Hin) as Hcf. rewrite (holds_conflicts_w _ _ Hh) in Hcf. discriminate.
Qed.

(** non-vacuity: a waiting edge exists between two threads on checked paths, and it ends in a thread that does not wait *)
Lemma waits_example :
  let p1 := [AAcq LM true; AAcq LC true; ARel LC true; ARel LM true] in
  let p2 := [AAcq LC false; ARel LC false] in
  let ts := [ {| t_held := [(LM, true)]; t_frames := [[]]; t_path := [AAcq LC true; ARel LC true; ARel LM true] |};
              {| t_held := [(LC, false)]; t_frames := [[]]; t_path := [ARel LC false] |} ] in
  v_all (check_path true [] [[]] p1) = true /\ v_all (check_path true [] [[]] p2) = true /\
  waits_for ts 0 1 /\ wants (nth 1 ts (start [])) = None.
Proof.
  cbn zeta. split; [vm_compute; reflexivity|]. split; [vm_compute; reflexivity|]. split; [|reflexivity].
  split; [discriminate|]. eexists _, _, LC, true. repeat split; reflexivity.
Qed.
