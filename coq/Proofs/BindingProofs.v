(** C14 over histories: the listener stored for a subscribed service address after an accepted listener push is the
    one the name table THEN CURRENT binds the address to, whatever history (name-table pushes, other listener pushes,
    reconnects, sweeps, resolutions) led to the state the push arrives in. *)
From Xds Require Import Model.Base Model.Fqdn Model.Proto Model.Decode Model.Pick Model.Route Model.Mw Model.Sys Model.SysCheck.
From Xds Require Import Proofs.MapLemmas Proofs.SysProofs Proofs.C01Proofs.
Open Scope string_scope.

Lemma binding_after_any_history c o h ver nonce p res ws n :
  let s := final c o h in
  s_closed s = false -> payload_type p = TLis -> decode_payload o p = Some (DMap res) ->
  tget TLis (s_watched s) = Some ws -> smem n ws = true ->
  sc_nds_required c = true -> n <> reserved_lds ->
  aget n (tget TLis (s_cache (fst (step c o s (OResp ver nonce p))))) =
    match listener_name (sc_f c) (s_table s) n with Some ln => aget ln res | None => None end.
Proof.
  intros s Hopen Hp Hdec Hw Hn Hnds Hres.
  assert (Ht : TLis <> TNt) by discriminate.
  pose proof (step_refines c o TLis n s (OResp ver nonce p) Ht (reachable_inv c o h) eq_refl) as R.
  apply (f_equal kv_val) in R.
  change (kv_val (abs TLis n (fst (step c o s (OResp ver nonce p))))) with
    (aget n (tget TLis (s_cache (fst (step c o s (OResp ver nonce p)))))) in R. rewrite R.
  rewrite (fold_step_accepted c o TLis n (abs TLis n s) ver nonce p res ws); try assumption.
  - cbn [abs kv_table kv_val]. rewrite Hnds.
    assert (E : String.eqb n reserved_lds = false) by (apply String.eqb_neq; exact Hres).
    rewrite E. cbn [rtype_eqb andb negb full_type].
    destruct (listener_name (sc_f c) (s_table s) n) as [ln|]; [destruct (aget ln res); reflexivity | reflexivity].
  - cbn [abs kv_open]. rewrite Hopen. reflexivity.
Qed.
