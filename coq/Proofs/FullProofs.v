(** The state machine of Model/Sys.v refines the complete per-key view [fv_step] of Model/FullView.v on EVERY history:
    subscriptions, lookups, responses, stream failures, clock ticks AND eviction sweeps (C01 and C19 in one statement). *)
From Xds Require Import Model.Base Model.Fqdn Model.Proto Model.Decode Model.DecodeCheck Model.Pick Model.Route Model.Mw Model.Sys Model.SysCheck Model.FullView.
From Xds Require Import Proofs.MapLemmas Proofs.DecodeProofs Proofs.PolicyProofs Proofs.SysProofs Proofs.C01Proofs Proofs.SweepProofs.
From Coq Require Import Lia.
Open Scope string_scope.

Definition absf (t : rtype) (n : string) (s : state) : fview :=
  {| fv_open := negb (s_closed s); fv_table := s_table s; fv_nds := is_some (tget TNt (s_watched s));
     fv_sub := is_some (tget t (s_watched s)); fv_in := smem n (watched_names s t);
     fv_val := aget n (tget t (s_cache s)); fv_meta := aget n (tget t (s_meta s)); fv_now := s_now s |}.

Lemma absf_init t n : absf t n init_state = fv_init.
Proof. destruct t; reflexivity. Qed.

Lemma absf_same t n s s' :
  s_closed s' = s_closed s -> s_table s' = s_table s -> s_watched s' = s_watched s ->
  aget n (tget t (s_cache s')) = aget n (tget t (s_cache s)) -> aget n (tget t (s_meta s')) = aget n (tget t (s_meta s)) ->
  s_now s' = s_now s -> absf t n s' = absf t n s.
Proof. intros H1 H2 H3 H4 H5 H6. unfold absf, watched_names. rewrite H1, H2, H3, H4, H5, H6. reflexivity. Qed.

(** entries with an access record belong to a subscribed type *)
Definition meta_sub (s : state) : Prop := forall t n, amem n (tget t (s_meta s)) = true -> tget t (s_watched s) <> None.

Record finv (s : state) : Prop := { f_inv : inv s; f_nd : meta_nd s; f_sub : meta_sub s }.

Lemma finv_init : finv init_state.
Proof.
  split; [exact init_inv| |].
  - intros t. destruct t; constructor.
  - intros t n H. destruct t; discriminate.
Qed.

Lemma rt_sym a b : rtype_eqb a b = rtype_eqb b a.
Proof. destruct a, b; reflexivity. Qed.

(** ---- subscription ---- *)
Lemma absf_watch_add t n s t' n' : t <> TNt ->
  absf t n (fst (watch s t' n' false)) = fv_subscribe t n (absf t n s) t' n'.
Proof.
  intros Ht. unfold fv_subscribe, fv_nds_if, fv_set_nds, fv_watch, absf.
  rewrite watch_interest. unfold watch. cbn [fst s_closed s_table s_watched s_cache s_meta s_now fv_open fv_table fv_nds fv_sub fv_in fv_val fv_meta fv_now].
  rewrite !tget_tset.
  destruct (rtype_eqb t t') eqn:E1.
  - apply rtype_eqb_eq in E1. subst t'. rewrite rtype_eqb_refl.
    assert (E2 : rtype_eqb TNt t = false) by (destruct t; try reflexivity; exfalso; apply Ht; reflexivity).
    assert (E3 : rtype_eqb t TNt = false) by (destruct t; try reflexivity; exfalso; apply Ht; reflexivity).
    rewrite E2, E3. cbn [is_some]. rewrite smem_sadd, orb_comm. reflexivity.
  - rewrite (rt_sym t' t), E1.
    destruct (rtype_eqb t' TNt) eqn:E2.
    + apply rtype_eqb_eq in E2. subst t'. rewrite rtype_eqb_refl. reflexivity.
    + rewrite (rt_sym TNt t'), E2. reflexivity.
Qed.

(** ---- the extra invariant ---- *)
Lemma sub_same s s' : s_meta s' = s_meta s -> s_watched s' = s_watched s -> meta_sub s -> meta_sub s'.
Proof. intros E1 E2 H t n. rewrite E1, E2. apply H. Qed.

Lemma sub_watch s t n rm : meta_sub s -> meta_sub (fst (watch s t n rm)).
Proof.
  intros H t' k Hk. unfold watch in *. cbn [fst s_meta s_watched] in *. rewrite tget_tset.
  destruct (rtype_eqb t' t); [discriminate|apply (H t' k Hk)].
Qed.

Lemma sub_touch s t n : meta_sub s -> meta_sub (touch s t n).
Proof.
  intros H t' k Hk. assert (Ew : s_watched (touch s t n) = s_watched s) by (unfold touch; destruct (aget n (tget t (s_meta s))); reflexivity).
  rewrite Ew. unfold amem in Hk. rewrite touch_meta_get in Hk.
  destruct (rtype_eqb t' t && String.eqb k n) eqn:E.
  - apply andb_true_iff in E. destruct E as [E1 E2]. apply rtype_eqb_eq in E1. apply String.eqb_eq in E2. subst.
    apply (H t n). unfold amem. destruct (aget n (tget t (s_meta s))); [reflexivity|discriminate].
  - apply (H t' k). exact Hk.
Qed.

Lemma sub_lookup s t n : meta_sub s -> meta_sub (fst (fst (lookup s t n))).
Proof.
  intros H. unfold lookup. pose proof (sub_touch s t n H) as Ht.
  destruct (aget n (tget t (s_cache (touch s t n)))); [exact Ht|].
  pose proof (sub_watch (touch s t n) t n false Ht) as Hw. destruct (watch (touch s t n) t n false). exact Hw.
Qed.

Lemma fold_meta_get (nc : list (string * cval)) now : forall (om : list (string * N)) k,
  aget k (fold_left (fun acc kv => if amem (fst kv) acc then acc else aset (fst kv) now acc) nc om) =
  match aget k om with Some m => Some m | None => if amem k nc then Some now else None end.
Proof.
  induction nc as [|[k0 v0] nc IH]; intros om k; cbn [fold_left fst].
  - destruct (aget k om); reflexivity.
  - rewrite IH. unfold amem at 3. cbn [aget].
    destruct (amem k0 om) eqn:E0.
    + destruct (aget k om) eqn:Ek; [reflexivity|].
      destruct (String.eqb_spec k k0) as [->|Hne]; [unfold amem in E0; rewrite Ek in E0; discriminate|reflexivity].
    + rewrite aget_aset. destruct (String.eqb_spec k k0) as [->|Hne].
      * unfold amem in E0. destruct (aget k0 om); [discriminate|reflexivity].
      * reflexivity.
Qed.

Lemma sub_apply_update s t up ws : tget t (s_watched s) = Some ws -> meta_sub s -> meta_sub (apply_update s t up).
Proof.
  intros Hw H t' k Hk. change (s_watched (apply_update s t up)) with (s_watched s).
  unfold apply_update in Hk. cbn [s_meta] in Hk. rewrite tget_tset in Hk.
  destruct (rtype_eqb t' t) eqn:E; [apply rtype_eqb_eq in E; subst t'; rewrite Hw; discriminate|apply (H t' k Hk)].
Qed.

Lemma sub_evict s t n : meta_sub s -> meta_sub (fst (evict_one s t n)).
Proof.
  intros H t' k Hk. rewrite evict_one_meta in Hk. unfold evict_one, watch. cbn [fst s_watched]. rewrite tget_tset in Hk. rewrite tget_tset.
  destruct (rtype_eqb t' t) eqn:E; [discriminate|apply (H t' k Hk)].
Qed.

Lemma sub_step c o s x : meta_sub s -> meta_sub (fst (step c o s x)).
Proof.
  intros I. destruct x as [t n|t n|t ns|d| |v nn p| |t|a| |d|t n d| ]; cbn [step].
  - pose proof (sub_watch s t n false I) as H. destruct (watch s t n false). exact H.
  - pose proof (sub_lookup s t n I) as H. destruct (lookup s t n) as [[s1 rq] r]. exact H.
  - assert (G : forall ns0 s0 rq r, meta_sub s0 ->
       meta_sub (fst (fst (fold_left (fun acc n => let '(sa, rqa, _) := acc in let '(sb, rqb, rb) := lookup sa t n in (sb, (rqa ++ rqb)%list, rb)) ns0 (s0, rq, r))))).
    { induction ns0 as [|n ns0 IH]; intros s0 rq r I0; cbn [fold_left]; [exact I0|].
      pose proof (sub_lookup s0 t n I0) as H. destruct (lookup s0 t n) as [[sb rqb] rb]. apply IH. exact H. }
    pose proof (G ns s [] LMiss I) as H. destruct (fold_left _ ns (s, [], LMiss)) as [[s1 rq] r]. exact H.
  - pose proof (sub_lookup s TCl d I) as H1. destruct (lookup s TCl d) as [[s1 rq1] r1]. cbn [fst] in H1.
    destruct r1 as [[l|r0|cl|e|]| | | | | |r0| ]; try exact H1.
    destruct (c_inline cl); [exact H1|].
    pose proof (sub_lookup s1 TEp (c_epname cl) H1) as H2. destruct (lookup s1 TEp (c_epname cl)) as [[s2 rq2] r2]. exact H2.
  - exact I.
  - unfold handle_resp. destruct (s_closed s); [exact I|]. destruct (tget (payload_type p) (s_watched s)) as [ws|] eqn:Ew; [|exact I].
    destruct (decode_payload o p) as [[res|tb]|]; cbn [fst].
    + apply (sub_apply_update _ _ _ ws); [exact Ew|]. revert I. apply sub_same; reflexivity.
    + revert I. apply sub_same; reflexivity.
    + revert I. apply sub_same; reflexivity.
  - exact I.
  - exact I.
  - destruct a; [destruct (s_closed s); [exact I|revert I; apply sub_same; reflexivity]|].
    destruct (s_closed s); [exact I|]. cbn [reconnect fst]. revert I. apply sub_same; reflexivity.
  - destruct (s_closed s); [exact I|revert I; apply sub_same; reflexivity].
  - revert I. apply sub_same; reflexivity.
  - cbn [fst]. destruct (aget n (tget t (s_meta s))) eqn:E; [|exact I].
    intros t' k Hk. cbn [s_meta s_watched] in *. rewrite tget_tset in Hk. destruct (rtype_eqb t' t) eqn:Et; [|apply (I t' k Hk)].
    apply rtype_eqb_eq in Et. subst t'. apply (I t n). unfold amem. rewrite E. reflexivity.
  - assert (H : meta_sub (fst (sweep s))).
    { rewrite sweep_unfold.
      assert (G1 : forall t ns acc, meta_sub (fst acc) -> meta_sub (fst (evict_list t ns acc))).
      { intros t ns. induction ns as [|n ns IH]; intros acc Ia; [exact Ia|]. rewrite evict_list_cons. apply IH. cbn [fst]. apply sub_evict. exact Ia. }
      assert (G2 : forall ts acc, meta_sub (fst acc) -> meta_sub (fst (fold_left (fun acc t => evict_list t (idle_names (fst acc) t) acc) ts acc))).
      { induction ts as [|t ts IH]; intros acc Ia; cbn [fold_left]; [exact Ia|]. apply IH. apply G1. exact Ia. }
      apply G2. exact I. }
    destruct (sweep s) as [s1 rq]. exact H.
Qed.

Lemma finv_step c o s x : finv s -> finv (fst (step c o s x)).
Proof. intros [A B C]. split; [apply step_inv; exact A|apply step_meta_nd; exact B|apply sub_step; exact C]. Qed.

(** ---- lookups ---- *)
Lemma absf_touch t n s t' n' :
  absf t n (touch s t' n') =
  if rtype_eqb t t' && String.eqb n n'
  then {| fv_open := fv_open (absf t n s); fv_table := fv_table (absf t n s); fv_nds := fv_nds (absf t n s); fv_sub := fv_sub (absf t n s);
          fv_in := fv_in (absf t n s); fv_val := fv_val (absf t n s);
          fv_meta := match fv_meta (absf t n s) with Some _ => Some (fv_now (absf t n s)) | None => None end; fv_now := fv_now (absf t n s) |}
  else absf t n s.
Proof.
  unfold absf at 1. rewrite touch_meta_get.
  assert (E : s_closed (touch s t' n') = s_closed s /\ s_table (touch s t' n') = s_table s /\ s_watched (touch s t' n') = s_watched s /\
              s_cache (touch s t' n') = s_cache s /\ s_now (touch s t' n') = s_now s)
    by (unfold touch; destruct (aget n' (tget t' (s_meta s))); repeat split; reflexivity).
  destruct E as (E1 & E2 & E3 & E4 & E5). unfold watched_names. rewrite E1, E2, E3, E4, E5.
  destruct (rtype_eqb t t' && String.eqb n n') eqn:E; [|reflexivity].
  apply andb_true_iff in E. destruct E as [Ea Eb]. apply rtype_eqb_eq in Ea. apply String.eqb_eq in Eb. subst t' n'. reflexivity.
Qed.

Lemma fv_watch_id t n s n' : smem n' (watched_names s t) = true -> fv_watch n (absf t n s) n' = absf t n s.
Proof.
  intros H. unfold fv_watch, absf. cbn [fv_open fv_table fv_nds fv_sub fv_in fv_val fv_meta fv_now].
  assert (Hs : is_some (tget t (s_watched s)) = true).
  { unfold watched_names in H. destruct (tget t (s_watched s)); [reflexivity|discriminate]. }
  rewrite Hs. destruct (String.eqb_spec n n') as [->|Hne]; [rewrite H|rewrite orb_false_r]; reflexivity.
Qed.

Lemma absf_lookup t n s t' n' : t <> TNt -> inv s ->
  absf t n (fst (fst (lookup s t' n'))) = fv_lookup t n (absf t n s) t' n'.
Proof.
  intros Ht I. unfold lookup.
  assert (Ec : s_cache (touch s t' n') = s_cache s) by (unfold touch; destruct (aget n' (tget t' (s_meta s))); reflexivity).
  assert (It : inv (touch s t' n')) by (apply touch_inv; exact I).
  rewrite Ec.
  destruct (aget n' (tget t' (s_cache s))) as [v|] eqn:Eh; cbn [fst].
  - (* hit *)
    assert (Hnt : rtype_eqb t' TNt = false).
    { destruct (rtype_eqb t' TNt) eqn:E; [|reflexivity]. apply rtype_eqb_eq in E. subst t'. rewrite (inv_nt s I) in Eh. discriminate. }
    rewrite absf_touch. unfold fv_lookup, fv_nds_if. rewrite Hnt, (rt_sym t' t).
    destruct (rtype_eqb t t') eqn:Et; cbn [andb]; [|reflexivity].
    apply rtype_eqb_eq in Et. subst t'.
    destruct (String.eqb_spec n n') as [->|Hne].
    + unfold absf. cbn [fv_open fv_table fv_nds fv_sub fv_in fv_val fv_meta fv_now]. rewrite Eh. reflexivity.
    + symmetry. apply fv_watch_id. apply (inv_sub s I). unfold amem. rewrite Eh. reflexivity.
  - (* miss *)
    destruct (watch (touch s t' n') t' n' false) as [s1 rq] eqn:Ew. cbn [fst].
    change s1 with (fst (s1, rq)). rewrite <- Ew, (absf_watch_add t n _ t' n' Ht), absf_touch.
    unfold fv_lookup, fv_subscribe. rewrite (rt_sym t' t).
    destruct (rtype_eqb t t') eqn:Et; cbn [andb].
    + apply rtype_eqb_eq in Et. subst t'.
      assert (Hnt : rtype_eqb t TNt = false) by (destruct t; try reflexivity; exfalso; apply Ht; reflexivity).
      unfold fv_nds_if. rewrite Hnt.
      destruct (String.eqb_spec n n') as [->|Hne]; [|reflexivity].
      unfold absf. cbn [fv_open fv_table fv_nds fv_sub fv_in fv_val fv_meta fv_now]. rewrite Eh. reflexivity.
    + reflexivity.
Qed.

Lemma absf_lookups t n t' ns : t <> TNt -> forall s rq r, inv s ->
  absf t n (fst (fst (fold_left (fun acc n => let '(sa, rqa, _) := acc in let '(sb, rqb, rb) := lookup sa t' n in (sb, (rqa ++ rqb)%list, rb))
                                ns (s, rq, r)))) =
  fold_left (fun a n' => fv_lookup t n a t' n') ns (absf t n s).
Proof.
  intros Ht. induction ns as [|n' ns IH]; intros s rq r I; cbn [fold_left]; [reflexivity|].
  pose proof (absf_lookup t n s t' n' Ht I) as Ha. pose proof (lookup_inv s t' n' I) as Hi.
  destruct (lookup s t' n') as [[sb rqb] rb]. cbn [fst] in Ha, Hi. rewrite IH by exact Hi. rewrite Ha. reflexivity.
Qed.

(** ---- responses ---- *)
Lemma apply_update_meta s t up k :
  aget k (tget t (s_meta (apply_update s t up))) =
  match aget k (tget t (s_meta s)) with
  | Some m => Some m
  | None => if amem k (tget t (s_cache (apply_update s t up))) then Some (s_now s) else None
  end.
Proof. unfold apply_update. cbn [s_meta s_cache]. rewrite !tget_tset, rtype_eqb_refl. apply fold_meta_get. Qed.

Lemma apply_update_meta_other s t up t' : rtype_eqb t' t = false -> tget t' (s_meta (apply_update s t up)) = tget t' (s_meta s).
Proof. intros E. unfold apply_update. cbn [s_meta]. rewrite tget_tset, E. reflexivity. Qed.

Lemma absf_resp_data c o t n s v nn p : t <> TNt -> payload_type p <> TNt -> inv s -> s_closed s = false ->
  absf t n (fst (fst (handle_resp c o s v nn p))) =
  (if rtype_eqb (payload_type p) t && payload_ok o p && fv_sub (absf t n s) then
     match decode_payload o p with
     | Some (DMap res) =>
         let carried :=
           if fv_in (absf t n s) then
             if rtype_eqb t TLis && sc_nds_required c && negb (String.eqb n reserved_lds)
             then match listener_name (sc_f c) (fv_table (absf t n s)) n with Some ln => aget ln res | None => None end
             else aget n res
           else None in
         let val' := match carried with Some cv => Some cv | None => if full_type t then None else fv_val (absf t n s) end in
         {| fv_open := true; fv_table := fv_table (absf t n s); fv_nds := fv_nds (absf t n s); fv_sub := true; fv_in := fv_in (absf t n s); fv_val := val';
            fv_meta := match val', fv_meta (absf t n s) with Some _, None => Some (fv_now (absf t n s)) | _, m => m end; fv_now := fv_now (absf t n s) |}
     | _ => absf t n s
     end
   else absf t n s).
Proof.
  intros Ht Hpt I Ecl. unfold handle_resp. rewrite Ecl, payload_ok_decodes.
  change (fv_sub (absf t n s)) with (is_some (tget t (s_watched s))).
  destruct (rtype_eqb (payload_type p) t) eqn:Et; cbn [andb].
  2: { (* another type: the key's components are untouched *)
    destruct (tget (payload_type p) (s_watched s)); [|reflexivity].
    assert (Et2 : rtype_eqb t (payload_type p) = false) by (rewrite rt_sym; exact Et).
    destruct (decode_payload o p) as [[res|tb]|] eqn:Ed; cbn [fst];
      [|exfalso; apply Hpt; eapply decode_payload_table; exact Ed|apply absf_same; reflexivity].
    apply absf_same; try reflexivity.
    - rewrite apply_update_cache, Et2. reflexivity.
    - rewrite (apply_update_meta_other _ _ _ t Et2). reflexivity. }
  apply rtype_eqb_eq in Et.
  destruct (tget (payload_type p) (s_watched s)) as [ws|] eqn:Ew; rewrite <- Et, Ew; cbn [is_some].
  2: { rewrite andb_false_r. reflexivity. }
  rewrite andb_true_r.
  destruct (decode_payload o p) as [[res|tb]|] eqn:Ed; cbn [fst is_some].
  3: { apply absf_same; reflexivity. }
  2: { exfalso. apply Hpt. eapply decode_payload_table. exact Ed. }
  set (s1 := set_ack s (payload_type p) (Some v) nn).
  assert (I1 : inv s1) by (revert I; apply inv_same; reflexivity).
  pose proof (decode_payload_nodup o p res Ed) as Hres.
  destruct (filter_update_spec c s1 (payload_type p) res Hres (inv_nd s1 I1 _)) as [Hget Hnd].
  unfold absf. cbn [fv_open fv_table fv_nds fv_sub fv_in fv_val fv_meta fv_now].
  rewrite apply_update_meta, apply_update_cache, rtype_eqb_refl, (aget_rev_nodup _ _ Hnd), Hget.
  unfold amem. rewrite apply_update_cache, rtype_eqb_refl, (aget_rev_nodup _ _ Hnd), Hget.
  change (s_closed (apply_update s1 (payload_type p) (filter_update c s1 (payload_type p) res))) with (s_closed s).
  change (s_table (apply_update s1 (payload_type p) (filter_update c s1 (payload_type p) res))) with (s_table s).
  change (s_watched (apply_update s1 (payload_type p) (filter_update c s1 (payload_type p) res))) with (s_watched s).
  change (s_now (apply_update s1 (payload_type p) (filter_update c s1 (payload_type p) res))) with (s_now s).
  change (watched_names (apply_update s1 (payload_type p) (filter_update c s1 (payload_type p) res)) (payload_type p)) with (watched_names s (payload_type p)).
  change (s_table s1) with (s_table s). change (tget (payload_type p) (s_cache s1)) with (tget (payload_type p) (s_cache s)).
  change (tget (payload_type p) (s_meta s1)) with (tget (payload_type p) (s_meta s)). change (s_now s1) with (s_now s).
  change (watched_names s1 (payload_type p)) with (watched_names s (payload_type p)).
  rewrite Ecl, Ew. cbn [negb is_some]. unfold carried.
  destruct (smem n (watched_names s (payload_type p))); cbn [carried].
  - destruct (if rtype_eqb (payload_type p) TLis && sc_nds_required c && negb (String.eqb n reserved_lds)
              then match listener_name (sc_f c) (s_table s) n with Some ln => aget ln res | None => None end else aget n res) as [cv|];
      [destruct (aget n (tget (payload_type p) (s_meta s))); reflexivity|].
    destruct (full_type (payload_type p)); [destruct (aget n (tget (payload_type p) (s_meta s))); reflexivity|].
    destruct (aget n (tget (payload_type p) (s_cache s))); destruct (aget n (tget (payload_type p) (s_meta s))); reflexivity.
  - destruct (full_type (payload_type p)); [destruct (aget n (tget (payload_type p) (s_meta s))); reflexivity|].
    destruct (aget n (tget (payload_type p) (s_cache s))); destruct (aget n (tget (payload_type p) (s_meta s))); reflexivity.
Qed.

Lemma absf_handle_resp c o t n s v nn p : t <> TNt -> inv s ->
  absf t n (fst (fst (handle_resp c o s v nn p))) = fv_step c o t n (absf t n s) (OResp v nn p).
Proof.
  intros Ht I. cbn [fv_step]. change (fv_open (absf t n s)) with (negb (s_closed s)).
  destruct (s_closed s) eqn:Ecl; cbn [negb]; [unfold handle_resp; rewrite Ecl; reflexivity|].
  destruct p as [rs|rs|rs|rs|rs];
    try (apply (absf_resp_data c o t n s v nn _ Ht); [cbn; discriminate|exact I|exact Ecl]).
  unfold handle_resp. rewrite Ecl, payload_ok_decodes. cbn [payload_type].
  change (fv_nds (absf t n s)) with (is_some (tget TNt (s_watched s))).
  destruct (tget TNt (s_watched s)) as [ws|] eqn:Ew; cbn [is_some andb]; [|reflexivity].
  cbn [decode_payload]. destruct (decode_nds rs) as [tb|]; cbn [option_map is_some fst].
  - unfold absf, watched_names. cbn [s_closed s_table s_watched s_cache s_meta s_now set_table set_ack fv_sub fv_in fv_val fv_meta fv_now]. rewrite Ecl, Ew. reflexivity.
  - apply absf_same; reflexivity.
Qed.

(** ---- the sweep ---- *)
Lemma sweep_keeps s : s_closed (fst (sweep s)) = s_closed s /\ s_table (fst (sweep s)) = s_table s /\ s_now (fst (sweep s)) = s_now s.
Proof.
  rewrite sweep_unfold.
  assert (G1 : forall t ns acc, s_closed (fst (evict_list t ns acc)) = s_closed (fst acc) /\ s_table (fst (evict_list t ns acc)) = s_table (fst acc) /\
                                s_now (fst (evict_list t ns acc)) = s_now (fst acc)).
  { intros t ns. induction ns as [|n ns IH]; intros acc; [repeat split; reflexivity|]. rewrite evict_list_cons.
    destruct (IH (fst (evict_one (fst acc) t n), (snd acc ++ snd (evict_one (fst acc) t n))%list)) as (A & B & C0). cbn [fst] in *.
    rewrite A, B, C0. repeat split; reflexivity. }
  assert (G2 : forall ts acc, let r := fold_left (fun acc t => evict_list t (idle_names (fst acc) t) acc) ts acc in
            s_closed (fst r) = s_closed (fst acc) /\ s_table (fst r) = s_table (fst acc) /\ s_now (fst r) = s_now (fst acc)).
  { induction ts as [|t ts IH]; intros acc; cbn [fold_left]; [repeat split; reflexivity|].
    destruct (IH (evict_list t (idle_names (fst acc) t) acc)) as (A & B & C0). destruct (G1 t (idle_names (fst acc) t) acc) as (A1 & B1 & C1).
    cbn zeta in *. rewrite A, B, C0, A1, B1, C1. repeat split; reflexivity. }
  apply (G2 all_types (s, [])).
Qed.

(** whether a type is subscribed at all is not changed by a sweep (an eviction only touches a type that has access
    records, hence is subscribed) *)
Lemma evict_sub s t n t' : meta_sub s -> amem n (tget t (s_meta s)) = true ->
  is_some (tget t' (s_watched (fst (evict_one s t n)))) = is_some (tget t' (s_watched s)).
Proof.
  intros H Hm. unfold evict_one, watch. cbn [fst s_watched]. rewrite tget_tset.
  destruct (rtype_eqb t' t) eqn:E; [|reflexivity]. apply rtype_eqb_eq in E. subst t'.
  specialize (H t n Hm). destruct (tget t (s_watched s)); [reflexivity|contradiction].
Qed.

Lemma idle_has_meta s t n : In n (idle_names s t) -> amem n (tget t (s_meta s)) = true.
Proof.
  unfold idle_names. rewrite in_map_iff. intros [[k tm] [E Hin]]. cbn [fst] in E. subst k. apply filter_In in Hin. destruct Hin as [Hin _].
  apply amem_true_iff. unfold akeys. change n with (fst (n, tm)). apply in_map. exact Hin.
Qed.

Lemma sweep_sub s t' : meta_sub s -> meta_nd s -> is_some (tget t' (s_watched (fst (sweep s)))) = is_some (tget t' (s_watched s)).
Proof.
  intros Hs Hnd. rewrite sweep_unfold.
  (* evicting a list of names that all have access records *)
  assert (G1 : forall t ns acc, meta_sub (fst acc) -> meta_nd (fst acc) -> (forall n, In n ns -> amem n (tget t (s_meta (fst acc))) = true) -> NoDup ns ->
            is_some (tget t' (s_watched (fst (evict_list t ns acc)))) = is_some (tget t' (s_watched (fst acc))) /\
            meta_sub (fst (evict_list t ns acc)) /\ meta_nd (fst (evict_list t ns acc))).
  { intros t ns. induction ns as [|n ns IH]; intros acc Ha Hb Hall Hnod; [repeat split; assumption|].
    rewrite evict_list_cons. inversion Hnod as [|? ? Hn Hnod']; subst.
    destruct (IH (fst (evict_one (fst acc) t n), (snd acc ++ snd (evict_one (fst acc) t n))%list)) as (A & B & C0); cbn [fst].
    - apply sub_evict. exact Ha.
    - apply evict_meta_nd. exact Hb.
    - intros k Hk. rewrite evict_one_meta, tget_tset, rtype_eqb_refl. unfold amem. rewrite aget_adel.
      destruct (String.eqb_spec k n) as [->|Hne]; [contradiction|]. apply (Hall k). right. exact Hk.
    - exact Hnod'.
    - cbn [fst] in A. rewrite A. split; [|split; assumption]. apply evict_sub; [exact Ha|apply Hall; left; reflexivity]. }
  assert (Hnod : forall s0 t, meta_nd s0 -> NoDup (idle_names s0 t)).
  { intros s0 t H0. unfold idle_names. apply (nodup_filter_keys _ _ (H0 t)). }
  assert (G2 : forall ts acc, meta_sub (fst acc) -> meta_nd (fst acc) ->
            is_some (tget t' (s_watched (fst (fold_left (fun acc t => evict_list t (idle_names (fst acc) t) acc) ts acc)))) = is_some (tget t' (s_watched (fst acc)))).
  { induction ts as [|t ts IH]; intros acc Ha Hb; cbn [fold_left]; [reflexivity|].
    destruct (G1 t (idle_names (fst acc) t) acc Ha Hb (fun n Hn => idle_has_meta _ _ _ Hn) (Hnod _ _ Hb)) as (A & B & C0).
    rewrite IH by assumption. exact A. }
  apply (G2 all_types (s, [])); assumption.
Qed.

Lemma absf_sweep c o t n s : finv s -> absf t n (fst (sweep s)) = fv_step c o t n (absf t n s) OSweep.
Proof.
  intros [I Hnd Hs]. cbn [fv_step]. destruct (sweep_spec s t n) as (H1 & H2 & H3). cbn zeta in *.
  destruct (sweep_keeps s) as (K1 & K2 & K3).
  unfold absf. cbn [fv_meta fv_now]. rewrite H1, H2, H3, K1, K2, K3, !(sweep_sub s _ Hs Hnd), (idle_spec s t n Hnd).
  destruct (aget n (tget t (s_meta s))) as [tm|]; [|reflexivity].
  destruct (negb (is_reserved t n) && N.ltb (tm + expire_ms) (s_now s)); reflexivity.
Qed.

(** ---- every operation ---- *)
(** resolutions are followed for keys that are not endpoint sets (an endpoint-set key would need the cluster's fold:
    Proofs/ResolveProofs.v does that for histories without sweeps) *)
Definition full_op (t : rtype) (x : op) : bool :=
  match x with OResolve _ => negb (rtype_eqb t TEp) | _ => true end.

Lemma step_refines_full c o t n s x : t <> TNt -> finv s -> full_op t x = true ->
  absf t n (fst (step c o s x)) = fv_step c o t n (absf t n s) x.
Proof.
  intros Ht F Hx. pose proof (f_inv s F) as I.
  destruct x as [t' n'|t' n'|t' ns|d| |v nn p| |t'|a| |d|t' n' d| ]; cbn [step fv_step].
  - destruct (watch s t' n' false) as [s1 rq] eqn:E. cbn [fst]. change s1 with (fst (s1, rq)). rewrite <- E. apply absf_watch_add. exact Ht.
  - pose proof (absf_lookup t n s t' n' Ht I) as H. destruct (lookup s t' n') as [[s1 rq] r]. exact H.
  - pose proof (absf_lookups t n t' ns Ht s [] LMiss I) as H. destruct (fold_left _ ns (s, [], LMiss)) as [[s1 rq] r]. exact H.
  - (* resolution, t <> TEp *)
    cbn [full_op] in Hx. assert (Hte : rtype_eqb t TEp = false) by (destruct (rtype_eqb t TEp); [discriminate|reflexivity]).
    pose proof (absf_lookup t n s TCl d Ht I) as H1. pose proof (lookup_inv s TCl d I) as I1.
    destruct (lookup s TCl d) as [[s1 rq1] r1]. cbn [fst] in H1, I1.
    assert (G : forall e, absf t n (fst (fst (lookup s1 TEp e))) = absf t n s1).
    { intros e. rewrite (absf_lookup t n s1 TEp e Ht I1). unfold fv_lookup, fv_nds_if. change (rtype_eqb TEp TNt) with false. cbv iota. rewrite (rt_sym TEp t), Hte. reflexivity. }
    destruct r1 as [[l|r0|cl|e|]| | | | | |r0| ]; cbn [fst]; try exact H1.
    destruct (c_inline cl); cbn [fst]; [exact H1|].
    specialize (G (c_epname cl)). destruct (lookup s1 TEp (c_epname cl)) as [[s2 rq2] r2]. cbn [fst] in *. rewrite G. exact H1.
  - reflexivity.
  - pose proof (absf_handle_resp c o t n s v nn p Ht I) as H. destruct (handle_resp c o s v nn p) as [[s1 rq] ups]. exact H.
  - reflexivity.
  - reflexivity.
  - destruct a.
    + cbn [fst]. destruct (s_closed s) eqn:Ecl; unfold absf, watched_names; cbn [close_client s_closed s_table s_watched s_cache s_meta s_now]; rewrite ?Ecl; reflexivity.
    + destruct (s_closed s); [reflexivity|]. cbn [reconnect fst]. apply absf_same; reflexivity.
  - cbn [fst]. destruct (s_closed s); [reflexivity|apply absf_same; reflexivity].
  - cbn [fst]. unfold absf, tick, watched_names. reflexivity.
  - cbn [fst]. unfold absf, watched_names. cbn [fv_meta fv_open fv_table fv_nds fv_sub fv_in fv_val fv_now].
    destruct (rtype_eqb t' t) eqn:Et.
    + apply rtype_eqb_eq in Et. subst t'. destruct (String.eqb_spec n n') as [->|Hne]; cbn [andb].
      * destruct (aget n' (tget t (s_meta s))) as [tm|] eqn:E; [|rewrite ?E; reflexivity].
        cbn [s_closed s_table s_watched s_cache s_meta s_now]. rewrite tget_tset, rtype_eqb_refl, aget_aset_same, ?E. reflexivity.
      * destruct (aget n' (tget t (s_meta s))) as [tm|] eqn:E; [|reflexivity].
        cbn [s_closed s_table s_watched s_cache s_meta s_now]. rewrite tget_tset, rtype_eqb_refl, (aget_aset_other _ _ _ _ Hne). reflexivity.
    + cbn [andb]. destruct (aget n' (tget t' (s_meta s))) as [tm|]; [|reflexivity].
      cbn [s_closed s_table s_watched s_cache s_meta s_now]. rewrite tget_tset, (rt_sym t t'), Et. reflexivity.
  - pose proof (absf_sweep c o t n s F) as H. destruct (sweep s) as [s1 rq]. exact H.
Qed.

(** C01 + C19 in one statement: after ANY history - eviction sweeps, clock ticks, stream failures, responses of every
    kind, lookups, bursts, subscriptions - the content served for a key, whether it is of interest, its access record,
    the name table, the clock and the open/closed status are those of the per-key fold [fv_step] *)
Lemma run_refines_full c o t n h : t <> TNt -> forallb (full_op t) h = true -> forall s, finv s ->
  absf t n (fst (run c o s h)) = fold_left (fv_step c o t n) h (absf t n s).
Proof.
  intros Ht. induction h as [|x h IH]; intros Hh s F; cbn [run fold_left]; [reflexivity|].
  cbn [forallb] in Hh. apply andb_true_iff in Hh. destruct Hh as [Hx Hh].
  pose proof (step_refines_full c o t n s x Ht F Hx) as Hs. pose proof (finv_step c o s x F) as Hi.
  destruct (step c o s x) as [s1 ot]. cbn [fst] in Hs, Hi.
  specialize (IH Hh s1 Hi). destruct (run c o s1 h) as [s2 ots]. cbn [fst] in *. rewrite IH, Hs. reflexivity.
Qed.

Theorem final_refines_full c o t n h : t <> TNt -> forallb (full_op t) h = true ->
  absf t n (final c o h) = fold_left (fv_step c o t n) h fv_init.
Proof. intros Ht Hh. unfold final. rewrite (run_refines_full c o t n h Ht Hh _ finv_init), absf_init. reflexivity. Qed.

Lemma full_example_proof :
  let c := {| sc_nds_required := false; sc_f := {| f_ns := "default"; f_dom := "cluster.local" |} |} in
  let o := mk_oracle [] [] [] in
  let cl n := RGood {| cl_name := n; cl_type := Some 3; cl_lb := 0; cl_eds_service := None; cl_outlier := None; cl_load := None |} in
  let h := [OSubscribe TCl "a"; OSubscribe TCl "b"; OResp "1" "n1" (PCds [cl "a"; cl "b"]); OTick 20000; OLookup TCl "b"; OTick 20000; OSweep;
            OResp "2" "n2" (PCds [cl "a"; cl "b"])] in
  map (fun n => let v := fold_left (fv_step c o TCl n) h fv_init in (fv_in v, is_some (fv_val v), fv_meta v)) ["a"; "b"] =
  [(false, false, None); (true, true, Some 1020000%N)].
Proof. vm_compute. reflexivity. Qed.

(** ---- endpoint-set keys with resolver lookups; resolution after any history ---- *)
Lemma full_op_not_ep t x : t <> TEp -> full_op t x = true.
Proof. intros H. destruct x; try reflexivity. cbn [full_op]. destruct t; try reflexivity. exfalso. apply H. reflexivity. Qed.

Lemma final_finv c o h : finv (final c o h).
Proof.
  unfold final. assert (G : forall h0 s, finv s -> finv (fst (run c o s h0))).
  { induction h0 as [|x h0 IH]; intros s F; cbn [run]; [exact F|].
    pose proof (finv_step c o s x F) as H. destruct (step c o s x) as [s1 ot]. cbn [fst] in H.
    specialize (IH s1 H). destruct (run c o s1 h0). exact IH. }
  apply G. exact finv_init.
Qed.

(** the cluster served after ANY history is the cluster's complete fold *)
Lemma cluster_is_full_fold c o pre d : aget d (tget TCl (s_cache (final c o pre))) = fv_val (cl_fview c o pre d).
Proof.
  unfold cl_fview. rewrite <- (final_refines_full c o TCl d pre); [reflexivity|discriminate|].
  apply forallb_forall. intros x _. apply full_op_not_ep. discriminate.
Qed.

Lemma step_full_resolve_ep c o n s d : inv s ->
  absf TEp n (fst (step c o s (OResolve d))) =
  match aget d (tget TCl (s_cache s)) with
  | Some (VCl cl) => match c_inline cl with
                     | Some _ => absf TEp n s
                     | None => fv_lookup TEp n (absf TEp n s) TEp (c_epname cl)
                     end
  | _ => absf TEp n s
  end.
Proof.
  intros I. cbn [step].
  assert (Ht : TEp <> TNt) by discriminate.
  pose proof (absf_lookup TEp n s TCl d Ht I) as H1. pose proof (lookup_inv s TCl d I) as I1.
  destruct (lookup_result_cache s TCl d) as [Hr Hc].
  destruct (lookup s TCl d) as [[s1 rq1] r1]. cbn [fst snd] in H1, I1, Hr, Hc.
  assert (H1' : absf TEp n s1 = absf TEp n s) by (rewrite H1; reflexivity).
  subst r1. destruct (aget d (tget TCl (s_cache s))) as [[l|r0|cl|e|]|]; cbn [fst]; try exact H1'.
  destruct (c_inline cl); cbn [fst]; [exact H1'|].
  pose proof (absf_lookup TEp n s1 TEp (c_epname cl) Ht I1) as H2.
  destruct (lookup s1 TEp (c_epname cl)) as [[s2 rq2] r2]. cbn [fst] in *. rewrite H2, H1'. reflexivity.
Qed.

Lemma final_snoc_full c o pre x : final c o (pre ++ [x]) = fst (step c o (final c o pre) x).
Proof.
  unfold final. rewrite run_app. cbn [run]. destruct (step c o (fst (run c o init_state pre)) x) as [s1 ot]. reflexivity.
Qed.

(** the complete refinement for endpoint-set keys: EVERY history, no exception *)
Lemma run_refines_ep_full c o n h : forall pre,
  absf TEp n (fst (run c o (final c o pre) h)) = ep_ffold c o n pre (absf TEp n (final c o pre)) h.
Proof.
  induction h as [|x h IH]; intros pre; cbn [run ep_ffold]; [reflexivity|].
  specialize (IH (pre ++ [x])%list). rewrite final_snoc_full in IH.
  pose proof (final_finv c o pre) as F.
  destruct (step c o (final c o pre) x) as [s1 ot] eqn:Es. cbn [fst] in IH.
  destruct (run c o s1 h) as [s2 ots]. cbn [fst] in *. rewrite IH. f_equal.
  assert (E1 : s1 = fst (step c o (final c o pre) x)) by (rewrite Es; reflexivity). rewrite E1.
  destruct x; try (apply step_refines_full; [discriminate|exact F|reflexivity]).
  rewrite (step_full_resolve_ep c o n _ desc (f_inv _ F)), (cluster_is_full_fold c o pre desc). reflexivity.
Qed.

Lemma endpoints_are_full_fold c o pre e : aget e (tget TEp (s_cache (final c o pre))) = fv_val (ep_fview c o pre e).
Proof.
  unfold ep_fview. pose proof (run_refines_ep_full c o e pre []) as H.
  change (final c o []) with init_state in H. rewrite absf_init in H. rewrite <- H. reflexivity.
Qed.

(** C10 after ANY history (eviction sweeps, clock ticks, failures, earlier resolutions): resolving [d] returns [resolve]
    applied to the complete folds *)
Theorem resolution_of_any_history c o pre d :
  o_lookup (snd (step c o (final c o pre) (OResolve d))) = Some (LResolved (expected_resolution_full c o pre d)).
Proof.
  rewrite resolve_step. unfold expected_resolution_full, cached_cluster.
  rewrite (cluster_is_full_fold c o pre d). f_equal. f_equal.
  destruct (fv_val (cl_fview c o pre d)) as [[l|r0|cl|e|]|]; try reflexivity.
  apply resolve_eds_ext. unfold cached_endpoints. rewrite (endpoints_are_full_fold c o pre _). reflexivity.
Qed.
