(** C01: the state machine of Model/Sys.v refines, key by key, the fold [kv_step] of Model/SysCheck.v
    (the same executable specification that is evaluated on the implementation's traces). *)
From Xds Require Import Model.Base Model.Fqdn Model.Proto Model.Decode Model.DecodeCheck Model.Pick Model.Route Model.Mw Model.Sys Model.SysCheck.
From Xds Require Import Proofs.MapLemmas Proofs.DecodeProofs Proofs.PreserveProofs Proofs.PolicyProofs Proofs.SysProofs.
From Coq Require Import Lia Permutation.
Open Scope string_scope.

(** ---- sets of names ---- *)
Lemma smem_In k l : smem k l = true <-> In k l.
Proof.
  induction l as [|x l IH]; cbn [smem In]; [split; [discriminate|tauto]|].
  rewrite orb_true_iff, IH. split; intros [H|H]; auto.
  - left. apply String.eqb_eq in H. congruence.
  - left. subst. apply String.eqb_refl.
Qed.

Lemma sadd_mem k l : smem k l = true -> sadd k l = l.
Proof. unfold sadd. intros ->. reflexivity. Qed.

Lemma smem_sadd k x l : smem k (sadd x l) = String.eqb k x || smem k l.
Proof.
  unfold sadd. destruct (smem x l) eqn:E; [|reflexivity].
  destruct (String.eqb_spec k x) as [->|Hne]; [rewrite E; reflexivity|reflexivity].
Qed.

Lemma nodup_sadd x l : NoDup l -> NoDup (sadd x l).
Proof.
  unfold sadd. intros H. destruct (smem x l) eqn:E; [exact H|]. constructor; [|exact H].
  intros Hin. apply smem_In in Hin. congruence.
Qed.

Lemma smem_sdel k x l : smem k (sdel x l) = negb (String.eqb k x) && smem k l.
Proof.
  induction l as [|y l IH]; cbn [sdel smem]; [rewrite andb_false_r; reflexivity|].
  destruct (String.eqb_spec x y) as [->|Hxy].
  - rewrite IH. destruct (String.eqb k y); reflexivity.
  - cbn [smem]. rewrite IH. destruct (String.eqb_spec k y) as [->|Hky]; cbn [orb].
    + destruct (String.eqb_spec y x); [congruence|reflexivity].
    + reflexivity.
Qed.

Lemma nodup_sdel x l : NoDup l -> NoDup (sdel x l).
Proof.
  induction 1 as [|y l Hy Hl IH]; cbn [sdel]; [constructor|].
  destruct (String.eqb x y); [exact IH|]. constructor; [|exact IH].
  intros Hin. apply smem_In in Hin. rewrite smem_sdel in Hin. apply andb_true_iff in Hin. destruct Hin as [_ Hin].
  apply smem_In in Hin. contradiction.
Qed.

(** ---- per-type maps ---- *)
Lemma rtype_eqb_eq a b : rtype_eqb a b = true <-> a = b.
Proof. destruct a, b; cbn; split; congruence. Qed.
Lemma rtype_eqb_refl a : rtype_eqb a a = true.
Proof. destruct a; reflexivity. Qed.
Lemma tget_tset {A} t t' (v : A) m : tget t (tset t' v m) = if rtype_eqb t t' then v else tget t m.
Proof. destruct t, t'; reflexivity. Qed.

(** ---- association lists ---- *)
Lemma aget_filter_key {V} (p : string -> bool) k (m : list (string * V)) :
  aget k (filter (fun kv => p (fst kv)) m) = if p k then aget k m else None.
Proof.
  induction m as [|[x y] m IH]; cbn [filter fst aget]; [destruct (p k); reflexivity|].
  destruct (String.eqb_spec k x) as [->|Hne].
  - destruct (p x) eqn:Ep; cbn [aget]; [rewrite String.eqb_refl; reflexivity|exact IH].
  - destruct (p x); cbn [aget]; [destruct (String.eqb_spec k x); [congruence|]|]; exact IH.
Qed.

Lemma nodup_filter_keys {V} (p : string * V -> bool) (m : list (string * V)) : NoDup (akeys m) -> NoDup (akeys (filter p m)).
Proof.
  unfold akeys. induction m as [|[x y] m IH]; cbn [filter map fst]; intros H; [constructor|].
  inversion H as [|? ? Hx Hm]; subst. destruct (p (x, y)); [|apply IH; exact Hm].
  cbn [map fst]. constructor; [|apply IH; exact Hm].
  intros Hin. apply Hx. apply in_map_iff in Hin. destruct Hin as [[a b] [E Hin]]. apply filter_In in Hin.
  apply in_map_iff. exists (a, b). tauto.
Qed.

Lemma aget_rev_nodup {V} k (m : list (string * V)) : NoDup (akeys m) -> aget k (rev m) = aget k m.
Proof. intros H. symmetry. apply aget_perm; [exact H|apply Permutation_rev]. Qed.

Lemma amem_vmap {A} (f : A -> cval) k m : aget k (vmap f m) = option_map f (aget k m).
Proof.
  unfold vmap. induction m as [|[x y] m IH]; cbn [map aget fst snd]; [reflexivity|].
  destruct (String.eqb k x); [reflexivity|exact IH].
Qed.
Lemma akeys_vmap {A} (f : A -> cval) m : akeys (vmap f m) = akeys m.
Proof. unfold akeys, vmap. rewrite map_map. reflexivity. Qed.

(** the update maps produced by decoding have one entry per name (they are Go maps) *)
Lemma decode_payload_nodup o p res : decode_payload o p = Some (DMap res) -> NoDup (akeys res).
Proof.
  destruct p as [rs|rs|rs|rs|rs]; cbn [decode_payload].
  - destruct (decode_lds o rs) as [m|] eqn:E; cbn [option_map]; [|discriminate]. intros H. injection H as <-.
    rewrite akeys_vmap. unfold decode_lds in E. exact (proj1 (decode_all_spec _ rs [] m (NoDup_nil _) E)).
  - destruct (decode_rds o rs) as [m|] eqn:E; cbn [option_map]; [|discriminate]. intros H. injection H as <-.
    rewrite akeys_vmap. unfold decode_rds in E. exact (proj1 (decode_all_spec _ rs [] m (NoDup_nil _) E)).
  - destruct (decode_cds rs) as [m|] eqn:E; cbn [option_map]; [|discriminate]. intros H. injection H as <-.
    rewrite akeys_vmap. unfold decode_cds in E. exact (proj1 (decode_all_spec _ rs [] m (NoDup_nil _) E)).
  - destruct (decode_eds rs) as [m|] eqn:E; cbn [option_map]; [|discriminate]. intros H. injection H as <-.
    rewrite akeys_vmap. unfold decode_eds in E. exact (proj1 (decode_all_spec _ rs [] m (NoDup_nil _) E)).
  - destruct (decode_nds rs); cbn [option_map]; discriminate.
Qed.

Lemma payload_ok_decodes o p : payload_ok o p = is_some (decode_payload o p).
Proof.
  destruct p as [rs|rs|rs|rs|rs]; cbn [payload_ok decode_payload].
  - rewrite <- (decode_lds_some o). destruct (decode_lds o rs); reflexivity.
  - rewrite <- (decode_rds_some o). destruct (decode_rds o rs); reflexivity.
  - rewrite <- decode_cds_some. destruct (decode_cds rs); reflexivity.
  - rewrite <- decode_eds_some. destruct (decode_eds rs); reflexivity.
  - rewrite <- decode_nds_some. destruct (decode_nds rs); reflexivity.
Qed.

(** ---- UpdateResource on the cache ---- *)
Lemma apply_update_cache s t up k t' :
  aget k (tget t' (s_cache (apply_update s t up))) =
  if rtype_eqb t' t
  then match aget k (rev up) with
       | Some v => Some v
       | None => if full_type t then None else aget k (tget t (s_cache s))
       end
  else aget k (tget t' (s_cache s)).
Proof.
  unfold apply_update. cbn [s_cache]. rewrite tget_tset. destruct (rtype_eqb t' t) eqn:Et; [|reflexivity].
  destruct (full_type t).
  - rewrite (aget_filter_key (fun x => amem x up)), fold_aset_get_rev, <- (amem_rev k up). unfold amem.
    destruct (aget k (rev up)); reflexivity.
  - apply fold_aset_get_rev.
Qed.

(** what the interest filter hands to UpdateResource, name by name *)
Lemma flat_map_opt_get {V} (g : string -> option V) ws k :
  aget k (flat_map (fun n => match g n with Some v => [(n, v)] | None => [] end) ws) = if smem k ws then g k else None.
Proof.
  induction ws as [|w ws IH]; cbn [flat_map smem]; [reflexivity|].
  rewrite aget_app. destruct (String.eqb_spec k w) as [->|Hne]; cbn [orb].
  - destruct (g w) eqn:Eg; cbn [aget]; [rewrite String.eqb_refl; reflexivity|].
    rewrite IH. destruct (smem w ws); reflexivity.
  - destruct (g w); cbn [aget]; [destruct (String.eqb_spec k w); [congruence|]|]; exact IH.
Qed.

Lemma flat_map_opt_nodup {V} (g : string -> option V) ws :
  NoDup ws -> NoDup (akeys (flat_map (fun n => match g n with Some v => [(n, v)] | None => [] end) ws)).
Proof.
  unfold akeys. induction 1 as [|w ws Hw Hws IH]; cbn [flat_map map]; [constructor|].
  rewrite map_app. destruct (g w); cbn [map app fst]; [|exact IH]. constructor; [|exact IH].
  intros Hin. apply Hw. apply in_map_iff in Hin. destruct Hin as [[a b] [E Hin]]. cbn [fst] in E. subst a.
  apply in_flat_map in Hin. destruct Hin as [n [Hn Hin]]. destruct (g n); [|destruct Hin].
  destruct Hin as [E|[]]. injection E as -> _. exact Hn.
Qed.

Definition carried (c : scfg) (tb : table) (t : rtype) (ws : list string) (res : list (string * cval)) (n : string) : option cval :=
  if smem n ws then
    if rtype_eqb t TLis && sc_nds_required c && negb (String.eqb n reserved_lds)
    then match listener_name (sc_f c) tb n with Some ln => aget ln res | None => None end
    else aget n res
  else None.

Lemma filter_update_spec c s t res :
  NoDup (akeys res) -> NoDup (watched_names s t) ->
  (forall k, aget k (filter_update c s t res) = carried c (s_table s) t (watched_names s t) res k) /\
  NoDup (akeys (filter_update c s t res)).
Proof.
  intros Hres Hws.
  assert (Hl : t = TLis ->
          filter_update c s t res =
          flat_map (fun n => match (if sc_nds_required c && negb (String.eqb n reserved_lds)
                                    then match listener_name (sc_f c) (s_table s) n with Some ln => aget ln res | None => None end
                                    else aget n res) with Some v => [(n, v)] | None => [] end) (watched_names s TLis)).
  { intros ->. unfold filter_update. apply flat_map_ext. intros n.
    destruct (sc_nds_required c && negb (String.eqb n reserved_lds)); [|reflexivity].
    destruct (listener_name (sc_f c) (s_table s) n); reflexivity. }
  destruct t; try (rewrite (Hl eq_refl); split;
    [intros k; rewrite flat_map_opt_get; unfold carried; cbn [rtype_eqb andb]; reflexivity|apply flat_map_opt_nodup; exact Hws]);
  (split; [intros k; unfold filter_update, carried; cbn [rtype_eqb andb];
           rewrite (aget_filter_key (fun x => smem x _)); reflexivity
          |unfold filter_update; apply nodup_filter_keys; exact Hres]).
Qed.

(** ---- invariant of reachable states ---- *)
Record inv (s : state) : Prop := {
  inv_sub : forall t n, amem n (tget t (s_cache s)) = true -> smem n (watched_names s t) = true;   (* never stored unless asked for *)
  inv_nd : forall t, NoDup (watched_names s t);
  inv_nt : tget TNt (s_cache s) = []
}.

Lemma init_inv : inv init_state.
Proof. split; [intros [] n H; discriminate|intros []; constructor|reflexivity]. Qed.

Lemma inv_same s s' :
  s_cache s' = s_cache s -> s_watched s' = s_watched s -> inv s -> inv s'.
Proof.
  intros Hc Hw [I1 I2 I3]. unfold watched_names in *. split; unfold watched_names; rewrite ?Hc, ?Hw; assumption.
Qed.

Lemma touch_inv s t n : inv s -> inv (touch s t n).
Proof. apply inv_same; unfold touch; destruct (aget n (tget t (s_meta s))); reflexivity. Qed.

Lemma watch_cache s t n rm : s_cache (fst (watch s t n rm)) = s_cache s.
Proof. reflexivity. Qed.

Lemma watch_add_inv s t n : inv s -> inv (fst (watch s t n false)).
Proof.
  intros [I1 I2 I3]. split.
  - intros t' k H. rewrite watch_cache in H. rewrite watch_interest. specialize (I1 t' k H).
    destruct (rtype_eqb t' t) eqn:Et; [|exact I1]. apply rtype_eqb_eq in Et. subst t'.
    rewrite smem_sadd, I1. apply orb_true_r.
  - intros t'. rewrite watch_interest. destruct (rtype_eqb t' t) eqn:Et; [|apply I2].
    apply nodup_sadd. apply I2.
  - exact I3.
Qed.

Lemma lookup_inv s t n : inv s -> inv (fst (fst (lookup s t n))).
Proof.
  intros I. unfold lookup. pose proof (touch_inv s t n I) as It.
  destruct (aget n (tget t (s_cache (touch s t n)))); [exact It|].
  destruct (watch (touch s t n) t n false) as [s1 rq] eqn:Ew. cbn [fst].
  change s1 with (fst (s1, rq)). rewrite <- Ew. apply watch_add_inv. exact It.
Qed.

Lemma evict_inv s t n : inv s -> inv (fst (evict_one s t n)).
Proof.
  intros [I1 I2 I3]. unfold evict_one.
  match goal with |- inv (fst (watch ?s1 t n true)) => set (s1' := s1) end.
  split.
  - intros t' k H. rewrite watch_cache in H. rewrite watch_interest.
    unfold s1' in H. cbn [s_cache] in H. rewrite tget_tset in H.
    destruct (rtype_eqb t' t) eqn:Et.
    + apply rtype_eqb_eq in Et. subst t'. rewrite smem_sdel.
      destruct (String.eqb_spec k n) as [->|Hne].
      * unfold amem in H. rewrite aget_adel_same in H. discriminate.
      * unfold amem in H. rewrite aget_adel_other in H by exact Hne. cbn [negb andb]. apply (I1 t k H).
    + apply (I1 t' k H).
  - intros t'. rewrite watch_interest. destruct (rtype_eqb t' t); [apply nodup_sdel|]; apply (I2 _).
  - rewrite watch_cache. unfold s1'. cbn [s_cache]. rewrite tget_tset.
    destruct (rtype_eqb TNt t) eqn:Et; [|exact I3]. apply rtype_eqb_eq in Et. subst t. rewrite I3. reflexivity.
Qed.

Lemma apply_update_inv c s t res :
  t <> TNt -> NoDup (akeys res) -> inv s -> inv (apply_update s t (filter_update c s t res)).
Proof.
  intros Ht Hres I. destruct (filter_update_spec c s t res Hres (inv_nd s I t)) as [Hget Hnd].
  destruct I as [I1 I2 I3]. split.
  - intros t' k H. change (watched_names (apply_update s t (filter_update c s t res)) t') with (watched_names s t').
    unfold amem in H. rewrite apply_update_cache in H.
    destruct (rtype_eqb t' t) eqn:Et; [|apply I1; exact H].
    apply rtype_eqb_eq in Et. subst t'. rewrite (aget_rev_nodup _ _ Hnd), Hget in H.
    unfold carried in H. destruct (smem k (watched_names s t)) eqn:Es; [reflexivity|].
    destruct (full_type t); [discriminate|]. rewrite <- Es. apply I1. exact H.
  - exact I2.
  - unfold apply_update. cbn [s_cache]. rewrite tget_tset.
    destruct (rtype_eqb TNt t) eqn:Et; [apply rtype_eqb_eq in Et; congruence|exact I3].
Qed.

Lemma payload_type_dmap o p res : decode_payload o p = Some (DMap res) -> payload_type p <> TNt.
Proof. destruct p; cbn; try discriminate. destruct (decode_nds rs); discriminate. Qed.

Lemma handle_resp_inv c o s v nn p : inv s -> inv (fst (fst (handle_resp c o s v nn p))).
Proof.
  intros I. unfold handle_resp. destruct (s_closed s); [exact I|].
  destruct (tget (payload_type p) (s_watched s)); [|exact I].
  destruct (decode_payload o p) as [[res|tb]|] eqn:Ed; cbn [fst].
  - assert (I1 : inv (set_ack s (payload_type p) (Some v) nn)) by (revert I; apply inv_same; reflexivity).
    apply apply_update_inv; [eapply payload_type_dmap; exact Ed|eapply decode_payload_nodup; exact Ed|exact I1].
  - revert I. apply inv_same; reflexivity.
  - revert I. apply inv_same; reflexivity.
Qed.

Lemma lookups_inv t ns : forall s rq r,
  inv s -> inv (fst (fst (fold_left (fun acc n => let '(sa, rqa, _) := acc in let '(sb, rqb, rb) := lookup sa t n in (sb, (rqa ++ rqb)%list, rb))
                                    ns (s, rq, r)))).
Proof.
  induction ns as [|n ns IH]; intros s rq r I; cbn [fold_left]; [exact I|].
  destruct (lookup s t n) as [[sb rqb] rb] eqn:El. apply IH.
  change sb with (fst (fst (sb, rqb, rb))). rewrite <- El. apply lookup_inv. exact I.
Qed.

Lemma sweep_inv s : inv s -> inv (fst (sweep s)).
Proof.
  unfold sweep.
  assert (Hin : forall t ns acc, inv (fst acc) ->
            inv (fst (fold_left (fun acc2 n => let '(s2, rq) := evict_one (fst acc2) t n in (s2, (snd acc2 ++ rq)%list)) ns acc))).
  { intros t ns. induction ns as [|n ns IH]; intros acc I; cbn [fold_left]; [exact I|].
    destruct (evict_one (fst acc) t n) as [s2 rq] eqn:Ee. apply IH. cbn [fst].
    change s2 with (fst (s2, rq)). rewrite <- Ee. apply evict_inv; assumption. }
  intros I. generalize (s, @nil (N * request)) (I : inv (fst (s, @nil (N * request)))).
  induction all_types as [|t ts IH]; intros acc Ia; cbn [fold_left]; [exact Ia|].
  apply IH. apply Hin. exact Ia.
Qed.

(** the invariant holds in every reachable state: whatever the history, no name is stored that was not asked for *)
Lemma step_inv c o s x : inv s -> inv (fst (step c o s x)).
Proof.
  intros I. destruct x as [t n|t n|t ns|d| |v nn p| |t|a| |d|t n d| ]; cbn [step].
  - destruct (watch s t n false) as [s1 rq] eqn:E. cbn [fst]. change s1 with (fst (s1, rq)). rewrite <- E. apply watch_add_inv. exact I.
  - destruct (lookup s t n) as [[s1 rq] r] eqn:E. cbn [fst]. change s1 with (fst (fst (s1, rq, r))). rewrite <- E. apply lookup_inv. exact I.
  - pose proof (lookups_inv t ns s [] LMiss I) as H.
    destruct (fold_left _ ns (s, [], LMiss)) as [[s1 rq] r]. exact H.
  - pose proof (lookup_inv s TCl d I) as H1. destruct (lookup s TCl d) as [[s1 rq1] r1]. cbn [fst] in H1.
    destruct r1 as [[l|r0|cl|e|]| | | | | |r0| ]; try exact H1.
    destruct (c_inline cl); [exact H1|].
    pose proof (lookup_inv s1 TEp (c_epname cl) H1) as H2. destruct (lookup s1 TEp (c_epname cl)) as [[s2 rq2] r2]. exact H2.
  - exact I.
  - pose proof (handle_resp_inv c o s v nn p I) as H. destruct (handle_resp c o s v nn p) as [[s1 rq] ups]. exact H.
  - exact I.
  - exact I.
  - destruct a; [destruct (s_closed s); [exact I|revert I; apply inv_same; reflexivity]|].
    destruct (s_closed s); [exact I|]. cbn [reconnect fst]. revert I. apply inv_same; reflexivity.
  - destruct (s_closed s); [exact I|revert I; apply inv_same; reflexivity].
  - revert I. apply inv_same; reflexivity.
  - cbn [fst]. destruct (aget n (tget t (s_meta s))); [revert I; apply inv_same; reflexivity|exact I].
  - pose proof (sweep_inv s I) as H. destruct (sweep s) as [s1 rq]. exact H.
Qed.

Lemma run_inv c o h : forall s, inv s -> inv (fst (run c o s h)).
Proof.
  induction h as [|x h IH]; intros s I; cbn [run]; [exact I|].
  pose proof (step_inv c o s x I) as H. destruct (step c o s x) as [s1 ot]. cbn [fst] in H.
  specialize (IH s1 H). destruct (run c o s1 h) as [s2 ots]. exact IH.
Qed.

Lemma reachable_inv c o h : inv (final c o h).
Proof. apply run_inv. exact init_inv. Qed.

(** ---- refinement: the per-key abstraction of the state follows [kv_step] ---- *)
Definition abs (t : rtype) (n : string) (s : state) : keyview :=
  {| kv_open := negb (s_closed s); kv_table := s_table s; kv_nds_sub := is_some (tget TNt (s_watched s));
     kv_interest := tget t (s_watched s); kv_val := aget n (tget t (s_cache s)) |}.

Lemma abs_same t n s s' :
  s_closed s' = s_closed s -> s_table s' = s_table s -> s_watched s' = s_watched s ->
  aget n (tget t (s_cache s')) = aget n (tget t (s_cache s)) -> abs t n s' = abs t n s.
Proof. intros H1 H2 H3 H4. unfold abs. rewrite H1, H2, H3, H4. reflexivity. Qed.

Lemma abs_init t n : abs t n init_state = kv_init.
Proof. destruct t; reflexivity. Qed.

Lemma abs_touch t n s t' n' : abs t n (touch s t' n') = abs t n s.
Proof. unfold touch. destruct (aget n' (tget t' (s_meta s))); reflexivity. Qed.

Lemma abs_watch_add t n s t' n' : t <> TNt ->
  abs t n (fst (watch s t' n' false)) = kv_subscribe t (abs t n s) t' n'.
Proof.
  intros Ht. unfold kv_subscribe, kv_nds, kv_watch, watch, abs, watched_names. cbn [fst s_closed s_table s_watched s_cache].
  destruct t; try (exfalso; apply Ht; reflexivity); destruct t'; reflexivity.
Qed.

Lemma kv_watch_id t n s n' : smem n' (watched_names s t) = true -> kv_watch (abs t n s) n' = abs t n s.
Proof.
  unfold kv_watch, abs, watched_names. cbn [kv_interest kv_open kv_table kv_nds_sub kv_val].
  destruct (tget t (s_watched s)) as [ws|]; [|discriminate]. intros H. rewrite (sadd_mem _ _ H). reflexivity.
Qed.

Lemma abs_lookup t n s t' n' : t <> TNt -> inv s ->
  abs t n (fst (fst (lookup s t' n'))) = kv_lookup t n (abs t n s) t' n'.
Proof.
  intros Ht I. unfold lookup.
  assert (Ec : s_cache (touch s t' n') = s_cache s) by (unfold touch; destruct (aget n' (tget t' (s_meta s))); reflexivity).
  rewrite Ec.
  destruct (aget n' (tget t' (s_cache s))) as [v|] eqn:Eh.
  - (* hit: nothing changes *)
    cbn [fst]. rewrite abs_touch. unfold kv_lookup.
    assert (Hnt : rtype_eqb t' TNt = false).
    { destruct (rtype_eqb t' TNt) eqn:E; [|reflexivity]. apply rtype_eqb_eq in E. subst t'. rewrite (inv_nt s I) in Eh. discriminate. }
    unfold kv_nds. rewrite Hnt. destruct (rtype_eqb t' t) eqn:Et; [|reflexivity].
    apply rtype_eqb_eq in Et. subst t'.
    assert (Hw : smem n' (watched_names s t) = true) by (apply (inv_sub s I); unfold amem; rewrite Eh; reflexivity).
    destruct (kv_val (abs t n s)); [destruct (String.eqb n' n); [reflexivity|]|]; symmetry; apply kv_watch_id; exact Hw.
  - (* miss: subscribe *)
    destruct (watch (touch s t' n') t' n' false) as [s1 rq] eqn:Ew. cbn [fst].
    change s1 with (fst (s1, rq)). rewrite <- Ew, (abs_watch_add t n _ t' n' Ht), abs_touch.
    unfold kv_lookup, kv_subscribe. destruct (rtype_eqb t' t) eqn:Et; [|reflexivity].
    apply rtype_eqb_eq in Et. subst t'.
    assert (Hnt : rtype_eqb t TNt = false) by (destruct t; try reflexivity; exfalso; apply Ht; reflexivity).
    unfold kv_nds. rewrite Hnt.
    destruct (kv_val (abs t n s)) eqn:Ev; [|reflexivity].
    destruct (String.eqb_spec n' n) as [->|Hne]; [|reflexivity].
    unfold abs in Ev. cbn [kv_val] in Ev. congruence.
Qed.

Lemma abs_lookups t n t' ns : t <> TNt -> forall s rq r, inv s ->
  abs t n (fst (fst (fold_left (fun acc n => let '(sa, rqa, _) := acc in let '(sb, rqb, rb) := lookup sa t' n in (sb, (rqa ++ rqb)%list, rb))
                               ns (s, rq, r)))) =
  fold_left (fun a n' => kv_lookup t n a t' n') ns (abs t n s).
Proof.
  intros Ht. induction ns as [|n' ns IH]; intros s rq r I; cbn [fold_left]; [reflexivity|].
  pose proof (abs_lookup t n s t' n' Ht I) as Ha. pose proof (lookup_inv s t' n' I) as Hi.
  destruct (lookup s t' n') as [[sb rqb] rb]. cbn [fst] in Ha, Hi. rewrite IH by exact Hi. rewrite Ha. reflexivity.
Qed.

Definition kv_data (c : scfg) (o : oracle) (t : rtype) (n : string) (v : keyview) (p : payload) : keyview :=
  if rtype_eqb (payload_type p) t && payload_ok o p then
    match kv_interest v, decode_payload o p with
    | Some ws, Some (DMap res) =>
        let carried :=
          if smem n ws then
            if rtype_eqb t TLis && sc_nds_required c && negb (String.eqb n reserved_lds)
            then match listener_name (sc_f c) (kv_table v) n with Some ln => aget ln res | None => None end
            else aget n res
          else None in
        {| kv_open := true; kv_table := kv_table v; kv_nds_sub := kv_nds_sub v; kv_interest := kv_interest v;
           kv_val := match carried with
                     | Some cv => Some cv
                     | None => if full_type t then None else kv_val v
                     end |}
    | _, _ => v
    end
  else v.

Lemma decode_payload_table o p tb : decode_payload o p = Some (DTable tb) -> payload_type p = TNt.
Proof.
  destruct p as [rs|rs|rs|rs|rs]; cbn [decode_payload payload_type]; try reflexivity.
  - destruct (decode_lds o rs); discriminate.
  - destruct (decode_rds o rs); discriminate.
  - destruct (decode_cds rs); discriminate.
  - destruct (decode_eds rs); discriminate.
Qed.

Lemma abs_resp_data c o t n s v nn p : t <> TNt -> payload_type p <> TNt -> inv s -> s_closed s = false ->
  abs t n (fst (fst (handle_resp c o s v nn p))) = kv_data c o t n (abs t n s) p.
Proof.
  intros Ht Hpt I Ecl. unfold handle_resp, kv_data. rewrite Ecl, payload_ok_decodes.
  destruct (tget (payload_type p) (s_watched s)) as [ws|] eqn:Ew.
  2: { (* unsubscribed type *)
    cbn [fst]. destruct (rtype_eqb (payload_type p) t) eqn:Et; cbn [andb]; [|reflexivity].
    apply rtype_eqb_eq in Et. destruct (is_some (decode_payload o p)); [|reflexivity].
    change (kv_interest (abs t n s)) with (tget t (s_watched s)). rewrite <- Et, Ew. reflexivity. }
  destruct (decode_payload o p) as [[res|tb]|] eqn:Ed; cbn [fst is_some].
  3: { rewrite andb_false_r. apply abs_same; reflexivity. }
  2: { exfalso. apply Hpt. eapply decode_payload_table. exact Ed. }
  rewrite andb_true_r. destruct (rtype_eqb (payload_type p) t) eqn:Et.
  2: { apply abs_same; try reflexivity. rewrite apply_update_cache.
       destruct (rtype_eqb t (payload_type p)) eqn:Et2; [|reflexivity].
       apply rtype_eqb_eq in Et2. subst t. rewrite rtype_eqb_refl in Et. discriminate. }
  apply rtype_eqb_eq in Et.
  change (kv_interest (abs t n s)) with (tget t (s_watched s)). rewrite <- Et, Ew.
  set (s1 := set_ack s (payload_type p) (Some v) nn).
  assert (I1 : inv s1) by (revert I; apply inv_same; reflexivity).
  pose proof (decode_payload_nodup o p res Ed) as Hres.
  destruct (filter_update_spec c s1 (payload_type p) res Hres (inv_nd s1 I1 _)) as [Hget Hnd].
  unfold abs. cbn [kv_open kv_table kv_nds_sub kv_interest kv_val].
  rewrite apply_update_cache, rtype_eqb_refl, (aget_rev_nodup _ _ Hnd), Hget.
  change (s_closed (apply_update s1 (payload_type p) (filter_update c s1 (payload_type p) res))) with (s_closed s).
  change (s_table (apply_update s1 (payload_type p) (filter_update c s1 (payload_type p) res))) with (s_table s).
  change (s_watched (apply_update s1 (payload_type p) (filter_update c s1 (payload_type p) res))) with (s_watched s).
  change (s_table s1) with (s_table s). change (tget (payload_type p) (s_cache s1)) with (tget (payload_type p) (s_cache s)).
  rewrite Ecl, Ew. unfold carried, watched_names. change (s_watched s1) with (s_watched s). rewrite Ew. reflexivity.
Qed.

Lemma abs_handle_resp c o t n s v nn p : t <> TNt -> inv s ->
  abs t n (fst (fst (handle_resp c o s v nn p))) = kv_step c o t n (abs t n s) (OResp v nn p).
Proof.
  intros Ht I. cbn [kv_step]. change (kv_open (abs t n s)) with (negb (s_closed s)).
  destruct (s_closed s) eqn:Ecl; cbn [negb]; [unfold handle_resp; rewrite Ecl; reflexivity|].
  destruct p as [rs|rs|rs|rs|rs];
    try (apply (abs_resp_data c o t n s v nn _ Ht); [cbn; discriminate|exact I|exact Ecl]).
  (* name table *)
  unfold handle_resp. rewrite Ecl, payload_ok_decodes. cbn [payload_type].
  change (kv_nds_sub (abs t n s)) with (is_some (tget TNt (s_watched s))).
  destruct (tget TNt (s_watched s)) as [ws|] eqn:Ew; cbn [is_some andb]; [|reflexivity].
  cbn [decode_payload]. destruct (decode_nds rs) as [tb|]; cbn [option_map is_some fst].
  - unfold abs. cbn [s_closed s_table s_watched s_cache set_table set_ack kv_interest kv_val]. rewrite Ecl, Ew. reflexivity.
  - apply abs_same; reflexivity.
Qed.

(** operations of C01's histories: everything except eviction sweeps (C19) and the resolver's two-stage lookup (C10) *)
Definition c01_op (x : op) : bool := match x with OSweep | OResolve _ => false | _ => true end.

Lemma step_refines c o t n s x : t <> TNt -> inv s -> c01_op x = true ->
  abs t n (fst (step c o s x)) = kv_step c o t n (abs t n s) x.
Proof.
  intros Ht I Hx. destruct x as [t' n'|t' n'|t' ns|d| |v nn p| |t'|a| |d|t' n' d| ]; try discriminate; cbn [step kv_step].
  - destruct (watch s t' n' false) as [s1 rq] eqn:E. cbn [fst]. change s1 with (fst (s1, rq)). rewrite <- E.
    apply abs_watch_add. exact Ht.
  - pose proof (abs_lookup t n s t' n' Ht I) as H. destruct (lookup s t' n') as [[s1 rq] r]. exact H.
  - pose proof (abs_lookups t n t' ns Ht s [] LMiss I) as H.
    destruct (fold_left _ ns (s, [], LMiss)) as [[s1 rq] r]. exact H.
  - reflexivity.
  - pose proof (abs_handle_resp c o t n s v nn p Ht I) as H. destruct (handle_resp c o s v nn p) as [[s1 rq] ups]. exact H.
  - reflexivity.
  - reflexivity.
  - destruct a.
    + cbn [fst]. destruct (s_closed s) eqn:Ecl; unfold abs; cbn [close_client s_closed s_table s_watched s_cache]; rewrite ?Ecl; reflexivity.
    + destruct (s_closed s); [reflexivity|]. cbn [reconnect fst]. apply abs_same; reflexivity.
  - cbn [fst]. destruct (s_closed s); [reflexivity|apply abs_same; reflexivity].
  - reflexivity.
  - cbn [fst]. destruct (aget n' (tget t' (s_meta s))); [apply abs_same; reflexivity|reflexivity].
Qed.

(** C01, refinement: after ANY history the content served for (t, n), the interest set, the name table and the
    open/closed status are those of the per-key fold of the history *)
Lemma run_refines c o t n h : t <> TNt -> forallb c01_op h = true -> forall s, inv s ->
  abs t n (fst (run c o s h)) = fold_left (kv_step c o t n) h (abs t n s).
Proof.
  intros Ht. induction h as [|x h IH]; intros Hh s I; cbn [run fold_left]; [reflexivity|].
  cbn [forallb] in Hh. apply andb_true_iff in Hh. destruct Hh as [Hx Hh].
  pose proof (step_refines c o t n s x Ht I Hx) as Hs. pose proof (step_inv c o s x I) as Hi.
  destruct (step c o s x) as [s1 ot]. cbn [fst] in Hs, Hi.
  specialize (IH Hh s1 Hi). destruct (run c o s1 h) as [s2 ots]. cbn [fst] in *. rewrite IH, Hs. reflexivity.
Qed.

Lemma final_refines c o t n h : t <> TNt -> forallb c01_op h = true ->
  abs t n (final c o h) = fold_left (kv_step c o t n) h kv_init.
Proof. intros Ht Hh. unfold final. rewrite (run_refines c o t n h Ht Hh _ init_inv), abs_init. reflexivity. Qed.

(** a lookup succeeds exactly when the fold holds the name, and returns the fold's content *)
Lemma lookup_serves_fold c o t n h : t <> TNt -> forallb c01_op h = true ->
  snd (lookup (final c o h) t n) =
  match kv_val (fold_left (kv_step c o t n) h kv_init) with Some v => LHit v | None => LMiss end.
Proof.
  intros Ht Hh. rewrite <- (final_refines c o t n h Ht Hh). cbn [abs kv_val].
  generalize (final c o h). intros s. unfold lookup.
  assert (Ec : s_cache (touch s t n) = s_cache s) by (unfold touch; destruct (aget n (tget t (s_meta s))); reflexivity).
  rewrite Ec. destruct (aget n (tget t (s_cache s))); [reflexivity|].
  destruct (watch (touch s t n) t n false). reflexivity.
Qed.

(** names that were never asked for are never stored or served *)
Lemma never_asked_never_served c o h t n :
  smem n (watched_names (final c o h) t) = false -> aget n (tget t (s_cache (final c o h))) = None.
Proof.
  intros H. destruct (aget n (tget t (s_cache (final c o h)))) eqn:E; [|reflexivity].
  rewrite (inv_sub _ (reachable_inv c o h) t n) in H; [discriminate|]. unfold amem. rewrite E. reflexivity.
Qed.

(** the fold, spelled out for one accepted response of the key's own type (the interest set [ws] containing the name) *)
Lemma fold_step_accepted c o t n v ver nonce p res ws :
  kv_open v = true -> payload_type p = t -> t <> TNt -> decode_payload o p = Some (DMap res) -> kv_interest v = Some ws -> smem n ws = true ->
  kv_val (kv_step c o t n v (OResp ver nonce p)) =
    match (if rtype_eqb t TLis && sc_nds_required c && negb (String.eqb n reserved_lds)
           then match listener_name (sc_f c) (kv_table v) n with Some ln => aget ln res | None => None end
           else aget n res) with
    | Some cv => Some cv                                   (* carried: the latest content *)
    | None => if full_type t then None else kv_val v       (* omitted: dropped for listeners/clusters, kept for routes/endpoints *)
    end.
Proof.
  intros Ho Hp Ht Hd Hi Hn.
  assert (E : kv_step c o t n v (OResp ver nonce p) = kv_data c o t n v p).
  { cbn [kv_step]. rewrite Ho. cbn [negb]. destruct p; try reflexivity. exfalso. apply Ht. rewrite <- Hp. reflexivity. }
  rewrite E. unfold kv_data. rewrite Hp, rtype_eqb_refl, payload_ok_decodes, Hd, Hi, Hn. reflexivity.
Qed.

(** a rejected (malformed) response, or one of a type that is not subscribed, leaves the fold where it was *)
Lemma fold_step_rejected c o t n v ver nonce p :
  decode_payload o p = None -> kv_step c o t n v (OResp ver nonce p) = v.
Proof.
  intros Hd. cbn [kv_step]. destruct (kv_open v); cbn [negb]; [|reflexivity].
  destruct p; rewrite ?payload_ok_decodes, ?Hd; cbn [is_some]; rewrite ?andb_false_r; try reflexivity.
Qed.

Lemma C01_example_proof :
  let c := {| sc_nds_required := false; sc_f := {| f_ns := "default"; f_dom := "cluster.local" |} |} in
  let o := mk_oracle [] [] [] in
  let cl n := RGood {| cl_name := n; cl_type := Some 3; cl_lb := 0; cl_eds_service := None; cl_outlier := None; cl_load := None |} in
  let h := [OSubscribe TCl "a"; OSubscribe TCl "b"; OResp "1" "n1" (PCds [cl "a"; cl "b"; cl "zz"]); OResp "2" "n2" (PCds [cl "b"])] in
  map (fun n => is_some (aget n (tget TCl (s_cache (final c o h))))) ["a"; "b"; "zz"] = [false; true; false].
Proof. vm_compute. reflexivity. Qed.

Lemma run_app c o s h1 h2 : fst (run c o s (h1 ++ h2)) = fst (run c o (fst (run c o s h1)) h2).
Proof.
  revert s. induction h1 as [|x h1 IH]; intros s; cbn [app run]; [reflexivity|].
  destruct (step c o s x) as [s1 ot]. specialize (IH s1).
  destruct (run c o s1 (h1 ++ h2)) as [sa oa]. destruct (run c o s1 h1) as [sb ob]. cbn [fst] in *. exact IH.
Qed.

