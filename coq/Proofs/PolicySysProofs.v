(** C16-C18 end to end: the consumers' state tracks the manager's cache along every history (without sweeps) of the
    joint machine [jstep] (manager + client + registered consumers). *)
From Xds Require Import Model.Base Model.Fqdn Model.Proto Model.Decode Model.DecodeCheck Model.Pick Model.Route Model.Mw Model.Sys Model.SysCheck Model.Policy Model.PolicyCheck.
From Xds Require Import Proofs.MapLemmas Proofs.PolicyProofs Proofs.SysProofs Proofs.C01Proofs Proofs.SweepProofs.
From Coq Require Import Lia.
Open Scope string_scope.

Definition not_sweep (x : op) : bool := match x with OSweep => false | _ => true end.
Definition pop_ok (x : pop) : bool := match x with POp y => not_sweep y | PReg _ => true end.

Lemma resolve_keeps_cache_aux c o s d :
  o_updates (snd (step c o s (OResolve d))) = [] /\ s_cache (fst (step c o s (OResolve d))) = s_cache s.
Proof.
  split; [|apply resolve_keeps_cache]. cbn [step].
  destruct (lookup s TCl d) as [[s1 rq1] r1].
  destruct r1 as [[l|r0|cl|e|]| | | | | |r0| ]; try reflexivity.
  destruct (c_inline cl); [reflexivity|]. destruct (lookup s1 TEp (c_epname cl)) as [[s2 rq2] r2]. reflexivity.
Qed.

(** what a step does to the cache and which handler runs it causes *)
Lemma step_cache_or_update c o s y : not_sweep y = true ->
  (o_updates (snd (step c o s y)) = [] /\ s_cache (fst (step c o s y)) = s_cache s) \/
  (exists t, o_updates (snd (step c o s y)) = [{| u_type := t; u_map := tget t (s_cache (fst (step c o s y))) |}] /\
             forall t', t' <> t -> tget t' (s_cache (fst (step c o s y))) = tget t' (s_cache s)).
Proof.
  intros Hy. destruct y as [t n|t n|t ns|d| |v nn p| |t|a| |d|t n d| ]; try discriminate; cbn [step].
  - left. destruct (watch s t n false) as [s1 rq] eqn:E. cbn [fst snd o_updates]. split; [reflexivity|].
    change s1 with (fst (s1, rq)). rewrite <- E. reflexivity.
  - left. destruct (lookup_result_cache s t n) as [_ Hc]. destruct (lookup s t n) as [[s1 rq] r]. cbn [fst snd o_updates] in *. split; [reflexivity|exact Hc].
  - left.
    assert (G : forall ns0 s0 rq r, s_cache (fst (fst (fold_left (fun acc n => let '(sa, rqa, _) := acc in let '(sb, rqb, rb) := lookup sa t n in (sb, (rqa ++ rqb)%list, rb)) ns0 (s0, rq, r)))) = s_cache s0).
    { induction ns0 as [|n ns0 IH]; intros s0 rq r; cbn [fold_left]; [reflexivity|].
      destruct (lookup_result_cache s0 t n) as [_ Hc]. destruct (lookup s0 t n) as [[sb rqb] rb]. cbn [fst] in Hc. rewrite IH. exact Hc. }
    specialize (G ns s [] LMiss). destruct (fold_left _ ns (s, [], LMiss)) as [[s1 rq] r]. cbn [fst snd o_updates] in *. split; [reflexivity|exact G].
  - left. pose proof (resolve_keeps_cache_aux c o s d) as H. exact H.
  - left. split; reflexivity.
  - unfold handle_resp. destruct (s_closed s); [left; split; reflexivity|].
    destruct (tget (payload_type p) (s_watched s)); [|left; split; reflexivity].
    destruct (decode_payload o p) as [[m|tb]|]; cbn [fst snd o_updates]; [|left; split; reflexivity|left; split; reflexivity].
    right. exists (payload_type p). split; [reflexivity|].
    intros t' Ht'. unfold apply_update. cbn [s_cache set_ack]. rewrite tget_tset.
    destruct (rtype_eqb t' (payload_type p)) eqn:E; [apply rtype_eqb_eq in E; congruence|reflexivity].
  - left. split; reflexivity.
  - cbn [fst snd o_updates]. destruct (tget t (s_has_cache s)); [right; exists t; split; [reflexivity|intros; reflexivity]|left; split; reflexivity].
  - left. destruct a; [destruct (s_closed s); split; reflexivity|]. destruct (s_closed s); split; reflexivity.
  - left. destruct (s_closed s); split; reflexivity.
  - left. split; reflexivity.
  - left. cbn [fst snd o_updates]. destruct (aget n (tget t (s_meta s))); split; reflexivity.
Qed.

(** the per-type cache map exists as soon as it is non-empty *)
Definition hc_inv (s : state) : Prop := forall t, tget t (s_has_cache s) = false -> tget t (s_cache s) = [].

Lemma hc_init : hc_inv init_state.
Proof. intros t _. destruct t; reflexivity. Qed.

Lemma hc_same s s' : s_cache s' = s_cache s -> s_has_cache s' = s_has_cache s -> hc_inv s -> hc_inv s'.
Proof. intros E1 E2 H t Ht. rewrite E1. apply H. rewrite <- E2. exact Ht. Qed.

Lemma lookup_has_cache s t n : s_has_cache (fst (fst (lookup s t n))) = s_has_cache s.
Proof.
  unfold lookup. assert (E : s_has_cache (touch s t n) = s_has_cache s) by (unfold touch; destruct (aget n (tget t (s_meta s))); reflexivity).
  destruct (aget n (tget t (s_cache (touch s t n)))); [exact E|].
  destruct (watch (touch s t n) t n false) as [s1 rq] eqn:Ew. cbn [fst]. change s1 with (fst (s1, rq)). rewrite <- Ew. exact E.
Qed.

Lemma fold_aset_nil {V} (l : list (string * V)) : l <> [] -> forall acc, fold_left (fun acc kv => aset (fst kv) (snd kv) acc) l acc <> [] .
Proof.
  intros Hl acc H. destruct l as [|kv l]; [exact (Hl eq_refl)|]. cbn [fold_left] in H.
  assert (G : forall (l0 : list (string * V)) a, a <> [] -> fold_left (fun acc kv => aset (fst kv) (snd kv) acc) l0 a <> []).
  { induction l0 as [|x l0 IH]; intros a Ha; cbn [fold_left]; [exact Ha|]. apply IH. unfold aset. discriminate. }
  apply (G l (aset (fst kv) (snd kv) acc)); [unfold aset; discriminate|exact H].
Qed.

Lemma apply_update_hc s t up : hc_inv s -> hc_inv (apply_update s t up).
Proof.
  intros H t' Ht'. unfold apply_update in *. cbn [s_cache s_has_cache] in *. rewrite tget_tset.
  destruct (rtype_eqb t' t) eqn:E.
  - apply rtype_eqb_eq in E. subst t'. destruct up as [|kv up].
    + cbn [fold_left]. rewrite (H t Ht'). destruct (full_type t); reflexivity.
    + rewrite tget_tset, rtype_eqb_refl in Ht'. discriminate.
  - apply H. destruct up; [exact Ht'|]. rewrite tget_tset, E in Ht'. exact Ht'.
Qed.

Lemma step_hc c o s y : not_sweep y = true -> hc_inv s -> hc_inv (fst (step c o s y)).
Proof.
  intros Hy I. destruct y as [t n|t n|t ns|d| |v nn p| |t|a| |d|t n d| ]; try discriminate; cbn [step].
  - destruct (watch s t n false) as [s1 rq] eqn:E. cbn [fst]. revert I. apply hc_same; change s1 with (fst (s1, rq)); rewrite <- E; reflexivity.
  - destruct (lookup_result_cache s t n) as [_ Hc]. pose proof (lookup_has_cache s t n) as Hh.
    destruct (lookup s t n) as [[s1 rq] r]. cbn [fst] in *. revert I. apply hc_same; assumption.
  - assert (G : forall ns0 s0 rq r, hc_inv s0 ->
        hc_inv (fst (fst (fold_left (fun acc n => let '(sa, rqa, _) := acc in let '(sb, rqb, rb) := lookup sa t n in (sb, (rqa ++ rqb)%list, rb)) ns0 (s0, rq, r))))).
    { induction ns0 as [|n ns0 IH]; intros s0 rq r I0; cbn [fold_left]; [exact I0|].
      destruct (lookup_result_cache s0 t n) as [_ Hc]. pose proof (lookup_has_cache s0 t n) as Hh.
      destruct (lookup s0 t n) as [[sb rqb] rb]. cbn [fst] in *. apply IH. revert I0. apply hc_same; assumption. }
    specialize (G ns s [] LMiss I). destruct (fold_left _ ns (s, [], LMiss)) as [[s1 rq] r]. exact G.
  - destruct (lookup_result_cache s TCl d) as [_ Hc]. pose proof (lookup_has_cache s TCl d) as Hh.
    destruct (lookup s TCl d) as [[s1 rq1] r1]. cbn [fst] in *.
    assert (I1 : hc_inv s1) by (revert I; apply hc_same; assumption).
    destruct r1 as [[l|r0|cl|e|]| | | | | |r0| ]; try exact I1.
    destruct (c_inline cl); [exact I1|].
    destruct (lookup_result_cache s1 TEp (c_epname cl)) as [_ Hc2]. pose proof (lookup_has_cache s1 TEp (c_epname cl)) as Hh2.
    destruct (lookup s1 TEp (c_epname cl)) as [[s2 rq2] r2]. cbn [fst] in *. revert I1. apply hc_same; assumption.
  - exact I.
  - unfold handle_resp. destruct (s_closed s); [exact I|]. destruct (tget (payload_type p) (s_watched s)); [|exact I].
    destruct (decode_payload o p) as [[m|tb]|]; cbn [fst]; [apply apply_update_hc|..]; (revert I; apply hc_same; reflexivity).
  - exact I.
  - exact I.
  - destruct a; [destruct (s_closed s); [exact I|revert I; apply hc_same; reflexivity]|].
    destruct (s_closed s); [exact I|]. cbn [reconnect fst]. revert I. apply hc_same; reflexivity.
  - destruct (s_closed s); [exact I|revert I; apply hc_same; reflexivity].
  - revert I. apply hc_same; reflexivity.
  - cbn [fst]. destruct (aget n (tget t (s_meta s))); [revert I; apply hc_same; reflexivity|exact I].
Qed.

(** ---- the consumers track the cache ---- *)
(** circuit breaker: every destination configured by the cached clusters has that configuration; every other entry is
    disabled *)
Definition cb_tracks (cs : cb_state) (cache : list (string * cval)) : Prop :=
  forall k, aget k (cb_cfg cs) =
            match aget k (rev (cb_policies cache)) with
            | Some pol => Some pol
            | None => match aget k (cb_cfg cs) with Some _ => Some cb_disabled | None => None end
            end.
(** retry: the installed keys are exactly those of the cached route tables *)
Definition rt_tracks (rs : rt_state) (cache : list (string * cval)) : Prop :=
  forall k, amem k (rt_pol rs) = smem k (map fst (flat_map (fun kv => table_finals (snd kv)) cache)).
(** limiter: the limit is the one of the cached inbound listener *)
Definition lim_tracks (ls : lim_state) (cache : list (string * cval)) : Prop :=
  lm_qps ls = limiter_qps (lm_port ls) cache.

Record jinv (sp : state * pstate) : Prop := {
  j_hc : hc_inv (fst sp);
  j_cb : forall cs, p_cb (snd sp) = Some cs -> cb_inv cs /\ cb_tracks cs (tget TCl (s_cache (fst sp)));
  j_rt : forall rs, p_rt (snd sp) = Some rs -> rt_inv rs /\ rt_tracks rs (tget TRc (s_cache (fst sp)));
  j_lim : forall ls, p_lim (snd sp) = Some ls -> lim_tracks ls (tget TLis (s_cache (fst sp)))
}.

Lemma cb_update_tracks cs up : cb_inv cs -> cb_tracks (cb_update cs up) up.
Proof.
  intros I k. rewrite (cb_update_spec cs up k I).
  destruct (aget k (rev (cb_policies up))); [reflexivity|]. destruct (aget k (cb_cfg cs)); reflexivity.
Qed.

Lemma cb_init_tracks : cb_tracks cb_init [].
Proof. intros k. reflexivity. Qed.
Lemma rt_init_tracks : rt_tracks rt_init [].
Proof. intros k. reflexivity. Qed.

(** one handler run with the new cache of its type re-establishes the tracking for that type and leaves the others *)
Lemma apply_tracks s1 p t :
  (forall cs, p_cb p = Some cs -> cb_inv cs /\ (t <> TCl -> cb_tracks cs (tget TCl (s_cache s1)))) ->
  (forall rs, p_rt p = Some rs -> rt_inv rs /\ (t <> TRc -> rt_tracks rs (tget TRc (s_cache s1)))) ->
  (forall ls, p_lim p = Some ls -> t <> TLis -> lim_tracks ls (tget TLis (s_cache s1))) ->
  let p' := p_apply p {| u_type := t; u_map := tget t (s_cache s1) |} in
  (forall cs, p_cb p' = Some cs -> cb_inv cs /\ cb_tracks cs (tget TCl (s_cache s1))) /\
  (forall rs, p_rt p' = Some rs -> rt_inv rs /\ rt_tracks rs (tget TRc (s_cache s1))) /\
  (forall ls, p_lim p' = Some ls -> lim_tracks ls (tget TLis (s_cache s1))).
Proof.
  intros Hcb Hrt Hlim. unfold p_apply. cbn [u_type u_map].
  destruct t; cbn [p_cb p_rt p_lim].
  - (* listeners *) split; [|split].
    + intros cs E. destruct (Hcb cs E) as [A B]. split; [exact A|apply B; discriminate].
    + intros rs E. destruct (Hrt rs E) as [A B]. split; [exact A|apply B; discriminate].
    + intros ls E. destruct (p_lim p) as [l0|]; [|discriminate]. cbn [option_map] in E. injection E as <-. reflexivity.
  - (* route tables *) split; [|split].
    + intros cs E. destruct (Hcb cs E) as [A B]. split; [exact A|apply B; discriminate].
    + intros rs E. destruct (p_rt p) as [r0|] eqn:Er; [|discriminate]. cbn [option_map] in E. injection E as <-.
      destruct (Hrt r0 eq_refl) as [A _]. split; [apply rt_update_inv; exact A|]. intros k. apply rt_update_keys. exact A.
    + intros ls E. apply (Hlim ls E). discriminate.
  - (* clusters *) split; [|split].
    + intros cs E. destruct (p_cb p) as [c0|] eqn:Ec; [|discriminate]. cbn [option_map] in E. injection E as <-.
      destruct (Hcb c0 eq_refl) as [A _]. split; [apply cb_update_inv; exact A|apply cb_update_tracks; exact A].
    + intros rs E. destruct (Hrt rs E) as [A B]. split; [exact A|apply B; discriminate].
    + intros ls E. apply (Hlim ls E). discriminate.
  - split; [|split].
    + intros cs E. destruct (Hcb cs E) as [A B]. split; [exact A|apply B; discriminate].
    + intros rs E. destruct (Hrt rs E) as [A B]. split; [exact A|apply B; discriminate].
    + intros ls E. apply (Hlim ls E). discriminate.
  - split; [|split].
    + intros cs E. destruct (Hcb cs E) as [A B]. split; [exact A|apply B; discriminate].
    + intros rs E. destruct (Hrt rs E) as [A B]. split; [exact A|apply B; discriminate].
    + intros ls E. apply (Hlim ls E). discriminate.
Qed.

Lemma jinv_init : jinv (init_state, p_init).
Proof. split; [exact hc_init|discriminate|discriminate|discriminate]. Qed.

Lemma tracks_transport s s1 p :
  (forall t', tget t' (s_cache s1) = tget t' (s_cache s)) ->
  jinv (s, p) -> hc_inv s1 -> jinv (s1, p).
Proof.
  intros E [H1 H2 H3 H4] Hh. cbn [fst snd] in *. split; cbn [fst snd]; [exact Hh| | |].
  - intros cs Ec. rewrite E. apply H2. exact Ec.
  - intros rs Er. rewrite E. apply H3. exact Er.
  - intros ls El. rewrite E. apply H4. exact El.
Qed.

Lemma jstep_op_inv c o s p y : not_sweep y = true -> jinv (s, p) -> jinv (jstep c o (s, p) (POp y)).
Proof.
  intros Hy J. pose proof (step_hc c o s y Hy (j_hc _ J)) as Hh.
  unfold jstep. cbn [fst snd].
  destruct (step_cache_or_update c o s y Hy) as [[Hu Hc]|[t [Hu Hc]]];
    destruct (step c o s y) as [s1 ot]; cbn [fst snd] in *; rewrite Hu; cbn [fold_left].
  - apply (tracks_transport s s1 p); [intros t'; rewrite Hc; reflexivity|exact J|exact Hh].
  - destruct J as [H1 H2 H3 H4]. cbn [fst snd] in *.
    destruct (apply_tracks s1 p t) as (A & B & C).
    + intros cs E. destruct (H2 cs E) as [X Y]. split; [exact X|]. intros Ht. rewrite (Hc TCl) by (intros E0; apply Ht; rewrite E0; reflexivity). exact Y.
    + intros rs E. destruct (H3 rs E) as [X Y]. split; [exact X|]. intros Ht. rewrite (Hc TRc) by (intros E0; apply Ht; rewrite E0; reflexivity). exact Y.
    + intros ls E Ht. rewrite (Hc TLis) by (intros E0; apply Ht; rewrite E0; reflexivity). apply H4. exact E.
    + split; cbn [fst snd]; [exact Hh|exact A|exact B|exact C].
Qed.

(** registering a consumer: it starts from the current cache *)
Lemma jstep_reg_inv c o s p k : jinv (s, p) -> jinv (jstep c o (s, p) (PReg k)).
Proof.
  intros J. unfold jstep. cbn [fst snd step o_updates]. destruct J as [H1 H2 H3 H4]. cbn [fst snd] in *.
  set (t := consumer_type k).
  assert (Hc : tget t (s_has_cache s) = false -> tget t (s_cache s) = []) by (apply H1).
  unfold p_register.
  destruct k as [| |port]; cbn [consumer_type] in *; unfold t in *.
  - (* breaker *)
    destruct (tget TCl (s_has_cache s)) eqn:Eh; cbn [fold_left].
    + split; cbn [fst snd p_apply u_type u_map p_cb p_rt p_lim option_map]; [exact H1| |exact H3|exact H4].
      intros cs E. injection E as <-. split; [apply cb_update_inv; exact cb_init_inv|apply cb_update_tracks; exact cb_init_inv].
    + split; cbn [fst snd p_cb p_rt p_lim]; [exact H1| |exact H3|exact H4].
      intros cs E. injection E as <-. rewrite (Hc eq_refl). split; [exact cb_init_inv|exact cb_init_tracks].
  - (* retry *)
    destruct (tget TRc (s_has_cache s)) eqn:Eh; cbn [fold_left].
    + split; cbn [fst snd p_apply u_type u_map p_cb p_rt p_lim option_map]; [exact H1|exact H2| |exact H4].
      intros rs E. injection E as <-. split; [apply rt_update_inv; exact rt_init_inv|]. intros k. apply rt_update_keys. exact rt_init_inv.
    + split; cbn [fst snd p_cb p_rt p_lim]; [exact H1|exact H2| |exact H4].
      intros rs E. injection E as <-. rewrite (Hc eq_refl). split; [exact rt_init_inv|exact rt_init_tracks].
  - (* limiter *)
    destruct (tget TLis (s_has_cache s)) eqn:Eh; cbn [fold_left].
    + split; cbn [fst snd p_apply u_type u_map p_cb p_rt p_lim option_map]; [exact H1|exact H2|exact H3|].
      intros ls E. injection E as <-. reflexivity.
    + split; cbn [fst snd p_cb p_rt p_lim option_map]; [exact H1|exact H2|exact H3|].
      intros ls E. injection E as <-. unfold lim_tracks. cbn [lm_qps lm_port]. rewrite (Hc eq_refl). reflexivity.
Qed.

Lemma jstep_inv c o sp x : pop_ok x = true -> jinv sp -> jinv (jstep c o sp x).
Proof.
  destruct sp as [s p]. destruct x as [y|k]; intros Hx J; [apply jstep_op_inv; assumption|apply jstep_reg_inv; exact J].
Qed.

Lemma jrun_inv c o h : forallb pop_ok h = true -> jinv (jrun c o h).
Proof.
  unfold jrun. generalize (init_state, p_init) jinv_init.
  induction h as [|x h IH]; intros sp J Hh; cbn [fold_left]; [exact J|].
  cbn [forallb] in Hh. apply andb_true_iff in Hh. destruct Hh as [Hx Hh].
  apply IH; [apply jstep_inv; assumption|exact Hh].
Qed.

(** C16 end to end: after ANY history of the manager with a breaker registered at any point, a destination is enabled
    with (threshold, volume) exactly when the cluster CURRENTLY cached under its name has both non-zero; every other
    configured destination is disabled *)
Theorem breaker_tracks_cache c o h cs : forallb pop_ok h = true -> p_cb (snd (jrun c o h)) = Some cs ->
  cb_tracks cs (tget TCl (s_cache (fst (jrun c o h)))).
Proof. intros Hh E. exact (proj2 (j_cb _ (jrun_inv c o h Hh) cs E)). Qed.

Theorem retry_tracks_cache c o h rs : forallb pop_ok h = true -> p_rt (snd (jrun c o h)) = Some rs ->
  rt_tracks rs (tget TRc (s_cache (fst (jrun c o h)))).
Proof. intros Hh E. exact (proj2 (j_rt _ (jrun_inv c o h Hh) rs E)). Qed.

Theorem limiter_tracks_cache c o h ls : forallb pop_ok h = true -> p_lim (snd (jrun c o h)) = Some ls ->
  lim_tracks ls (tget TLis (s_cache (fst (jrun c o h)))).
Proof. intros Hh E. exact (j_lim _ (jrun_inv c o h Hh) ls E). Qed.

(** the manager side of the joint machine is the state machine of Model/Sys.v (a registration changes nothing there),
    so its cache is the fold of the accepted responses (C01_refinement) *)
Definition op_of (x : pop) : op := match x with POp y => y | PReg k => ORegister (consumer_type k) end.

Lemma jrun_manager c o h : fst (jrun c o h) = final c o (map op_of h).
Proof.
  unfold jrun, final.
  assert (G : forall h0 s p, fst (fold_left (jstep c o) h0 (s, p)) = fst (run c o s (map op_of h0))).
  { induction h0 as [|x h0 IH]; intros s p; cbn [fold_left map run]; [reflexivity|].
    destruct x as [y|k]; cbn [jstep op_of fst snd].
    - destruct (step c o s y) as [s1 ot]. rewrite IH. destruct (run c o s1 (map op_of h0)). reflexivity.
    - cbn [step]. rewrite IH. destruct (run c o s (map op_of h0)). reflexivity. }
  apply G.
Qed.
