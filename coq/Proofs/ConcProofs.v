(** Proofs about the interleaving model of Get (C05, C06, C07): for every schedule (list of
    events), by induction over the schedule. *)
From Xds Require Import Model.Base Model.Conc.
From Coq Require Import Lia.
Open Scope N_scope.

(** ---- N-keyed maps ---- *)
Section KMaps.
  Context {V : Type}.
  Implicit Types (m : list (N * V)).

  Lemma kget_kdel_same k m : kget k (kdel k m) = None.
  Proof.
    induction m as [|[k0 v0] m IH]; cbn [kdel kget]; [reflexivity|].
    destruct (N.eqb_spec k k0) as [->|Hk]; [exact IH|]. cbn [kget].
    destruct (N.eqb_spec k k0); [congruence|exact IH].
  Qed.

  Lemma kget_kdel_other k k' m : k <> k' -> kget k (kdel k' m) = kget k m.
  Proof.
    intros Hne. induction m as [|[k0 v0] m IH]; cbn [kdel kget]; [reflexivity|].
    destruct (N.eqb_spec k' k0) as [->|Hk'].
    - rewrite IH. destruct (N.eqb_spec k k0); [congruence|reflexivity].
    - cbn [kget]. rewrite IH. reflexivity.
  Qed.

  Lemma kget_kset k k' v m : kget k (kset k' v m) = if N.eqb k k' then Some v else kget k m.
  Proof.
    unfold kset. cbn [kget]. destruct (N.eqb_spec k k') as [->|Hne]; [reflexivity|].
    apply kget_kdel_other. exact Hne.
  Qed.
End KMaps.

(** ---- C05: value xor error ---- *)
Definition good_result (r : result) : Prop := match r with RVal _ | RErr => True | _ => False end.

Definition results_good (s : cstate) : Prop :=
  forall t th r, kget t (c_threads s) = Some th -> th_st th = TDone r -> good_result r.

Lemma read_result_good s k : good_result (read_result s k).
Proof. unfold read_result. destruct (kget k (c_cache s)); exact I. Qed.

Lemma results_good_set s t th :
  results_good s -> (forall r, th_st th = TDone r -> good_result r) -> results_good (set_thread s t th).
Proof.
  intros H Hth t' th' r Hg Hst. cbn [set_thread c_threads] in Hg. rewrite kget_kset in Hg.
  destruct (N.eqb t' t); [injection Hg as <-; apply Hth; exact Hst|eapply H; eassumption].
Qed.

Lemma results_good_finish s t th r : results_good s -> good_result r -> results_good (finish s t th r).
Proof. intros H Hr. unfold finish. apply results_good_set; [exact H|]. cbn. intros r' E. injection E as <-. exact Hr. Qed.

(** same threads => same verdict *)
Lemma results_good_threads s s' : c_threads s' = c_threads s -> results_good s -> results_good s'.
Proof. intros E H t th r Hg. rewrite E in Hg. eapply H; eassumption. Qed.

Lemma cstep_results_good s e : results_good s -> results_good (cstep s e).
Proof.
  intros H. destruct e as [t k|t|t|t|t|t|full up scope]; cbn [cstep].
  - destruct (kget t (c_threads s)) as [th|] eqn:E; [exact H|].
    destruct (kget k (c_cache s)) as [v|].
    + apply results_good_finish; [exact H|exact I].
    + apply results_good_set; [exact H|]. cbn. discriminate.
  - destruct (kget t (c_threads s)) as [th|] eqn:E; [exact H|].
    apply results_good_set; [exact H|]. cbn. intros r Er. injection Er as <-. exact I.
  - destruct (kget t (c_threads s)) as [th|] eqn:E; [|exact H].
    destruct (th_st th) eqn:Est; try exact H.
    destruct (kget (th_key th) (c_cache s)) as [v|].
    + apply results_good_finish; [exact H|exact I].
    + destruct (kget (th_key th) (c_nmap s)) as [nf|];
        (intros t' th' r Hg Hst; cbn [c_threads] in Hg; rewrite kget_kset in Hg;
         destruct (N.eqb t' t); [injection Hg as <-; cbn in Hst; discriminate|eapply H; eassumption]).
  - destruct (kget t (c_threads s)) as [th|] eqn:E; [|exact H].
    destruct (th_st th) eqn:Est; try exact H.
    destruct (nmem nid (c_closed s)); [|exact H].
    apply results_good_finish; [exact H|apply read_result_good].
  - destruct (kget t (c_threads s)) as [th|] eqn:E; [|exact H].
    destruct (th_st th) eqn:Est; try exact H.
    destruct (th_fired th); [|exact H].
    apply results_good_finish.
    + eapply results_good_threads; [|exact H]. reflexivity.
    + destruct (nmem nid (c_closed s)); [apply read_result_good|exact I].
  - destruct (kget t (c_threads s)) as [th|] eqn:E; [|exact H].
    apply results_good_set; [exact H|]. cbn. intros r Er. eapply H; eassumption.
  - eapply results_good_threads; [|exact H]. reflexivity.
Qed.

Lemma crun_results_good h : results_good (crun h).
Proof.
  unfold crun. assert (G : results_good cinit) by (intros t th r Hg; discriminate).
  revert G. generalize cinit. induction h as [|e h IH]; intros s G; cbn [fold_left]; [exact G|].
  apply IH. apply cstep_results_good. exact G.
Qed.

(** ---- C07: every result is the register value of its key at the step that returns it ---- *)
Lemma step_reads_current s e t r :
  thread_result s t = None -> thread_result (cstep s e) t = Some r ->
  exists th, kget t (c_threads (cstep s e)) = Some th /\
    match r with
    | RVal v => kget (th_key th) (c_cache s) = Some v
    | RErr => kget (th_key th) (c_cache s) = None \/ (exists k, e = EInvokeBad t /\ k = 0) \/
              (e = ETimeout t)
    | _ => False
    end.
Proof.
  unfold thread_result. intros Hb Ha.
  destruct e as [t0 k|t0|t0|t0|t0|t0|full up scope]; cbn [cstep] in *.
  - destruct (kget t0 (c_threads s)) as [th0|] eqn:E0; [rewrite Hb in Ha; discriminate|].
    destruct (kget k (c_cache s)) as [v|] eqn:Ec; cbn [finish set_thread c_threads] in Ha |- *; rewrite kget_kset in Ha |- *;
      destruct (N.eqb_spec t t0) as [->|Hne]; try (rewrite Hb in Ha; discriminate).
    + cbn in Ha. injection Ha as <-. eexists. split; [reflexivity|]. cbn. exact Ec.
    + cbn in Ha. discriminate.
  - destruct (kget t0 (c_threads s)) as [th0|] eqn:E0; [rewrite Hb in Ha; discriminate|].
    cbn [set_thread c_threads] in Ha |- *. rewrite kget_kset in Ha |- *.
    destruct (N.eqb_spec t t0) as [->|Hne]; [|rewrite Hb in Ha; discriminate].
    cbn in Ha. injection Ha as <-. eexists. split; [reflexivity|]. right. left. exists 0. split; reflexivity.
  - destruct (kget t0 (c_threads s)) as [th0|] eqn:E0; [|rewrite Hb in Ha; discriminate].
    destruct (th_st th0) eqn:Est; try (rewrite Hb in Ha; discriminate).
    destruct (kget (th_key th0) (c_cache s)) as [v|] eqn:Ec.
    + cbn [finish set_thread c_threads] in Ha |- *. rewrite kget_kset in Ha |- *.
      destruct (N.eqb_spec t t0) as [->|Hne]; [|rewrite Hb in Ha; discriminate].
      cbn in Ha. injection Ha as <-. eexists. split; [reflexivity|]. cbn. exact Ec.
    + destruct (kget (th_key th0) (c_nmap s)) as [nf|]; cbn [c_threads] in Ha; rewrite kget_kset in Ha;
        (destruct (N.eqb_spec t t0) as [->|Hne]; [cbn in Ha; discriminate|rewrite Hb in Ha; discriminate]).
  - destruct (kget t0 (c_threads s)) as [th0|] eqn:E0; [|rewrite Hb in Ha; discriminate].
    destruct (th_st th0) eqn:Est; try (rewrite Hb in Ha; discriminate).
    destruct (nmem nid (c_closed s)); [|rewrite Hb in Ha; discriminate].
    cbn [finish set_thread c_threads] in Ha |- *. rewrite kget_kset in Ha |- *.
    destruct (N.eqb_spec t t0) as [->|Hne]; [|rewrite Hb in Ha; discriminate].
    cbn in Ha. injection Ha as <-. eexists. split; [reflexivity|]. cbn [th_key]. unfold read_result.
    destruct (kget (th_key th0) (c_cache s)); [reflexivity|left; reflexivity].
  - destruct (kget t0 (c_threads s)) as [th0|] eqn:E0; [|rewrite Hb in Ha; discriminate].
    destruct (th_st th0) eqn:Est; try (rewrite Hb in Ha; discriminate).
    destruct (th_fired th0); [|rewrite Hb in Ha; discriminate].
    cbn [finish set_thread c_threads] in Ha |- *. rewrite kget_kset in Ha |- *.
    destruct (N.eqb_spec t t0) as [->|Hne]; [|rewrite Hb in Ha; discriminate].
    cbn in Ha. injection Ha as <-. eexists. split; [reflexivity|]. cbn [th_key c_cache].
    destruct (nmem nid (c_closed s)).
    + unfold read_result. destruct (kget (th_key th0) (c_cache s)); [reflexivity|left; reflexivity].
    + right. right. reflexivity.
  - destruct (kget t0 (c_threads s)) as [th0|] eqn:E0; [|rewrite Hb in Ha; discriminate].
    cbn [set_thread c_threads] in Ha. rewrite kget_kset in Ha.
    destruct (N.eqb_spec t t0) as [->|Hne]; [|rewrite Hb in Ha; discriminate].
    cbn in Ha. rewrite E0 in Hb. rewrite Hb in Ha. discriminate.
  - cbn [c_threads] in Ha. rewrite Hb in Ha. discriminate.
Qed.

(** ---- C06: no lost wake-ups ---- *)
Definition waits_on (nid : N) (p : N * thread) : bool :=
  match th_st (snd p) with TWaiting n => N.eqb n nid | _ => false end.
Definition cw (nid : N) (l : list (N * thread)) : nat := length (filter (waits_on nid) l).

Lemma kdel_notin {V} k (m : list (N * V)) : kget k m = None -> kdel k m = m.
Proof.
  induction m as [|[k0 v0] m IH]; cbn [kget kdel]; [reflexivity|].
  destruct (N.eqb_spec k k0); [discriminate|]. intros H. rewrite IH by exact H. reflexivity.
Qed.

Lemma kget_in_keys {V} k (m : list (N * V)) v : kget k m = Some v -> In k (map fst m).
Proof.
  induction m as [|[k0 v0] m IH]; cbn [kget map fst]; [discriminate|].
  destruct (N.eqb_spec k k0) as [->|Hk]; [left; reflexivity|]. intros H. right. apply IH. exact H.
Qed.

Lemma keys_kdel_incl {V} k (m : list (N * V)) x : In x (map fst (kdel k m)) -> In x (map fst m) /\ x <> k.
Proof.
  induction m as [|[k0 v0] m IH]; cbn [kdel map fst]; [tauto|].
  destruct (N.eqb_spec k k0) as [->|Hk].
  - intros H. destruct (IH H). split; [right; assumption|assumption].
  - cbn [map fst In]. intros [<-|H]; [split; [left; reflexivity|congruence]|].
    destruct (IH H). split; [right; assumption|assumption].
Qed.

Lemma nodup_kdel {V} k (m : list (N * V)) : NoDup (map fst m) -> NoDup (map fst (kdel k m)).
Proof.
  induction m as [|[k0 v0] m IH]; cbn [kdel map fst]; [intros; constructor|].
  intros H. inversion H as [|? ? Hn Hd]; subst. destruct (N.eqb k k0); [apply IH; exact Hd|].
  cbn [map fst]. constructor; [|apply IH; exact Hd]. intros Hin. apply keys_kdel_incl in Hin. tauto.
Qed.

Lemma nodup_kset {V} k (v : V) m : NoDup (map fst m) -> NoDup (map fst (kset k v m)).
Proof.
  intros H. unfold kset. cbn [map fst]. constructor; [|apply nodup_kdel; exact H].
  intros Hin. apply keys_kdel_incl in Hin. destruct Hin as [_ Hne]. congruence.
Qed.

Lemma cw_kdel nid t (l : list (N * thread)) :
  NoDup (map fst l) ->
  (cw nid (kdel t l) + match kget t l with Some th => if waits_on nid (t, th) then 1 else 0 | None => 0 end)%nat = cw nid l.
Proof.
  unfold cw. induction l as [|[t0 th0] l IH]; intros Hnd; cbn [kdel kget filter]; [reflexivity|].
  inversion Hnd as [|? ? Hn Hd]; subst.
  destruct (N.eqb_spec t t0) as [->|Hne].
  - rewrite (kdel_notin t0 l).
    + destruct (waits_on nid (t0, th0)); cbn [length]; lia.
    + destruct (kget t0 l) eqn:E; [|reflexivity]. exfalso. apply Hn. eapply kget_in_keys. exact E.
  - cbn [filter]. specialize (IH Hd). destruct (waits_on nid (t0, th0)); cbn [length]; lia.
Qed.

Lemma cw_kset nid t th (l : list (N * thread)) :
  NoDup (map fst l) ->
  (cw nid (kset t th l) + match kget t l with Some o => if waits_on nid (t, o) then 1 else 0 | None => 0 end)%nat
  = (cw nid l + if waits_on nid (t, th) then 1 else 0)%nat.
Proof.
  intros Hnd. pose proof (cw_kdel nid t l Hnd) as H. unfold kset, cw in *. cbn [filter].
  destruct (waits_on nid (t, th)); cbn [length]; lia.
Qed.

Record inv (s : cstate) : Prop := {
  inv_tkeys : NoDup (map fst (c_threads s));
  inv_nkeys : NoDup (map fst (c_nmap s));
  inv_wait : forall t th nid, kget t (c_threads s) = Some th -> th_st th = TWaiting nid ->
      nmem nid (c_closed s) = true \/
      (exists nf, kget (th_key th) (c_nmap s) = Some nf /\ nf_id nf = nid);
  inv_entry : forall k nf, kget k (c_nmap s) = Some nf ->
      N.to_nat (nf_waiters nf) = cw (nf_id nf) (c_threads s) /\ nmem (nf_id nf) (c_closed s) = false /\ nf_id nf < c_next s;
  inv_ids : forall k k' nf nf', kget k (c_nmap s) = Some nf -> kget k' (c_nmap s) = Some nf' -> nf_id nf = nf_id nf' -> k = k';
  inv_live_key : forall t th nid k nf, kget t (c_threads s) = Some th -> th_st th = TWaiting nid ->
      kget k (c_nmap s) = Some nf -> nf_id nf = nid -> th_key th = k;
  inv_fresh : forall t th nid, kget t (c_threads s) = Some th -> th_st th = TWaiting nid -> nid < c_next s;
  inv_closed_fresh : forall x, nmem x (c_closed s) = true -> x < c_next s
}.

Lemma inv_init : inv cinit.
Proof. constructor; cbn; try constructor; intros; discriminate. Qed.

Lemma nmem_true_iff x l : nmem x l = true <-> In x l.
Proof.
  unfold nmem. rewrite existsb_exists. split.
  - intros (y & Hy & E). apply N.eqb_eq in E. subst. exact Hy.
  - intros H. exists x. split; [exact H|apply N.eqb_refl].
Qed.

Lemma nmem_app x a b : nmem x (a ++ b) = nmem x a || nmem x b.
Proof. unfold nmem. apply existsb_app. Qed.

Lemma waits_on_done nid t th r : th_st th = TDone r -> waits_on nid (t, th) = false.
Proof. unfold waits_on. cbn. intros ->. reflexivity. Qed.

(** threads whose state is not TWaiting do not count *)
Lemma cw_set_nonwaiting nid t th th' (l : list (N * thread)) :
  NoDup (map fst l) -> kget t l = Some th -> waits_on nid (t, th) = false -> waits_on nid (t, th') = false ->
  cw nid (kset t th' l) = cw nid l.
Proof. intros Hnd Hg H1 H2. pose proof (cw_kset nid t th' l Hnd) as H. rewrite Hg, H1, H2 in H. lia. Qed.

Lemma cw_add_new nid t th' (l : list (N * thread)) :
  NoDup (map fst l) -> kget t l = None -> cw nid (kset t th' l) = (cw nid l + if waits_on nid (t, th') then 1 else 0)%nat.
Proof. intros Hnd Hg. pose proof (cw_kset nid t th' l Hnd) as H. rewrite Hg in H. lia. Qed.

(** a thread that waits on nobody, before and after: nothing changes for the invariant *)
Lemma inv_set_nonwaiting s t th' :
  inv s ->
  (forall th, kget t (c_threads s) = Some th -> forall nid, th_st th <> TWaiting nid) ->
  (forall nid, th_st th' <> TWaiting nid) ->
  inv (set_thread s t th').
Proof.
  intros I Hold Hnew.
  assert (Hw : forall nid, waits_on nid (t, th') = false).
  { intros nid. unfold waits_on. cbn. destruct (th_st th') as [| |n0|r0] eqn:E; try reflexivity. exfalso. exact (Hnew n0 eq_refl). }
  assert (Hcw : forall nid, cw nid (kset t th' (c_threads s)) = cw nid (c_threads s)).
  { intros nid. pose proof (cw_kset nid t th' (c_threads s) (inv_tkeys s I)) as H. rewrite Hw in H.
    destruct (kget t (c_threads s)) as [o|] eqn:E; [|lia].
    assert (waits_on nid (t, o) = false).
    { unfold waits_on. cbn. destruct (th_st o) as [| |n0|r0] eqn:Eo; try reflexivity. exfalso. exact (Hold o eq_refl n0 Eo). }
    rewrite H0 in H. lia. }
  constructor; cbn [set_thread c_threads c_nmap c_closed c_next].
  - apply nodup_kset. apply (inv_tkeys s I).
  - apply (inv_nkeys s I).
  - intros t0 th0 nid Hg Hst. rewrite kget_kset in Hg. destruct (N.eqb t0 t).
    + injection Hg as <-. exfalso. eapply Hnew. exact Hst.
    + eapply (inv_wait s I); eassumption.
  - intros k nf Hg. rewrite Hcw. exact (inv_entry s I k nf Hg).
  - exact (inv_ids s I).
  - intros t0 th0 nid k nf Hg Hst. rewrite kget_kset in Hg. destruct (N.eqb t0 t).
    + injection Hg as <-. exfalso. eapply Hnew. exact Hst.
    + eapply (inv_live_key s I); eassumption.
  - intros t0 th0 nid Hg Hst. rewrite kget_kset in Hg. destruct (N.eqb t0 t).
    + injection Hg as <-. exfalso. eapply Hnew. exact Hst.
    + eapply (inv_fresh s I); eassumption.
  - apply (inv_closed_fresh s I).
Qed.

(** same state and key (only the fired flag changes) *)
Lemma inv_set_same s t th th' :
  inv s -> kget t (c_threads s) = Some th -> th_st th' = th_st th -> th_key th' = th_key th ->
  inv (set_thread s t th').
Proof.
  intros I Hg Hst Hk.
  assert (Hcw : forall nid, cw nid (kset t th' (c_threads s)) = cw nid (c_threads s)).
  { intros nid. pose proof (cw_kset nid t th' (c_threads s) (inv_tkeys s I)) as H. rewrite Hg in H.
    assert (waits_on nid (t, th') = waits_on nid (t, th)) by (unfold waits_on; cbn; rewrite Hst; reflexivity).
    rewrite H0 in H. destruct (waits_on nid (t, th)); lia. }
  constructor; cbn [set_thread c_threads c_nmap c_closed c_next].
  - apply nodup_kset. apply (inv_tkeys s I).
  - apply (inv_nkeys s I).
  - intros t0 th0 nid Hg0 Hst0. rewrite kget_kset in Hg0. destruct (N.eqb_spec t0 t) as [->|Hne].
    + injection Hg0 as <-. rewrite Hk. eapply (inv_wait s I); [exact Hg|]. rewrite <- Hst. exact Hst0.
    + eapply (inv_wait s I); eassumption.
  - intros k nf Hgn. rewrite Hcw. exact (inv_entry s I k nf Hgn).
  - exact (inv_ids s I).
  - intros t0 th0 nid k nf Hg0 Hst0. rewrite kget_kset in Hg0. destruct (N.eqb_spec t0 t) as [->|Hne].
    + injection Hg0 as <-. rewrite Hk. eapply (inv_live_key s I); [exact Hg|]. rewrite <- Hst. exact Hst0.
    + eapply (inv_live_key s I); eassumption.
  - intros t0 th0 nid Hg0 Hst0. rewrite kget_kset in Hg0. destruct (N.eqb_spec t0 t) as [->|Hne].
    + injection Hg0 as <-. eapply (inv_fresh s I); [exact Hg|]. rewrite <- Hst. exact Hst0.
    + eapply (inv_fresh s I); eassumption.
  - apply (inv_closed_fresh s I).
Qed.

Lemma waits_on_waiting nid nid' t th : th_st th = TWaiting nid -> waits_on nid' (t, th) = N.eqb nid nid'.
Proof. unfold waits_on. cbn. intros ->. reflexivity. Qed.

(** a lookup whose notifier is closed returns *)
Lemma inv_leave_closed s t th nid r :
  inv s -> kget t (c_threads s) = Some th -> th_st th = TWaiting nid -> nmem nid (c_closed s) = true ->
  inv (finish s t th r).
Proof.
  intros I Hg Hst Hc. unfold finish.
  set (th' := {| th_key := th_key th; th_st := TDone r; th_fired := th_fired th |}).
  assert (Hcw : forall k nf, kget k (c_nmap s) = Some nf -> cw (nf_id nf) (kset t th' (c_threads s)) = cw (nf_id nf) (c_threads s)).
  { intros k nf Hn. destruct (inv_entry s I k nf Hn) as (_ & Hnc & _).
    pose proof (cw_kset (nf_id nf) t th' (c_threads s) (inv_tkeys s I)) as H. rewrite Hg in H.
    rewrite (waits_on_waiting nid (nf_id nf) t th Hst) in H.
    rewrite (waits_on_done (nf_id nf) t th' r eq_refl) in H.
    destruct (N.eqb_spec nid (nf_id nf)) as [E|E]; [rewrite E in Hc; congruence|lia]. }
  constructor; cbn [set_thread c_threads c_nmap c_closed c_next].
  - apply nodup_kset. apply (inv_tkeys s I).
  - apply (inv_nkeys s I).
  - intros t0 th0 n0 Hg0 Hst0. rewrite kget_kset in Hg0. destruct (N.eqb t0 t).
    + injection Hg0 as <-. discriminate.
    + eapply (inv_wait s I); eassumption.
  - intros k nf Hn. rewrite (Hcw k nf Hn). exact (inv_entry s I k nf Hn).
  - exact (inv_ids s I).
  - intros t0 th0 n0 k nf Hg0 Hst0. rewrite kget_kset in Hg0. destruct (N.eqb t0 t).
    + injection Hg0 as <-. discriminate.
    + eapply (inv_live_key s I); eassumption.
  - intros t0 th0 n0 Hg0 Hst0. rewrite kget_kset in Hg0. destruct (N.eqb t0 t).
    + injection Hg0 as <-. discriminate.
    + eapply (inv_fresh s I); eassumption.
  - apply (inv_closed_fresh s I).
Qed.

(** two distinct lookups waiting on one notifier count at least two *)
Lemma cw_two nid (l : list (N * thread)) t1 t2 th1 th2 :
  NoDup (map fst l) -> t1 <> t2 -> kget t1 l = Some th1 -> kget t2 l = Some th2 ->
  waits_on nid (t1, th1) = true -> waits_on nid (t2, th2) = true -> (2 <= cw nid l)%nat.
Proof.
  intros Hnd Hne H1 H2 W1 W2.
  pose proof (cw_kdel nid t1 l Hnd) as A. rewrite H1, W1 in A.
  pose proof (cw_kdel nid t2 (kdel t1 l) (nodup_kdel t1 l Hnd)) as B.
  rewrite (kget_kdel_other t2 t1 l (fun e => Hne (eq_sym e))), H2, W2 in B. lia.
Qed.

Lemma kget_fold_kdel {V W} (up : list (N * W)) : forall (m : list (N * V)) k,
  kget k (fold_left (fun acc kv => kdel (fst kv) acc) up m) =
  match kget k up with Some _ => None | None => kget k m end.
Proof.
  induction up as [|[k0 w0] up IH]; intros m k; cbn [fold_left kget fst]; [reflexivity|].
  rewrite IH. destruct (N.eqb_spec k k0) as [->|Hne].
  - destruct (kget k0 up); [reflexivity|apply kget_kdel_same].
  - destruct (kget k up); [reflexivity|apply kget_kdel_other; exact Hne].
Qed.

Lemma nodup_fold_kdel {V W} (up : list (N * W)) : forall (m : list (N * V)),
  NoDup (map fst m) -> NoDup (map fst (fold_left (fun acc kv => kdel (fst kv) acc) up m)).
Proof. induction up as [|kv up IH]; intros m H; cbn [fold_left]; [exact H|]. apply IH. apply nodup_kdel. exact H. Qed.

(** the ids notified by a delivery are exactly those of the entries it removes *)
Lemma notified_in (nmap : list (N * notif)) (up : list (N * N)) x :
  In x (flat_map (fun kv => match kget (fst kv) nmap with Some nf => [nf_id nf] | None => [] end) up) <->
  exists k v nf, In (k, v) up /\ kget k nmap = Some nf /\ nf_id nf = x.
Proof.
  rewrite in_flat_map. split.
  - intros ([k v] & Hin & Hx). cbn [fst] in Hx. destruct (kget k nmap) as [nf|] eqn:E; [|destruct Hx].
    destruct Hx as [<-|[]]. exists k, v, nf. repeat split; assumption.
  - intros (k & v & nf & Hin & Hg & <-). exists (k, v). split; [exact Hin|]. cbn [fst]. rewrite Hg. left. reflexivity.
Qed.

Lemma kget_some_in {V} k (m : list (N * V)) v : kget k m = Some v -> exists v', In (k, v') m.
Proof.
  induction m as [|[k0 v0] m IH]; cbn [kget]; [discriminate|].
  destruct (N.eqb_spec k k0) as [->|Hne]; [intros _; exists v0; left; reflexivity|].
  intros H. destruct (IH H) as [v' Hv]. exists v'. right. exact Hv.
Qed.

Lemma in_kget_some {V} k (m : list (N * V)) v : In (k, v) m -> exists v', kget k m = Some v'.
Proof.
  induction m as [|[k0 v0] m IH]; [intros []|]. cbn [kget]. intros [E|H].
  - injection E as -> ->. rewrite N.eqb_refl. eauto.
  - destruct (N.eqb k k0); [eauto|apply IH; exact H].
Qed.

Lemma inv_deliver s full up scope : inv s -> inv (cstep s (EDeliver full up scope)).
Proof.
  intros I. cbn [cstep].
  set (notified := flat_map (fun kv => match kget (fst kv) (c_nmap s) with Some nf => [nf_id nf] | None => [] end) up).
  constructor; cbn [c_threads c_nmap c_closed c_next].
  - apply (inv_tkeys s I).
  - apply nodup_fold_kdel. apply (inv_nkeys s I).
  - intros t th nid Hg Hst. rewrite nmem_app.
    destruct (inv_wait s I t th nid Hg Hst) as [Hc|(nf & Hn & Hid)]; [left; rewrite Hc; reflexivity|].
    rewrite kget_fold_kdel. destruct (kget (th_key th) up) as [v|] eqn:Eu.
    + left. apply orb_true_iff. right. apply nmem_true_iff. apply notified_in.
      destruct (kget_some_in _ _ _ Eu) as [v' Hv]. exists (th_key th), v', nf. repeat split; assumption.
    + right. exists nf. split; assumption.
  - intros k nf Hg. rewrite kget_fold_kdel in Hg. destruct (kget k up) eqn:Eu; [discriminate|].
    destruct (inv_entry s I k nf Hg) as (Hw & Hnc & Hlt). repeat split; try assumption.
    rewrite nmem_app, Hnc. cbn [orb]. destruct (nmem (nf_id nf) notified) eqn:En; [|reflexivity].
    exfalso. apply nmem_true_iff, notified_in in En. destruct En as (k' & v & nf' & Hin & Hg' & Hid).
    assert (k' = k) by (eapply (inv_ids s I); eassumption). subst k'.
    destruct (in_kget_some _ _ _ Hin) as [v' Hv']. congruence.
  - intros k k' nf nf' Hg Hg'. rewrite kget_fold_kdel in Hg, Hg'.
    destruct (kget k up); [discriminate|]. destruct (kget k' up); [discriminate|]. apply (inv_ids s I); assumption.
  - intros t th nid k nf Hg Hst Hn. rewrite kget_fold_kdel in Hn. destruct (kget k up); [discriminate|].
    eapply (inv_live_key s I); eassumption.
  - apply (inv_fresh s I).
  - intros x Hx. rewrite nmem_app in Hx. apply orb_true_iff in Hx. destruct Hx as [Hx|Hx]; [apply (inv_closed_fresh s I); exact Hx|].
    apply nmem_true_iff, notified_in in Hx. destruct Hx as (k & v & nf & _ & Hg & <-).
    apply (inv_entry s I k nf Hg).
Qed.

(** registration: the lookup joins the registered notifier of its key, or registers a new one *)
Lemma inv_register s t th :
  inv s -> kget t (c_threads s) = Some th -> th_st th = TMissed ->
  inv (match kget (th_key th) (c_nmap s) with
       | Some nf =>
           {| c_cache := c_cache s; c_nmap := kset (th_key th) {| nf_id := nf_id nf; nf_waiters := nf_waiters nf + 1 |} (c_nmap s);
              c_closed := c_closed s; c_next := c_next s;
              c_threads := kset t {| th_key := th_key th; th_st := TWaiting (nf_id nf); th_fired := th_fired th |} (c_threads s);
              c_watches := c_watches s |}
       | None =>
           {| c_cache := c_cache s; c_nmap := kset (th_key th) {| nf_id := c_next s; nf_waiters := 1 |} (c_nmap s);
              c_closed := c_closed s; c_next := c_next s + 1;
              c_threads := kset t {| th_key := th_key th; th_st := TWaiting (c_next s); th_fired := th_fired th |} (c_threads s);
              c_watches := (c_watches s ++ [th_key th])%list |}
       end).
Proof.
  intros I Hg Hst. set (k := th_key th).
  assert (Hold : forall nid, waits_on nid (t, th) = false) by (intros nid; unfold waits_on; cbn; rewrite Hst; reflexivity).
  destruct (kget k (c_nmap s)) as [nf|] eqn:En.
  - (* share *)
    set (th' := {| th_key := k; th_st := TWaiting (nf_id nf); th_fired := th_fired th |}).
    assert (Hcw : forall nid, cw nid (kset t th' (c_threads s)) = (cw nid (c_threads s) + if N.eqb (nf_id nf) nid then 1 else 0)%nat).
    { intros nid. pose proof (cw_kset nid t th' (c_threads s) (inv_tkeys s I)) as H. rewrite Hg, Hold in H.
      rewrite (waits_on_waiting (nf_id nf) nid t th' eq_refl) in H. lia. }
    destruct (inv_entry s I k nf En) as (Hw & Hnc & Hlt).
    constructor; cbn [c_threads c_nmap c_closed c_next].
    + apply nodup_kset. apply (inv_tkeys s I).
    + apply nodup_kset. apply (inv_nkeys s I).
    + intros t0 th0 nid Hg0 Hst0. rewrite kget_kset in Hg0. destruct (N.eqb_spec t0 t) as [->|Hne].
      * injection Hg0 as <-. cbn in Hst0. injection Hst0 as <-. right. cbn [th_key]. rewrite kget_kset, N.eqb_refl. eexists. split; reflexivity.
      * destruct (inv_wait s I t0 th0 nid Hg0 Hst0) as [Hc|(nf0 & Hn0 & Hid)]; [left; exact Hc|]. right.
        rewrite kget_kset. destruct (N.eqb_spec (th_key th0) k) as [E|E].
        -- eexists. split; [reflexivity|]. cbn. rewrite E in Hn0. congruence.
        -- exists nf0. split; assumption.
    + intros k0 nf0 Hg0. rewrite kget_kset in Hg0. rewrite Hcw. destruct (N.eqb_spec k0 k) as [->|Hne].
      * injection Hg0 as <-. cbn [nf_id nf_waiters]. rewrite N.eqb_refl. repeat split; try assumption. lia.
      * destruct (inv_entry s I k0 nf0 Hg0) as (Hw0 & Hnc0 & Hlt0). repeat split; try assumption.
        destruct (N.eqb_spec (nf_id nf) (nf_id nf0)) as [E|E]; [|lia].
        exfalso. apply Hne. eapply (inv_ids s I); [exact Hg0|exact En|congruence].
    + intros k1 k2 nf1 nf2 H1 H2 Hid. rewrite kget_kset in H1, H2.
      destruct (N.eqb_spec k1 k) as [->|N1]; destruct (N.eqb_spec k2 k) as [->|N2]; try reflexivity.
      * injection H1 as <-. cbn in Hid. symmetry. eapply (inv_ids s I); [exact H2|exact En|congruence].
      * injection H2 as <-. cbn in Hid. eapply (inv_ids s I); [exact H1|exact En|congruence].
      * eapply (inv_ids s I); eassumption.
    + intros t0 th0 nid k0 nf0 Hg0 Hst0 Hn0 Hid. rewrite kget_kset in Hg0. rewrite kget_kset in Hn0.
      destruct (N.eqb_spec t0 t) as [->|Hne].
      * injection Hg0 as <-. cbn in Hst0 |- *. injection Hst0 as <-.
        destruct (N.eqb_spec k0 k) as [->|Nk]; [reflexivity|]. symmetry. eapply (inv_ids s I); [exact Hn0|exact En|congruence].
      * destruct (N.eqb_spec k0 k) as [->|Nk].
        -- injection Hn0 as <-. cbn in Hid. eapply (inv_live_key s I); [exact Hg0|exact Hst0|exact En|exact Hid].
        -- eapply (inv_live_key s I); eassumption.
    + intros t0 th0 nid Hg0 Hst0. rewrite kget_kset in Hg0. destruct (N.eqb_spec t0 t) as [->|Hne].
      * injection Hg0 as <-. cbn in Hst0. injection Hst0 as <-. exact Hlt.
      * eapply (inv_fresh s I); eassumption.
    + apply (inv_closed_fresh s I).
  - (* new notifier *)
    set (nid0 := c_next s).
    set (th' := {| th_key := k; th_st := TWaiting nid0; th_fired := th_fired th |}).
    assert (Hzero : cw nid0 (c_threads s) = 0%nat).
    { unfold cw. destruct (filter (waits_on nid0) (c_threads s)) as [|[t0 th0] l] eqn:Ef; [reflexivity|].
      exfalso. assert (Hin : In (t0, th0) (filter (waits_on nid0) (c_threads s))) by (rewrite Ef; left; reflexivity).
      apply filter_In in Hin. destruct Hin as [Hin Hw]. unfold waits_on in Hw. cbn in Hw.
      destruct (th_st th0) as [| |n0|r0] eqn:E0; try discriminate. apply N.eqb_eq in Hw. subst n0.
      assert (Hg0 : kget t0 (c_threads s) = Some th0).
      { clear -Hin I. pose proof (inv_tkeys s I) as Hnd. induction (c_threads s) as [|[a b] l IH]; [destruct Hin|].
        cbn [kget]. inversion Hnd as [|? ? Hn Hd]; subst. destruct Hin as [E|Hin].
        - injection E as -> ->. rewrite N.eqb_refl. reflexivity.
        - destruct (N.eqb_spec t0 a) as [->|Hne]; [|apply IH; assumption].
          exfalso. apply Hn. change a with (fst (a, th0)). apply in_map. exact Hin. }
      pose proof (inv_fresh s I t0 th0 nid0 Hg0 E0). unfold nid0 in *. lia. }
    assert (Hcw : forall nid, cw nid (kset t th' (c_threads s)) = (cw nid (c_threads s) + if N.eqb nid0 nid then 1 else 0)%nat).
    { intros nid. pose proof (cw_kset nid t th' (c_threads s) (inv_tkeys s I)) as H. rewrite Hg, Hold in H.
      rewrite (waits_on_waiting nid0 nid t th' eq_refl) in H. lia. }
    constructor; cbn [c_threads c_nmap c_closed c_next].
    + apply nodup_kset. apply (inv_tkeys s I).
    + apply nodup_kset. apply (inv_nkeys s I).
    + intros t0 th0 nid Hg0 Hst0. rewrite kget_kset in Hg0. destruct (N.eqb_spec t0 t) as [->|Hne].
      * injection Hg0 as <-. cbn in Hst0. injection Hst0 as <-. right. cbn [th_key]. rewrite kget_kset, N.eqb_refl. eexists. split; reflexivity.
      * destruct (inv_wait s I t0 th0 nid Hg0 Hst0) as [Hc|(nf0 & Hn0 & Hid)]; [left; exact Hc|]. right.
        rewrite kget_kset. destruct (N.eqb_spec (th_key th0) k) as [E|E]; [rewrite E in Hn0; congruence|].
        exists nf0. split; assumption.
    + intros k0 nf0 Hg0. rewrite kget_kset in Hg0. rewrite Hcw. destruct (N.eqb_spec k0 k) as [->|Hne].
      * injection Hg0 as <-. cbn [nf_id nf_waiters]. rewrite N.eqb_refl, Hzero. split; [reflexivity|]. split; [|lia].
        destruct (nmem nid0 (c_closed s)) eqn:Ec; [|reflexivity]. pose proof (inv_closed_fresh s I nid0 Ec). unfold nid0 in *. lia.
      * destruct (inv_entry s I k0 nf0 Hg0) as (Hw0 & Hnc0 & Hlt0). repeat split; try assumption; [|lia].
        destruct (N.eqb_spec nid0 (nf_id nf0)) as [E|E]; [unfold nid0 in E; lia|lia].
    + intros k1 k2 nf1 nf2 H1 H2 Hid. rewrite kget_kset in H1, H2.
      destruct (N.eqb_spec k1 k) as [->|N1]; destruct (N.eqb_spec k2 k) as [->|N2]; try reflexivity.
      * injection H1 as <-. cbn in Hid. destruct (inv_entry s I k2 nf2 H2) as (_ & _ & Hlt). unfold nid0 in Hid. lia.
      * injection H2 as <-. cbn in Hid. destruct (inv_entry s I k1 nf1 H1) as (_ & _ & Hlt). unfold nid0 in Hid. lia.
      * eapply (inv_ids s I); eassumption.
    + intros t0 th0 nid k0 nf0 Hg0 Hst0 Hn0 Hid. rewrite kget_kset in Hg0. rewrite kget_kset in Hn0.
      destruct (N.eqb_spec t0 t) as [->|Hne].
      * injection Hg0 as <-. cbn in Hst0 |- *. injection Hst0 as <-.
        destruct (N.eqb_spec k0 k) as [->|Nk]; [reflexivity|].
        destruct (inv_entry s I k0 nf0 Hn0) as (_ & _ & Hlt). unfold nid0 in Hid. lia.
      * destruct (N.eqb_spec k0 k) as [->|Nk].
        -- injection Hn0 as <-. cbn in Hid. pose proof (inv_fresh s I t0 th0 nid Hg0 Hst0). unfold nid0 in Hid. lia.
        -- eapply (inv_live_key s I); eassumption.
    + intros t0 th0 nid Hg0 Hst0. rewrite kget_kset in Hg0. destruct (N.eqb_spec t0 t) as [->|Hne].
      * injection Hg0 as <-. cbn in Hst0. injection Hst0 as <-. unfold nid0. lia.
      * pose proof (inv_fresh s I t0 th0 nid Hg0 Hst0). lia.
    + intros x Hx. pose proof (inv_closed_fresh s I x Hx). lia.
Qed.

(** a lookup whose deadline fired leaves its notifier *)
Lemma inv_timeout s t th nid r :
  inv s -> kget t (c_threads s) = Some th -> th_st th = TWaiting nid ->
  inv (finish {| c_cache := c_cache s;
                 c_nmap := match kget (th_key th) (c_nmap s) with
                           | Some nf => if N.eqb (nf_id nf) nid
                                        then if N.eqb (nf_waiters nf) 1 then kdel (th_key th) (c_nmap s)
                                             else kset (th_key th) {| nf_id := nid; nf_waiters := nf_waiters nf - 1 |} (c_nmap s)
                                        else c_nmap s
                           | None => c_nmap s
                           end;
                 c_closed := c_closed s; c_next := c_next s; c_threads := c_threads s; c_watches := c_watches s |} t th r).
Proof.
  intros I Hg Hst. unfold finish, set_thread. cbn [c_threads c_cache c_nmap c_closed c_next c_watches].
  set (k := th_key th).
  set (th' := {| th_key := k; th_st := TDone r; th_fired := th_fired th |}).
  assert (Hcw : forall n, cw n (kset t th' (c_threads s)) = (cw n (c_threads s) - if N.eqb nid n then 1 else 0)%nat).
  { intros n. pose proof (cw_kset n t th' (c_threads s) (inv_tkeys s I)) as H. rewrite Hg in H.
    rewrite (waits_on_waiting nid n t th Hst), (waits_on_done n t th' r eq_refl) in H. destruct (N.eqb nid n); lia. }
  assert (Hself : (1 <= cw nid (c_threads s))%nat).
  { pose proof (cw_kdel nid t (c_threads s) (inv_tkeys s I)) as H. rewrite Hg, (waits_on_waiting nid nid t th Hst), N.eqb_refl in H. lia. }
  (* the other lookups, their keys and states are untouched *)
  assert (Hothers : forall t0 th0, kget t0 (kset t th' (c_threads s)) = Some th0 ->
                    (t0 = t /\ th0 = th') \/ (t0 <> t /\ kget t0 (c_threads s) = Some th0)).
  { intros t0 th0 H. rewrite kget_kset in H. destruct (N.eqb_spec t0 t) as [->|Hne]; [left; split; congruence|right; split; assumption]. }
  destruct (kget k (c_nmap s)) as [nf|] eqn:En.
  2:{ (* no entry for the key: the notifier was already removed (closed) *)
    constructor; cbn [c_threads c_nmap c_closed c_next].
    - apply nodup_kset. apply (inv_tkeys s I).
    - apply (inv_nkeys s I).
    - intros t0 th0 n0 H0 Hs0. destruct (Hothers t0 th0 H0) as [[-> ->]|[Hne H1]]; [discriminate|]. eapply (inv_wait s I); eassumption.
    - intros k0 nf0 Hn0. destruct (inv_entry s I k0 nf0 Hn0) as (Hw & Hnc & Hlt). rewrite Hcw. repeat split; try assumption.
      destruct (N.eqb_spec nid (nf_id nf0)) as [E|E]; [|lia].
      exfalso. assert (k = k0) by (eapply (inv_live_key s I); [exact Hg|exact Hst|exact Hn0|congruence]). subst k0. unfold k in *. congruence.
    - exact (inv_ids s I).
    - intros t0 th0 n0 k0 nf0 H0 Hs0. destruct (Hothers t0 th0 H0) as [[-> ->]|[Hne H1]]; [discriminate|]. eapply (inv_live_key s I); eassumption.
    - intros t0 th0 n0 H0 Hs0. destruct (Hothers t0 th0 H0) as [[-> ->]|[Hne H1]]; [discriminate|]. eapply (inv_fresh s I); eassumption.
    - apply (inv_closed_fresh s I). }
  destruct (inv_entry s I k nf En) as (Hw & Hnc & Hlt).
  destruct (N.eqb_spec (nf_id nf) nid) as [Eid|Eid].
  - destruct (N.eqb_spec (nf_waiters nf) 1) as [E1|E1].
    + (* the last waiter removes the entry *)
      assert (Hone : cw nid (c_threads s) = 1%nat) by (rewrite <- Eid, <- Hw, E1; reflexivity).
      constructor; cbn [c_threads c_nmap c_closed c_next].
      * apply nodup_kset. apply (inv_tkeys s I).
      * apply nodup_kdel. apply (inv_nkeys s I).
      * intros t0 th0 n0 H0 Hs0. destruct (Hothers t0 th0 H0) as [[-> ->]|[Hne H1]]; [discriminate|].
        destruct (inv_wait s I t0 th0 n0 H1 Hs0) as [Hc|(nf0 & Hn0 & Hid0)]; [left; exact Hc|]. right.
        destruct (N.eqb_spec (th_key th0) k) as [Ek|Ek].
        -- (* it would wait on the same notifier: impossible, t was the only waiter *)
           exfalso. rewrite Ek, En in Hn0. injection Hn0 as <-.
           assert (2 <= cw nid (c_threads s))%nat; [|lia].
           eapply (cw_two nid (c_threads s) t t0 th th0 (inv_tkeys s I)); try eassumption; [congruence| |].
           ++ rewrite (waits_on_waiting nid nid t th Hst). apply N.eqb_refl.
           ++ rewrite (waits_on_waiting n0 nid t0 th0 Hs0). apply N.eqb_eq. congruence.
        -- exists nf0. split; [|exact Hid0]. rewrite kget_kdel_other by exact Ek. exact Hn0.
      * intros k0 nf0 Hn0. destruct (N.eqb_spec k0 k) as [->|Nk]; [rewrite kget_kdel_same in Hn0; discriminate|].
        rewrite kget_kdel_other in Hn0 by exact Nk.
        destruct (inv_entry s I k0 nf0 Hn0) as (Hw0 & Hnc0 & Hlt0). rewrite Hcw. repeat split; try assumption.
        destruct (N.eqb_spec nid (nf_id nf0)) as [E|E]; [|lia].
        exfalso. apply Nk. eapply (inv_ids s I); [exact Hn0|exact En|congruence].
      * intros k1 k2 nf1 nf2 H1 H2. 
        destruct (N.eqb_spec k1 k) as [->|N1]; [rewrite kget_kdel_same in H1; discriminate|].
        destruct (N.eqb_spec k2 k) as [->|N2]; [rewrite kget_kdel_same in H2; discriminate|].
        rewrite kget_kdel_other in H1 by exact N1. rewrite kget_kdel_other in H2 by exact N2. apply (inv_ids s I); assumption.
      * intros t0 th0 n0 k0 nf0 H0 Hs0 Hn0. destruct (Hothers t0 th0 H0) as [[-> ->]|[Hne H1]]; [discriminate|].
        destruct (N.eqb_spec k0 k) as [->|Nk]; [rewrite kget_kdel_same in Hn0; discriminate|].
        rewrite kget_kdel_other in Hn0 by exact Nk. eapply (inv_live_key s I); eassumption.
      * intros t0 th0 n0 H0 Hs0. destruct (Hothers t0 th0 H0) as [[-> ->]|[Hne H1]]; [discriminate|]. eapply (inv_fresh s I); eassumption.
      * apply (inv_closed_fresh s I).
    + (* other waiters remain: the count goes down by one *)
      constructor; cbn [c_threads c_nmap c_closed c_next].
      * apply nodup_kset. apply (inv_tkeys s I).
      * apply nodup_kset. apply (inv_nkeys s I).
      * intros t0 th0 n0 H0 Hs0. destruct (Hothers t0 th0 H0) as [[-> ->]|[Hne H1]]; [discriminate|].
        destruct (inv_wait s I t0 th0 n0 H1 Hs0) as [Hc|(nf0 & Hn0 & Hid0)]; [left; exact Hc|]. right.
        rewrite kget_kset. destruct (N.eqb_spec (th_key th0) k) as [Ek|Ek].
        -- eexists. split; [reflexivity|]. cbn. rewrite Ek, En in Hn0. congruence.
        -- exists nf0. split; assumption.
      * intros k0 nf0 Hn0. rewrite kget_kset in Hn0. rewrite Hcw. destruct (N.eqb_spec k0 k) as [->|Nk].
        -- injection Hn0 as <-. cbn [nf_id nf_waiters]. rewrite N.eqb_refl. rewrite <- Eid. repeat split; try assumption.
           rewrite <- Hw. rewrite <- Eid, <- Hw in Hself. lia.
        -- destruct (inv_entry s I k0 nf0 Hn0) as (Hw0 & Hnc0 & Hlt0). repeat split; try assumption.
           destruct (N.eqb_spec nid (nf_id nf0)) as [E|E]; [|lia].
           exfalso. apply Nk. eapply (inv_ids s I); [exact Hn0|exact En|congruence].
      * intros k1 k2 nf1 nf2 H1 H2 Hid. rewrite kget_kset in H1. rewrite kget_kset in H2.
        destruct (N.eqb_spec k1 k) as [->|N1]; destruct (N.eqb_spec k2 k) as [->|N2]; try reflexivity.
        -- injection H1 as <-. cbn in Hid. symmetry. eapply (inv_ids s I); [exact H2|exact En|congruence].
        -- injection H2 as <-. cbn in Hid. eapply (inv_ids s I); [exact H1|exact En|congruence].
        -- eapply (inv_ids s I); eassumption.
      * intros t0 th0 n0 k0 nf0 H0 Hs0 Hn0 Hid0. destruct (Hothers t0 th0 H0) as [[-> ->]|[Hne H1]]; [discriminate|].
        rewrite kget_kset in Hn0. destruct (N.eqb_spec k0 k) as [->|Nk].
        -- injection Hn0 as <-. cbn in Hid0. eapply (inv_live_key s I); [exact H1|exact Hs0|exact En|congruence].
        -- eapply (inv_live_key s I); eassumption.
      * intros t0 th0 n0 H0 Hs0. destruct (Hothers t0 th0 H0) as [[-> ->]|[Hne H1]]; [discriminate|]. eapply (inv_fresh s I); eassumption.
      * apply (inv_closed_fresh s I).
  - (* the key has another (newer) notifier: nothing to remove; nobody but closed-notifier waiters share nid *)
    constructor; cbn [c_threads c_nmap c_closed c_next].
    + apply nodup_kset. apply (inv_tkeys s I).
    + apply (inv_nkeys s I).
    + intros t0 th0 n0 H0 Hs0. destruct (Hothers t0 th0 H0) as [[-> ->]|[Hne H1]]; [discriminate|]. eapply (inv_wait s I); eassumption.
    + intros k0 nf0 Hn0. destruct (inv_entry s I k0 nf0 Hn0) as (Hw0 & Hnc0 & Hlt0). rewrite Hcw. repeat split; try assumption.
      destruct (N.eqb_spec nid (nf_id nf0)) as [E|E]; [|lia].
      exfalso. assert (k = k0) by (eapply (inv_live_key s I); [exact Hg|exact Hst|exact Hn0|congruence]). subst k0.
      rewrite En in Hn0. injection Hn0 as <-. congruence.
    + exact (inv_ids s I).
    + intros t0 th0 n0 k0 nf0 H0 Hs0. destruct (Hothers t0 th0 H0) as [[-> ->]|[Hne H1]]; [discriminate|]. eapply (inv_live_key s I); eassumption.
    + intros t0 th0 n0 H0 Hs0. destruct (Hothers t0 th0 H0) as [[-> ->]|[Hne H1]]; [discriminate|]. eapply (inv_fresh s I); eassumption.
    + apply (inv_closed_fresh s I).
Qed.

Lemma cstep_inv s e : inv s -> inv (cstep s e).
Proof.
  intros I. destruct e as [t k|t|t|t|t|t|full up scope]; cbn [cstep].
  - destruct (kget t (c_threads s)) as [th|] eqn:E; [exact I|].
    destruct (kget k (c_cache s)) as [v|]; unfold finish; apply inv_set_nonwaiting; try exact I;
      try (intros th0 H0; congruence); intros nid; cbn; discriminate.
  - destruct (kget t (c_threads s)) as [th|] eqn:E; [exact I|].
    apply inv_set_nonwaiting; [exact I|intros th0 H0; congruence|intros nid; cbn; discriminate].
  - destruct (kget t (c_threads s)) as [th|] eqn:E; [|exact I].
    destruct (th_st th) eqn:Est; try exact I.
    destruct (kget (th_key th) (c_cache s)) as [v|].
    + unfold finish. apply inv_set_nonwaiting; [exact I| |intros nid; cbn; discriminate].
      intros th0 H0 nid. rewrite E in H0. injection H0 as <-. rewrite Est. discriminate.
    + apply (inv_register s t th I E Est).
  - destruct (kget t (c_threads s)) as [th|] eqn:E; [|exact I].
    destruct (th_st th) eqn:Est; try exact I.
    destruct (nmem nid (c_closed s)) eqn:Ec; [|exact I].
    eapply inv_leave_closed; eassumption.
  - destruct (kget t (c_threads s)) as [th|] eqn:E; [|exact I].
    destruct (th_st th) eqn:Est; try exact I.
    destruct (th_fired th); [|exact I].
    apply (inv_timeout s t th nid _ I E Est).
  - destruct (kget t (c_threads s)) as [th|] eqn:E; [|exact I].
    eapply inv_set_same; [exact I|exact E|reflexivity|reflexivity].
  - apply inv_deliver. exact I.
Qed.

Lemma crun_inv h : inv (crun h).
Proof.
  unfold crun. pose proof inv_init as G. revert G. generalize cinit.
  induction h as [|e h IH]; intros s G; cbn [fold_left]; [exact G|]. apply IH. apply cstep_inv. exact G.
Qed.

Lemma crun_snoc h e : crun (h ++ [e]) = cstep (crun h) e.
Proof. unfold crun. rewrite fold_left_app. reflexivity. Qed.

(** after ANY schedule (whatever other callers did: arrived, timed out, were cancelled), a delivery
    carrying a waiting lookup's name closes that lookup's notifier ... *)
Lemma deliver_wakes h full up scope t th nid v :
  let s := crun (h ++ [EDeliver full up scope]) in
  kget t (c_threads s) = Some th -> th_st th = TWaiting nid -> kget (th_key th) up = Some v ->
  nmem nid (c_closed s) = true.
Proof.
  intros s Hg Hst Hup. subst s. rewrite crun_snoc in *. cbn [cstep c_threads c_closed] in *.
  rewrite nmem_app. destruct (inv_wait _ (crun_inv h) t th nid Hg Hst) as [Hc|(nf & Hn & Hid)]; [rewrite Hc; reflexivity|].
  apply orb_true_iff. right. apply nmem_true_iff. apply notified_in.
  destruct (kget_some_in _ _ _ Hup) as [v' Hv]. exists (th_key th), v', nf. repeat split; assumption.
Qed.

(** ... so its own next step alone returns, with the content of the cache at that moment, without any deadline firing *)
Lemma woken_returns s t th nid :
  kget t (c_threads s) = Some th -> th_st th = TWaiting nid -> nmem nid (c_closed s) = true ->
  enabled s (EWake t) = true /\ thread_result (cstep s (EWake t)) t = Some (read_result s (th_key th)).
Proof.
  intros Hg Hst Hc. split.
  - cbn [enabled]. rewrite Hg, Hst. exact Hc.
  - cbn [cstep]. rewrite Hg, Hst, Hc. unfold thread_result, finish, set_thread. cbn [c_threads].
    rewrite kget_kset, N.eqb_refl. reflexivity.
Qed.

(** the delivered content is what the cache holds right after the delivery *)
Lemma kget_fold_kset (up : list (N * N)) : forall c k,
  kget k (fold_left (fun acc kv => kset (fst kv) (snd kv) acc) up c) =
  match kget k (rev up) with Some v => Some v | None => kget k c end.
Proof.
  induction up as [|[k0 v0] up IH]; intros c k; cbn [fold_left rev fst snd]; [reflexivity|].
  rewrite IH. clear IH.
  assert (Happ : forall (a b : list (N * N)), kget k (a ++ b) = match kget k a with Some v => Some v | None => kget k b end).
  { induction a as [|[x y] a IHa]; intros b; cbn [app kget]; [reflexivity|]. destruct (N.eqb k x); [reflexivity|apply IHa]. }
  rewrite Happ. destruct (kget k (rev up)); [reflexivity|]. cbn [kget]. rewrite kget_kset. destruct (N.eqb k k0); reflexivity.
Qed.

Lemma kget_prune (up : list (N * N)) scope k w : forall c : list (N * N),
  kget k up = Some w ->
  kget k (fold_left (fun acc k' => match kget k' up with Some _ => acc | None => kdel k' acc end) scope c) = kget k c.
Proof.
  induction scope as [|k' scope IH]; intros c Hk; cbn [fold_left]; [reflexivity|].
  rewrite IH by exact Hk. destruct (kget k' up) eqn:E; [reflexivity|].
  apply kget_kdel_other. intros ->. congruence.
Qed.

Lemma kget_rev_some {V} k (l : list (N * V)) v : kget k (rev l) = Some v -> exists w, kget k l = Some w.
Proof.
  intros H. apply kget_some_in in H. destruct H as [v' Hin]. apply in_rev in Hin. eapply in_kget_some. exact Hin.
Qed.

Lemma deliver_caches s full up scope k v :
  kget k (rev up) = Some v -> kget k (c_cache (cstep s (EDeliver full up scope))) = Some v.
Proof.
  intros Hup. cbn [cstep c_cache]. destruct (kget_rev_some _ _ _ Hup) as [w Hw].
  destruct full; [rewrite (kget_prune up scope k w _ Hw)|]; rewrite kget_fold_kset, Hup; reflexivity.
Qed.

(** C06, assembled: for every schedule h, every lookup of a delivered name that is waiting when the
    delivery is accepted returns that resource by its own next step, no deadline involved *)
Lemma no_lost_wakeup h full up scope t th nid v :
  let s := crun (h ++ [EDeliver full up scope]) in
  kget t (c_threads s) = Some th -> th_st th = TWaiting nid -> kget (th_key th) (rev up) = Some v ->
  enabled s (EWake t) = true /\ thread_result (cstep s (EWake t)) t = Some (RVal v).
Proof.
  intros s Hg Hst Hup.
  destruct (kget_rev_some _ _ _ Hup) as [w Hw].
  pose proof (deliver_wakes h full up scope t th nid w Hg Hst Hw) as Hc.
  destruct (woken_returns s t th nid Hg Hst Hc) as [He Hr]. split; [exact He|].
  rewrite Hr. unfold read_result. subst s. rewrite crun_snoc. rewrite (deliver_caches _ full up scope _ v Hup). reflexivity.
Qed.

(** ... and a lookup that had only missed so far (not yet registered) finds it under the lock *)
Lemma late_registrant_served h full up scope t th v :
  let s := crun (h ++ [EDeliver full up scope]) in
  kget t (c_threads s) = Some th -> th_st th = TMissed -> kget (th_key th) (rev up) = Some v ->
  enabled s (EStep t) = true /\ thread_result (cstep s (EStep t)) t = Some (RVal v).
Proof.
  intros s Hg Hst Hup. split.
  - cbn [enabled]. rewrite Hg, Hst. reflexivity.
  - cbn [cstep]. rewrite Hg, Hst. subst s. rewrite crun_snoc in *.
    rewrite (deliver_caches _ full up scope _ v Hup).
    unfold thread_result, finish, set_thread. cbn [c_threads]. rewrite kget_kset, N.eqb_refl. reflexivity.
Qed.

(** bounded steps and progress: a lookup returns after at most three own steps; its next own step
    is enabled unless it waits with an open notifier and an unfired deadline; once the deadline
    has fired its next own step is enabled *)
Definition rank (st : tstate) : nat := match st with TInit => 3 | TMissed => 2 | TWaiting _ => 1 | TDone _ => 0 end.

Lemma own_step_enabled s t th :
  kget t (c_threads s) = Some th ->
  match th_st th with
  | TMissed => enabled s (EStep t) = true
  | TWaiting nid => and (nmem nid (c_closed s) = true -> enabled s (EWake t) = true)
                        (th_fired th = true -> enabled s (ETimeout t) = true)
  | _ => True
  end.
Proof.
  intros Hg. destruct (th_st th) eqn:Est; try exact I.
  - cbn [enabled]. rewrite Hg, Est. reflexivity.
  - split; intros H; cbn [enabled]; rewrite Hg, Est; exact H.
Qed.

Lemma own_step_decreases s e t th th' :
  kget t (c_threads s) = Some th -> kget t (c_threads (cstep s e)) = Some th' ->
  (rank (th_st th') <= rank (th_st th))%nat /\
  ((e = EStep t \/ e = EWake t \/ e = ETimeout t) -> enabled s e = true -> (rank (th_st th') < rank (th_st th))%nat).
Proof.
  intros Hg Hg'.
  destruct e as [t0 k|t0|t0|t0|t0|t0|full up scope]; cbn [cstep] in Hg'.
  - destruct (kget t0 (c_threads s)) eqn:E0.
    + rewrite Hg in Hg'. injection Hg' as <-. split; [lia|]. intros [H|[H|H]]; discriminate.
    + destruct (kget k (c_cache s)); cbn [finish set_thread c_threads] in Hg'; rewrite kget_kset in Hg';
        (destruct (N.eqb_spec t t0) as [->|Hne]; [congruence|rewrite Hg in Hg'; injection Hg' as <-; split; [lia|intros [H|[H|H]]; discriminate]]).
  - destruct (kget t0 (c_threads s)) eqn:E0.
    + rewrite Hg in Hg'. injection Hg' as <-. split; [lia|]. intros [H|[H|H]]; discriminate.
    + cbn [set_thread c_threads] in Hg'. rewrite kget_kset in Hg'.
      destruct (N.eqb_spec t t0) as [->|Hne]; [congruence|rewrite Hg in Hg'; injection Hg' as <-; split; [lia|intros [H|[H|H]]; discriminate]].
  - destruct (kget t0 (c_threads s)) as [th0|] eqn:E0; [|rewrite Hg in Hg'; injection Hg' as <-; split; [lia|intros _ He; cbn in He; rewrite E0 in He; discriminate]].
    destruct (th_st th0) eqn:Est0; try (rewrite Hg in Hg'; injection Hg' as <-; split; [lia|intros _ He; cbn in He; rewrite E0, Est0 in He; discriminate]).
    destruct (N.eqb_spec t t0) as [->|Hne].
    + rewrite E0 in Hg. injection Hg as <-. rewrite Est0.
      destruct (kget (th_key th0) (c_cache s)); [|destruct (kget (th_key th0) (c_nmap s))];
        cbn [finish set_thread c_threads] in Hg'; rewrite kget_kset, N.eqb_refl in Hg'; injection Hg' as <-; cbn; split; lia.
    + assert (kget t (c_threads s) = Some th') as Hsame.
      { destruct (kget (th_key th0) (c_cache s)); [|destruct (kget (th_key th0) (c_nmap s))];
          cbn [finish set_thread c_threads] in Hg'; rewrite kget_kset in Hg'; (destruct (N.eqb_spec t t0); [congruence|exact Hg']). }
      rewrite Hg in Hsame. injection Hsame as <-. split; [lia|]. intros [H|[H|H]]; try discriminate; injection H as H; congruence.
  - destruct (kget t0 (c_threads s)) as [th0|] eqn:E0; [|rewrite Hg in Hg'; injection Hg' as <-; split; [lia|intros _ He; cbn in He; rewrite E0 in He; discriminate]].
    destruct (th_st th0) eqn:Est0; try (rewrite Hg in Hg'; injection Hg' as <-; split; [lia|intros _ He; cbn in He; rewrite E0, Est0 in He; discriminate]).
    destruct (nmem nid (c_closed s)) eqn:Ec; [|rewrite Hg in Hg'; injection Hg' as <-; split; [lia|intros _ He; cbn in He; rewrite E0, Est0, Ec in He; discriminate]].
    cbn [finish set_thread c_threads] in Hg'. rewrite kget_kset in Hg'. destruct (N.eqb_spec t t0) as [->|Hne].
    + rewrite E0 in Hg. injection Hg as <-. injection Hg' as <-. rewrite Est0. cbn. split; lia.
    + rewrite Hg in Hg'. injection Hg' as <-. split; [lia|]. intros [H|[H|H]]; try discriminate; injection H as H; congruence.
  - destruct (kget t0 (c_threads s)) as [th0|] eqn:E0; [|rewrite Hg in Hg'; injection Hg' as <-; split; [lia|intros _ He; cbn in He; rewrite E0 in He; discriminate]].
    destruct (th_st th0) eqn:Est0; try (rewrite Hg in Hg'; injection Hg' as <-; split; [lia|intros _ He; cbn in He; rewrite E0, Est0 in He; discriminate]).
    destruct (th_fired th0) eqn:Ef; [|rewrite Hg in Hg'; injection Hg' as <-; split; [lia|intros _ He; cbn in He; rewrite E0, Est0, Ef in He; discriminate]].
    cbn [finish set_thread c_threads] in Hg'. rewrite kget_kset in Hg'. destruct (N.eqb_spec t t0) as [->|Hne].
    + rewrite E0 in Hg. injection Hg as <-. injection Hg' as <-. rewrite Est0. cbn. split; lia.
    + rewrite Hg in Hg'. injection Hg' as <-. split; [lia|]. intros [H|[H|H]]; try discriminate; injection H as H; congruence.
  - destruct (kget t0 (c_threads s)) as [th0|] eqn:E0; [|rewrite Hg in Hg'; injection Hg' as <-; split; [lia|intros [H|[H|H]]; discriminate]].
    cbn [set_thread c_threads] in Hg'. rewrite kget_kset in Hg'. destruct (N.eqb_spec t t0) as [->|Hne].
    + rewrite E0 in Hg. injection Hg as <-. injection Hg' as <-. cbn. split; [lia|intros [H|[H|H]]; discriminate].
    + rewrite Hg in Hg'. injection Hg' as <-. split; [lia|intros [H|[H|H]]; discriminate].
  - cbn [c_threads] in Hg'. rewrite Hg in Hg'. injection Hg' as <-. split; [lia|intros [H|[H|H]]; discriminate].
Qed.

Lemma C06_example_proof :
  (* A and B wait on one notifier, A's deadline fires and A leaves, then the resource is delivered: B is woken and returns it *)
  let h := [EInvoke 0 7; EInvoke 1 7; EStep 0; EStep 1; EFire 0; ETimeout 0; EDeliver true [(7, 42)] [7]] in
  thread_result (crun h) 0 = Some RErr /\ thread_result (crun (h ++ [EWake 1])) 1 = Some (RVal 42) /\
  (* a delivery between the unlocked miss and the registration is not lost either *)
  thread_result (crun [EInvoke 0 7; EDeliver true [(7, 42)] [7]; EStep 0]) 0 = Some (RVal 42).
Proof. vm_compute. repeat split; reflexivity. Qed.

Lemma unknown_kind_rejected s t :
  kget t (c_threads s) = None -> thread_result (cstep s (EInvokeBad t)) t = Some RErr /\
  c_watches (cstep s (EInvokeBad t)) = c_watches s /\ c_nmap (cstep s (EInvokeBad t)) = c_nmap s.
Proof.
  intros H. cbn [cstep]. rewrite H. unfold thread_result, set_thread. cbn [c_threads c_watches c_nmap].
  rewrite kget_kset, N.eqb_refl. repeat split; reflexivity.
Qed.

Lemma C05_example_proof :
  thread_result (crun [EInvoke 0 7; EStep 0; EDeliver true [(7, 42)] [7; 8]; EDeliver true [(8, 43)] [7; 8]; EWake 0]) 0 = Some RErr.
Proof. vm_compute. reflexivity. Qed.

(** ---- C07: linearization ---- *)
(** the cache is changed by deliveries only *)
Lemma cache_changes_only_by_delivery s e :
  (forall full up scope, e <> EDeliver full up scope) -> c_cache (cstep s e) = c_cache s.
Proof.
  intros Hne. destruct e as [t k|t|t|t|t|t|full up scope]; cbn [cstep].
  - destruct (kget t (c_threads s)); [reflexivity|]. destruct (kget k (c_cache s)); reflexivity.
  - destruct (kget t (c_threads s)); reflexivity.
  - destruct (kget t (c_threads s)) as [th|]; [|reflexivity]. destruct (th_st th); try reflexivity.
    destruct (kget (th_key th) (c_cache s)); [reflexivity|]. destruct (kget (th_key th) (c_nmap s)); reflexivity.
  - destruct (kget t (c_threads s)) as [th|]; [|reflexivity]. destruct (th_st th); try reflexivity.
    destruct (nmem nid (c_closed s)); reflexivity.
  - destruct (kget t (c_threads s)) as [th|]; [|reflexivity]. destruct (th_st th); try reflexivity.
    destruct (th_fired th); reflexivity.
  - destruct (kget t (c_threads s)); reflexivity.
  - exfalso. exact (Hne full up scope eq_refl).
Qed.

(** a lookup that has returned keeps its result whatever happens later *)
Lemma result_is_final s e t r : thread_result s t = Some r -> thread_result (cstep s e) t = Some r.
Proof.
  unfold thread_result. intros H.
  destruct (kget t (c_threads s)) as [th0|] eqn:E0; [|discriminate].
  destruct (th_st th0) eqn:Es0; try discriminate. injection H as ->.
  assert (Hset : forall t' th', t' <> t -> kget t (kset t' th' (c_threads s)) = Some th0).
  { intros t' th' Hne. unfold kset. cbn [kget]. destruct (N.eqb_spec t t'); [congruence|].
    assert (G : forall (m : list (N * thread)), kget t (kdel t' m) = kget t m).
    { induction m as [|[a b] m IH]; cbn [kdel kget]; [reflexivity|].
      destruct (N.eqb_spec t' a) as [->|Ha]; cbn [kget]; [destruct (N.eqb_spec t a); [congruence|exact IH]|rewrite IH; reflexivity]. }
    rewrite G. exact E0. }
  destruct e as [t' k|t'|t'|t'|t'|t'|full up scope]; cbn [cstep].
  - destruct (N.eq_dec t' t) as [->|Hne]; [rewrite E0, E0, Es0; reflexivity|].
    destruct (kget t' (c_threads s)); [rewrite E0, Es0; reflexivity|].
    destruct (kget k (c_cache s)); unfold finish, set_thread; cbn [c_threads]; rewrite (Hset _ _ Hne), Es0; reflexivity.
  - destruct (N.eq_dec t' t) as [->|Hne]; [rewrite E0, E0, Es0; reflexivity|].
    destruct (kget t' (c_threads s)); [rewrite E0, Es0; reflexivity|].
    unfold set_thread; cbn [c_threads]; rewrite (Hset _ _ Hne), Es0; reflexivity.
  - destruct (N.eq_dec t' t) as [->|Hne]; [rewrite E0, Es0, E0, Es0; reflexivity|].
    destruct (kget t' (c_threads s)) as [th|]; [|rewrite E0, Es0; reflexivity].
    destruct (th_st th); try (rewrite E0, Es0; reflexivity).
    destruct (kget (th_key th) (c_cache s)); [unfold finish, set_thread; cbn [c_threads]; rewrite (Hset _ _ Hne), Es0; reflexivity|].
    destruct (kget (th_key th) (c_nmap s)); cbn [c_threads]; rewrite (Hset _ _ Hne), Es0; reflexivity.
  - destruct (N.eq_dec t' t) as [->|Hne]; [rewrite E0, Es0, E0, Es0; reflexivity|].
    destruct (kget t' (c_threads s)) as [th|]; [|rewrite E0, Es0; reflexivity].
    destruct (th_st th); try (rewrite E0, Es0; reflexivity).
    destruct (nmem nid (c_closed s)); [|rewrite E0, Es0; reflexivity].
    unfold finish, set_thread; cbn [c_threads]; rewrite (Hset _ _ Hne), Es0; reflexivity.
  - destruct (N.eq_dec t' t) as [->|Hne]; [rewrite E0, Es0, E0, Es0; reflexivity|].
    destruct (kget t' (c_threads s)) as [th|]; [|rewrite E0, Es0; reflexivity].
    destruct (th_st th); try (rewrite E0, Es0; reflexivity).
    destruct (th_fired th); [|rewrite E0, Es0; reflexivity].
    unfold finish, set_thread; cbn [c_threads]; rewrite (Hset _ _ Hne), Es0; reflexivity.
  - destruct (N.eq_dec t' t) as [->|Hne].
    + rewrite E0. unfold set_thread. cbn [c_threads kset kget]. rewrite N.eqb_refl. cbn [th_st]. rewrite Es0. reflexivity.
    + destruct (kget t' (c_threads s)) as [th|]; [|rewrite E0, Es0; reflexivity].
      unfold set_thread; cbn [c_threads]; rewrite (Hset _ _ Hne), Es0; reflexivity.
  - cbn [c_threads]. rewrite E0, Es0. reflexivity.
Qed.

(** linearization point: along ANY schedule, the event at which a lookup returns reads the cache as it is at that
    very event (between the lookup's invocation and its return), or is the lookup's own deadline / an unknown kind *)
Lemma linearization_point h e t r :
  thread_result (crun h) t = None -> thread_result (crun (h ++ [e])) t = Some r ->
  exists th, kget t (c_threads (crun (h ++ [e]))) = Some th /\
    match r with
    | RVal v => kget (th_key th) (c_cache (crun h)) = Some v
    | RErr => kget (th_key th) (c_cache (crun h)) = None \/ (exists k, e = EInvokeBad t /\ k = 0) \/ (e = ETimeout t)
    | _ => False
    end.
Proof. rewrite crun_snoc. apply step_reads_current. Qed.

Lemma result_is_final_run h h' t r : thread_result (crun h) t = Some r -> thread_result (crun (h ++ h')) t = Some r.
Proof.
  revert h. induction h' as [|e h' IH]; intros h H; [rewrite app_nil_r; exact H|].
  change (e :: h') with ([e] ++ h'). rewrite app_assoc. apply IH. rewrite crun_snoc. apply result_is_final. exact H.
Qed.

(** ---- the sequential lookup of Model/Sys.v is the uninterrupted schedule of this model ---- *)
(** a lookup that runs alone: a hit returns the value at once; a miss registers, issues exactly one subscription request,
    and - its deadline having fired - returns an error, leaving no notifier behind (Model/Sys.v [lookup]: LHit / LMiss
    with one Watch) *)
Lemma sequential_hit s t k v : kget t (c_threads s) = None -> kget k (c_cache s) = Some v ->
  thread_result (cstep s (EInvoke t k)) t = Some (RVal v) /\ c_watches (cstep s (EInvoke t k)) = c_watches s.
Proof.
  intros Ht Hc. cbn [cstep]. rewrite Ht, Hc. unfold thread_result, finish, set_thread. cbn [c_threads c_watches kset kget].
  rewrite N.eqb_refl. split; reflexivity.
Qed.

Lemma sequential_miss s t k : kget t (c_threads s) = None -> kget k (c_cache s) = None -> kget k (c_nmap s) = None ->
  let s' := fold_left cstep [EInvoke t k; EStep t; EFire t; ETimeout t] s in
  thread_result s' t = Some RErr /\ c_watches s' = (c_watches s ++ [k])%list /\ kget k (c_nmap s') = None /\ c_cache s' = c_cache s.
Proof.
  intros Ht Hc Hn. cbn [fold_left].
  (* invoke: miss *)
  assert (E1 : cstep s (EInvoke t k) = set_thread s t {| th_key := k; th_st := TMissed; th_fired := false |}) by (cbn [cstep]; rewrite Ht, Hc; reflexivity).
  rewrite E1. set (s1 := set_thread s t {| th_key := k; th_st := TMissed; th_fired := false |}).
  assert (G1 : kget t (c_threads s1) = Some {| th_key := k; th_st := TMissed; th_fired := false |}) by (unfold s1, set_thread, kset; cbn [c_threads kget]; rewrite N.eqb_refl; reflexivity).
  (* step: register a new notifier *)
  assert (E2 : cstep s1 (EStep t) =
               {| c_cache := c_cache s; c_nmap := kset k {| nf_id := c_next s; nf_waiters := 1 |} (c_nmap s); c_closed := c_closed s; c_next := c_next s + 1;
                  c_threads := kset t {| th_key := k; th_st := TWaiting (c_next s); th_fired := false |} (c_threads s1); c_watches := (c_watches s ++ [k])%list |}).
  { cbn [cstep]. rewrite G1. cbn [th_st th_key th_fired]. change (c_cache s1) with (c_cache s). change (c_nmap s1) with (c_nmap s). rewrite Hc, Hn. reflexivity. }
  rewrite E2. clear E2.
  match goal with |- context [cstep (cstep ?S2 (EFire t)) (ETimeout t)] => set (s2 := S2) end.
  assert (G2 : kget t (c_threads s2) = Some {| th_key := k; th_st := TWaiting (c_next s); th_fired := false |}) by (unfold s2, kset; cbn [c_threads kget]; rewrite N.eqb_refl; reflexivity).
  (* the deadline fires *)
  assert (E3 : cstep s2 (EFire t) = set_thread s2 t {| th_key := k; th_st := TWaiting (c_next s); th_fired := true |}) by (cbn [cstep]; rewrite G2; reflexivity).
  rewrite E3. set (s3 := set_thread s2 t {| th_key := k; th_st := TWaiting (c_next s); th_fired := true |}).
  assert (G3 : kget t (c_threads s3) = Some {| th_key := k; th_st := TWaiting (c_next s); th_fired := true |}) by (unfold s3, set_thread, kset; cbn [c_threads kget]; rewrite N.eqb_refl; reflexivity).
  assert (Gn : kget k (c_nmap s3) = Some {| nf_id := c_next s; nf_waiters := 1 |}) by (unfold s3, set_thread, s2, kset; cbn [c_nmap kget]; rewrite N.eqb_refl; reflexivity).
  assert (Gc : nmem (c_next s) (c_closed s3) = nmem (c_next s) (c_closed s)) by reflexivity.
  (* timeout: leave, last waiter removes the notifier *)
  cbn [cstep]. rewrite G3. cbn [th_st th_fired th_key]. rewrite Gn. cbn [nf_id nf_waiters]. rewrite !N.eqb_refl.
  unfold thread_result, finish, set_thread. cbn [c_threads c_watches c_nmap c_cache kset kget]. rewrite N.eqb_refl. cbn [th_st].
  (* the notifier id is fresh: it cannot have been closed already - unless the state was inconsistent; either way the result is RErr or the (absent) value *)
  destruct (nmem (c_next s) (c_closed s3)) eqn:Ecl.
  - unfold read_result. cbn [c_cache]. unfold s3, set_thread, s2. cbn [c_cache]. rewrite Hc. repeat split; try reflexivity.
    unfold s3, set_thread, s2, kset. cbn [c_nmap]. apply kget_kdel_same.
  - repeat split; try reflexivity. unfold s3, set_thread, s2, kset. cbn [c_nmap]. apply kget_kdel_same.
Qed.
