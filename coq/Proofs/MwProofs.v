(** Lemmas about the routing step, the retry key and the resolver (C15, C10). *)
From Xds Require Import Model.Base Model.Fqdn Model.Proto Model.Decode Model.Pick Model.Route Model.Mw.
From Xds Require Import Proofs.PickProofs Proofs.RouteProofs.
From Coq Require Import Lia.
Open Scope string_scope.

Lemma mw_already_decided t t0 r :
  mw_step (Some t) t0 r = {| mo_err := 0; mo_next := 1; mo_tag := Some t; mo_locked := false; mo_timeout := t0 |}.
Proof. reflexivity. Qed.

Lemma mw_decides_once t0 c tmo :
  mw_step None t0 (Some (c, tmo)) = {| mo_err := 0; mo_next := 1; mo_tag := Some c; mo_locked := true; mo_timeout := tmo |}.
Proof. reflexivity. Qed.

Lemma mw_fail_closed t0 :
  mw_step None t0 None = {| mo_err := 1; mo_next := 0; mo_tag := None; mo_locked := false; mo_timeout := t0 |}.
Proof. reflexivity. Qed.

(** the step as a function of the lookups: passes the call on exactly when the destination was
    decided before or Route succeeds; never more than once *)
Lemma mw_next_le_one pre t0 r : mo_next (mw_step pre t0 r) <= 1.
Proof. destruct pre; [cbn; lia|]. destruct r as [[c t]|]; cbn; lia. Qed.

Lemma mw_passes_on_iff pre t0 r :
  mo_next (mw_step pre t0 r) = 1 <-> (pre <> None \/ r <> None).
Proof.
  destruct pre as [t|]; [cbn; split; [intros _; left; discriminate|reflexivity]|].
  destruct r as [[c t]|]; cbn; split; try reflexivity; try discriminate.
  - intros _. right. discriminate.
  - intros [H|H]; congruence.
Qed.

Lemma mw_error_iff pre t0 r : mo_err (mw_step pre t0 r) = 1 <-> (pre = None /\ r = None).
Proof.
  destruct pre as [t|]; [cbn; split; [discriminate|intros [H _]; discriminate]|].
  destruct r as [[c t]|]; cbn; split; try discriminate; try (intros [_ H]; discriminate); intros; split; reflexivity.
Qed.

Lemma mw_tag_untouched_on_failure t0 : mo_tag (mw_step None t0 None) = None /\ mo_timeout (mw_step None t0 None) = t0.
Proof. split; reflexivity. Qed.

(** every way a lookup can fail makes Route fail *)
Lemma route_fails_listener o k named t : route_call o k GErr named t = None.
Proof. reflexivity. Qed.

Lemma route_fails_named o k l named f t :
  k_grpc k = true \/ thrift_part o k l = None ->
  last_filter false l = Some f ->
  match nf_inline f with Some rc => match_http o k rc | None => None end = None ->
  named (nf_rcname f) = GErr ->
  route_call o k (GOk l) named t = None.
Proof.
  intros Hg Hf Hi Hn. apply no_match_is_error. rewrite match_route_precedence.
  assert (Hh : http_part o k l named = None).
  { rewrite (named_when_inline_misses o k l named f Hf Hi), Hn. reflexivity. }
  destruct (k_grpc k); [exact Hh|]. destruct Hg as [Hg|Hg]; [discriminate|]. rewrite Hg. exact Hh.
Qed.

(** the routed destination is a cluster of the matched route with positive weight (or its only cluster), with the route's timeout *)
Lemma route_call_some o k lis named t c tmo :
  route_call o k lis named t = Some (c, tmo) ->
  exists r, match_route o k lis named = Some r /\ tmo = r_timeout r /\
            exists i, pick (map snd (r_clusters r)) t = Ok i /\ c = nth i (map fst (r_clusters r)) "".
Proof.
  unfold route_call. destruct (match_route o k lis named) as [r|]; [|discriminate].
  destruct (pick (map snd (r_clusters r)) t) as [i| |] eqn:E; try discriminate.
  intros H. injection H as <- <-. exists r. repeat split. exists i. split; [exact E|reflexivity].
Qed.

(** retry key *)
Lemma key_already_decided t t0 mm m r : fst (key_step (Some t) t0 mm m r) = t.
Proof. reflexivity. Qed.
Lemma key_failure_is_empty t0 mm m : key_step None t0 mm m None = ("", {| mo_err := 0; mo_next := 0; mo_tag := None; mo_locked := false; mo_timeout := t0 |}).
Proof. reflexivity. Qed.
Lemma key_decides t0 mm m c tmo :
  key_step None t0 mm m (Some (c, tmo)) =
  (if mm then c ++ "|" ++ m else c, {| mo_err := 0; mo_next := 0; mo_tag := Some c; mo_locked := true; mo_timeout := tmo |}).
Proof. reflexivity. Qed.
(** the key function and the middleware leave the call in the same state *)
Lemma key_and_mw_same_effect t0 mm m r :
  let e := snd (key_step None t0 mm m r) in let w := mw_step None t0 r in
  mo_tag e = mo_tag w /\ mo_locked e = mo_locked w /\ mo_timeout e = mo_timeout w.
Proof. destruct r as [[c t]|]; cbn; repeat split. Qed.

(** ---- resolver (C10) ---- *)
Lemma map_inst_id (l : list (string * N)) : map (fun e => (fst e, inst_weight (snd e))) l = l.
Proof. induction l as [|[a w] r IH]; [reflexivity|]. cbn [map fst snd]. unfold inst_weight at 1. rewrite IH. reflexivity. Qed.

Lemma resolve_some_spec cl eds l :
  resolve cl eds = Some l ->
  exists c locs, cl = GOk c /\
    (c_inline c = Some locs \/ (c_inline c = None /\ eds (c_epname c) = GOk (Some locs))) /\
    l = concat locs /\ l <> [].
Proof.
  unfold resolve. destruct cl as [c|]; [|discriminate].
  destruct (c_inline c) as [e|] eqn:Ei.
  - destruct e as [|loc locs]; [discriminate|].
    destruct (concat (loc :: locs)) as [|x xs] eqn:Ec; [discriminate|].
    intros H. injection H as <-. exists c, (loc :: locs). split; [reflexivity|]. split; [left; exact Ei|].
    split; [|discriminate]. rewrite Ec. apply (map_inst_id (x :: xs)).
  - destruct (eds (c_epname c)) as [[e|]|] eqn:Ee; try discriminate.
    destruct e as [|loc locs]; [discriminate|].
    destruct (concat (loc :: locs)) as [|x xs] eqn:Ec; [discriminate|].
    intros H. injection H as <-. exists c, (loc :: locs). split; [reflexivity|]. split; [right; split; [exact Ei|exact Ee]|].
    split; [|discriminate]. rewrite Ec. apply (map_inst_id (x :: xs)).
Qed.

Lemma resolve_complete c eds locs :
  (c_inline c = Some locs \/ (c_inline c = None /\ eds (c_epname c) = GOk (Some locs))) ->
  concat locs <> [] -> resolve (GOk c) eds = Some (concat locs).
Proof.
  intros H Hne. unfold resolve.
  assert (E : match c_inline c with Some e => GOk (Some e) | None => eds (c_epname c) end = GOk (Some locs)).
  { destruct H as [->|[-> ->]]; reflexivity. }
  rewrite E. destruct locs as [|loc locs]; [exfalso; apply Hne; reflexivity|].
  destruct (concat (loc :: locs)) as [|x xs] eqn:Ec; [congruence|]. f_equal. apply map_inst_id.
Qed.

Lemma resolve_never_empty cl eds : resolve cl eds <> Some [].
Proof.
  intros H. apply resolve_some_spec in H. destruct H as (c & locs & _ & _ & -> & Hne). exact (Hne eq_refl).
Qed.

Lemma resolve_cluster_error eds : resolve GErr eds = None.
Proof. reflexivity. Qed.

Lemma resolve_endpoint_error c eds : c_inline c = None -> eds (c_epname c) = GErr -> resolve (GOk c) eds = None.
Proof. intros Hi He. unfold resolve. rewrite Hi, He. reflexivity. Qed.

Lemma resolve_no_endpoints c eds :
  (c_inline c = None /\ eds (c_epname c) = GOk None) \/
  (exists locs, (c_inline c = Some locs \/ (c_inline c = None /\ eds (c_epname c) = GOk (Some locs))) /\ concat locs = []) ->
  resolve (GOk c) eds = None.
Proof.
  unfold resolve. intros [[Hi He]|(locs & H & Hc)].
  - rewrite Hi, He. reflexivity.
  - assert (E : match c_inline c with Some e => GOk (Some e) | None => eds (c_epname c) end = GOk (Some locs)).
    { destruct H as [->|[-> ->]]; reflexivity. }
    rewrite E. destruct locs; [reflexivity|]. rewrite Hc. reflexivity.
Qed.

Lemma res_spec_model cl eds desc :
  res_spec {| rs_cluster := cl; rs_eds := []; rs_desc := desc; rs_obs := resolve cl eds;
              rs_cacheable := true; rs_cache_key := desc; rs_panic := false |} = true.
Proof.
  unfold res_spec. cbn [rs_panic rs_obs rs_cacheable rs_cache_key rs_desc rs_cluster negb andb].
  destruct (resolve cl eds) as [l|] eqn:E; [|reflexivity].
  destruct l as [|x xs]; [exfalso; exact (resolve_never_empty cl eds E)|].
  rewrite String.eqb_refl. destruct cl; [reflexivity|discriminate].
Qed.

Lemma C15_example_proof :
  let o := mk_oracle_route [] [] in
  let r := {| r_match := HttpMatch "" "/" []; r_clusters := [("c1", 1)]; r_timeout := 250000000%Z; r_retry := no_retry |} in
  let rc := {| rc_http := Some [("vh", [r])]; rc_thrift := None; rc_maxtok := 0; rc_tpf := 0 |} in
  let lis := [{| nf_thrift := false; nf_rcname := "named"; nf_port := 0; nf_inline := None |}] in
  let k := {| k_service := "s"; k_pkg := ""; k_svc := "svc"; k_method := "m"; k_to_method := "m"; k_grpc := false; k_md := [] |} in
  mw_step None 0%Z (route_call o k (GOk lis) (fun _ => GOk rc) 0) =
    {| mo_err := 0; mo_next := 1; mo_tag := Some "c1"; mo_locked := true; mo_timeout := 250000000%Z |} /\
  mw_step None 0%Z (route_call o k (GOk lis) (fun _ => GErr) 0) =
    {| mo_err := 1; mo_next := 0; mo_tag := None; mo_locked := false; mo_timeout := 0%Z |}.
Proof. vm_compute. split; reflexivity. Qed.

(** the statement evaluated on the implementation against the messages the control plane sent holds of the model *)
Lemma insts_eqb_refl a : insts_eqb a a = true.
Proof.
  unfold insts_eqb. destruct a as [l|]; cbn [opt_eqb]; [|reflexivity].
  induction l as [|[x w] l IH]; cbn [list_eqb fst snd]; [reflexivity|]. rewrite String.eqb_refl, N.eqb_refl, IH. reflexivity.
Qed.

Lemma src_spec_model c : rs_obs (r2_case c) = resolve (src_cluster c) (src_eds c) -> src_spec c = true.
Proof. intros H. unfold src_spec. rewrite H. apply insts_eqb_refl. Qed.
