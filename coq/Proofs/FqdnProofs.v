(** Lemmas about the FQDN / listener-name model (C14). *)
From Xds Require Import Model.Base Model.Fqdn.
From Coq Require Import Lia Arith.
Open Scope string_scope.

Lemma prefix_app s t : String.prefix s (s ++ t) = true.
Proof.
  induction s as [|a s IH]; cbn [String.prefix append].
  - destruct t; reflexivity.
  - destruct (ascii_dec a a) as [_|N]; [exact IH|congruence].
Qed.

Lemma contains_app a sub b : contains (a ++ sub ++ b) sub = true.
Proof.
  induction a as [|x a IH]; cbn [append].
  - destruct (sub ++ b) eqn:E; cbn [contains].
    + destruct sub; cbn in E; [reflexivity|discriminate].
    + rewrite <- E, prefix_app. reflexivity.
  - cbn [contains]. rewrite IH. apply orb_true_r.
Qed.

Lemma append_assoc (a b c : string) : (a ++ b) ++ c = a ++ (b ++ c).
Proof. induction a as [|x a IH]; cbn [append]; [reflexivity|rewrite IH; reflexivity]. Qed.

Lemma append_nil_r (a : string) : a ++ "" = a.
Proof. induction a as [|x a IH]; cbn [append]; [reflexivity|rewrite IH; reflexivity]. Qed.

(** strings.Join for a one-byte separator, inverse of split_on *)
Fixpoint join (c : ascii) (l : list string) : string :=
  match l with
  | [] => ""
  | [p] => p
  | p :: r => p ++ String c (join c r)
  end.

Lemma split_on_nonempty c s : split_on c s <> [].
Proof.
  destruct s as [|a r]; cbn [split_on]; [discriminate|].
  destruct (Ascii.eqb a c); [discriminate|]. destruct (split_on c r); discriminate.
Qed.

Lemma join_split c s : join c (split_on c s) = s.
Proof.
  induction s as [|a r IH]; [reflexivity|]. cbn [split_on].
  destruct (Ascii.eqb_spec a c) as [->|Hne].
  - pose proof (split_on_nonempty c r) as Hn.
    destruct (split_on c r) as [|p ps] eqn:E; [congruence|].
    cbn [join append]. cbn [join] in IH. rewrite IH. reflexivity.
  - pose proof (split_on_nonempty c r) as Hn.
    destruct (split_on c r) as [|p ps] eqn:E; [congruence|].
    destruct ps as [|q qs]; cbn [join append] in *; rewrite IH; reflexivity.
Qed.

(** every branch of [expand] either returns the host or a string containing ".svc." *)
Lemma expand_cases c h :
  expand c h = h \/ contains (expand c h) ".svc." = true.
Proof.
  unfold expand. destruct (contains h ".svc.") eqn:E; [left; reflexivity|].
  pose proof (join_split dot h) as J.
  destruct (split_on dot h) as [|p1 [|p2 [|p3 [|p4 ps]]]].
  - right. rewrite <- (append_assoc h "."), <- (append_assoc (h ++ ".") (f_ns c)). apply contains_app.
  - right. rewrite <- (append_assoc h "."), <- (append_assoc (h ++ ".") (f_ns c)). apply contains_app.
  - right. apply contains_app.
  - destruct (String.eqb p3 "svc") eqn:E3; [|left; reflexivity].
    right. apply String.eqb_eq in E3. subst p3. rewrite <- J. cbn [join].
    replace ((p1 ++ String dot (p2 ++ String dot "svc")) ++ "." ++ f_dom c)
       with ((p1 ++ String dot p2) ++ ".svc." ++ f_dom c).
    + apply contains_app.
    + rewrite !append_assoc. cbn [append]. rewrite !append_assoc. reflexivity.
  - right. rewrite <- (append_assoc h "."), <- (append_assoc (h ++ ".") (f_ns c)). apply contains_app.
Qed.

Lemma expand_qualified c h : contains h ".svc." = true -> expand c h = h.
Proof. intros H. unfold expand. rewrite H. reflexivity. Qed.

Lemma expand_idempotent c h : expand c (expand c h) = expand c h.
Proof.
  destruct (expand_cases c h) as [E|E].
  - rewrite !E. reflexivity.
  - apply expand_qualified. exact E.
Qed.

(** expansion only appends, and what it appends ends with "." ++ domain *)
Lemma expand_shape c h :
  expand c h = h \/ exists mid, expand c h = h ++ mid ++ "." ++ f_dom c.
Proof.
  unfold expand. destruct (contains h ".svc."); [left; reflexivity|].
  destruct (split_on dot h) as [|p1 [|p2 [|p3 [|p4 ps]]]].
  - right. exists ("." ++ f_ns c ++ ".svc"). rewrite !append_assoc. reflexivity.
  - right. exists ("." ++ f_ns c ++ ".svc"). rewrite !append_assoc. reflexivity.
  - right. exists ".svc". reflexivity.
  - destruct (String.eqb p3 "svc"); [|left; reflexivity]. right. exists "". reflexivity.
  - right. exists ("." ++ f_ns c ++ ".svc"). rewrite !append_assoc. reflexivity.
Qed.

(** splitting host:port *)
Lemma split_on_no_char c s : no_char c s = true -> split_on c s = [s].
Proof.
  unfold no_char. pose proof (join_split c s) as J.
  destruct (split_on c s) as [|p [|q r]]; try discriminate.
  intros _. cbn [join] in J. subst. reflexivity.
Qed.

Lemma no_char_tail c a s : no_char c (String a s) = true -> Ascii.eqb a c = false /\ no_char c s = true.
Proof.
  unfold no_char. cbn [split_on]. destruct (Ascii.eqb a c).
  - pose proof (split_on_nonempty c s). destruct (split_on c s); [congruence|discriminate].
  - pose proof (split_on_nonempty c s) as Hn.
    destruct (split_on c s) as [|p [|q r]]; intros H; try discriminate; try congruence; split; reflexivity.
Qed.

Lemma split_on_host_port c h p :
  no_char c h = true -> no_char c p = true -> split_on c (h ++ String c p) = [h; p].
Proof.
  intros Hh Hp. induction h as [|a h IH]; cbn [append split_on].
  - rewrite Ascii.eqb_refl. rewrite (split_on_no_char c p Hp). reflexivity.
  - apply no_char_tail in Hh. destruct Hh as [Ha Hh]. rewrite Ha, (IH Hh). reflexivity.
Qed.

Definition bind_port (ip port : string) : option string :=
  match ip with EmptyString => None | _ => Some (ip ++ "_" ++ port) end.

Lemma listener_name_port c t h p :
  no_char colon h = true -> no_char colon p = true ->
  listener_name c t (h ++ String colon p) = bind_port (resolve c t h) p.
Proof.
  intros Hh Hp. unfold listener_name. rewrite (split_on_host_port colon h p Hh Hp).
  unfold bind_port. destruct (resolve c t h); reflexivity.
Qed.

Lemma listener_name_default c t h :
  no_char colon h = true -> listener_name c t h = bind_port (resolve c t h) "80".
Proof.
  intros Hh. unfold listener_name. rewrite (split_on_no_char colon h Hh).
  unfold bind_port. destruct (resolve c t h); reflexivity.
Qed.

Lemma listener_name_too_many_colons c t r :
  (3 <= length (split_on colon r))%nat -> listener_name c t r = None.
Proof.
  unfold listener_name. destruct (split_on colon r) as [|a [|b [|d e]]]; cbn [length]; intros; try lia; reflexivity.
Qed.

(** resolve: first address of the expanded lower-cased host, else of the literal lower-cased host *)
Definition resolve_want (c : fcfg) (t : table) (h : string) : option string :=
  match first_addr t (expand c (lower h)) with
  | Some ip => Some ip
  | None => first_addr t (lower h)
  end.

Lemma resolve_spec c t h :
  resolve c t h = match resolve_want c t h with Some ip => ip | None => "" end.
Proof.
  unfold resolve, resolve_want.
  destruct (first_addr t (expand c (lower h))) as [ip|] eqn:E; [reflexivity|].
  destruct (String.eqb_spec (expand c (lower h)) (lower h)) as [Eq|Ne].
  - rewrite Eq in E. rewrite E. reflexivity.
  - reflexivity.
Qed.

Lemma lower_ascii_idem a : lower_ascii (lower_ascii a) = lower_ascii a.
Proof. destruct a as [[] [] [] [] [] [] [] []]; reflexivity. Qed.

Lemma lower_idem s : lower (lower s) = lower s.
Proof. induction s as [|a s IH]; cbn [lower]; [reflexivity|rewrite lower_ascii_idem, IH; reflexivity]. Qed.

Lemma resolve_case_insensitive c t h1 h2 : lower h1 = lower h2 -> resolve c t h1 = resolve c t h2.
Proof. intros E. unfold resolve. rewrite E. reflexivity. Qed.

Lemma resolve_lower c t h : resolve c t (lower h) = resolve c t h.
Proof. apply resolve_case_insensitive. apply lower_idem. Qed.

Lemma unresolvable_never_bound c t h p :
  no_char colon h = true -> no_char colon p = true ->
  first_addr t (expand c (lower h)) = None -> first_addr t (lower h) = None ->
  listener_name c t (h ++ String colon p) = None /\ listener_name c t h = None.
Proof.
  intros Hh Hp E1 E2.
  rewrite listener_name_port, listener_name_default by assumption.
  rewrite resolve_spec. unfold resolve_want. rewrite E1, E2. split; reflexivity.
Qed.

Lemma bound_to_designated c t h p ip :
  no_char colon h = true -> no_char colon p = true -> ip <> "" ->
  resolve_want c t h = Some ip ->
  listener_name c t (h ++ String colon p) = Some (ip ++ "_" ++ p) /\
  listener_name c t h = Some (ip ++ "_" ++ "80").
Proof.
  intros Hh Hp Hip E.
  rewrite listener_name_port, listener_name_default by assumption.
  rewrite resolve_spec, E. unfold bind_port. destruct ip; [congruence|]. split; reflexivity.
Qed.

(** ---- the executable spec holds of the model's own outputs ---- *)
Lemma length_append a b : String.length (a ++ b) = (String.length a + String.length b)%nat.
Proof. induction a as [|x a IH]; cbn [append String.length]; [reflexivity|rewrite IH; reflexivity]. Qed.

Lemma substring_skip a b : substring (String.length a) (String.length b) (a ++ b) = b.
Proof.
  induction a as [|x a IH]; cbn [append String.length].
  - induction b as [|y b IHb]; cbn [String.length substring]; [reflexivity|].
    cbn [substring]. f_equal. destruct b; [reflexivity|exact IHb].
  - cbn [substring]. exact IH.
Qed.

Lemma has_suffix_app a suf : has_suffix (a ++ suf) suf = true.
Proof.
  unfold has_suffix. rewrite length_append.
  replace (String.length a + String.length suf - String.length suf)%nat with (String.length a) by lia.
  rewrite substring_skip, String.eqb_refl.
  destruct (Nat.leb_spec (String.length suf) (String.length a + String.length suf)); [reflexivity|lia].
Qed.

Definition model_case (c : fcfg) (t : table) (h : string) : fq_case :=
  {| fq_cfg := c; fq_table := t; fq_host := h;
     fq_obs_expand := expand c h; fq_obs_expand2 := expand c (expand c h);
     fq_obs_resolve := resolve c t h; fq_obs_lname := listener_name c t h |}.

Lemma opt_eqb_string_refl o : opt_eqb String.eqb o o = true.
Proof. destruct o; cbn; [apply String.eqb_refl|reflexivity]. Qed.

Lemma fq_spec_model c t h : fq_spec (model_case c t h) = true.
Proof.
  unfold fq_spec, model_case. cbn [fq_cfg fq_table fq_host fq_obs_expand fq_obs_expand2 fq_obs_lname].
  rewrite expand_idempotent, String.eqb_refl. cbn [andb].
  assert (H2 : (if contains h ".svc." then String.eqb (expand c h) h else true) = true).
  { destruct (contains h ".svc.") eqn:E; [|reflexivity]. rewrite expand_qualified by exact E. apply String.eqb_refl. }
  rewrite H2. cbn [andb].
  assert (H3 : String.prefix h (expand c h) = true).
  { destruct (expand_shape c h) as [E|[mid E]]; rewrite E; [|apply prefix_app].
    rewrite <- (append_nil_r h) at 2. apply prefix_app. }
  rewrite H3. cbn [andb].
  assert (H4 : String.eqb (expand c h) h || has_suffix (expand c h) ("." ++ f_dom c) = true).
  { destruct (expand_shape c h) as [E|[mid E]].
    - rewrite E, String.eqb_refl. reflexivity.
    - rewrite E. rewrite <- (append_assoc h mid ("." ++ f_dom c)), has_suffix_app. apply orb_true_r. }
  rewrite H4. cbn [andb].
  unfold listener_name.
  destruct (split_on colon h) as [|a [|p [|q r]]]; try reflexivity.
  - rewrite resolve_spec. unfold resolve_want.
    destruct (first_addr t (expand c (lower a))) as [ip|].
    + destruct ip; [reflexivity|apply opt_eqb_string_refl].
    + destruct (first_addr t (lower a)) as [ip|]; [|reflexivity].
      destruct ip; [reflexivity|apply opt_eqb_string_refl].
  - rewrite resolve_spec. unfold resolve_want.
    destruct (first_addr t (expand c (lower a))) as [ip|].
    + destruct ip; [reflexivity|apply opt_eqb_string_refl].
    + destruct (first_addr t (lower a)) as [ip|]; [|reflexivity].
      destruct ip; [reflexivity|apply opt_eqb_string_refl].
Qed.

Lemma C14_example_proof :
  let c := {| f_ns := "default"; f_dom := "cluster.local" |} in
  let t := [("kitex-server.default.svc.cluster.local", ["10.0.0.1"; "10.0.0.2"]); ("www.example.com", ["1.2.3.4"])] in
  map (expand c) ["kitex-server"; "a.b"; "a.b.svc"; "a.b.c"; "a.b.c.d"; "x.svc.y"]
  = ["kitex-server.default.svc.cluster.local"; "a.b.svc.cluster.local"; "a.b.svc.cluster.local"; "a.b.c";
     "a.b.c.d.default.svc.cluster.local"; "x.svc.y"] /\
  map (listener_name c t) ["Kitex-Server:8888"; "kitex-server"; "www.example.com:443"; "nope:1"; "a:b:c"]
  = [Some "10.0.0.1_8888"; Some "10.0.0.1_80"; Some "1.2.3.4_443"; None; None].
Proof. vm_compute. split; reflexivity. Qed.
