(** C19: the eviction sweep of Model/Sys.v. *)
From Xds Require Import Model.Base Model.Fqdn Model.Proto Model.Decode Model.DecodeCheck Model.Pick Model.Route Model.Mw Model.Sys Model.SysCheck.
From Xds Require Import Proofs.MapLemmas Proofs.DecodeProofs Proofs.PolicyProofs Proofs.SysProofs Proofs.C01Proofs.
From Coq Require Import Lia.
Open Scope string_scope.

Definition evict_list (t : rtype) (ns : list string) (acc : state * list (N * request)) : state * list (N * request) :=
  fold_left (fun acc2 n => let '(s2, rq) := evict_one (fst acc2) t n in (s2, (snd acc2 ++ rq)%list)) ns acc.

Lemma sweep_unfold s : sweep s = fold_left (fun acc t => evict_list t (idle_names (fst acc) t) acc) all_types (s, []).
Proof. reflexivity. Qed.

Lemma evict_list_cons t n ns acc :
  evict_list t (n :: ns) acc = evict_list t ns (fst (evict_one (fst acc) t n), (snd acc ++ snd (evict_one (fst acc) t n))%list).
Proof. unfold evict_list. cbn [fold_left]. destruct (evict_one (fst acc) t n). reflexivity. Qed.

Lemma evict_one_cache s t n : s_cache (fst (evict_one s t n)) = tset t (adel n (tget t (s_cache s))) (s_cache s).
Proof. reflexivity. Qed.
Lemma evict_one_meta s t n : s_meta (fst (evict_one s t n)) = tset t (adel n (tget t (s_meta s))) (s_meta s).
Proof. reflexivity. Qed.
Lemma evict_one_now s t n : s_now (fst (evict_one s t n)) = s_now s.
Proof. reflexivity. Qed.
Lemma evict_one_watched s t n t' :
  watched_names (fst (evict_one s t n)) t' = if rtype_eqb t' t then sdel n (watched_names s t) else watched_names s t'.
Proof. unfold evict_one. rewrite watch_interest. unfold watched_names. reflexivity. Qed.

Lemma aget_adel {V} k n (m : list (string * V)) : aget k (adel n m) = if String.eqb k n then None else aget k m.
Proof. destruct (String.eqb_spec k n) as [->|H]; [apply aget_adel_same|apply aget_adel_other; exact H]. Qed.

(** evicting a list of names of one type *)
Lemma evict_list_spec t ns : forall acc t' k,
  let s' := fst (evict_list t ns acc) in
  aget k (tget t' (s_cache s')) = (if rtype_eqb t' t && smem k ns then None else aget k (tget t' (s_cache (fst acc)))) /\
  aget k (tget t' (s_meta s')) = (if rtype_eqb t' t && smem k ns then None else aget k (tget t' (s_meta (fst acc)))) /\
  smem k (watched_names s' t') = (if rtype_eqb t' t && smem k ns then false else smem k (watched_names (fst acc) t')) /\
  s_now s' = s_now (fst acc).
Proof.
  induction ns as [|n ns IH]; intros acc t' k; cbn zeta.
  - cbn [evict_list fold_left smem]. rewrite andb_false_r. repeat split.
  - rewrite evict_list_cons. destruct (IH (fst (evict_one (fst acc) t n), (snd acc ++ snd (evict_one (fst acc) t n))%list) t' k) as (H1 & H2 & H3 & H4).
    cbn [fst] in *. rewrite H1, H2, H3, H4. cbn [smem].
    rewrite evict_one_cache, evict_one_meta, evict_one_now, evict_one_watched, !tget_tset.
    destruct (rtype_eqb t' t) eqn:Et; cbn [andb].
    + rewrite !aget_adel, smem_sdel. apply rtype_eqb_eq in Et. subst t'.
      destruct (String.eqb k n); cbn [orb negb andb]; destruct (smem k ns); repeat split; reflexivity.
    + repeat split; reflexivity.
Qed.

Lemma evict_list_other t ns : forall acc t', rtype_eqb t' t = false ->
  tget t' (s_meta (fst (evict_list t ns acc))) = tget t' (s_meta (fst acc)) /\ s_now (fst (evict_list t ns acc)) = s_now (fst acc).
Proof.
  induction ns as [|n ns IH]; intros acc t' Ht; [split; reflexivity|].
  rewrite evict_list_cons. destruct (IH (fst (evict_one (fst acc) t n), (snd acc ++ snd (evict_one (fst acc) t n))%list) t' Ht) as [H1 H2].
  cbn [fst] in *. rewrite H1, H2, evict_one_meta, evict_one_now, tget_tset, Ht. split; reflexivity.
Qed.

Lemma idle_names_ext s s' t : tget t (s_meta s') = tget t (s_meta s) -> s_now s' = s_now s -> idle_names s' t = idle_names s t.
Proof. intros H1 H2. unfold idle_names. rewrite H1, H2. reflexivity. Qed.

Definition tmem (t : rtype) (ts : list rtype) : bool := existsb (rtype_eqb t) ts.

Lemma sweep_types_spec ts : NoDup ts -> forall acc t' k,
  let s' := fst (fold_left (fun acc t => evict_list t (idle_names (fst acc) t) acc) ts acc) in
  let gone := tmem t' ts && smem k (idle_names (fst acc) t') in
  aget k (tget t' (s_cache s')) = (if gone then None else aget k (tget t' (s_cache (fst acc)))) /\
  aget k (tget t' (s_meta s')) = (if gone then None else aget k (tget t' (s_meta (fst acc)))) /\
  smem k (watched_names s' t') = (if gone then false else smem k (watched_names (fst acc) t')) /\
  s_now s' = s_now (fst acc) /\
  (tmem t' ts = false -> tget t' (s_meta s') = tget t' (s_meta (fst acc))).
Proof.
  induction 1 as [|t ts Ht Hts IH]; intros acc t' k; cbn zeta.
  - cbn [fold_left tmem existsb andb]. repeat split; reflexivity.
  - cbn [fold_left]. set (acc1 := evict_list t (idle_names (fst acc) t) acc).
    destruct (IH acc1 t' k) as (H1 & H2 & H3 & H4 & H5). cbn zeta in *.
    destruct (evict_list_spec t (idle_names (fst acc) t) acc t' k) as (E1 & E2 & E3 & E4). fold acc1 in E1, E2, E3, E4.
    cbn [tmem existsb]. fold (tmem t' ts).
    destruct (rtype_eqb t' t) eqn:Et; cbn [orb andb] in *.
    + apply rtype_eqb_eq in Et. subst t'.
      assert (Hn : tmem t ts = false).
      { unfold tmem. destruct (existsb (rtype_eqb t) ts) eqn:E; [|reflexivity]. apply existsb_exists in E.
        destruct E as [x [Hx E]]. apply rtype_eqb_eq in E. subst x. contradiction. }
      rewrite Hn in *. cbn [andb] in *. rewrite H1, H2, H3, H4, E1, E2, E3, E4. repeat split; try reflexivity. discriminate.
    + destruct (evict_list_other t (idle_names (fst acc) t) acc t' Et) as [O1 O2]. fold acc1 in O1, O2.
      rewrite (idle_names_ext (fst acc) (fst acc1) t' O1 O2) in *.
      rewrite H1, H2, H3, H4, E1, E2, E3, E4. repeat split; try reflexivity.
      intros Hn. rewrite (H5 Hn). exact O1.
Qed.

Lemma all_types_nodup : NoDup all_types.
Proof. unfold all_types. repeat constructor; cbn; intuition discriminate. Qed.
Lemma tmem_all t : tmem t all_types = true.
Proof. destruct t; reflexivity. Qed.

(** one sweep: exactly the idle names disappear from the cache, from the access records and from the interest
    sets; everything else - of every type - is left as it was *)
Lemma sweep_spec s t k :
  let s' := fst (sweep s) in
  aget k (tget t (s_cache s')) = (if smem k (idle_names s t) then None else aget k (tget t (s_cache s))) /\
  aget k (tget t (s_meta s')) = (if smem k (idle_names s t) then None else aget k (tget t (s_meta s))) /\
  smem k (watched_names s' t) = (if smem k (idle_names s t) then false else smem k (watched_names s t)).
Proof.
  cbn zeta. rewrite sweep_unfold.
  destruct (sweep_types_spec all_types all_types_nodup (s, []) t k) as (H1 & H2 & H3 & _). cbn zeta in *.
  rewrite tmem_all in *. cbn [andb fst] in *. repeat split; assumption.
Qed.

(** which names are idle *)
Lemma idle_iff s t k :
  smem k (idle_names s t) = true <->
  exists tm, In (k, tm) (tget t (s_meta s)) /\ is_reserved t k = false /\ (tm + expire_ms < s_now s)%N.
Proof.
  rewrite smem_In. unfold idle_names. rewrite in_map_iff. split.
  - intros [[k' tm] [E Hin]]. cbn [fst] in E. subst k'. apply filter_In in Hin. destruct Hin as [Hin Hc]. cbn [fst snd] in Hc.
    apply andb_true_iff in Hc. destruct Hc as [Hr Hl]. exists tm. split; [exact Hin|]. split.
    + destruct (is_reserved t k); [discriminate|reflexivity].
    + apply N.ltb_lt. exact Hl.
  - intros [tm [Hin [Hr Hl]]]. exists (k, tm). split; [reflexivity|]. apply filter_In. split; [exact Hin|].
    cbn [fst snd]. rewrite Hr. cbn [negb andb]. apply N.ltb_lt. exact Hl.
Qed.

Lemma reserved_never_idle s : smem reserved_lds (idle_names s TLis) = false.
Proof.
  destruct (smem reserved_lds (idle_names s TLis)) eqn:E; [|reflexivity].
  apply idle_iff in E. destruct E as [tm [_ [Hr _]]]. cbn [is_reserved] in Hr. rewrite String.eqb_refl in Hr. discriminate.
Qed.

(** the access records have one entry per name in every reachable state *)
Definition meta_nd (s : state) : Prop := forall t, NoDup (akeys (tget t (s_meta s))).

Lemma meta_nd_same s s' : s_meta s' = s_meta s -> meta_nd s -> meta_nd s'.
Proof. intros E H t. rewrite E. apply H. Qed.

Lemma meta_nd_set s s' t m : s_meta s' = tset t m (s_meta s) -> NoDup (akeys m) -> meta_nd s -> meta_nd s'.
Proof. intros E Hm H t'. rewrite E, tget_tset. destruct (rtype_eqb t' t); [exact Hm|apply H]. Qed.

Lemma touch_meta_nd s t n : meta_nd s -> meta_nd (touch s t n).
Proof.
  intros H. unfold touch. destruct (aget n (tget t (s_meta s))); [|exact H].
  eapply meta_nd_set; [reflexivity| |exact H]. apply nodup_aset. apply H.
Qed.

Lemma lookup_meta_nd s t n : meta_nd s -> meta_nd (fst (fst (lookup s t n))).
Proof.
  intros H. unfold lookup. pose proof (touch_meta_nd s t n H) as Ht.
  destruct (aget n (tget t (s_cache (touch s t n)))); [exact Ht|].
  destruct (watch (touch s t n) t n false) as [s1 rq] eqn:E. cbn [fst].
  assert (Em : s_meta s1 = s_meta (touch s t n)) by (change s1 with (fst (s1, rq)); rewrite <- E; reflexivity).
  eapply meta_nd_same; [exact Em|exact Ht].
Qed.

Lemma apply_update_meta_nd s t up : meta_nd s -> meta_nd (apply_update s t up).
Proof.
  intros H. eapply meta_nd_set; [reflexivity| |exact H].
  match goal with |- NoDup (akeys (fold_left ?f ?l ?a)) => generalize l; assert (Ha : NoDup (akeys a)) by apply H; revert Ha; generalize a end.
  intros a Ha l. revert a Ha. induction l as [|kv l IH]; intros a Ha; cbn [fold_left]; [exact Ha|].
  apply IH. destruct (amem (fst kv) a); [exact Ha|apply nodup_aset; exact Ha].
Qed.

Lemma evict_meta_nd s t n : meta_nd s -> meta_nd (fst (evict_one s t n)).
Proof. intros H. eapply meta_nd_set; [apply evict_one_meta| |exact H]. apply nodup_adel. apply H. Qed.

Lemma sweep_meta_nd s : meta_nd s -> meta_nd (fst (sweep s)).
Proof.
  intros I. rewrite sweep_unfold.
  assert (G1 : forall t ns acc, meta_nd (fst acc) -> meta_nd (fst (evict_list t ns acc))).
  { intros t ns. induction ns as [|n ns IH]; intros acc Ia; [exact Ia|]. rewrite evict_list_cons. apply IH. cbn [fst]. apply evict_meta_nd. exact Ia. }
  generalize (s, @nil (N * request)) (I : meta_nd (fst (s, @nil (N * request)))).
  induction all_types as [|t ts IH]; intros acc Ia; cbn [fold_left]; [exact Ia|]. apply IH. apply G1. exact Ia.
Qed.

Lemma step_meta_nd c o s x : meta_nd s -> meta_nd (fst (step c o s x)).
Proof.
  intros I. destruct x as [t n|t n|t ns|d| |v nn p| |t|a| |d|t n d| ]; cbn [step].
  - destruct (watch s t n false) as [s1 rq] eqn:E. cbn [fst]. eapply meta_nd_same; [|exact I].
    change s1 with (fst (s1, rq)). rewrite <- E. reflexivity.
  - pose proof (lookup_meta_nd s t n I) as H. destruct (lookup s t n) as [[s1 rq] r]. exact H.
  - assert (G : forall ns s0 rq r, meta_nd s0 ->
       meta_nd (fst (fst (fold_left (fun acc n => let '(sa, rqa, _) := acc in let '(sb, rqb, rb) := lookup sa t n in (sb, (rqa ++ rqb)%list, rb)) ns (s0, rq, r))))).
    { induction ns0 as [|n ns0 IH]; intros s0 rq r I0; cbn [fold_left]; [exact I0|].
      pose proof (lookup_meta_nd s0 t n I0) as H. destruct (lookup s0 t n) as [[sb rqb] rb]. apply IH. exact H. }
    pose proof (G ns s [] LMiss I) as H. destruct (fold_left _ ns (s, [], LMiss)) as [[s1 rq] r]. exact H.
  - pose proof (lookup_meta_nd s TCl d I) as H1. destruct (lookup s TCl d) as [[s1 rq1] r1]. cbn [fst] in H1.
    destruct r1 as [[l|r0|cl|e|]| | | | | |r0| ]; try exact H1.
    destruct (c_inline cl); [exact H1|].
    pose proof (lookup_meta_nd s1 TEp (c_epname cl) H1) as H2. destruct (lookup s1 TEp (c_epname cl)) as [[s2 rq2] r2]. exact H2.
  - exact I.
  - unfold handle_resp. destruct (s_closed s); [exact I|]. destruct (tget (payload_type p) (s_watched s)); [|exact I].
    destruct (decode_payload o p) as [[res|tb]|]; cbn [fst].
    + apply apply_update_meta_nd. exact I.
    + exact I.
    + exact I.
  - exact I.
  - exact I.
  - destruct a; [destruct (s_closed s); exact I|]. destruct (s_closed s); exact I.
  - destruct (s_closed s); exact I.
  - exact I.
  - cbn [fst]. destruct (aget n (tget t (s_meta s))); [|exact I].
    eapply meta_nd_set; [reflexivity| |exact I]. apply nodup_aset. apply I.
  - pose proof (sweep_meta_nd s I) as H. destruct (sweep s) as [s1 rq]. exact H.
Qed.

Lemma reachable_meta_nd c o h : meta_nd (final c o h).
Proof.
  unfold final. assert (G : forall h s, meta_nd s -> meta_nd (fst (run c o s h))).
  { induction h0 as [|x h0 IH]; intros s I; cbn [run]; [exact I|].
    pose proof (step_meta_nd c o s x I) as H. destruct (step c o s x) as [s1 ot]. cbn [fst] in H.
    specialize (IH s1 H). destruct (run c o s1 h0). exact IH. }
  apply G. intros t. destruct t; constructor.
Qed.

(** with one access record per name: idle = has a record, is not reserved, and was last used more than the period ago *)
Lemma idle_spec s t k : meta_nd s ->
  smem k (idle_names s t) =
  match aget k (tget t (s_meta s)) with
  | Some tm => negb (is_reserved t k) && N.ltb (tm + expire_ms) (s_now s)
  | None => false
  end.
Proof.
  intros Hnd. destruct (smem k (idle_names s t)) eqn:E.
  - apply idle_iff in E. destruct E as [tm [Hin [Hr Hl]]]. rewrite (In_aget _ _ _ (Hnd t) Hin), Hr.
    symmetry. apply N.ltb_lt in Hl. rewrite Hl. reflexivity.
  - destruct (aget k (tget t (s_meta s))) as [tm|] eqn:Eg; [|reflexivity].
    destruct (negb (is_reserved t k) && N.ltb (tm + expire_ms) (s_now s)) eqn:Ec; [|reflexivity].
    assert (H : smem k (idle_names s t) = true).
    { apply idle_iff. exists tm. apply andb_true_iff in Ec. destruct Ec as [Hr Hl]. split; [apply aget_In; exact Eg|].
      split; [destruct (is_reserved t k); [discriminate|reflexivity]|apply N.ltb_lt; exact Hl]. }
    congruence.
Qed.

(** a lookup that hits refreshes the access record, so the name survives every sweep of the following period *)
Lemma lookup_refreshes s t n v :
  aget n (tget t (s_cache s)) = Some v -> aget n (tget t (s_meta s)) <> None ->
  aget n (tget t (s_meta (fst (fst (lookup s t n))))) = Some (s_now s).
Proof.
  intros Hc Hm. unfold lookup.
  assert (Ec : s_cache (touch s t n) = s_cache s) by (unfold touch; destruct (aget n (tget t (s_meta s))); reflexivity).
  rewrite Ec, Hc. cbn [fst]. unfold touch. destruct (aget n (tget t (s_meta s))); [|congruence].
  cbn [s_meta]. rewrite tget_tset, rtype_eqb_refl. apply aget_aset_same.
Qed.

Lemma recently_used_survives s t k tm : meta_nd s ->
  aget k (tget t (s_meta s)) = Some tm -> (s_now s <= tm + expire_ms)%N ->
  aget k (tget t (s_cache (fst (sweep s)))) = aget k (tget t (s_cache s)) /\
  smem k (watched_names (fst (sweep s)) t) = smem k (watched_names s t).
Proof.
  intros Hnd Hm Hl. destruct (sweep_spec s t k) as (H1 & _ & H3). cbn zeta in *.
  rewrite (idle_spec s t k Hnd), Hm in H1, H3.
  assert (E : N.ltb (tm + expire_ms) (s_now s) = false) by (apply N.ltb_ge; exact Hl).
  rewrite E, andb_false_r in H1, H3. split; assumption.
Qed.

Lemma idle_is_evicted s t k tm : meta_nd s ->
  aget k (tget t (s_meta s)) = Some tm -> (tm + expire_ms < s_now s)%N -> is_reserved t k = false ->
  aget k (tget t (s_cache (fst (sweep s)))) = None /\ smem k (watched_names (fst (sweep s)) t) = false.
Proof.
  intros Hnd Hm Hl Hr. destruct (sweep_spec s t k) as (H1 & _ & H3). cbn zeta in *.
  rewrite (idle_spec s t k Hnd), Hm, Hr in H1, H3. apply N.ltb_lt in Hl. rewrite Hl in H1, H3. split; assumption.
Qed.

Lemma reserved_survives s :
  aget reserved_lds (tget TLis (s_cache (fst (sweep s)))) = aget reserved_lds (tget TLis (s_cache s)) /\
  smem reserved_lds (watched_names (fst (sweep s)) TLis) = smem reserved_lds (watched_names s TLis).
Proof.
  destruct (sweep_spec s TLis reserved_lds) as (H1 & _ & H3). cbn zeta in *.
  rewrite reserved_never_idle in H1, H3. split; assumption.
Qed.

(** every eviction sends a request of that type listing the interest set without the evicted name *)
Lemma evict_request s t n : s_closed s = false -> s_sender_ok s = true ->
  snd (evict_one s t n) =
  [(s_stream s, {| q_type := t; q_version := tget t (s_version s); q_nonce := tget t (s_nonce s);
                   q_names := sdel n (watched_names s t); q_error := false |})].
Proof.
  intros Hc Hs. unfold evict_one, watch, emit. cbn [snd s_closed s_sender_ok s_stream]. rewrite Hc, Hs.
  unfold mk_request, watched_names. cbn [s_version s_nonce s_watched]. rewrite tget_tset, rtype_eqb_refl. reflexivity.
Qed.

(** a later lookup of an evicted (or never cached) name misses, subscribes again and asks the control plane for it *)
Lemma lookup_after_eviction s t n : aget n (tget t (s_cache s)) = None ->
  let '(s', rq, r) := lookup s t n in
  r = LMiss /\ smem n (watched_names s' t) = true /\
  (s_closed s = false -> s_sender_ok s = true -> exists q, rq = [(s_stream s, q)] /\ q_type q = t /\ smem n (q_names q) = true).
Proof.
  intros Hc. unfold lookup.
  assert (Ec : s_cache (touch s t n) = s_cache s) by (unfold touch; destruct (aget n (tget t (s_meta s))); reflexivity).
  rewrite Ec, Hc. destruct (watch (touch s t n) t n false) as [s1 rq] eqn:Ew.
  assert (Hw : watched_names s1 t = sadd n (watched_names (touch s t n) t)).
  { change s1 with (fst (s1, rq)). rewrite <- Ew, watch_interest, rtype_eqb_refl. reflexivity. }
  split; [reflexivity|]. split; [rewrite Hw, smem_sadd, String.eqb_refl; reflexivity|].
  intros Hcl Hs. unfold watch in Ew. injection Ew as <- <-. unfold emit. cbn [s_closed s_sender_ok s_stream].
  assert (T1 : s_closed (touch s t n) = s_closed s) by (unfold touch; destruct (aget n (tget t (s_meta s))); reflexivity).
  assert (T2 : s_sender_ok (touch s t n) = s_sender_ok s) by (unfold touch; destruct (aget n (tget t (s_meta s))); reflexivity).
  assert (T3 : s_stream (touch s t n) = s_stream s) by (unfold touch; destruct (aget n (tget t (s_meta s))); reflexivity).
  rewrite T1, T2, T3, Hcl, Hs. eexists. split; [reflexivity|]. split; [reflexivity|].
  unfold mk_request, watched_names. cbn [q_names s_watched]. rewrite tget_tset, rtype_eqb_refl.
  rewrite smem_sadd, String.eqb_refl. reflexivity.
Qed.

Lemma C19_example_proof :
  let c := {| sc_nds_required := false; sc_f := {| f_ns := "default"; f_dom := "cluster.local" |} |} in
  let o := mk_oracle [] [] [] in
  let cl n := RGood {| cl_name := n; cl_type := Some 3; cl_lb := 0; cl_eds_service := None; cl_outlier := None; cl_load := None |} in
  let h := [OSubscribe TCl "a"; OSubscribe TCl "b"; OResp "1" "n1" (PCds [cl "a"; cl "b"]); OTick 20000; OLookup TCl "b"; OTick 20000; OSweep] in
  (map (fun n => is_some (aget n (tget TCl (s_cache (final c o h))))) ["a"; "b"], watched_names (final c o h) TCl) = ([false; true], ["b"]).
Proof. vm_compute. reflexivity. Qed.

(** ---- C10: the resolver step reads the cache ---- *)
Definition cached_cluster (s : state) (d : string) : got clres :=
  match aget d (tget TCl (s_cache s)) with Some (VCl cl) => GOk cl | _ => GErr end.
Definition cached_endpoints (s : state) (name : string) : got (option epres) :=
  match aget name (tget TEp (s_cache s)) with Some (VEp e) => GOk e | _ => GErr end.

Lemma lookup_result_cache s t n :
  snd (lookup s t n) = match aget n (tget t (s_cache s)) with Some v => LHit v | None => LMiss end /\
  s_cache (fst (fst (lookup s t n))) = s_cache s.
Proof.
  unfold lookup.
  assert (Ec : s_cache (touch s t n) = s_cache s) by (unfold touch; destruct (aget n (tget t (s_meta s))); reflexivity).
  rewrite Ec. destruct (aget n (tget t (s_cache s))); [split; [reflexivity|exact Ec]|].
  destruct (watch (touch s t n) t n false) as [s1 rq] eqn:Ew. split; [reflexivity|]. cbn [fst].
  change s1 with (fst (s1, rq)). rewrite <- Ew. exact Ec.
Qed.

Lemma resolve_eds_ext c e1 e2 : e1 (c_epname c) = e2 (c_epname c) -> resolve (GOk c) e1 = resolve (GOk c) e2.
Proof. intros H. unfold resolve. rewrite H. reflexivity. Qed.

Lemma resolve_step c o s d :
  o_lookup (snd (step c o s (OResolve d))) =
  Some (LResolved (resolve (cached_cluster s d) (cached_endpoints s))).
Proof.
  cbn [step]. destruct (lookup_result_cache s TCl d) as [Hr Hc].
  destruct (lookup s TCl d) as [[s1 rq1] r1]. cbn [fst snd] in Hr, Hc. subst r1. unfold cached_cluster.
  destruct (aget d (tget TCl (s_cache s))) as [[l|r0|cl|e|]|]; try reflexivity.
  destruct (c_inline cl) as [e|] eqn:Ei.
  - cbn [snd o_lookup]. f_equal. f_equal. unfold resolve. rewrite Ei. reflexivity.
  - destruct (lookup_result_cache s1 TEp (c_epname cl)) as [Hr2 Hc2].
    destruct (lookup s1 TEp (c_epname cl)) as [[s2 rq2] r2]. cbn [fst snd] in Hr2, Hc2. subst r2.
    cbn [snd o_lookup]. f_equal. f_equal. apply resolve_eds_ext. unfold cached_endpoints. rewrite Hc.
    destruct (aget (c_epname cl) (tget TEp (s_cache s))) as [[l|r0|cl0|e|]|]; reflexivity.
Qed.

(** resolving never changes what is cached *)
Lemma resolve_keeps_cache c o s d : s_cache (fst (step c o s (OResolve d))) = s_cache s.
Proof.
  cbn [step]. destruct (lookup_result_cache s TCl d) as [Hr Hc].
  destruct (lookup s TCl d) as [[s1 rq1] r1]. cbn [fst snd] in Hr, Hc.
  destruct r1 as [[l|r0|cl|e|]| | | | | |r0| ]; try exact Hc.
  destruct (c_inline cl); [exact Hc|].
  destruct (lookup_result_cache s1 TEp (c_epname cl)) as [_ Hc2].
  destruct (lookup s1 TEp (c_epname cl)) as [[s2 rq2] r2]. cbn [fst] in *. congruence.
Qed.

(** ---- C19 over histories: an entry looked up within the period survives the next sweep, whatever happens in between ---- *)
Definition quiet_for (t : rtype) (n : string) (x : op) : bool :=
  match x with
  | OSweep => false
  | OBackdate t' n' _ => negb (rtype_eqb t' t && String.eqb n' n)
  | _ => true
  end.
Definition ticks (h : list op) : N := fold_left (fun acc x => match x with OTick d => acc + d | _ => acc end)%N h 0%N.

Lemma touch_meta_get s t n t' k :
  aget k (tget t' (s_meta (touch s t n))) =
  if rtype_eqb t' t && String.eqb k n then match aget n (tget t (s_meta s)) with Some _ => Some (s_now s) | None => None end
  else aget k (tget t' (s_meta s)).
Proof.
  unfold touch. destruct (aget n (tget t (s_meta s))) eqn:E; cbn [s_meta].
  - rewrite tget_tset. destruct (rtype_eqb t' t) eqn:Et; cbn [andb]; [|reflexivity].
    apply rtype_eqb_eq in Et. subst t'. rewrite aget_aset. destruct (String.eqb k n); reflexivity.
  - destruct (rtype_eqb t' t) eqn:Et; cbn [andb]; [|reflexivity]. apply rtype_eqb_eq in Et. subst t'.
    destruct (String.eqb_spec k n) as [->|Hne]; [exact E|reflexivity].
Qed.

(** lower bound on the recorded access time of (t, n) and on the clock *)
Definition fresh (t : rtype) (n : string) (T0 : N) (s : state) : Prop :=
  (T0 <= s_now s)%N /\ exists tm, aget n (tget t (s_meta s)) = Some tm /\ (T0 <= tm)%N.

Lemma fresh_same t n T0 s s' : s_meta s' = s_meta s -> s_now s' = s_now s -> fresh t n T0 s -> fresh t n T0 s'.
Proof. intros E1 E2 [A (tm & B & C)]. split; [rewrite E2; exact A|]. exists tm. rewrite E1. split; assumption. Qed.

Lemma fresh_touch t n T0 s t' n' : fresh t n T0 s -> fresh t n T0 (touch s t' n').
Proof.
  intros [A (tm & B & C)]. split; [unfold touch; destruct (aget n' (tget t' (s_meta s))); exact A|].
  rewrite touch_meta_get. destruct (rtype_eqb t t' && String.eqb n n') eqn:E.
  - apply andb_true_iff in E. destruct E as [E1 E2]. apply rtype_eqb_eq in E1. apply String.eqb_eq in E2. subst t' n'.
    rewrite B. exists (s_now s). split; [reflexivity|exact A].
  - exists tm. split; assumption.
Qed.

Lemma fresh_lookup t n T0 s t' n' : fresh t n T0 s -> fresh t n T0 (fst (fst (lookup s t' n'))).
Proof.
  intros F. unfold lookup. pose proof (fresh_touch t n T0 s t' n' F) as Ft.
  destruct (aget n' (tget t' (s_cache (touch s t' n')))); [exact Ft|].
  destruct (watch (touch s t' n') t' n' false) as [s1 rq] eqn:Ew. cbn [fst].
  revert Ft. apply fresh_same; change s1 with (fst (s1, rq)); rewrite <- Ew; reflexivity.
Qed.

Lemma fold_meta_keeps (nc : list (string * cval)) now : forall (om : list (string * N)) k v,
  aget k om = Some v ->
  aget k (fold_left (fun acc kv => if amem (fst kv) acc then acc else aset (fst kv) now acc) nc om) = Some v.
Proof.
  induction nc as [|kv nc IH]; intros om k v H; cbn [fold_left]; [exact H|]. apply IH.
  destruct (amem (fst kv) om) eqn:E; [exact H|]. rewrite aget_aset. destruct (String.eqb_spec k (fst kv)) as [->|Hne]; [|exact H].
  unfold amem in E. rewrite H in E. discriminate.
Qed.

Lemma fresh_apply_update t n T0 s t' up : fresh t n T0 s -> fresh t n T0 (apply_update s t' up).
Proof.
  intros [A (tm & B & C)]. split; [exact A|]. exists tm. split; [|exact C].
  unfold apply_update. cbn [s_meta]. rewrite tget_tset. destruct (rtype_eqb t t') eqn:E; [|exact B].
  apply rtype_eqb_eq in E. subst t'. apply fold_meta_keeps. exact B.
Qed.

Lemma fresh_step c o t n T0 s x : quiet_for t n x = true -> fresh t n T0 s ->
  fresh t n T0 (fst (step c o s x)) /\ s_now (fst (step c o s x)) = (s_now s + match x with OTick d => d | _ => 0 end)%N.
Proof.
  intros Hq F. destruct x as [t' n'|t' n'|t' ns|d| |v nn p| |t'|a| |d|t' n' d| ]; try discriminate; cbn [step].
  - destruct (watch s t' n' false) as [s1 rq] eqn:E. cbn [fst]. rewrite N.add_0_r.
    assert (Em : s_meta s1 = s_meta s /\ s_now s1 = s_now s) by (change s1 with (fst (s1, rq)); rewrite <- E; split; reflexivity).
    split; [revert F; apply fresh_same; tauto|tauto].
  - pose proof (fresh_lookup t n T0 s t' n' F) as H.
    assert (En : s_now (fst (fst (lookup s t' n'))) = s_now s).
    { unfold lookup. assert (Et : s_now (touch s t' n') = s_now s) by (unfold touch; destruct (aget n' (tget t' (s_meta s))); reflexivity).
      destruct (aget n' (tget t' (s_cache (touch s t' n')))); [exact Et|]. destruct (watch (touch s t' n') t' n' false) as [s1 rq] eqn:Ew.
      cbn [fst]. change s1 with (fst (s1, rq)). rewrite <- Ew. exact Et. }
    destruct (lookup s t' n') as [[s1 rq] r]. cbn [fst] in *. rewrite N.add_0_r. split; assumption.
  - assert (G : forall ns0 s0 rq r, fresh t n T0 s0 ->
        let res := fold_left (fun acc n => let '(sa, rqa, _) := acc in let '(sb, rqb, rb) := lookup sa t' n in (sb, (rqa ++ rqb)%list, rb)) ns0 (s0, rq, r) in
        fresh t n T0 (fst (fst res)) /\ s_now (fst (fst res)) = s_now s0).
    { induction ns0 as [|n0 ns0 IH]; intros s0 rq r F0; cbn [fold_left]; [split; [exact F0|reflexivity]|].
      pose proof (fresh_lookup t n T0 s0 t' n0 F0) as H.
      assert (En : s_now (fst (fst (lookup s0 t' n0))) = s_now s0).
      { unfold lookup. assert (Et : s_now (touch s0 t' n0) = s_now s0) by (unfold touch; destruct (aget n0 (tget t' (s_meta s0))); reflexivity).
        destruct (aget n0 (tget t' (s_cache (touch s0 t' n0)))); [exact Et|]. destruct (watch (touch s0 t' n0) t' n0 false) as [s1 rq1] eqn:Ew.
        cbn [fst]. change s1 with (fst (s1, rq1)). rewrite <- Ew. exact Et. }
      destruct (lookup s0 t' n0) as [[sb rqb] rb]. cbn [fst] in *. destruct (IH sb (rq ++ rqb)%list rb H) as [A B]. split; [exact A|congruence]. }
    specialize (G ns s [] LMiss F). cbn zeta in G. destruct (fold_left _ ns (s, [], LMiss)) as [[s1 rq] r]. cbn [fst] in *. rewrite N.add_0_r. exact G.
  - assert (L : forall s0 tt nn0, fresh t n T0 s0 -> fresh t n T0 (fst (fst (lookup s0 tt nn0))) /\ s_now (fst (fst (lookup s0 tt nn0))) = s_now s0).
    { intros s0 tt nn0 F0. split; [apply fresh_lookup; exact F0|].
      unfold lookup. assert (Et : s_now (touch s0 tt nn0) = s_now s0) by (unfold touch; destruct (aget nn0 (tget tt (s_meta s0))); reflexivity).
      destruct (aget nn0 (tget tt (s_cache (touch s0 tt nn0)))); [exact Et|]. destruct (watch (touch s0 tt nn0) tt nn0 false) as [s1 rq1] eqn:Ew.
      cbn [fst]. change s1 with (fst (s1, rq1)). rewrite <- Ew. exact Et. }
    destruct (L s TCl d F) as [H1 E1]. destruct (lookup s TCl d) as [[s1 rq1] r1]. cbn [fst] in *. rewrite N.add_0_r.
    destruct r1 as [[l|r0|cl|e|]| | | | | |r0| ]; try (split; assumption).
    destruct (c_inline cl); [split; assumption|].
    destruct (L s1 TEp (c_epname cl) H1) as [H2 E2]. destruct (lookup s1 TEp (c_epname cl)) as [[s2 rq2] r2]. cbn [fst] in *. split; [exact H2|congruence].
  - rewrite N.add_0_r. split; [exact F|reflexivity].
  - rewrite N.add_0_r. unfold handle_resp. destruct (s_closed s); [split; [exact F|reflexivity]|].
    destruct (tget (payload_type p) (s_watched s)); [|split; [exact F|reflexivity]].
    destruct (decode_payload o p) as [[m|tb]|]; cbn [fst].
    + split; [|reflexivity]. apply fresh_apply_update. revert F. apply fresh_same; reflexivity.
    + split; [|reflexivity]. revert F. apply fresh_same; reflexivity.
    + split; [|reflexivity]. revert F. apply fresh_same; reflexivity.
  - rewrite N.add_0_r. split; [exact F|reflexivity].
  - rewrite N.add_0_r. split; [exact F|reflexivity].
  - rewrite N.add_0_r. destruct a; [destruct (s_closed s); split; try exact F; try reflexivity; revert F; apply fresh_same; reflexivity|].
    destruct (s_closed s); [split; [exact F|reflexivity]|]. cbn [reconnect fst]. split; [revert F; apply fresh_same; reflexivity|reflexivity].
  - rewrite N.add_0_r. destruct (s_closed s); split; try exact F; reflexivity.
  - cbn [fst]. split; [|reflexivity]. destruct F as [A (tm & B & C)]. split; [unfold tick; cbn [s_now]; lia|]. exists tm. split; assumption.
  - rewrite N.add_0_r. cbn [fst quiet_for] in *. destruct (aget n' (tget t' (s_meta s))) as [tm0|] eqn:E0; [|split; [exact F|reflexivity]].
    split; [|reflexivity]. destruct F as [A (tm & B & C)]. split; [exact A|]. exists tm. split; [|exact C].
    cbn [s_meta]. rewrite tget_tset. destruct (rtype_eqb t t') eqn:Et; [|exact B]. apply rtype_eqb_eq in Et. subst t'.
    rewrite aget_aset. destruct (String.eqb_spec n n') as [->|Hne]; [|exact B].
    rewrite rtype_eqb_refl, String.eqb_refl in Hq. discriminate.
Qed.

Lemma ticks_cons x h : ticks (x :: h) = (match x with OTick d => d | _ => 0 end + ticks h)%N.
Proof.
  unfold ticks. cbn [fold_left].
  assert (G : forall l a, fold_left (fun acc x => match x with OTick d => acc + d | _ => acc end)%N l a = (a + fold_left (fun acc x => match x with OTick d => acc + d | _ => acc end)%N l 0)%N).
  { induction l as [|y l IH]; intros a; cbn [fold_left]; [lia|]. rewrite IH. rewrite (IH (match y with OTick d => 0 + d | _ => 0 end)%N). destruct y; lia. }
  rewrite G. destruct x; lia.
Qed.

Lemma fresh_run c o t n T0 h : forall s, forallb (quiet_for t n) h = true -> fresh t n T0 s ->
  fresh t n T0 (fst (run c o s h)) /\ s_now (fst (run c o s h)) = (s_now s + ticks h)%N.
Proof.
  induction h as [|x h IH]; intros s Hh F; cbn [run]; [split; [exact F|unfold ticks; cbn; lia]|].
  cbn [forallb] in Hh. apply andb_true_iff in Hh. destruct Hh as [Hx Hh].
  destruct (fresh_step c o t n T0 s x Hx F) as [F1 E1]. destruct (step c o s x) as [s1 ot]. cbn [fst] in *.
  destruct (IH s1 Hh F1) as [F2 E2]. destruct (run c o s1 h) as [s2 ots]. cbn [fst] in *. split; [exact F2|].
  rewrite E2, E1, ticks_cons. lia.
Qed.

(** the statement: in a reachable state a lookup of (t, n) hits; then ANYTHING happens except a sweep or the test device
    that back-dates this very entry, for at most the expiry period of clock time; then a sweep runs: the entry is still
    cached and still subscribed *)
Theorem used_within_period_survives c o pre t n mid v :
  aget n (tget t (s_cache (final c o pre))) = Some v ->
  aget n (tget t (s_meta (final c o pre))) <> None ->
  forallb (quiet_for t n) mid = true -> (ticks mid <= expire_ms)%N ->
  let s := final c o (pre ++ OLookup t n :: mid) in
  aget n (tget t (s_cache (fst (sweep s)))) = aget n (tget t (s_cache s)) /\
  smem n (watched_names (fst (sweep s)) t) = smem n (watched_names s t).
Proof.
  intros Hc Hm Hq Ht s.
  assert (Es : s = fst (run c o (fst (fst (lookup (final c o pre) t n))) mid)).
  { unfold s, final. rewrite run_app. cbn [run step].
    destruct (lookup (fst (run c o init_state pre)) t n) as [[s1 rq] r]. cbn [fst].
    destruct (run c o s1 mid) as [s2 ots]. reflexivity. }
  set (s0 := final c o pre) in *. set (s1 := fst (fst (lookup s0 t n))) in *.
  assert (F1 : fresh t n (s_now s0) s1).
  { split.
    - unfold s1, lookup. assert (Et : s_now (touch s0 t n) = s_now s0) by (unfold touch; destruct (aget n (tget t (s_meta s0))); reflexivity).
      destruct (aget n (tget t (s_cache (touch s0 t n)))); cbn [fst]; [rewrite Et; lia|].
      destruct (watch (touch s0 t n) t n false) as [sx rq] eqn:Ew. cbn [fst]. change sx with (fst (sx, rq)). rewrite <- Ew. cbn [watch fst s_now]. rewrite Et. lia.
    - exists (s_now s0). split; [apply (lookup_refreshes s0 t n v Hc Hm)|lia]. }
  assert (En1 : s_now s1 = s_now s0).
  { unfold s1, lookup. assert (Et : s_now (touch s0 t n) = s_now s0) by (unfold touch; destruct (aget n (tget t (s_meta s0))); reflexivity).
    destruct (aget n (tget t (s_cache (touch s0 t n)))); cbn [fst]; [exact Et|].
    destruct (watch (touch s0 t n) t n false) as [sx rq] eqn:Ew. cbn [fst]. change sx with (fst (sx, rq)). rewrite <- Ew. exact Et. }
  destruct (fresh_run c o t n (s_now s0) mid s1 Hq F1) as [[_ (tm & Hg & Hle)] En]. rewrite <- Es in Hg, En.
  assert (Hnd : meta_nd s) by (unfold s; apply reachable_meta_nd).
  apply (recently_used_survives s t n tm Hnd Hg). rewrite En, En1. lia.
Qed.

(** every cached entry has an access record (so that it can expire: repair of D15) *)
Definition meta_cover (s : state) : Prop := forall t n, amem n (tget t (s_cache s)) = true -> amem n (tget t (s_meta s)) = true.

Lemma fold_meta_covers (nc : list (string * cval)) now : forall (om : list (string * N)) k,
  amem k nc = true \/ amem k om = true ->
  amem k (fold_left (fun acc kv => if amem (fst kv) acc then acc else aset (fst kv) now acc) nc om) = true.
Proof.
  induction nc as [|[k0 v0] nc IH]; intros om k H; cbn [fold_left fst].
  - destruct H as [H|H]; [discriminate|exact H].
  - apply IH. destruct (String.eqb_spec k k0) as [Heq|Hne].
    + subst k0. right. destruct (amem k om) eqn:E; [exact E|]. unfold amem. rewrite aget_aset_same. reflexivity.
    + assert (Hk : amem k ((k0, v0) :: nc) = amem k nc).
      { unfold amem. cbn [aget]. destruct (String.eqb_spec k k0); [congruence|reflexivity]. }
      rewrite Hk in H. destruct H as [H|H]; [left; exact H|right].
      destruct (amem k0 om); [exact H|]. unfold amem. rewrite aget_aset_other by exact Hne. exact H.
Qed.

Lemma cover_same s s' : s_cache s' = s_cache s -> s_meta s' = s_meta s -> meta_cover s -> meta_cover s'.
Proof. intros E1 E2 H t n. rewrite E1, E2. apply H. Qed.

Lemma cover_touch s t n : meta_cover s -> meta_cover (touch s t n).
Proof.
  intros H t' k Hk. unfold amem. rewrite touch_meta_get.
  assert (Ec : s_cache (touch s t n) = s_cache s) by (unfold touch; destruct (aget n (tget t (s_meta s))); reflexivity).
  rewrite Ec in Hk. specialize (H t' k Hk). unfold amem in H.
  destruct (rtype_eqb t' t && String.eqb k n) eqn:E; [|exact H].
  apply andb_true_iff in E. destruct E as [E1 E2]. apply rtype_eqb_eq in E1. apply String.eqb_eq in E2. subst.
  destruct (aget n (tget t (s_meta s))); [reflexivity|discriminate].
Qed.

Lemma cover_lookup s t n : meta_cover s -> meta_cover (fst (fst (lookup s t n))).
Proof.
  intros H. unfold lookup. pose proof (cover_touch s t n H) as Ht.
  destruct (aget n (tget t (s_cache (touch s t n)))); [exact Ht|].
  destruct (watch (touch s t n) t n false) as [s1 rq] eqn:Ew. cbn [fst]. revert Ht. apply cover_same; change s1 with (fst (s1, rq)); rewrite <- Ew; reflexivity.
Qed.

Lemma cover_apply_update s t up : meta_cover s -> meta_cover (apply_update s t up).
Proof.
  intros H t' k Hk. unfold apply_update in *. cbn [s_cache s_meta] in *. rewrite tget_tset in Hk. rewrite tget_tset.
  destruct (rtype_eqb t' t) eqn:E; [|apply H; exact Hk]. apply fold_meta_covers. left. exact Hk.
Qed.

Lemma cover_evict s t n : meta_cover s -> meta_cover (fst (evict_one s t n)).
Proof.
  intros H t' k Hk. rewrite evict_one_cache in Hk. rewrite evict_one_meta. rewrite tget_tset in Hk. rewrite tget_tset.
  destruct (rtype_eqb t' t) eqn:E; [|apply H; exact Hk]. apply rtype_eqb_eq in E. subst t'.
  unfold amem in Hk. unfold amem. rewrite aget_adel in Hk. rewrite aget_adel. destruct (String.eqb k n); [discriminate|]. apply H. exact Hk.
Qed.

Lemma cover_step c o s x : meta_cover s -> meta_cover (fst (step c o s x)).
Proof.
  intros I. destruct x as [t n|t n|t ns|d| |v nn p| |t|a| |d|t n d| ]; cbn [step].
  - destruct (watch s t n false) as [s1 rq] eqn:E. cbn [fst]. revert I. apply cover_same; change s1 with (fst (s1, rq)); rewrite <- E; reflexivity.
  - pose proof (cover_lookup s t n I) as H. destruct (lookup s t n) as [[s1 rq] r]. exact H.
  - assert (G : forall ns0 s0 rq r, meta_cover s0 ->
       meta_cover (fst (fst (fold_left (fun acc n => let '(sa, rqa, _) := acc in let '(sb, rqb, rb) := lookup sa t n in (sb, (rqa ++ rqb)%list, rb)) ns0 (s0, rq, r))))).
    { induction ns0 as [|n ns0 IH]; intros s0 rq r I0; cbn [fold_left]; [exact I0|].
      pose proof (cover_lookup s0 t n I0) as H. destruct (lookup s0 t n) as [[sb rqb] rb]. apply IH. exact H. }
    pose proof (G ns s [] LMiss I) as H. destruct (fold_left _ ns (s, [], LMiss)) as [[s1 rq] r]. exact H.
  - pose proof (cover_lookup s TCl d I) as H1. destruct (lookup s TCl d) as [[s1 rq1] r1]. cbn [fst] in H1.
    destruct r1 as [[l|r0|cl|e|]| | | | | |r0| ]; try exact H1.
    destruct (c_inline cl); [exact H1|].
    pose proof (cover_lookup s1 TEp (c_epname cl) H1) as H2. destruct (lookup s1 TEp (c_epname cl)) as [[s2 rq2] r2]. exact H2.
  - exact I.
  - unfold handle_resp. destruct (s_closed s); [exact I|]. destruct (tget (payload_type p) (s_watched s)); [|exact I].
    destruct (decode_payload o p) as [[res|tb]|]; cbn [fst].
    + apply cover_apply_update. revert I. apply cover_same; reflexivity.
    + revert I. apply cover_same; reflexivity.
    + revert I. apply cover_same; reflexivity.
  - exact I.
  - exact I.
  - destruct a; [destruct (s_closed s); [exact I|revert I; apply cover_same; reflexivity]|].
    destruct (s_closed s); [exact I|]. cbn [reconnect fst]. revert I. apply cover_same; reflexivity.
  - destruct (s_closed s); [exact I|revert I; apply cover_same; reflexivity].
  - revert I. apply cover_same; reflexivity.
  - cbn [fst]. destruct (aget n (tget t (s_meta s))) eqn:E; [|exact I].
    intros t' k Hk. cbn [s_cache s_meta] in *. rewrite tget_tset. destruct (rtype_eqb t' t) eqn:Et; [|apply I; exact Hk].
    apply rtype_eqb_eq in Et. subst t'. unfold amem. rewrite aget_aset. destruct (String.eqb k n); [reflexivity|]. apply (I t k Hk).
  - assert (H : meta_cover (fst (sweep s))).
    { rewrite sweep_unfold.
      assert (G1 : forall t ns acc, meta_cover (fst acc) -> meta_cover (fst (evict_list t ns acc))).
      { intros t ns. induction ns as [|n ns IH]; intros acc Ia; [exact Ia|]. rewrite evict_list_cons. apply IH. cbn [fst]. apply cover_evict. exact Ia. }
      assert (G2 : forall ts acc, meta_cover (fst acc) -> meta_cover (fst (fold_left (fun acc t => evict_list t (idle_names (fst acc) t) acc) ts acc))).
      { induction ts as [|t ts IH]; intros acc Ia; cbn [fold_left]; [exact Ia|]. apply IH. apply G1. exact Ia. }
      apply G2. exact I. }
    destruct (sweep s) as [s1 rq]. exact H.
Qed.

Lemma reachable_cover c o h : meta_cover (final c o h).
Proof.
  unfold final. assert (G : forall h0 s, meta_cover s -> meta_cover (fst (run c o s h0))).
  { induction h0 as [|x h0 IH]; intros s I; cbn [run]; [exact I|].
    pose proof (cover_step c o s x I) as H. destruct (step c o s x) as [s1 ot]. cbn [fst] in H.
    specialize (IH s1 H). destruct (run c o s1 h0). exact IH. }
  apply G. intros t n H. destruct t; discriminate.
Qed.

Theorem used_within_period_survives' c o pre t n mid v :
  aget n (tget t (s_cache (final c o pre))) = Some v ->
  forallb (quiet_for t n) mid = true -> (ticks mid <= expire_ms)%N ->
  let s := final c o (pre ++ OLookup t n :: mid) in
  aget n (tget t (s_cache (fst (sweep s)))) = aget n (tget t (s_cache s)) /\
  smem n (watched_names (fst (sweep s)) t) = smem n (watched_names s t).
Proof.
  intros Hc. apply (used_within_period_survives c o pre t n mid v Hc).
  pose proof (reachable_cover c o pre t n) as H. unfold amem in H. rewrite Hc in H. specialize (H eq_refl).
  destruct (aget n (tget t (s_meta (final c o pre)))); [discriminate|discriminate].
Qed.
