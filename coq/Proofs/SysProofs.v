(** Proofs about the sequential state machine of the client + manager (Model/Sys.v):
    ACK/NACK behaviour (C02), requests and the interest set (C03), stream failures (C04). *)
From Xds Require Import Model.Base Model.Fqdn Model.Proto Model.Decode Model.Pick Model.Route Model.Mw Model.Sys.
From Xds Require Import Proofs.MapLemmas.
From Coq Require Import Lia.
Open Scope string_scope.

(** ---- C02 ---- *)
(** a response of a type that was never subscribed, or any response once the client is stopped: nothing happens *)
Lemma resp_unsubscribed_ignored c o s v n p :
  tget (payload_type p) (s_watched s) = None -> handle_resp c o s v n p = (s, [], []).
Proof. intros H. unfold handle_resp. destruct (s_closed s); [reflexivity|]. rewrite H. reflexivity. Qed.

Lemma resp_unknown_ignored c o s : step c o s ORespUnknown = (s, no_out).
Proof. reflexivity. Qed.

(** a rejected response: exactly one reply (if the sender has a stream) echoing the nonce, with the LAST ACCEPTED
    version and an error detail; the state changes in the nonce of that type only *)
Lemma nack_changes_nothing c o s v n p ws :
  s_closed s = false -> tget (payload_type p) (s_watched s) = Some ws -> decode_payload o p = None ->
  let t := payload_type p in
  handle_resp c o s v n p =
    (set_ack s t None n,
     emit (set_ack s t None n) {| q_type := t; q_version := tget t (s_version s); q_nonce := n; q_names := ws; q_error := true |}, []).
Proof.
  intros Hc Hw Hd t. subst t. unfold handle_resp. rewrite Hc, Hw, Hd.
  unfold mk_request, watched_names, set_ack. cbn [s_watched s_version s_nonce]. rewrite Hw.
  replace (tget (payload_type p) (tset (payload_type p) n (s_nonce s))) with n by (destruct (payload_type p); reflexivity). reflexivity.
Qed.

Lemma set_ack_none_keeps s t n :
  let s' := set_ack s t None n in
  s_cache s' = s_cache s /\ s_table s' = s_table s /\ s_version s' = s_version s /\ s_watched s' = s_watched s /\
  s_meta s' = s_meta s /\ s_has_cache s' = s_has_cache s /\ s_closed s' = s_closed s /\ s_stream s' = s_stream s /\
  forall t', tget t' (s_nonce s') = if rtype_eqb t' t then n else tget t' (s_nonce s).
Proof. cbn. repeat split. intros t'. destruct t, t'; reflexivity. Qed.

(** an accepted response: one reply with the response's version and nonce, no error detail, listing the interest set *)
Lemma ack_reply c o s v n p ws d :
  s_closed s = false -> tget (payload_type p) (s_watched s) = Some ws -> decode_payload o p = Some d ->
  let t := payload_type p in
  snd (fst (handle_resp c o s v n p)) =
    emit (set_ack s t (Some v) n) {| q_type := t; q_version := v; q_nonce := n; q_names := ws; q_error := false |}.
Proof.
  intros Hc Hw Hd t. unfold handle_resp. rewrite Hc, Hw, Hd. fold t. fold t in Hw.
  assert (E : mk_request (set_ack s t (Some v) n) t false = {| q_type := t; q_version := v; q_nonce := n; q_names := ws; q_error := false |}).
  { unfold mk_request, watched_names, set_ack. cbn [s_watched s_version s_nonce]. rewrite Hw.
    replace (tget t (tset t v (s_version s))) with v by (destruct t; reflexivity).
    replace (tget t (tset t n (s_nonce s))) with n by (destruct t; reflexivity). reflexivity. }
  destruct d; cbn [fst snd]; rewrite E; reflexivity.
Qed.

(** at most one reply per response *)
Lemma emit_at_most_one s q : (length (emit s q) <= 1)%nat.
Proof. unfold emit. destruct (s_closed s); [cbn; lia|]. destruct (s_sender_ok s); cbn; lia. Qed.

Lemma resp_at_most_one_reply c o s v n p : (length (snd (fst (handle_resp c o s v n p))) <= 1)%nat.
Proof.
  unfold handle_resp. destruct (s_closed s); [cbn; lia|].
  destruct (tget (payload_type p) (s_watched s)); [|cbn; lia].
  destruct (decode_payload o p) as [[m|tb]|]; cbn [fst snd]; apply emit_at_most_one.
Qed.

(** ---- C03 ---- *)
(** every request built by Watch lists exactly the interest set after the change, and identifies its type *)
Lemma watch_request s t n rm :
  let '(s', rq) := watch s t n rm in
  forall sq, In sq rq -> q_type (snd sq) = t /\ q_names (snd sq) = watched_names s' t /\ fst sq = s_stream s' /\ q_error (snd sq) = false.
Proof.
  unfold watch. cbn zeta. intros sq Hin. unfold emit in Hin. cbn [s_closed s_sender_ok s_stream] in Hin.
  destruct (s_closed s); [destruct Hin|]. destruct (s_sender_ok s); [|destruct Hin].
  destruct Hin as [<-|[]]. cbn. repeat split; reflexivity.
Qed.

Lemma watch_interest s t n rm t' :
  watched_names (fst (watch s t n rm)) t' =
  if rtype_eqb t' t then (if rm then sdel n (watched_names s t) else sadd n (watched_names s t)) else watched_names s t'.
Proof. unfold watch, watched_names. cbn [fst s_watched]. destruct t, t'; reflexivity. Qed.

(** a lookup changes the interest set only when it misses, and then by exactly that name *)
Lemma lookup_interest s t n t' :
  let '(s', rq, r) := lookup s t n in
  match r with
  | LHit _ => watched_names s' t' = watched_names s t' /\ rq = []
  | _ => watched_names s' t' = (if rtype_eqb t' t then sadd n (watched_names s t) else watched_names s t')
  end.
Proof.
  unfold lookup.
  assert (Ht : forall x, watched_names (touch s t n) x = watched_names s x).
  { intros x. unfold touch. destruct (aget n (tget t (s_meta s))); reflexivity. }
  destruct (aget n (tget t (s_cache (touch s t n)))) as [v|] eqn:E.
  - split; [apply Ht|reflexivity].
  - destruct (watch (touch s t n) t n false) as [s1 rq] eqn:Ew.
    pose proof (watch_interest (touch s t n) t n false t') as H. rewrite Ew in H. cbn [fst] in H.
    rewrite H, !Ht. reflexivity.
Qed.

(** responses and stream events never change the interest sets *)
Lemma handle_resp_interest c o s v n p :
  s_watched (fst (fst (handle_resp c o s v n p))) = s_watched s.
Proof.
  unfold handle_resp. destruct (s_closed s); [reflexivity|].
  destruct (tget (payload_type p) (s_watched s)); [|reflexivity].
  destruct (decode_payload o p) as [[m|tb]|]; reflexivity.
Qed.

Lemma reconnect_interest s : s_watched (fst (reconnect s)) = s_watched s.
Proof. reflexivity. Qed.

(** ---- C04 ---- *)
(** after a non-authentication Recv failure: a new stream; every subscribed type is re-requested on it with the
    full name set, the last accepted version and an empty nonce; never-subscribed types are not *)
Lemma reconnect_requests s :
  s_closed s = false ->
  let '(s', rq) := reconnect s in
  s_stream s' = s_stream s + 1 /\
  rq = flat_map (fun t => match tget t (s_watched s) with
                          | Some ws => [(s_stream s + 1, {| q_type := t; q_version := tget t (s_version s); q_nonce := ""; q_names := ws; q_error := false |})]
                          | None => [] end) all_types.
Proof.
  intros Hc. unfold reconnect. cbn zeta. split; [reflexivity|].
  unfold all_types. cbn [flat_map app]. unfold emit, mk_request, watched_names.
  cbn [s_closed s_sender_ok s_stream s_watched s_version s_nonce tget tconst m_lis m_rc m_cl m_ep m_nt]. rewrite Hc.
  destruct (m_lis (s_watched s)), (m_rc (s_watched s)), (m_cl (s_watched s)), (m_ep (s_watched s)), (m_nt (s_watched s)); reflexivity.
Qed.

(** stream events never touch the cache, the name table or the accepted versions *)
Lemma stream_events_keep_data c o s x :
  (exists a, x = ORecvErr a) \/ x = OSendErr ->
  let s' := fst (step c o s x) in
  s_cache s' = s_cache s /\ s_table s' = s_table s /\ s_version s' = s_version s /\ s_watched s' = s_watched s /\ s_meta s' = s_meta s.
Proof.
  intros [[a ->]| ->]; cbn [step].
  - destruct a; destruct (s_closed s); cbn; repeat split.
  - destruct (s_closed s); cbn; repeat split.
Qed.

(** an authentication rejection stops the client for good *)
Lemma auth_rejection_closes c o s : s_closed (fst (step c o s (ORecvErr true))) = true.
Proof. cbn [step]. destruct (s_closed s) eqn:E; cbn; [exact E|reflexivity]. Qed.

Lemma touch_closed s t n : s_closed (touch s t n) = s_closed s.
Proof. unfold touch. destruct (aget n (tget t (s_meta s))); reflexivity. Qed.

Lemma watch_closed s t n rm : s_closed (fst (watch s t n rm)) = s_closed s.
Proof. reflexivity. Qed.

Lemma lookup_closed s t n : s_closed (fst (fst (lookup s t n))) = s_closed s.
Proof.
  unfold lookup. destruct (aget n (tget t (s_cache (touch s t n)))); cbn [fst]; [apply touch_closed|].
  destruct (watch (touch s t n) t n false) as [s1 rq] eqn:E. cbn [fst].
  change s1 with (fst (s1, rq)). rewrite <- E, watch_closed. apply touch_closed.
Qed.

Lemma closed_stays_closed c o s x : s_closed s = true -> s_closed (fst (step c o s x)) = true.
Proof.
  intros Hc. destruct x as [t n|t n|t l|d| |v n p| |t|a| |dd|t n dd|]; cbn [step].
  - exact Hc.
  - pose proof (lookup_closed s t n) as H. destruct (lookup s t n) as [[s1 rq] r]. cbn [fst] in *. congruence.
  - assert (G : forall (l : list string) acc, s_closed (fst (fst acc)) = true ->
              s_closed (fst (fst (fold_left (fun acc n => let '(sa, rqa, _) := acc in let '(sb, rqb, rb) := lookup sa t n in (sb, (rqa ++ rqb)%list, rb)) l acc))) = true).
    { intros l0. induction l0 as [|n l0 IH]; intros acc Ha; cbn [fold_left]; [exact Ha|]. apply IH.
      destruct acc as [[sa rqa] ra]. cbn [fst] in Ha.
      pose proof (lookup_closed sa t n) as H. destruct (lookup sa t n) as [[sb rqb] rb]. cbn [fst] in *. congruence. }
    specialize (G l (s, [], LMiss) Hc).
    destruct (fold_left _ l (s, [], LMiss)) as [[s1 rq] r]. exact G.
  - pose proof (lookup_closed s TCl d) as H1. destruct (lookup s TCl d) as [[s1 rq1] r1]. cbn [fst] in H1.
    destruct r1 as [v| | | | | |r|]; cbn [fst]; try congruence.
    destruct v as [li|rc|cl|e|]; cbn [fst]; try congruence.
    destruct (c_inline cl); cbn [fst]; [congruence|].
    pose proof (lookup_closed s1 TEp (c_epname cl)) as H2. destruct (lookup s1 TEp (c_epname cl)) as [[s2 rq2] r2]. cbn [fst] in *. congruence.
  - exact Hc.
  - unfold handle_resp. rewrite Hc. exact Hc.
  - exact Hc.
  - exact Hc.
  - destruct a; rewrite Hc; exact Hc.
  - rewrite Hc. exact Hc.
  - exact Hc.
  - destruct (aget n (tget t (s_meta s))); exact Hc.
  - unfold sweep.
    assert (G : forall (ts : list rtype) acc, s_closed (fst acc) = true ->
              s_closed (fst (fold_left (fun acc t => fold_left (fun acc2 n => let '(s2, rq) := evict_one (fst acc2) t n in (s2, (snd acc2 ++ rq)%list)) (idle_names (fst acc) t) acc) ts acc)) = true).
    { intros ts. induction ts as [|t ts IH]; intros acc Ha; cbn [fold_left]; [exact Ha|]. apply IH.
      generalize (idle_names (fst acc) t). intros l. revert acc Ha. induction l as [|n l IHn]; intros acc Ha; cbn [fold_left]; [exact Ha|].
      apply IHn. unfold evict_one, watch. cbn. exact Ha. }
    specialize (G all_types (s, []) Hc). destruct (fold_left _ all_types (s, [])) as [s1 rq]. exact G.
Qed.

(** once stopped, the client sends nothing more; lookups still return: a cached value or an error *)
Lemma closed_sends_nothing s q : s_closed s = true -> emit s q = [].
Proof. intros H. unfold emit. rewrite H. reflexivity. Qed.

Lemma lookup_returns s t n :
  match snd (lookup s t n) with LHit _ | LMiss => True | _ => False end.
Proof. unfold lookup. destruct (aget n (tget t (s_cache (touch s t n)))); [exact I|]. destruct (watch (touch s t n) t n false). exact I. Qed.

Lemma closed_lookup_serves_cache s t n :
  s_closed s = true ->
  snd (lookup s t n) = match aget n (tget t (s_cache s)) with Some v => LHit v | None => LMiss end /\
  snd (fst (lookup s t n)) = [].
Proof.
  intros Hc. unfold lookup.
  assert (Ec : s_cache (touch s t n) = s_cache s) by (unfold touch; destruct (aget n (tget t (s_meta s))); reflexivity).
  rewrite Ec. destruct (aget n (tget t (s_cache s))); [split; reflexivity|].
  unfold watch. cbn [fst snd]. split; [reflexivity|]. apply closed_sends_nothing. cbn.
  unfold touch. destruct (aget n (tget t (s_meta s))); exact Hc.
Qed.

Lemma C02_example_proof :
  let c := {| sc_nds_required := false; sc_f := {| f_ns := "default"; f_dom := "cluster.local" |} |} in
  let o := mk_oracle_route [] [] in
  let h := [OLookup TCl "c1"; OResp "v1" "n1" (PCds [RGood {| cl_name := "c1"; cl_type := Some 3; cl_lb := 0; cl_eds_service := None; cl_outlier := None; cl_load := None |}]);
            OResp "v2" "n2" (PCds [RUnparsable])] in
  let '(s, outs) := run c o init_state h in
  tget TCl (s_version s) = "v1" /\ tget TCl (s_nonce s) = "n2" /\ map fst (tget TCl (s_cache s)) = ["c1"] /\
  map (fun ot => map (fun sq => (q_version (snd sq), q_nonce (snd sq), q_error (snd sq))) (o_reqs ot)) outs =
    [[("", "", false)]; [("v1", "n1", false)]; [("v1", "n2", true)]].
Proof. vm_compute. repeat split; reflexivity. Qed.

(** ---- C07 / C16-C18: what the handlers are handed is what lookups see afterwards ---- *)
Lemma handlers_see_the_new_cache c o s v n p u :
  In u (snd (handle_resp c o s v n p)) ->
  u_type u = payload_type p /\ u_map u = tget (u_type u) (s_cache (fst (fst (handle_resp c o s v n p)))).
Proof.
  unfold handle_resp. destruct (s_closed s); [intros []|].
  destruct (tget (payload_type p) (s_watched s)); [|intros []].
  destruct (decode_payload o p) as [[m|tb]|]; cbn [fst snd]; [|intros []|intros []].
  intros [<-|[]]. split; reflexivity.
Qed.

(** a cache change of a response is always accompanied, in the same atomic step, by a handler run *)
Lemma cache_change_runs_handlers c o s v n p :
  s_cache (fst (fst (handle_resp c o s v n p))) <> s_cache s -> snd (handle_resp c o s v n p) <> [].
Proof.
  unfold handle_resp. destruct (s_closed s); [intros H; exfalso; apply H; reflexivity|].
  destruct (tget (payload_type p) (s_watched s)); [|intros H; exfalso; apply H; reflexivity].
  destruct (decode_payload o p) as [[m|tb]|]; cbn [fst snd]; [|intros H; exfalso; apply H; reflexivity|intros H; exfalso; apply H; reflexivity].
  intros _. discriminate.
Qed.
