(** C10 over histories: the resolver step of Model/Sys.v returns [resolve] applied to the folds of the history
    ([expected_resolution] of Model/SysCheck.v, the statement evaluated on the implementation).
    Extends the refinement of Proofs/C01Proofs.v to histories that contain resolutions. *)
From Xds Require Import Model.Base Model.Fqdn Model.Proto Model.Decode Model.DecodeCheck Model.Pick Model.Route Model.Mw Model.Sys Model.SysCheck.
From Xds Require Import Proofs.MapLemmas Proofs.DecodeProofs Proofs.PolicyProofs Proofs.SysProofs Proofs.C01Proofs Proofs.SweepProofs.
From Coq Require Import Lia.
Open Scope string_scope.

Definition hist_op (x : op) : bool := match x with OSweep => false | _ => true end.

(** a resolution, seen from a key of another type than the endpoint sets *)
Lemma step_refines_resolve c o t n s d : t <> TNt -> t <> TEp -> inv s ->
  abs t n (fst (step c o s (OResolve d))) = kv_step c o t n (abs t n s) (OResolve d).
Proof.
  intros Ht Hte I. cbn [step kv_step].
  pose proof (abs_lookup t n s TCl d Ht I) as H1. pose proof (lookup_inv s TCl d I) as I1.
  destruct (lookup s TCl d) as [[s1 rq1] r1]. cbn [fst] in H1, I1.
  assert (G : forall e, abs t n (fst (fst (lookup s1 TEp e))) = abs t n s1).
  { intros e. rewrite (abs_lookup t n s1 TEp e Ht I1). unfold kv_lookup, kv_nds. cbn [rtype_eqb].
    destruct t; try reflexivity. exfalso; apply Hte; reflexivity. }
  destruct r1 as [[l|r0|cl|e|]| | | | | |r0| ]; cbn [fst]; try exact H1.
  destruct (c_inline cl); cbn [fst]; [exact H1|].
  specialize (G (c_epname cl)). destruct (lookup s1 TEp (c_epname cl)) as [[s2 rq2] r2]. cbn [fst] in *. rewrite G. exact H1.
Qed.

Lemma step_refines_hist c o t n s x : t <> TNt -> t <> TEp -> inv s -> hist_op x = true ->
  abs t n (fst (step c o s x)) = kv_step c o t n (abs t n s) x.
Proof.
  intros Ht Hte I Hx. destruct x; try discriminate; try (apply step_refines; [exact Ht|exact I|reflexivity]).
  apply step_refines_resolve; assumption.
Qed.

Lemma run_refines_hist c o t n h : t <> TNt -> t <> TEp -> forallb hist_op h = true -> forall s, inv s ->
  abs t n (fst (run c o s h)) = fold_left (kv_step c o t n) h (abs t n s).
Proof.
  intros Ht Hte. induction h as [|x h IH]; intros Hh s I; cbn [run fold_left]; [reflexivity|].
  cbn [forallb] in Hh. apply andb_true_iff in Hh. destruct Hh as [Hx Hh].
  pose proof (step_refines_hist c o t n s x Ht Hte I Hx) as Hs. pose proof (step_inv c o s x I) as Hi.
  destruct (step c o s x) as [s1 ot]. cbn [fst] in Hs, Hi.
  specialize (IH Hh s1 Hi). destruct (run c o s1 h) as [s2 ots]. cbn [fst] in *. rewrite IH, Hs. reflexivity.
Qed.

(** the cluster served after a history (resolutions included) is the cluster's fold *)
Lemma cluster_is_fold c o pre d : forallb hist_op pre = true ->
  aget d (tget TCl (s_cache (final c o pre))) = kv_val (cl_view c o pre d).
Proof.
  intros Hp. unfold cl_view. rewrite <- abs_init with (t := TCl) (n := d). unfold final.
  rewrite <- (run_refines_hist c o TCl d pre); [reflexivity|discriminate|discriminate|exact Hp|exact init_inv].
Qed.

Lemma final_snoc c o pre x : final c o (pre ++ [x]) = fst (step c o (final c o pre) x).
Proof.
  unfold final. rewrite run_app. cbn [run]. destruct (step c o (fst (run c o init_state pre)) x) as [s1 ot]. reflexivity.
Qed.

(** a resolution, seen from an endpoint-set key *)
Lemma step_refines_resolve_ep c o n s d : inv s ->
  abs TEp n (fst (step c o s (OResolve d))) =
  match aget d (tget TCl (s_cache s)) with
  | Some (VCl cl) => match c_inline cl with
                     | Some _ => abs TEp n s
                     | None => kv_lookup TEp n (abs TEp n s) TEp (c_epname cl)
                     end
  | _ => abs TEp n s
  end.
Proof.
  intros I. cbn [step].
  assert (Ht : TEp <> TNt) by discriminate.
  pose proof (abs_lookup TEp n s TCl d Ht I) as H1. pose proof (lookup_inv s TCl d I) as I1.
  destruct (lookup_result_cache s TCl d) as [Hr Hc].
  destruct (lookup s TCl d) as [[s1 rq1] r1]. cbn [fst snd] in H1, I1, Hr, Hc.
  assert (H1' : abs TEp n s1 = abs TEp n s) by (rewrite H1; reflexivity).
  subst r1. destruct (aget d (tget TCl (s_cache s))) as [[l|r0|cl|e|]|]; cbn [fst]; try exact H1'.
  destruct (c_inline cl); cbn [fst]; [exact H1'|].
  pose proof (abs_lookup TEp n s1 TEp (c_epname cl) Ht I1) as H2.
  destruct (lookup s1 TEp (c_epname cl)) as [[s2 rq2] r2]. cbn [fst] in *. rewrite H2, H1'. reflexivity.
Qed.

Lemma forallb_app_true {A} (f : A -> bool) a b : forallb f (a ++ b) = true -> forallb f a = true /\ forallb f b = true.
Proof. rewrite forallb_app. intros H. apply andb_true_iff in H. exact H. Qed.

(** the endpoint sets served after a history are the endpoint fold *)
Lemma run_refines_ep c o n h : forall pre, forallb hist_op (pre ++ h) = true ->
  abs TEp n (fst (run c o (final c o pre) h)) = ep_fold c o n pre (abs TEp n (final c o pre)) h.
Proof.
  induction h as [|x h IH]; intros pre Hh; cbn [run ep_fold]; [reflexivity|].
  destruct (forallb_app_true _ _ _ Hh) as [Hpre Hxh]. cbn [forallb] in Hxh. apply andb_true_iff in Hxh. destruct Hxh as [Hx Hh'].
  assert (Hh2 : forallb hist_op ((pre ++ [x]) ++ h) = true) by (rewrite <- app_assoc; exact Hh).
  specialize (IH (pre ++ [x])%list Hh2). rewrite final_snoc in IH.
  pose proof (reachable_inv c o pre) as I.
  destruct (step c o (final c o pre) x) as [s1 ot] eqn:Es. cbn [fst] in IH.
  destruct (run c o s1 h) as [s2 ots]. cbn [fst] in *. rewrite IH. f_equal.
  assert (E1 : s1 = fst (step c o (final c o pre) x)) by (rewrite Es; reflexivity). rewrite E1.
  destruct x; try discriminate; try (apply step_refines; [discriminate|exact I|reflexivity]).
  rewrite (step_refines_resolve_ep c o n _ desc I), (cluster_is_fold c o pre desc Hpre). reflexivity.
Qed.

Lemma endpoints_are_fold c o pre e : forallb hist_op pre = true ->
  aget e (tget TEp (s_cache (final c o pre))) = kv_val (ep_view c o pre e).
Proof.
  intros Hp. unfold ep_view.
  pose proof (run_refines_ep c o e pre [] Hp) as H. cbn [app] in H.
  change (final c o []) with init_state in H. rewrite abs_init in H. rewrite <- H. reflexivity.
Qed.

(** C10 over histories: after ANY history of subscriptions, lookups, responses, stream failures and earlier
    resolutions, resolving [d] returns [resolve] applied to the folds of that history *)
Lemma resolution_of_history c o pre d : forallb hist_op pre = true ->
  o_lookup (snd (step c o (final c o pre) (OResolve d))) = Some (LResolved (expected_resolution c o pre d)).
Proof.
  intros Hp. rewrite resolve_step. unfold expected_resolution, cached_cluster.
  rewrite (cluster_is_fold c o pre d Hp). f_equal. f_equal.
  destruct (kv_val (cl_view c o pre d)) as [[l|r0|cl|e|]|]; try reflexivity.
  apply resolve_eds_ext. unfold cached_endpoints. rewrite (endpoints_are_fold c o pre _ Hp). reflexivity.
Qed.

Lemma C10_history_example_proof :
  let c := {| sc_nds_required := false; sc_f := {| f_ns := "default"; f_dom := "cluster.local" |} |} in
  let o := mk_oracle [] [] [] in
  let cl n svc := RGood {| cl_name := n; cl_type := Some 3; cl_lb := 0; cl_eds_service := svc; cl_outlier := None; cl_load := None |} in
  let ep n addr := RGood {| cla_name := n; cla_localities := [[{| lbe_sock := Some {| sa_addr := addr; sa_port := 80 |}; lbe_weight := Some 3 |}]] |} in
  let h := [OResolve "c1"; OResp "1" "n1" (PCds [cl "c1" (Some "svc")]); OResolve "c1"; OResp "1" "m1" (PEds [ep "svc" "10.0.0.1"; ep "other" "10.0.0.9"])] in
  expected_resolution c o h "c1" = Some [("10.0.0.1:80", 3%N)].
Proof. vm_compute. reflexivity. Qed.
