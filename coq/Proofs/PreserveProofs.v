(** The decoders preserve the source message field by field (C11, C12): the executable
    preservation predicates of Model/DecodeCheck.v hold of the model's own output. *)
From Xds Require Import Model.Base Model.Fqdn Model.Proto Model.Decode Model.DecodeCheck.
From Xds Require Import Proofs.MapLemmas Proofs.DecodeProofs.
From Coq Require Import Lia Permutation.
Open Scope string_scope.

Lemma eqb_of_refl {A} (dec : forall a b : A, {a = b} + {a <> b}) a : eqb_of dec a a = true.
Proof. unfold eqb_of. destruct (dec a a); [reflexivity|congruence]. Qed.

Lemma eqb_of_true {A} (dec : forall a b : A, {a = b} + {a <> b}) a b : eqb_of dec a b = true <-> a = b.
Proof. unfold eqb_of. destruct (dec a b); split; intros; try reflexivity; try assumption; try discriminate; congruence. Qed.

Lemma opt_eqb_refl {A} (eqb : A -> A -> bool) (o : option A) :
  (forall a, eqb a a = true) -> opt_eqb eqb o o = true.
Proof. intros H. destruct o; cbn; [apply H|reflexivity]. Qed.

Lemma forall2b_map {A B} (f : A -> B -> bool) (g : A -> B) l :
  (forall x, In x l -> f x (g x) = true) -> forall2b f l (map g l) = true.
Proof.
  induction l as [|x l IH]; intros H; cbn [map forall2b]; [reflexivity|].
  rewrite H by (left; reflexivity). apply IH. intros y Hy. apply H. right. exact Hy.
Qed.

Lemma map_opt_forall2b {A B} (f : A -> option B) (P : A -> B -> bool) l : forall l',
  map_opt f l = Some l' -> (forall x y, In x l -> f x = Some y -> P x y = true) -> forall2b P l l' = true.
Proof.
  induction l as [|x l IH]; intros l' E H; cbn [map_opt] in E.
  - injection E as <-. reflexivity.
  - destruct (f x) as [y|] eqn:Ef; [|discriminate].
    destruct (map_opt f l) as [ys|] eqn:Em; [|discriminate]. injection E as <-.
    cbn [forall2b]. rewrite (H x y (or_introl eq_refl) Ef). apply IH; [reflexivity|].
    intros x' y' Hin. apply H. right. exact Hin.
Qed.

(** ---- header conditions ---- *)
Lemma add_matcher_spec o ms h :
  add_matcher o ms h = match header_supported o h with Some m => aset (h_name h) m ms | None => ms end.
Proof.
  unfold add_matcher, header_supported. destruct (h_spec h) as [[s|s|s| |]| |]; try reflexivity.
  - destruct (String.eqb s ""); reflexivity.
  - destruct (String.eqb s ""); reflexivity.
  - destruct (String.eqb s ""); [reflexivity|]. destruct (o_re_valid o s); reflexivity.
Qed.

Lemma fold_add_matcher_nodup o hs : forall acc,
  NoDup (akeys acc) -> NoDup (akeys (fold_left (add_matcher o) hs acc)).
Proof.
  induction hs as [|h hs IH]; intros acc H; cbn [fold_left]; [exact H|].
  apply IH. rewrite add_matcher_spec. destruct (header_supported o h); [apply nodup_aset|]; exact H.
Qed.

Lemma fold_add_matcher_get o hs name : forall acc,
  aget name (fold_left (add_matcher o) hs acc) =
  fold_left (fun a h => if String.eqb (h_name h) name
                        then match header_supported o h with Some m => Some m | None => a end
                        else a) hs (aget name acc).
Proof.
  induction hs as [|h hs IH]; intros acc; cbn [fold_left]; [reflexivity|].
  rewrite IH. f_equal. rewrite add_matcher_spec.
  destruct (header_supported o h) as [m|].
  - rewrite aget_aset. rewrite (String.eqb_sym name (h_name h)). reflexivity.
  - destruct (String.eqb (h_name h) name); reflexivity.
Qed.

Lemma build_matchers_get o hs name : aget name (build_matchers o hs) = last_supported o hs name.
Proof.
  unfold build_matchers, last_supported.
  rewrite aget_sort_map by (apply fold_add_matcher_nodup; constructor).
  apply (fold_add_matcher_get o hs name []).
Qed.

Lemma build_matchers_nodup o hs : NoDup (akeys (build_matchers o hs)).
Proof. apply nodup_sort_map. apply fold_add_matcher_nodup. constructor. Qed.

Lemma headers_preserved_model o hs : headers_preserved o hs (build_matchers o hs) = true.
Proof.
  unfold headers_preserved. apply andb_true_iff. split; apply forallb_forall.
  - intros h _. destruct (header_supported o h); [|reflexivity].
    rewrite build_matchers_get. apply opt_eqb_refl. apply eqb_of_refl.
  - intros [k v] Hin. cbn [fst snd].
    rewrite <- build_matchers_get. rewrite (In_aget k v _ (build_matchers_nodup o hs) Hin).
    apply opt_eqb_refl. apply eqb_of_refl.
Qed.

(** ---- clusters, retry policy, routes ---- *)
Lemma wclusters_preserved l :
  forall2b (fun w c => String.eqb (wcp_name w) (fst c) && N.eqb (dn (wcp_weight w)) (snd c)) l (wclusters l) = true.
Proof.
  unfold wclusters. apply forall2b_map. intros w _. cbn [fst snd].
  rewrite String.eqb_refl, N.eqb_refl. reflexivity.
Qed.

Lemma clusters_preserved_model cs :
  clusters_preserved cs (match cs with CSCluster s => [(s, 1)] | CSWeighted l => wclusters l | _ => [] end) = true.
Proof.
  destruct cs; cbn [clusters_preserved]; try reflexivity.
  - apply eqb_of_refl.
  - apply wclusters_preserved.
Qed.

Lemma retry_header_fold o hs : forall rp,
  let r := fold_left (retry_header o) hs rp in
  rp_on r = rp_on rp /\ rp_num r = rp_num rp /\ rp_pertry r = rp_pertry rp /\ rp_idle r = rp_idle rp /\
  rp_backoff r = rp_backoff rp /\
  rp_cbrate r = fold_left (fun acc h => match h_spec h with
                                     | HSString (SMExact v) =>
                                         if negb (String.eqb v "") && String.eqb (h_name h) "kitexRetryErrorRate"
                                         then match o_rate o v with Some x => x | None => acc end else acc
                                     | _ => acc end) hs (rp_cbrate rp) /\
  rp_methods r = fold_left (fun acc h => match h_spec h with
                                     | HSString (SMExact v) =>
                                         if negb (String.eqb v "") && String.eqb (h_name h) "kitexRetryMethods"
                                         then split_on ","%char v else acc
                                     | _ => acc end) hs (rp_methods rp).
Proof.
  induction hs as [|h hs IH]; intros rp; cbn [fold_left].
  - cbn. repeat split; reflexivity.
  - specialize (IH (retry_header o rp h)). cbn zeta in IH.
    destruct IH as (I1 & I2 & I3 & I4 & I5 & I6 & I7).
    cbn zeta. rewrite I1, I2, I3, I4, I5, I6, I7. clear.
    unfold retry_header.
    destruct (h_spec h) as [[v|v|v| |]| |]; try (repeat split; reflexivity).
    destruct (String.eqb v ""); cbn [negb andb]; [repeat split; reflexivity|].
    destruct (String.eqb_spec (h_name h) "kitexRetryErrorRate") as [E|E].
    + rewrite E. cbn. destruct (o_rate o v); cbn; repeat split; reflexivity.
    + destruct (String.eqb_spec (h_name h) "kitexRetryMethods") as [E2|E2]; cbn; repeat split; reflexivity.
Qed.

Lemma retry_preserved_model o p :
  retry_preserved o p (match p with Some p => decode_retry o p | None => no_retry end) = true.
Proof.
  destruct p as [p|]; cbn [retry_preserved]; [|apply eqb_of_refl].
  unfold decode_retry.
  set (base := {| rp_on := rpp_on p; rp_num := dn (rpp_num p); rp_pertry := dz (rpp_pertry p); rp_idle := dz (rpp_idle p);
                  rp_cbrate := 0; rp_backoff := None; rp_methods := [] |}).
  destruct (retry_header_fold o (rpp_headers p) base) as (I1 & I2 & I3 & I4 & _ & I6 & I7).
  cbn [rp_on rp_num rp_pertry rp_idle rp_cbrate rp_backoff rp_methods].
  rewrite I1, I2, I3, I4, I6, I7. subst base. cbn [rp_on rp_num rp_pertry rp_idle rp_cbrate rp_methods].
  rewrite String.eqb_refl, N.eqb_refl, !Z.eqb_refl, N.eqb_refl, eqb_of_refl. cbn [andb].
  destruct (rpp_backoff p); [rewrite !Z.eqb_refl|]; reflexivity.
Qed.

Lemma route_preserved_model o s d : decode_route o s = Some d -> route_preserved o s d = true.
Proof.
  unfold decode_route, route_preserved. destruct (rt_match s) as [m|]; [|discriminate].
  assert (Hh := headers_preserved_model o (rm_headers m)).
  destruct (rt_action s) as [a| |]; [| |destruct (rm_path m); discriminate].
  - destruct (rm_path m); intros E; injection E as <-; cbn [r_match r_clusters r_timeout r_retry];
      rewrite Hh, ?String.eqb_refl, Z.eqb_refl, retry_preserved_model, clusters_preserved_model; reflexivity.
  - destruct (rm_path m); intros E; injection E as <-; cbn [r_match r_clusters r_timeout r_retry];
      rewrite Hh, ?String.eqb_refl, eqb_of_refl; reflexivity.
Qed.

Lemma rc_preserved_model o s d : decode_rc o s = Some d -> rc_preserved o s d = true.
Proof.
  unfold decode_rc, rc_preserved. destruct (map_opt (decode_vhost o) (rcp_vhosts s)) as [vhs|] eqn:E; [|discriminate].
  intros H. injection H as <-. cbn [rc_http rc_thrift].
  eapply map_opt_forall2b; [exact E|]. intros v [n rs] _ Hv. unfold decode_vhost in Hv.
  destruct (map_opt (decode_route o) (vh_routes v)) as [rs'|] eqn:Er; [|discriminate].
  injection Hv as <- <-. cbn [fst snd]. rewrite String.eqb_refl. cbn [andb].
  eapply map_opt_forall2b; [exact Er|]. intros r d' _. apply route_preserved_model.
Qed.

Lemma troute_preserved_model o s d : decode_troute o s = Some d -> troute_preserved o s d = true.
Proof.
  unfold decode_troute, troute_preserved. destruct (tr_match s) as [m|]; [|discriminate].
  assert (Hh := headers_preserved_model o (tm_headers m)).
  destruct (tr_route s) as [a|]; [|destruct (tm_spec m); discriminate].
  destruct (tm_spec m); intros E; injection E as <-; cbn [r_match r_clusters];
    rewrite Hh, ?String.eqb_refl; cbn [andb]; destruct a; try reflexivity; try apply eqb_of_refl; apply wclusters_preserved.
Qed.

(** ---- rate-limit bucket wherever the filter sits ---- *)
Lemma rate_limit_first_bucket fs b : rate_limit fs = Some b -> b = first_bucket fs.
Proof.
  induction fs as [|f fs IH]; cbn [rate_limit first_bucket]; [intros E; injection E as <-; reflexivity|].
  destruct f as [[[mx tpf]|]| |[[|[mx|] [tpf|]]|]| | |]; cbn [bucket_of]; try discriminate; try exact IH;
    intros E; injection E as <-; reflexivity.
Qed.

(** ---- filter chains and listeners ---- *)
Lemma chain_preserved_model o port fs : forall d,
  decode_filters o port fs = Some d -> chain_preserved o port fs d = true /\ length d = chain_count {| fc_port := None; fc_filters := fs |}.
Proof.
  unfold chain_count. cbn [fc_filters].
  induction fs as [|f fs IH]; intros d E; cbn [decode_filters] in E.
  - injection E as <-. split; reflexivity.
  - destruct (decode_filters o port fs) as [rest|] eqn:Er; [|destruct f; discriminate].
    destruct (IH rest eq_refl) as [IHp IHl].
    destruct f as [tp| |h| | |]; cbn [chain_preserved filter length]; try discriminate.
    + destruct (decode_thrift o tp) as [rc|] eqn:Et; [|discriminate]. injection E as <-.
      cbn [nf_thrift nf_rcname nf_inline length]. rewrite IHp, IHl. split; [|reflexivity].
      unfold decode_thrift in Et.
      destruct (map_opt (decode_troute o) match tp_rc tp with Some rc0 => trc_routes rc0 | None => [] end) as [routes|] eqn:Em; [|discriminate].
      injection Et as <-. cbn [rc_http rc_thrift andb]. rewrite andb_true_r.
      eapply map_opt_forall2b; [exact Em|]. intros r d' _. apply troute_preserved_model.
    + destruct (decode_hcm o h) as [[n rc]|] eqn:Eh; [|discriminate]. injection E as <-.
      cbn [nf_thrift nf_rcname nf_port nf_inline length negb]. rewrite IHp, IHl, N.eqb_refl. split; [|reflexivity].
      unfold decode_hcm in Eh. destruct (rate_limit (hcm_filters h)) as [[mx tpf]|] eqn:Erl; [|discriminate].
      apply rate_limit_first_bucket in Erl.
      destruct (hcm_spec h) as [name|src| |].
      * destruct (String.eqb name ""); [discriminate|]. injection Eh as <- <-.
        cbn [rc_maxtok rc_tpf rc_http rc_thrift]. rewrite String.eqb_refl, Erl, eqb_of_refl. reflexivity.
      * destruct (decode_rc o src) as [r|] eqn:Erc; [|discriminate]. injection Eh as <- <-.
        cbn [rc_maxtok rc_tpf]. rewrite String.eqb_refl, Erl, eqb_of_refl. cbn [andb].
        pose proof (rc_preserved_model o src r Erc) as Hp. unfold rc_preserved in *. cbn [rc_http rc_thrift]. rewrite Hp. reflexivity.
      * injection Eh as <- <-. reflexivity.
      * injection Eh as <- <-. reflexivity.
    + injection E as <-. split; [exact IHp|exact IHl].
    + injection E as <-. split; [exact IHp|exact IHl].
Qed.

Lemma chains_preserved_app o cs : forall d1 d2,
  chains_preserved o cs d1 = true -> length d1 = fold_right (fun fc n => (chain_count fc + n)%nat) 0%nat cs ->
  forall cs2, chains_preserved o cs2 d2 = true -> chains_preserved o (cs ++ cs2) (d1 ++ d2) = true.
Proof.
  induction cs as [|fc cs IH]; intros d1 d2 H1 Hl cs2 H2; cbn [chains_preserved app fold_right] in *.
  - destruct d1; [exact H2|discriminate].
  - apply andb_true_iff in H1. destruct H1 as [Ha Hb].
    assert (Hc : (chain_count fc <= length d1)%nat) by lia.
    rewrite firstn_app, skipn_app.
    replace (chain_count fc - length d1)%nat with 0%nat by lia. cbn [firstn skipn]. rewrite app_nil_r, Ha. cbn [andb].
    apply IH; [exact Hb| |exact H2]. rewrite skipn_length. lia.
Qed.

Lemma chains_preserved_model o cs : forall nfss,
  map_opt (decode_chain o) cs = Some nfss ->
  chains_preserved o cs (concat nfss) = true /\
  length (concat nfss) = fold_right (fun fc n => (chain_count fc + n)%nat) 0%nat cs.
Proof.
  induction cs as [|fc cs IH]; intros nfss E; cbn [map_opt] in E.
  - injection E as <-. split; reflexivity.
  - destruct (decode_chain o fc) as [d|] eqn:Ed; [|discriminate].
    destruct (map_opt (decode_chain o) cs) as [rest|] eqn:Er; [|discriminate]. injection E as <-.
    destruct (IH rest eq_refl) as [IHp IHl].
    destruct (chain_preserved_model o (dn (fc_port fc)) (fc_filters fc) d Ed) as [Hp Hl].
    assert (Hl' : length d = chain_count fc) by (rewrite Hl; reflexivity).
    cbn [concat chains_preserved fold_right]. rewrite app_length, IHl, Hl'. split; [|reflexivity].
    rewrite firstn_app, skipn_app, Hl'. replace (chain_count fc - chain_count fc)%nat with 0%nat by lia.
    cbn [firstn skipn]. rewrite app_nil_r.
    rewrite <- Hl' at 1. rewrite firstn_all, Hp. cbn [andb].
    rewrite <- Hl'. rewrite skipn_all. cbn [app]. exact IHp.
Qed.

Lemma listener_preserved_model o l n d : decode_listener o l = Some (n, d) -> n = l_name l /\ listener_preserved o l d = true.
Proof.
  unfold decode_listener, listener_preserved.
  destruct (map_opt (decode_chain o) (l_chains l)) as [nfss|] eqn:E; [|discriminate].
  destruct (chains_preserved_model o (l_chains l) nfss E) as [Hp Hl].
  destruct (l_default l) as [fc|].
  - destruct (decode_chain o fc) as [dd|] eqn:Ed; [|discriminate]. intros H; injection H as <- <-.
    split; [reflexivity|]. apply chains_preserved_app; [exact Hp|exact Hl|].
    cbn [chains_preserved].
    destruct (chain_preserved_model o (dn (fc_port fc)) (fc_filters fc) dd Ed) as [Hpd Hld].
    assert (Hl' : length dd = chain_count fc) by (rewrite Hld; reflexivity).
    rewrite <- Hl', firstn_all, skipn_all, Hpd. reflexivity.
  - intros H; injection H as <- <-. split; [reflexivity|]. rewrite app_nil_r. exact Hp.
Qed.

(** ---- responses: each resource keyed by its own name, later resources of a name win ---- *)
Definition goods {A} (rs : list (res_pb A)) : list A :=
  flat_map (fun r => match r with RGood a => [a] | _ => [] end) rs.

Lemma find_app {A} (p : A -> bool) l1 l2 :
  find p (l1 ++ l2) = match find p l1 with Some x => Some x | None => find p l2 end.
Proof. induction l1 as [|x l1 IH]; cbn [app find]; [reflexivity|]. destruct (p x); [reflexivity|exact IH]. Qed.

Lemma find_ext_in {A} (p q : A -> bool) l : (forall a, In a l -> p a = q a) -> find p l = find q l.
Proof.
  induction l as [|x l IH]; intros H; cbn [find]; [reflexivity|].
  rewrite <- (H x (or_introl eq_refl)). destruct (p x); [reflexivity|]. apply IH. intros a Ha. apply H. right. exact Ha.
Qed.

Lemma decode_all_spec {A B} (f : A -> option (string * B)) rs : forall acc m,
  NoDup (akeys acc) -> decode_all f rs acc = Some m ->
  NoDup (akeys m) /\
  forall k, aget k m = match find (fun a => match f a with Some (n, _) => String.eqb n k | None => false end) (rev (goods rs)) with
                       | Some a => match f a with Some (_, b) => Some b | None => None end
                       | None => aget k acc
                       end.
Proof.
  induction rs as [|r rs IH]; intros acc m Hnd E; cbn [decode_all] in E.
  - injection E as <-. split; [exact Hnd|]. intros k. reflexivity.
  - destruct r as [a| |]; try discriminate.
    destruct (f a) as [[n b]|] eqn:Ef; [|discriminate].
    destruct (IH (aset n b acc) m (nodup_aset n b acc Hnd) E) as [Hm Hget].
    split; [exact Hm|]. intros k. rewrite Hget.
    change (goods (RGood a :: rs)) with (a :: goods rs). cbn [rev].
    rewrite find_app.
    destruct (find _ (rev (goods rs))) as [a'|]; [reflexivity|].
    cbn [find]. rewrite Ef. rewrite aget_aset. rewrite (String.eqb_sym k n).
    destruct (String.eqb n k); [rewrite Ef|]; reflexivity.
Qed.

Lemma resources_preserved_model {A R} (name : A -> string) (pres : A -> R -> bool)
      (f : A -> option (string * R)) rs m :
  (forall a n b, f a = Some (n, b) -> n = name a /\ pres a b = true) ->
  decode_all f rs [] = Some m ->
  resources_preserved name pres rs (sort_map m) = true.
Proof.
  intros Hf E. destruct (decode_all_spec f rs [] m (NoDup_nil _) E) as [Hnd Hget].
  assert (Hall : forall a, In a (goods rs) -> exists n b, f a = Some (n, b)).
  { clear Hget Hnd. revert E. generalize (@nil (string * R)). induction rs as [|r rs IH]; intros acc E a Hin; [destruct Hin|].
    cbn [decode_all] in E. destruct r as [a0| |]; try discriminate.
    destruct (f a0) as [[n b]|] eqn:Ef; [|discriminate].
    change (goods (RGood a0 :: rs)) with (a0 :: goods rs) in Hin. destruct Hin as [<-|Hin]; [eauto|].
    eapply IH; eassumption. }
  unfold resources_preserved. fold (goods rs). apply andb_true_iff. split; apply forallb_forall.
  - intros [k v] Hin. cbn [fst snd].
    assert (Hg : aget k m = Some v).
    { rewrite <- (aget_sort_map k m Hnd). apply In_aget; [apply nodup_sort_map; exact Hnd|exact Hin]. }
    rewrite Hget in Hg.
    assert (Hfind : find (fun a => String.eqb (name a) k) (rev (goods rs)) =
                    find (fun a => match f a with Some (n, _) => String.eqb n k | None => false end) (rev (goods rs))).
    { apply find_ext_in. intros a Ha. apply in_rev in Ha.
      destruct (Hall a Ha) as (n & b & Ef). rewrite Ef. destruct (Hf a n b Ef) as [-> _]. reflexivity. }
    rewrite Hfind.
    destruct (find _ (rev (goods rs))) as [a|] eqn:Efind; [|discriminate].
    destruct (f a) as [[n b]|] eqn:Ef; [|discriminate]. injection Hg as ->.
    destruct (Hf a n v Ef) as [_ Hp]. exact Hp.
  - intros a Hin. apply amem_true_iff.
    destruct (Hall a Hin) as (n & b & Ef). destruct (Hf a n b Ef) as [-> _].
    assert (Hsome : exists v, aget (name a) m = Some v).
    { rewrite Hget.
      destruct (find (fun a0 => match f a0 with Some (n, _) => String.eqb n (name a) | None => false end) (rev (goods rs))) as [a'|] eqn:Efind.
      - apply find_some in Efind. destruct Efind as [Hin' Hp].
        destruct (f a') as [[n' b']|]; [eauto|discriminate].
      - exfalso. assert (Hr : In a (rev (goods rs))) by (apply -> in_rev; exact Hin).
        pose proof (find_none _ _ Efind a Hr) as Hn. cbn beta in Hn.
        rewrite Ef, String.eqb_refl in Hn. discriminate. }
    destruct Hsome as [v Hv]. rewrite <- (aget_sort_map _ m Hnd) in Hv.
    apply aget_In in Hv. change (name a) with (fst (name a, v)). apply in_map. exact Hv.
Qed.

(** ---- C12 ---- *)
Lemma cla_preserved_model c : cla_preserved c (parse_cla c) = true.
Proof.
  destruct c as [c|]; [|reflexivity]. cbn [cla_preserved parse_cla].
  destruct (cla_localities c) as [|l ls] eqn:E; [reflexivity|].
  apply forall2b_map. intros loc _. apply forall2b_map. intros e _.
  unfold decode_lbep. cbn [fst snd]. rewrite N.eqb_refl, andb_true_r.
  destruct (lbe_sock e); apply String.eqb_refl.
Qed.

Lemma cluster_preserved_model c : cluster_preserved c (snd (decode_cluster c)) = true.
Proof.
  unfold cluster_preserved, decode_cluster. cbn [snd c_dtype c_lb c_epname c_outlier c_inline].
  unfold conv_dtype, conv_lb. rewrite !N.eqb_refl, String.eqb_refl, cla_preserved_model. cbn [andb].
  destruct (cl_outlier c); [rewrite !N.eqb_refl|]; reflexivity.
Qed.

Lemma fold_aset_get {V} (kvs : list (string * V)) k : forall acc,
  aget k (fold_left (fun acc kv => aset (fst kv) (snd kv) acc) kvs acc) =
  match find (fun x => String.eqb (fst x) k) (rev kvs) with Some x => Some (snd x) | None => aget k acc end.
Proof.
  induction kvs as [|[k0 v0] kvs IH]; intros acc; cbn [fold_left rev]; [reflexivity|].
  rewrite IH, find_app. destruct (find _ (rev kvs)); [reflexivity|].
  cbn [find fst snd]. rewrite aget_aset, (String.eqb_sym k k0). destruct (String.eqb k0 k); reflexivity.
Qed.

Lemma fold_aset_nodup {V} (kvs : list (string * V)) : forall acc,
  NoDup (akeys acc) -> NoDup (akeys (fold_left (fun acc kv => aset (fst kv) (snd kv) acc) kvs acc)).
Proof.
  induction kvs as [|kv kvs IH]; intros acc H; cbn [fold_left]; [exact H|]. apply IH. apply nodup_aset. exact H.
Qed.

Lemma table_preserved_model rs t : decode_nds rs = Some t -> table_preserved rs (sort_map t) = true.
Proof.
  destruct rs as [|[nt| |] rs]; cbn [decode_nds]; try discriminate.
  intros E. injection E as <-. cbn [table_preserved].
  set (t := fold_left _ (nt_table nt) []).
  assert (Hnd : NoDup (akeys t)) by (apply fold_aset_nodup; constructor).
  assert (Hget : forall k, aget k t = match find (fun x => String.eqb (fst x) k) (rev (nt_table nt)) with
                                       | Some x => Some (snd x) | None => None end)
    by (intros k; unfold t; rewrite fold_aset_get; reflexivity).
  apply andb_true_iff. split; apply forallb_forall.
  - intros kv _. rewrite aget_sort_map by exact Hnd. rewrite Hget. apply opt_eqb_refl. apply eqb_of_refl.
  - intros [k v] Hin. cbn [fst]. apply amem_true_iff.
    assert (Hg : aget k t = Some v).
    { rewrite <- (aget_sort_map k t Hnd). apply In_aget; [apply nodup_sort_map; exact Hnd|exact Hin]. }
    rewrite Hget in Hg. destruct (find _ (rev (nt_table nt))) as [x|] eqn:Ef; [|discriminate].
    apply find_some in Ef. destruct Ef as [Hx Hk]. apply String.eqb_eq in Hk. subst k.
    apply in_map. apply in_rev. exact Hx.
Qed.

Lemma rds_response_preserved o rs m :
  decode_rds o rs = Some m ->
  resources_preserved rcp_name (fun s r => rc_preserved o s r && N.eqb (rc_maxtok r) 0 && N.eqb (rc_tpf r) 0) rs (sort_map m) = true.
Proof.
  unfold decode_rds. apply resources_preserved_model. intros a n b E.
  destruct (decode_rc o a) as [r|] eqn:Er; [|discriminate]. injection E as <- <-.
  split; [reflexivity|]. rewrite (rc_preserved_model o a r Er).
  unfold decode_rc in Er. destruct (map_opt (decode_vhost o) (rcp_vhosts a)); [|discriminate]. injection Er as <-. reflexivity.
Qed.

Lemma lds_response_preserved o rs m :
  decode_lds o rs = Some m -> resources_preserved l_name (listener_preserved o) rs (sort_map m) = true.
Proof. unfold decode_lds. apply resources_preserved_model. intros a n b E. apply listener_preserved_model. exact E. Qed.

Lemma cds_response_preserved rs m :
  decode_cds rs = Some m -> resources_preserved cl_name cluster_preserved rs (sort_map m) = true.
Proof.
  unfold decode_cds. apply resources_preserved_model. intros a n b E. injection E as <- <-.
  split; [reflexivity|]. apply cluster_preserved_model.
Qed.

Lemma eds_response_preserved rs m :
  decode_eds rs = Some m -> resources_preserved cla_name (fun c r => cla_preserved (Some c) r) rs (sort_map m) = true.
Proof.
  unfold decode_eds. apply resources_preserved_model. intros a n b E. injection E as <- <-.
  split; [reflexivity|]. apply cla_preserved_model.
Qed.

(** D12 *)
Lemma every_header_refuted : exists o hs, every_header_in_force o hs = false.
Proof.
  exists (mk_oracle [] [] []).
  exists [{| h_name := "stage"; h_spec := HSString (SMExact "a") |}; {| h_name := "stage"; h_spec := HSString (SMPrefix "b") |}].
  vm_compute. reflexivity.
Qed.

Lemma last_supported_notin o hs name acc :
  ~ In name (map h_name (filter (fun h => is_some (header_supported o h)) hs)) ->
  fold_left (fun a h => if String.eqb (h_name h) name
                        then match header_supported o h with Some m => Some m | None => a end
                        else a) hs acc = acc.
Proof.
  revert acc. induction hs as [|h hs IH]; intros acc Hn; cbn [fold_left]; [reflexivity|].
  cbn [filter] in Hn. destruct (String.eqb_spec (h_name h) name) as [E|E].
  - destruct (header_supported o h) as [m|] eqn:Eh; cbn [is_some] in Hn.
    + exfalso. apply Hn. cbn [map]. left. exact E.
    + apply IH. exact Hn.
  - apply IH. destruct (header_supported o h); cbn [is_some map] in Hn; [|exact Hn].
    intros Hin. apply Hn. right. exact Hin.
Qed.

Lemma every_header_distinct o hs :
  NoDup (map h_name (filter (fun h => is_some (header_supported o h)) hs)) -> every_header_in_force o hs = true.
Proof.
  unfold every_header_in_force, last_supported.
  generalize (@None matcher) as acc.
  induction hs as [|h hs IH]; intros acc Hnd; [reflexivity|].
  cbn [filter] in Hnd.
  assert (Hrest : forall acc', forallb (fun h0 => match header_supported o h0 with
     | Some m => opt_eqb (eqb_of matcher_eq_dec)
         (fold_left (fun a h1 => if String.eqb (h_name h1) (h_name h0) then match header_supported o h1 with Some m0 => Some m0 | None => a end else a) (h :: hs) acc') (Some m)
     | None => true end) hs = true).
  { intros acc'. rewrite forallb_forall. intros h0 Hin.
    destruct (header_supported o h0) as [m0|] eqn:E0; [|reflexivity].
    cbn [fold_left].
    assert (Hnd' : NoDup (map h_name (filter (fun h => is_some (header_supported o h)) hs))).
    { destruct (header_supported o h); cbn [is_some map] in Hnd; [inversion Hnd; assumption|exact Hnd]. }
    specialize (IH (if String.eqb (h_name h) (h_name h0) then match header_supported o h with Some m1 => Some m1 | None => acc' end else acc') Hnd').
    rewrite forallb_forall in IH. specialize (IH h0 Hin). rewrite E0 in IH. exact IH. }
  cbn [forallb]. rewrite Hrest, andb_true_r.
  destruct (header_supported o h) as [m|] eqn:Eh; [|reflexivity].
  cbn [fold_left]. rewrite String.eqb_refl, Eh.
  cbn [is_some map] in Hnd. inversion Hnd as [|? ? Hnin Hnd']; subst.
  rewrite last_supported_notin by exact Hnin. apply opt_eqb_refl. apply eqb_of_refl.
Qed.

Lemma C11_example_proof :
  let o := mk_oracle [("v[0-9]+", true)] [("0.1", Some 4591870180066957722)] [] in
  let r := {| rt_name := "r"; rt_match := Some {| rm_path := PPath "/pkg.svc/Echo"; rm_headers := [{| h_name := "stage"; h_spec := HSString (SMRegex "v[0-9]+") |}] |};
              rt_action := ARoute {| ra_spec := CSWeighted [{| wcp_name := "a"; wcp_weight := Some 25 |}; {| wcp_name := "b"; wcp_weight := None |}];
                                     ra_timeout := Some 1000000000%Z;
                                     ra_retry := Some {| rpp_on := "5xx"; rpp_num := Some 2; rpp_pertry := Some 100000000%Z; rpp_idle := None;
                                                         rpp_headers := [{| h_name := "kitexRetryErrorRate"; h_spec := HSString (SMExact "0.1") |}];
                                                         rpp_backoff := Some {| bo_base := Some 10000000%Z; bo_max := Some 500000000%Z |} |} |} |} in
  exists d, decode_route o r = Some d /\ r_clusters d = [("a", 25); ("b", 0)] /\
            rp_backoff (r_retry d) = Some (10000000%Z, 500000000%Z) /\ rp_cbrate (r_retry d) = 4591870180066957722.
Proof. eexists. vm_compute. repeat split; reflexivity. Qed.

Lemma cds_lookup (rs : list (res_pb cluster_pb)) m :
  decode_cds rs = Some m ->
  NoDup (akeys m) /\
  forall k, aget k m = match find (fun c => String.eqb (cl_name c) k) (rev (goods rs)) with
                       | Some c => Some (snd (decode_cluster c))
                       | None => None
                       end.
Proof.
  unfold decode_cds. intros E.
  destruct (decode_all_spec _ rs [] m (NoDup_nil _) E) as [Hnd Hget]. split; [exact Hnd|].
  intros k. rewrite Hget. cbn [decode_cluster aget].
  destruct (find _ (rev (goods rs))); reflexivity.
Qed.

Lemma C12_example_proof :
  let c := {| cl_name := "c1"; cl_type := None; cl_lb := 2; cl_eds_service := Some ""%string; cl_outlier := Some {| od_threshold := Some 10; od_volume := None |};
              cl_load := Some {| cla_name := "x"; cla_localities := [[{| lbe_sock := Some {| sa_addr := "fd00::1"; sa_port := 80 |}; lbe_weight := None |}]] |} |} in
  decode_cluster c = ("c1"%string, {| c_dtype := 2; c_lb := 1; c_epname := "c1"; c_inline := Some [[("[fd00::1]:80"%string, 0)]]; c_outlier := Some (10, 0) |}).
Proof. vm_compute. reflexivity. Qed.
