(** Lemmas about association-list maps (Go maps) and their canonical sorted form. *)
From Xds Require Import Model.Base.
From Coq Require Import Lia Permutation.

Section Maps.
  Context {V : Type}.
  Implicit Types (m : list (string * V)) (k : string) (v : V).

  Lemma aget_aset_same k v m : aget k (aset k v m) = Some v.
  Proof. unfold aset. cbn [aget]. rewrite String.eqb_refl. reflexivity. Qed.

  Lemma aget_adel_other k k' m : k <> k' -> aget k (adel k' m) = aget k m.
  Proof.
    intros Hne. induction m as [|[k0 v0] m IH]; cbn [adel aget]; [reflexivity|].
    destruct (String.eqb_spec k' k0) as [->|Hk'].
    - rewrite IH. destruct (String.eqb_spec k k0); [congruence|reflexivity].
    - cbn [aget]. rewrite IH. reflexivity.
  Qed.

  Lemma aget_adel_same k m : aget k (adel k m) = None.
  Proof.
    induction m as [|[k0 v0] m IH]; cbn [adel aget]; [reflexivity|].
    destruct (String.eqb_spec k k0) as [->|Hk]; [exact IH|].
    cbn [aget]. destruct (String.eqb_spec k k0); [congruence|exact IH].
  Qed.

  Lemma aget_aset_other k k' v m : k <> k' -> aget k (aset k' v m) = aget k m.
  Proof.
    intros Hne. unfold aset. cbn [aget]. destruct (String.eqb_spec k k'); [congruence|].
    apply aget_adel_other. exact Hne.
  Qed.

  Lemma aget_aset k k' v m : aget k (aset k' v m) = if String.eqb k k' then Some v else aget k m.
  Proof.
    destruct (String.eqb_spec k k') as [->|Hne]; [apply aget_aset_same|apply aget_aset_other; exact Hne].
  Qed.

  Lemma akeys_adel_incl k m x : In x (akeys (adel k m)) -> In x (akeys m) /\ x <> k.
  Proof.
    induction m as [|[k0 v0] m IH]; cbn [adel akeys map]; [tauto|].
    destruct (String.eqb_spec k k0) as [->|Hk].
    - intros H. destruct (IH H). split; [right; assumption|assumption].
    - cbn [map In fst]. intros [->|H]; [split; [left; reflexivity|congruence]|].
      destruct (IH H). split; [right; assumption|assumption].
  Qed.

  Lemma nodup_adel k m : NoDup (akeys m) -> NoDup (akeys (adel k m)).
  Proof.
    induction m as [|[k0 v0] m IH]; cbn [adel akeys map]; [intros; constructor|].
    intros H. inversion H as [|? ? Hnin Hnd]; subst.
    destruct (String.eqb k k0); [apply IH; exact Hnd|].
    cbn [map fst]. constructor; [|apply IH; exact Hnd].
    intros Hin. apply akeys_adel_incl in Hin. destruct Hin as [Hin _]. exact (Hnin Hin).
  Qed.

  Lemma nodup_aset k v m : NoDup (akeys m) -> NoDup (akeys (aset k v m)).
  Proof.
    intros H. unfold aset. cbn [akeys map fst]. constructor; [|apply nodup_adel; exact H].
    intros Hin. apply akeys_adel_incl in Hin. destruct Hin as [_ Hne]. congruence.
  Qed.

  Lemma aget_In k v m : aget k m = Some v -> In (k, v) m.
  Proof.
    induction m as [|[k0 v0] m IH]; cbn [aget]; [discriminate|].
    destruct (String.eqb_spec k k0) as [->|Hk]; [intros E; injection E as ->; left; reflexivity|].
    intros E. right. apply IH. exact E.
  Qed.

  Lemma In_aget k v m : NoDup (akeys m) -> In (k, v) m -> aget k m = Some v.
  Proof.
    induction m as [|[k0 v0] m IH]; cbn [aget akeys map In]; [tauto|].
    intros Hnd [E|Hin]; inversion Hnd as [|? ? Hnin Hnd']; subst.
    - injection E as -> ->. rewrite String.eqb_refl. reflexivity.
    - destruct (String.eqb_spec k k0) as [->|Hk].
      + exfalso. apply Hnin. change k0 with (fst (k0, v)). apply in_map. exact Hin.
      + apply IH; assumption.
  Qed.

  Lemma aget_none_notin k m : aget k m = None -> ~ In k (akeys m).
  Proof.
    induction m as [|[k0 v0] m IH]; cbn [aget akeys map In fst]; [tauto|].
    destruct (String.eqb_spec k k0) as [->|Hk]; [discriminate|].
    intros E [H|H]; [congruence|exact (IH E H)].
  Qed.

  Lemma amem_true_iff k m : amem k m = true <-> In k (akeys m).
  Proof.
    unfold amem. destruct (aget k m) eqn:E; split; intros H; try reflexivity; try discriminate.
    - apply aget_In in E. change k with (fst (k, v)). apply in_map. exact E.
    - exfalso. exact (aget_none_notin _ _ E H).
  Qed.

  (** sorting is a permutation *)
  Lemma insert_sorted_perm k v m : Permutation (insert_sorted k v m) ((k, v) :: m).
  Proof.
    induction m as [|[k0 v0] m IH]; cbn [insert_sorted]; [reflexivity|].
    destruct (String.leb k k0); [reflexivity|].
    rewrite IH. apply perm_swap.
  Qed.

  Lemma sort_map_perm m : Permutation (sort_map m) m.
  Proof.
    induction m as [|[k v] m IH]; cbn [sort_map fold_right]; [reflexivity|].
    cbn [fst snd]. rewrite insert_sorted_perm. constructor. exact IH.
  Qed.

  Lemma aget_perm k m m' : NoDup (akeys m) -> Permutation m m' -> aget k m = aget k m'.
  Proof.
    intros Hnd Hp.
    assert (Hnd' : NoDup (akeys m')).
    { eapply Permutation_NoDup; [|exact Hnd]. unfold akeys. apply Permutation_map. exact Hp. }
    destruct (aget k m) as [v|] eqn:E.
    - symmetry. apply In_aget; [exact Hnd'|]. eapply Permutation_in; [exact Hp|]. apply aget_In. exact E.
    - destruct (aget k m') as [v'|] eqn:E'; [|reflexivity].
      apply aget_In in E'. apply Permutation_sym in Hp.
      pose proof (Permutation_in _ Hp E') as Hin. apply (In_aget _ _ _ Hnd) in Hin. congruence.
  Qed.

  Lemma aget_sort_map k m : NoDup (akeys m) -> aget k (sort_map m) = aget k m.
  Proof. intros H. symmetry. apply aget_perm; [exact H|]. symmetry. apply sort_map_perm. Qed.

  Lemma nodup_sort_map m : NoDup (akeys m) -> NoDup (akeys (sort_map m)).
  Proof.
    intros H. eapply Permutation_NoDup; [|exact H]. unfold akeys. apply Permutation_map.
    symmetry. apply sort_map_perm.
  Qed.
End Maps.
