(** The wire monitor of the concurrent runs (the names a stream lists for a type never shrink, the re-subscription that
    opens a new stream left out) is a theorem of the asynchronous sender model: while interest sets only grow, for EVERY
    interleaving of changes, sends, failing sends, reconnects, hand-overs and pick-ups (with any number of requests
    discarded while waiting for the lock), the requests of a type sent on a stream, after the re-subscription, form a
    chain under inclusion. *)
From Xds Require Import Model.Base Model.Fqdn Model.Proto Model.Decode Model.Pick Model.Route Model.Mw Model.Sys Model.Queue.
From Xds Require Import Proofs.C01Proofs Proofs.QueueProofs.
From Coq Require Import Lia Sorting.Sorted.
Open Scope string_scope.

Local Notation sorted := (StronglySorted (@incl string)).

Lemma sorted_app_one l x : sorted l -> Forall (fun a => incl a x) l -> sorted (l ++ [x]).
Proof.
  induction l as [|a l IH]; intros S F; cbn [app]; [constructor; constructor|].
  inversion S as [|a' l' S' Fa]; subst. inversion F as [|a' l' Ha F']; subst.
  constructor; [apply IH; assumption|]. apply Forall_app. split; [exact Fa|constructor; [exact Ha|constructor]].
Qed.

Lemma sorted_tl l : sorted l -> sorted (tl l).
Proof. intros S. destruct l as [|a l]; [exact S|]. inversion S; assumption. Qed.

Lemma sorted_skipn k l : sorted l -> sorted (skipn k l).
Proof. revert l. induction k as [|k IH]; intros l S; [exact S|]. destruct l as [|a l]; [exact S|]. cbn [skipn]. apply IH. inversion S; assumption. Qed.

Lemma Forall_skipn {A} (P : A -> Prop) k l : Forall P l -> Forall P (skipn k l).
Proof. revert l. induction k as [|k IH]; intros l F; [exact F|]. destruct l as [|a l]; [exact F|]. cbn [skipn]. apply IH. inversion F; assumption. Qed.

Lemma Forall_tl {A} (P : A -> Prop) l : Forall P l -> Forall P (tl l).
Proof. intros F. destruct l; [exact F|]. inversion F; assumption. Qed.

(** the queued sets of a type, under the queue operations *)
Lemma qof_app t a b : qof t (a ++ b) = (qof t a ++ qof t b)%list.
Proof. unfold qof. rewrite filter_app, map_app. reflexivity. Qed.

Lemma qof_cons t r rest : qof t (r :: rest) = if rtype_eqb (fst r) t then snd r :: qof t rest else qof t rest.
Proof. unfold qof. cbn [filter]. destruct (rtype_eqb (fst r) t); reflexivity. Qed.

Lemma qof_skipn_sub t k q : exists k', qof t (skipn k q) = skipn k' (qof t q).
Proof.
  revert q. induction k as [|k IH]; intros q; [exists 0%nat; reflexivity|].
  destruct q as [|r rest]; [exists 0%nat; reflexivity|]. cbn [skipn]. destruct (IH rest) as [k' E].
  rewrite qof_cons. destruct (rtype_eqb (fst r) t); [exists (S k'); exact E|exists k'; exact E].
Qed.

Lemma sent_on_app t j a b : sent_on t j (a ++ b) = (sent_on t j a ++ sent_on t j b)%list.
Proof. unfold sent_on. rewrite filter_app, map_app. reflexivity. Qed.

Lemma sent_on_one t j i r :
  sent_on t j [(i, r)] = if N.eqb i j && rtype_eqb (fst r) t then [snd r] else [].
Proof. unfold sent_on. cbn [filter fst snd]. destruct (N.eqb i j && rtype_eqb (fst r) t); reflexivity. Qed.

Lemma sent_on_resub s j t j' :
  sent_on t j' (resub s j) = if N.eqb j j' then match tget t (q_sub s) with Some ws => [ws] | None => [] end else [].
Proof.
  unfold resub, all_types, sent_on. cbn [flat_map].
  destruct (tget TLis (q_sub s)) eqn:E1, (tget TRc (q_sub s)) eqn:E2, (tget TCl (q_sub s)) eqn:E3, (tget TEp (q_sub s)) eqn:E4, (tget TNt (q_sub s)) eqn:E5;
    destruct (N.eqb j j') eqn:Ej; destruct t; cbn [app filter map fst snd rtype_eqb andb]; rewrite ?Ej; cbn [andb map]; rewrite ?E1, ?E2, ?E3, ?E4, ?E5; reflexivity.
Qed.

Lemma sent_on_fresh t j log : (forall x, In x log -> (fst x < j)%N) -> sent_on t j log = [].
Proof.
  intros H. unfold sent_on. induction log as [|x log IH]; [reflexivity|]. cbn [filter].
  assert (E : N.eqb (fst x) j = false) by (apply N.eqb_neq; specialize (H x (or_introl eq_refl)); lia).
  rewrite E. cbn [andb]. apply IH. intros y Hy. apply H. right. exact Hy.
Qed.

(** the invariant *)
Record minv (s : qstate) : Prop := {
  m_sent_live : forall x, In x (q_sent s) -> (fst x <= q_live s)%N;
  m_cur_live : forall i, q_cur s = Some i -> (i <= q_live s)%N;
  m_pend : forall p, q_pending s = Some p -> (0 < p <= q_live s)%N /\ (forall x, In x (q_sent s) -> (fst x < p)%N) /\ (forall i, q_cur s = Some i -> (i < p)%N);
  m_offer : forall f, q_offer s = Some f -> (0 < f <= q_live s)%N /\ (forall x, In x (q_sent s) -> (fst x < f)%N) /\ (forall i, q_cur s = Some i -> (i < f)%N) /\
                      (forall p, q_pending s = Some p -> (p < f)%N);
  m_queue_sorted : forall t, sorted (qof t (q_queue s));
  m_queue_sub : forall t ws, tget t (q_sub s) = Some ws -> Forall (fun w => incl w ws) (qof t (q_queue s));
  m_unsub : forall t, tget t (q_sub s) = None -> qof t (q_queue s) = [] /\ forall j, sent_on t j (q_sent s) = [];
  m_behind : forall t i, q_cur s = Some i ->
               Forall (fun a => Forall (incl a) (qof t (q_queue s)) /\ forall ws, tget t (q_sub s) = Some ws -> incl a ws)
                      (after_resub i (sent_on t i (q_sent s)));
  m_chain : forall t j, sorted (after_resub j (sent_on t j (q_sent s)))
}.

Lemma minv_init : minv q_init.
Proof.
  constructor; cbn [q_init q_sent q_cur q_pending q_offer q_live q_queue q_sub].
  - intros x [].
  - intros i H. injection H as <-. lia.
  - intros p H. discriminate H.
  - intros f H. discriminate H.
  - intros t. constructor.
  - intros t ws H. constructor.
  - intros t _. split; [reflexivity|]. intros j. reflexivity.
  - intros t i _. unfold after_resub. destruct (N.eqb i 0); constructor.
  - intros t j. unfold after_resub. destruct (N.eqb j 0); constructor.
Qed.

Lemma rtype_eqb_sym a b : rtype_eqb a b = rtype_eqb b a.
Proof. destruct a, b; reflexivity. Qed.

Lemma after_resub_nil j : after_resub j [] = [].
Proof. unfold after_resub. destruct (N.eqb j 0); reflexivity. Qed.

Lemma minv_change s t0 ws0 : minv s -> grows s (QChange t0 ws0) -> minv (qstep s (QChange t0 ws0)).
Proof.
  intros I G. cbn [grows] in G. cbn [qstep].
  assert (Hall : Forall (fun w => incl w ws0) (qof t0 (q_queue s))).
  { destruct (tget t0 (q_sub s)) as [cur|] eqn:E.
    - eapply Forall_impl; [|exact (m_queue_sub s I t0 cur E)]. intros w Hw. eapply incl_tran; [exact Hw|exact (G cur eq_refl)].
    - rewrite (proj1 (m_unsub s I t0 E)). constructor. }
  constructor; cbn [q_sent q_cur q_pending q_offer q_live q_queue q_sub].
  - exact (m_sent_live s I).
  - exact (m_cur_live s I).
  - exact (m_pend s I).
  - exact (m_offer s I).
  - intros t. rewrite qof_app, qof_cons. cbn [fst snd]. change (qof t []) with (@nil (list string)).
    destruct (rtype_eqb t0 t) eqn:E.
    + apply rtype_eqb_eq in E. subst t. apply sorted_app_one; [exact (m_queue_sorted s I t0)|exact Hall].
    + rewrite app_nil_r. exact (m_queue_sorted s I t).
  - intros t ws H. rewrite tget_tset in H. rewrite qof_app, qof_cons. cbn [fst snd]. change (qof t []) with (@nil (list string)).
    rewrite (rtype_eqb_sym t0 t). destruct (rtype_eqb t t0) eqn:E.
    + apply rtype_eqb_eq in E. subst t. injection H as <-. apply Forall_app. split; [exact Hall|]. constructor; [apply incl_refl|constructor].
    + rewrite app_nil_r. exact (m_queue_sub s I t ws H).
  - intros t H. rewrite tget_tset in H. destruct (rtype_eqb t t0) eqn:E; [discriminate|].
    rewrite qof_app, qof_cons. cbn [fst snd]. rewrite (rtype_eqb_sym t0 t), E. change (qof t []) with (@nil (list string)). rewrite app_nil_r.
    exact (m_unsub s I t H).
  - intros t i Hc. pose proof (m_behind s I t i Hc) as B. rewrite qof_app, qof_cons. cbn [fst snd]. change (qof t []) with (@nil (list string)).
    rewrite (rtype_eqb_sym t0 t). destruct (rtype_eqb t t0) eqn:E.
    + apply rtype_eqb_eq in E. subst t.
      destruct (tget t0 (q_sub s)) as [cur|] eqn:Es.
      * eapply Forall_impl; [|exact B]. intros a [Ha1 Ha2].
        assert (Ha : incl a ws0) by (eapply incl_tran; [exact (Ha2 cur eq_refl)|exact (G cur eq_refl)]).
        split.
        -- apply Forall_app. split; [exact Ha1|constructor; [exact Ha|constructor]].
        -- intros ws Hws. rewrite tget_tset, rtype_eqb_refl in Hws. injection Hws as <-. exact Ha.
      * rewrite (proj2 (m_unsub s I t0 Es) i), after_resub_nil. constructor.
    + rewrite app_nil_r. eapply Forall_impl; [|exact B]. intros a [Ha1 Ha2]. split; [exact Ha1|].
      intros ws Hws. rewrite tget_tset, E in Hws. exact (Ha2 ws Hws).
  - exact (m_chain s I).
Qed.

Lemma after_resub_app_one j old x :
  after_resub j (old ++ [x]) = (after_resub j old ++ [x])%list \/ (after_resub j (old ++ [x]) = [] /\ after_resub j old = []).
Proof.
  unfold after_resub. destruct (N.eqb j 0); [left; reflexivity|]. destruct old as [|a old]; [right; split; reflexivity|left; reflexivity].
Qed.

Lemma minv_dequeue_nosend s r rest : minv s -> q_queue s = r :: rest ->
  forall s', q_sub s' = q_sub s -> q_queue s' = rest -> q_sent s' = q_sent s -> q_cur s' = None ->
             q_pending s' = q_pending s -> q_offer s' = q_offer s -> q_live s' = q_live s -> minv s'.
Proof.
  intros I Eq s' Hsub Hq Hs Hc Hp Ho Hl.
  constructor; rewrite ?Hsub, ?Hq, ?Hs, ?Hc, ?Hp, ?Ho, ?Hl.
  - exact (m_sent_live s I).
  - intros i H. discriminate H.
  - intros p H. destruct (m_pend s I p H) as (A & B & _). split; [exact A|]. split; [exact B|]. intros i Hi. discriminate Hi.
  - intros f H. destruct (m_offer s I f H) as (A & B & _ & D). split; [exact A|]. split; [exact B|]. split; [intros i Hi; discriminate Hi|exact D].
  - intros t. pose proof (m_queue_sorted s I t) as S. rewrite Eq, qof_cons in S. destruct (rtype_eqb (fst r) t); [inversion S; assumption|exact S].
  - intros t ws H. pose proof (m_queue_sub s I t ws H) as F. rewrite Eq, qof_cons in F. destruct (rtype_eqb (fst r) t); [inversion F; assumption|exact F].
  - intros t H. destruct (m_unsub s I t H) as [A B]. rewrite Eq, qof_cons in A. destruct (rtype_eqb (fst r) t); [discriminate A|]. split; [exact A|exact B].
  - intros t i H. discriminate H.
  - exact (m_chain s I).
Qed.

Lemma minv_send s : minv s -> minv (qstep s QSend).
Proof.
  intros I. cbn [qstep]. destruct (q_queue s) as [|r rest] eqn:Eq; [exact I|].
  destruct (q_cur s) as [i|] eqn:Ec.
  2:{ eapply (minv_dequeue_nosend s r rest I Eq); cbn [q_sub q_queue q_sent q_cur q_pending q_offer q_live]; reflexivity. }
  assert (Hin : forall x, In x (q_sent s ++ [(i, r)]) -> In x (q_sent s) \/ x = (i, r)).
  { intros x Hx. apply in_app_or in Hx. destruct Hx as [Hx|[Hx|[]]]; [left; exact Hx|right; symmetry; exact Hx]. }
  constructor; cbn [q_sub q_queue q_sent q_cur q_pending q_offer q_live].
  - intros x Hx. destruct (Hin x Hx) as [H| ->]; [exact (m_sent_live s I x H)|]. cbn [fst]. exact (m_cur_live s I i Ec).
  - intros i' H. injection H as <-. exact (m_cur_live s I i Ec).
  - intros p H. destruct (m_pend s I p H) as (A & B & C). split; [exact A|]. split; [|intros i0 Hi0; injection Hi0 as <-; exact (C i Ec)].
    intros x Hx. destruct (Hin x Hx) as [H'| ->]; [exact (B x H')|]. cbn [fst]. exact (C i Ec).
  - intros f H. destruct (m_offer s I f H) as (A & B & C & D). split; [exact A|]. split; [|split; [intros i0 Hi0; injection Hi0 as <-; exact (C i Ec)|exact D]].
    intros x Hx. destruct (Hin x Hx) as [H'| ->]; [exact (B x H')|]. cbn [fst]. exact (C i Ec).
  - intros t. pose proof (m_queue_sorted s I t) as S. rewrite Eq, qof_cons in S. destruct (rtype_eqb (fst r) t); [inversion S; assumption|exact S].
  - intros t ws H. pose proof (m_queue_sub s I t ws H) as F. rewrite Eq, qof_cons in F. destruct (rtype_eqb (fst r) t); [inversion F; assumption|exact F].
  - intros t H. destruct (m_unsub s I t H) as [A B]. rewrite Eq, qof_cons in A. destruct (rtype_eqb (fst r) t) eqn:E; [discriminate A|]. split; [exact A|].
    intros j. rewrite sent_on_app, sent_on_one, E, andb_false_r, app_nil_r. exact (B j).
  - intros t i' H. injection H as <-.
    pose proof (m_behind s I t i Ec) as B. rewrite Eq, qof_cons in B.
    rewrite sent_on_app, sent_on_one, N.eqb_refl. cbn [andb].
    destruct (rtype_eqb (fst r) t) eqn:E.
    + assert (Px : Forall (incl (snd r)) (qof t rest) /\ (forall ws, tget t (q_sub s) = Some ws -> incl (snd r) ws)).
      { split.
        - pose proof (m_queue_sorted s I t) as S. rewrite Eq, qof_cons, E in S. inversion S; assumption.
        - intros ws Hws. pose proof (m_queue_sub s I t ws Hws) as F. rewrite Eq, qof_cons, E in F. inversion F; assumption. }
      assert (Pold : Forall (fun a => Forall (incl a) (qof t rest) /\ (forall ws, tget t (q_sub s) = Some ws -> incl a ws)) (after_resub i (sent_on t i (q_sent s)))).
      { eapply Forall_impl; [|exact B]. intros a [Ha1 Ha2]. split; [inversion Ha1; assumption|exact Ha2]. }
      destruct (after_resub_app_one i (sent_on t i (q_sent s)) (snd r)) as [-> | [-> _]]; [|constructor].
      apply Forall_app. split; [exact Pold|constructor; [exact Px|constructor]].
    + rewrite app_nil_r. exact B.
  - intros t j. rewrite sent_on_app, sent_on_one.
    destruct (N.eqb i j && rtype_eqb (fst r) t) eqn:E; [|rewrite app_nil_r; exact (m_chain s I t j)].
    apply andb_true_iff in E. destruct E as [Ej Et]. apply N.eqb_eq in Ej. subst j.
    destruct (after_resub_app_one i (sent_on t i (q_sent s)) (snd r)) as [-> | [-> _]]; [|constructor].
    apply sorted_app_one; [exact (m_chain s I t i)|].
    pose proof (m_behind s I t i Ec) as B. rewrite Eq, qof_cons, Et in B.
    eapply Forall_impl; [|exact B]. intros a [Ha _]. inversion Ha; assumption.
Qed.

Lemma minv_sendfail s : minv s -> minv (qstep s QSendFail).
Proof.
  intros I. cbn [qstep]. destruct (q_queue s) as [|r rest] eqn:Eq; [exact I|]. destruct (q_cur s) as [i|] eqn:Ec; [|exact I].
  eapply (minv_dequeue_nosend s r rest I Eq); cbn [q_sub q_queue q_sent q_cur q_pending q_offer q_live]; reflexivity.
Qed.

Lemma minv_reconnect s : minv s -> minv (qstep s QReconnect).
Proof.
  intros I. cbn [qstep]. destruct (q_offer s) as [f0|] eqn:Eo; [exact I|].
  assert (Hb : forall t i, q_cur s = Some i ->
     Forall (fun a => Forall (incl a) (qof t []) /\ (forall ws, tget t (q_sub s) = Some ws -> incl a ws)) (after_resub i (sent_on t i (q_sent s)))).
  { intros t i Hc. eapply Forall_impl; [|exact (m_behind s I t i Hc)]. intros a [_ Ha]. split; [constructor|exact Ha]. }
  destruct (q_pending s) as [p|] eqn:Ep; constructor; cbn [q_sub q_queue q_sent q_cur q_pending q_offer q_live].
  - intros x Hx. pose proof (m_sent_live s I x Hx). lia.
  - intros i Hi. pose proof (m_cur_live s I i Hi). lia.
  - intros p' Hp'. destruct (m_pend s I p' (eq_trans Ep Hp')) as (A & B & C). split; [lia|]. split; [exact B|exact C].
  - intros f Hf. injection Hf as <-. split; [lia|]. split; [|split].
    + intros x Hx. pose proof (m_sent_live s I x Hx). lia.
    + intros i Hi. pose proof (m_cur_live s I i Hi). lia.
    + intros p' Hp'. destruct (m_pend s I p' (eq_trans Ep Hp')) as (A & _). lia.
  - intros t. constructor.
  - intros t ws _. constructor.
  - intros t H. split; [reflexivity|exact (proj2 (m_unsub s I t H))].
  - exact Hb.
  - exact (m_chain s I).
  - intros x Hx. pose proof (m_sent_live s I x Hx). lia.
  - intros i Hi. pose proof (m_cur_live s I i Hi). lia.
  - intros p' Hp'. injection Hp' as <-. split; [lia|]. split.
    + intros x Hx. pose proof (m_sent_live s I x Hx). lia.
    + intros i Hi. pose proof (m_cur_live s I i Hi). lia.
  - intros f Hf. discriminate Hf.
  - intros t. constructor.
  - intros t ws _. constructor.
  - intros t H. split; [reflexivity|exact (proj2 (m_unsub s I t H))].
  - exact Hb.
  - exact (m_chain s I).
Qed.

Lemma minv_offer s : minv s -> minv (qstep s QOffer).
Proof.
  intros I. cbn [qstep]. destruct (q_offer s) as [j|] eqn:Eo; [|exact I]. destruct (q_pending s) as [p|] eqn:Ep; [exact I|].
  destruct (m_offer s I j Eo) as (A & B & C & _).
  constructor; cbn [q_sub q_queue q_sent q_cur q_pending q_offer q_live].
  - exact (m_sent_live s I).
  - exact (m_cur_live s I).
  - intros p' Hp'. injection Hp' as <-. split; [exact A|]. split; [exact B|exact C].
  - intros f Hf. discriminate Hf.
  - exact (m_queue_sorted s I).
  - exact (m_queue_sub s I).
  - exact (m_unsub s I).
  - exact (m_behind s I).
  - exact (m_chain s I).
Qed.

Lemma resub_stream s j x : In x (resub s j) -> fst x = j.
Proof.
  unfold resub. intros H. apply in_flat_map in H. destruct H as (t & _ & H). destruct (tget t (q_sub s)); [|destruct H].
  destruct H as [<-|[]]. reflexivity.
Qed.

Lemma minv_pickup s drop : minv s -> minv (qstep s (QPickup drop)).
Proof.
  intros I. cbn [qstep]. destruct (q_pending s) as [j|] eqn:Ep; [|exact I].
  destruct (m_pend s I j Ep) as (A & B & C).
  set (s1 := {| q_sub := q_sub s; q_queue := skipn drop (q_queue s); q_cur := Some j; q_pending := None; q_offer := q_offer s;
                q_live := q_live s; q_sent := q_sent s |}).
  assert (Hin : forall x, In x (q_sent s ++ resub s1 j) -> In x (q_sent s) \/ fst x = j).
  { intros x Hx. apply in_app_or in Hx. destruct Hx as [Hx|Hx]; [left; exact Hx|right; exact (resub_stream s1 j x Hx)]. }
  assert (Hj0 : N.eqb j 0 = false) by (apply N.eqb_neq; lia).
  assert (Hfresh : forall t, after_resub j (sent_on t j (q_sent s ++ resub s1 j)) = []).
  { intros t. rewrite sent_on_app, (sent_on_fresh t j (q_sent s) B), sent_on_resub, N.eqb_refl. cbn [app]. unfold after_resub. rewrite Hj0.
    destruct (tget t (q_sub s1)); reflexivity. }
  constructor; unfold s1; cbn [q_sub q_queue q_sent q_cur q_pending q_offer q_live]; fold s1.
  - intros x Hx. destruct (Hin x Hx) as [H|H]; [exact (m_sent_live s I x H)|]. rewrite H. lia.
  - intros i Hi. injection Hi as <-. lia.
  - intros p Hp. discriminate Hp.
  - intros f Hf. destruct (m_offer s I f Hf) as (A' & B' & C' & D'). pose proof (D' j Ep) as Hjf. split; [exact A'|]. split; [|split].
    + intros x Hx. destruct (Hin x Hx) as [H|H]; [exact (B' x H)|]. rewrite H. exact Hjf.
    + intros i Hi. injection Hi as <-. exact Hjf.
    + intros p Hp. discriminate Hp.
  - intros t. destruct (qof_skipn_sub t drop (q_queue s)) as [k' ->]. apply sorted_skipn. exact (m_queue_sorted s I t).
  - intros t ws H. destruct (qof_skipn_sub t drop (q_queue s)) as [k' ->]. apply Forall_skipn. exact (m_queue_sub s I t ws H).
  - intros t H. destruct (m_unsub s I t H) as [U1 U2]. split.
    + destruct (qof_skipn_sub t drop (q_queue s)) as [k' ->]. rewrite U1. apply skipn_nil.
    + intros j'. rewrite sent_on_app, U2, sent_on_resub. cbn [app q_sub s1]. rewrite H. destruct (N.eqb j j'); reflexivity.
  - intros t i Hi. injection Hi as <-. rewrite Hfresh. constructor.
  - intros t j'. destruct (N.eqb j j') eqn:E.
    + apply N.eqb_eq in E. subst j'. rewrite Hfresh. constructor.
    + rewrite sent_on_app, sent_on_resub, E, app_nil_r. exact (m_chain s I t j').
Qed.

Lemma minv_step s e : minv s -> grows s e -> minv (qstep s e).
Proof.
  intros I G. destruct e as [t ws| | | | |drop].
  - apply minv_change; assumption.
  - apply minv_send; assumption.
  - apply minv_sendfail; assumption.
  - apply minv_reconnect; assumption.
  - apply minv_offer; assumption.
  - apply minv_pickup; assumption.
Qed.

Lemma minv_run h : forall s, minv s -> grow_only s h -> minv (fold_left qstep h s).
Proof.
  induction h as [|e h IH]; intros s I G; cbn [fold_left]; [exact I|]. destruct G as [G1 G2]. apply IH; [apply minv_step; assumption|exact G2].
Qed.

(** the monitor's statement *)
Theorem monotone_wire h : grow_only q_init h ->
  forall t j, StronglySorted (@incl string) (after_resub j (sent_on t j (q_sent (qrun h)))).
Proof. intros G t j. exact (m_chain _ (minv_run h q_init minv_init G) t j). Qed.

(** non-vacuity, and the first request of a later stream is indeed out of order in general *)
Lemma monotone_wire_example :
  let h := [QChange TCl ["a"]; QSend; QReconnect; QChange TCl ["b"; "a"]; QChange TCl ["c"; "b"; "a"]; QPickup 0; QSend; QSend] in
  grow_only q_init h /\ sent_on TCl 1 (q_sent (qrun h)) = [["c"; "b"; "a"]; ["b"; "a"]; ["c"; "b"; "a"]] /\
  after_resub 1 (sent_on TCl 1 (q_sent (qrun h))) = [["b"; "a"]; ["c"; "b"; "a"]].
Proof.
  split; [|split; reflexivity].
  cbn [grow_only grows qstep q_init q_sub tget tset fst snd]. repeat split; intros cur H; try discriminate H.
  all: injection H as <-; intros x Hx; cbn [In] in *; tauto.
Qed.
