(** C03 / C04 with the asynchronous sender (Model/Queue.v): whatever the interleaving of state changes, sends, failing
    sends, reconnects and stream hand-overs, once nothing is in flight the last request of every subscribed type on the
    newest stream lists exactly the interest set. *)
From Xds Require Import Model.Base Model.Fqdn Model.Proto Model.Decode Model.Pick Model.Route Model.Mw Model.Sys Model.Queue.
From Xds Require Import Proofs.C01Proofs.
From Coq Require Import Lia.
Open Scope string_scope.

Lemma last_queued_app t a b : last_queued t (a ++ b) = match last_queued t b with Some w => Some w | None => last_queued t a end.
Proof.
  unfold last_queued. rewrite fold_left_app. generalize (fold_left (fun acc x => if rtype_eqb (fst x) t then Some (snd x) else acc) a None).
  induction b as [|x b IH] using rev_ind; intros acc; [reflexivity|].
  rewrite !fold_left_app. cbn [fold_left]. destruct (rtype_eqb (fst x) t); [reflexivity|apply IH].
Qed.

Lemma last_queued_cons t r rest :
  last_queued t (r :: rest) = match last_queued t rest with Some w => Some w | None => if rtype_eqb (fst r) t then Some (snd r) else None end.
Proof. change (r :: rest) with (([r] ++ rest)%list). rewrite last_queued_app. reflexivity. Qed.

Lemma last_queued_skipn t k q w : last_queued t (skipn k q) = Some w -> last_queued t q = Some w.
Proof.
  intros H. rewrite <- (firstn_skipn k q), last_queued_app, H. reflexivity.
Qed.

Lemma last_sent_app t j a b : last_sent t j (a ++ b) = match last_sent t j b with Some w => Some w | None => last_sent t j a end.
Proof.
  unfold last_sent. rewrite fold_left_app. generalize (fold_left (fun acc x => if N.eqb (fst x) j && rtype_eqb (fst (snd x)) t then Some (snd (snd x)) else acc) a None).
  induction b as [|x b IH] using rev_ind; intros acc; [reflexivity|].
  rewrite !fold_left_app. cbn [fold_left]. destruct (N.eqb (fst x) j && rtype_eqb (fst (snd x)) t); [reflexivity|apply IH].
Qed.

Lemma last_sent_resub s j t ws : tget t (q_sub s) = Some ws -> last_sent t j (resub s j) = Some ws.
Proof.
  intros H. unfold resub, all_types, last_sent. cbn [flat_map].
  destruct t; cbn [tget] in H;
    destruct (tget TLis (q_sub s)) eqn:E1, (tget TRc (q_sub s)) eqn:E2, (tget TCl (q_sub s)) eqn:E3, (tget TEp (q_sub s)) eqn:E4, (tget TNt (q_sub s)) eqn:E5;
    cbn [tget] in E1, E2, E3, E4, E5; try congruence;
    cbn [app fold_left fst snd rtype_eqb andb]; rewrite ?N.eqb_refl; cbn [andb]; congruence.
Qed.

(** the invariant *)
Definition qinv (s : qstate) : Prop :=
  (forall j, q_offer s = Some j -> j = q_live s) /\
  (forall t ws, tget t (q_sub s) = Some ws ->
     match last_queued t (q_queue s) with
     | Some w => w = ws                                        (* the newest queued request of a type lists its interest set *)
     | None => q_cur s = Some (q_live s) -> q_pending s <> Some (q_live s) -> q_offer s <> Some (q_live s) ->
               last_sent t (q_live s) (q_sent s) = Some ws     (* nothing queued, nothing handed over: it is on the wire *)
     end).

Lemma qinv_init : qinv q_init.
Proof. split; [intros j H; discriminate H|]. intros t ws H. destruct t; discriminate H. Qed.

Lemma qstep_inv s e : qinv s -> qinv (qstep s e).
Proof.
  intros I0. pose proof I0 as [K J]. destruct e as [t0 ws0| | | | |drop]; cbn [qstep].
  - (* change *) split; [exact K|]. intros t ws H. cbn [q_sub q_queue q_cur q_pending q_offer q_live q_sent] in *.
    rewrite tget_tset in H. rewrite last_queued_app. unfold last_queued at 1. cbn [fold_left fst snd].
    destruct (rtype_eqb t t0) eqn:E.
    + apply rtype_eqb_eq in E. subst t0. rewrite rtype_eqb_refl. congruence.
    + assert (E' : rtype_eqb t0 t = false) by (destruct t0, t; try reflexivity; discriminate). rewrite E'. apply J. exact H.
  - (* send *) destruct (q_queue s) as [|r rest] eqn:Eq; [exact I0|].
    split; [exact K|]. intros t ws H. cbn [q_sub q_queue q_cur q_pending q_offer q_live q_sent] in *.
    specialize (J t ws H). rewrite last_queued_cons in J.
    destruct (last_queued t rest) as [w|]; [exact J|].
    intros Hc Hp Ho. destruct (q_cur s) as [i|] eqn:Ec; [|discriminate]. injection Hc as ->.
    rewrite last_sent_app. unfold last_sent at 1. cbn [fold_left fst snd]. rewrite N.eqb_refl. cbn [andb].
    destruct (rtype_eqb (fst r) t); [congruence|]. apply J; [reflexivity|exact Hp|exact Ho].
  - (* failing send *) destruct (q_queue s) as [|r rest] eqn:Eq; [exact I0|].
    destruct (q_cur s) as [i|] eqn:Ec; [|exact I0].
    split; [exact K|]. intros t ws H. cbn [q_sub q_queue q_cur q_pending q_offer q_live q_sent] in *.
    specialize (J t ws H). rewrite last_queued_cons in J.
    destruct (last_queued t rest) as [w|]; [exact J|]. discriminate.
  - (* reconnect *) destruct (q_offer s) as [j0|] eqn:Eo; [exact I0|].
    destruct (q_pending s) as [p|] eqn:Ep.
    + split; cbn [q_offer q_live]; [intros j Hj; congruence|]. intros t ws H. cbn [q_queue q_cur q_pending q_offer q_live q_sent last_queued fold_left].
      intros _ _ Ho. exfalso. apply Ho. reflexivity.
    + split; cbn [q_offer q_live]; [discriminate|]. intros t ws H. cbn [q_queue q_cur q_pending q_offer q_live q_sent last_queued fold_left].
      intros _ Hp _. exfalso. apply Hp. reflexivity.
  - (* the blocked hand-over completes *) destruct (q_offer s) as [j|] eqn:Eo; [|exact I0]. destruct (q_pending s) as [p|] eqn:Ep; [exact I0|].
    pose proof (K j eq_refl) as Hj. split; cbn [q_offer q_live]; [discriminate|]. intros t ws H.
    cbn [q_sub q_queue q_cur q_pending q_offer q_live q_sent] in *. specialize (J t ws H).
    destruct (last_queued t (q_queue s)) as [w|]; [exact J|]. intros _ Hp _. exfalso. apply Hp. rewrite Hj. reflexivity.
  - (* pick-up *) destruct (q_pending s) as [j|] eqn:Ep; [|exact I0].
    split; [exact K|]. intros t ws H. cbn [q_sub q_queue q_cur q_pending q_offer q_live q_sent] in *.
    specialize (J t ws H).
    destruct (last_queued t (skipn drop (q_queue s))) as [w|] eqn:El.
    + rewrite (last_queued_skipn t drop _ w El) in J. exact J.
    + intros Hc _ _. injection Hc as ->. rewrite last_sent_app.
      rewrite (last_sent_resub _ (q_live s) t ws); [reflexivity|exact H].
Qed.

Lemma qrun_inv h : qinv (qrun h).
Proof.
  unfold qrun. generalize q_init qinv_init. induction h as [|e h IH]; intros s I; cbn [fold_left]; [exact I|]. apply IH. apply qstep_inv. exact I.
Qed.

(** C03 with the asynchronous sender: after ANY interleaving of interest changes (lookups that miss, evictions,
    acknowledgements), sends, failing sends, reconnects and hand-overs, once nothing is in flight the last request of every
    subscribed type on the newest stream lists exactly the interest set *)
Theorem async_quiescent_wire h : quiescent (qrun h) ->
  forall t ws, tget t (q_sub (qrun h)) = Some ws -> last_sent t (q_live (qrun h)) (q_sent (qrun h)) = Some ws.
Proof.
  intros (Hq & Hp & Ho & Hc) t ws H. destruct (qrun_inv h) as [_ J]. specialize (J t ws H). rewrite Hq in J.
  cbn [last_queued fold_left] in J. apply J; [exact Hc|rewrite Hp; discriminate|rewrite Ho; discriminate].
Qed.

(** the wobble that a monotonicity check must allow: on a new stream the re-subscription is fresher than an older request
    still queued behind it, so the names listed may shrink once - and then catch up *)
Lemma async_example :
  let h := [QChange TCl ["a"]; QSend; QReconnect; QChange TCl ["b"; "a"]; QChange TCl ["c"; "b"; "a"]; QPickup 0; QSend; QSend] in
  (map (fun x => (fst x, snd (snd x))) (q_sent (qrun h)), q_queue (qrun h)) =
  ([(0%N, ["a"]); (1%N, ["c"; "b"; "a"]); (1%N, ["b"; "a"]); (1%N, ["c"; "b"; "a"])], []).
Proof. vm_compute. reflexivity. Qed.

(** the synchronous schedule (every request is sent as soon as it is queued, no failure) is the instantaneous sending of
    Model/Sys.v: the request reaches the wire of the sender's stream at once and the queue stays empty *)
Lemma sync_send s t ws i : q_queue s = [] -> q_cur s = Some i ->
  let s' := qstep (qstep s (QChange t ws)) QSend in
  q_sent s' = (q_sent s ++ [(i, (t, ws))])%list /\ q_queue s' = [] /\ tget t (q_sub s') = Some ws.
Proof.
  intros Hq Hc. cbn [qstep q_queue q_cur q_sent q_sub]. rewrite Hq. cbn [app q_queue q_cur q_sent q_sub]. rewrite Hc.
  repeat split; try reflexivity. rewrite tget_tset, rtype_eqb_refl. reflexivity.
Qed.

(** a failed Send loses the request but not the subscription: the next pick-up re-subscribes it *)
Lemma lost_request_is_resubscribed s t ws j :
  tget t (q_sub s) = Some ws -> q_pending s = Some j ->
  last_sent t j (q_sent (qstep s (QPickup 0))) = Some ws.
Proof.
  intros H Hp. cbn [qstep]. rewrite Hp. cbn [q_sent]. rewrite last_sent_app. rewrite (last_sent_resub _ j t ws); [reflexivity|exact H].
Qed.
