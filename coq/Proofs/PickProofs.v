(** Lemmas about the pickCluster model (C09). *)
From Xds Require Import Model.Base Model.Pick.
From Coq Require Import Lia Arith.

Lemma nsum_app a b : nsum (a ++ b) = nsum a + nsum b.
Proof. induction a as [|x a IH]; cbn [nsum app]; lia. Qed.

Lemma nsum_firstn_skipn k ws : nsum (firstn k ws) + nsum (skipn k ws) = nsum ws.
Proof. rewrite <- nsum_app, firstn_skipn; reflexivity. Qed.

Lemma nsum_firstn_S k ws :
  (k < length ws)%nat -> nsum (firstn (S k) ws) = nsum (firstn k ws) + nth k ws 0.
Proof.
  revert k; induction ws as [|w r IH]; intros k Hk; cbn [length] in Hk; [lia|].
  destruct k as [|k].
  - cbn. lia.
  - rewrite !firstn_cons. cbn [nsum nth]. rewrite (IH k) by lia. lia.
Qed.

Lemma nsum_firstn_le k ws : nsum (firstn k ws) <= nsum ws.
Proof. pose proof (nsum_firstn_skipn k ws); lia. Qed.

Lemma nth_le_nsum k ws : nth k ws 0 <= nsum ws.
Proof.
  revert k; induction ws as [|w r IH]; intros [|k]; cbn [nth nsum]; try lia.
  specialize (IH k); lia.
Qed.

(** the scan returns index idx+k exactly when the draw lies in the k-th cumulative interval *)
Lemma scan_ok_iff ws : forall curr t idx i,
  curr <= t ->
  (scan ws curr t idx = Ok i <->
   exists k, i = (idx + k)%nat /\ (k < length ws)%nat /\
             curr + nsum (firstn k ws) <= t < curr + nsum (firstn (S k) ws)).
Proof.
  induction ws as [|w r IH]; intros curr t idx i Hc; cbn [scan].
  - split; [discriminate|]. intros (k & _ & Hk & _); cbn in Hk; lia.
  - destruct (N.ltb_spec t (curr + w)) as [Hlt|Hge].
    + split.
      * intros H; injection H as <-. exists 0%nat. rewrite firstn_cons. cbn [firstn nsum length].
        split; [lia|]. split; [lia|]. lia.
      * intros (k & -> & Hk & Hlo & Hhi). destruct k as [|k]; [f_equal; lia|].
        exfalso. rewrite firstn_cons in Hlo. cbn [nsum] in Hlo. lia.
    + rewrite (IH (curr + w) t (S idx) i Hge). split.
      * intros (k & -> & Hk & Hlo & Hhi). exists (S k). cbn [length].
        split; [lia|]. split; [lia|].
        rewrite !firstn_cons. cbn [nsum]. lia.
      * intros (k & -> & Hk & Hlo & Hhi). destruct k as [|k].
        { exfalso. rewrite firstn_cons in Hhi. cbn [firstn nsum] in Hhi. lia. }
        exists k. cbn [length] in Hk. split; [lia|]. split; [lia|].
        rewrite !firstn_cons in Hhi. rewrite firstn_cons in Hlo.
        cbn [nsum] in Hlo, Hhi. lia.
Qed.

Lemma scan_never_err ws : forall curr t idx,
  curr <= t -> t < curr + nsum ws -> scan ws curr t idx <> Err.
Proof.
  induction ws as [|w r IH]; intros curr t idx Hc Ht; cbn [scan nsum] in *; [lia|].
  destruct (N.ltb_spec t (curr + w)); [discriminate|]. apply IH; lia.
Qed.

Lemma scan_never_panic ws : forall curr t idx, scan ws curr t idx <> Panic.
Proof.
  induction ws as [|w r IH]; intros curr t idx; cbn [scan]; [discriminate|].
  destruct (t <? curr + w); [discriminate|apply IH].
Qed.

(** [pick] on at least two clusters: index i iff the draw is in [prefix i, prefix (i+1)) *)
Lemma pick_interval ws t i :
  (2 <= length ws)%nat -> t < nsum ws ->
  (pick ws t = Ok i <-> (i < length ws)%nat /\ prefix ws i <= t < prefix ws i + weight ws i).
Proof.
  intros Hlen Ht. unfold pick, prefix, weight.
  destruct ws as [|a [|b r]]; cbn [length] in Hlen; try lia.
  destruct (N.eqb_spec (nsum (a :: b :: r)) 0) as [E|_]; [lia|].
  rewrite scan_ok_iff by lia. split.
  - intros (k & -> & Hk & Hlo & Hhi). cbn [plus]. split; [exact Hk|].
    rewrite nsum_firstn_S in Hhi by exact Hk. lia.
  - intros (Hi & Hlo & Hhi). exists i. split; [reflexivity|]. split; [exact Hi|].
    rewrite nsum_firstn_S by exact Hi. lia.
Qed.

Lemma pick_zero_never ws t i :
  (2 <= length ws)%nat -> t < nsum ws -> weight ws i = 0 -> pick ws t <> Ok i.
Proof.
  intros Hlen Ht Hw H. apply pick_interval in H; [|assumption..]. lia.
Qed.

Lemma pick_sole_always ws t i :
  (i < length ws)%nat -> 0 < nsum ws -> weight ws i = nsum ws -> t < nsum ws -> pick ws t = Ok i.
Proof.
  intros Hi Hpos Hw Ht.
  destruct ws as [|a [|b r]].
  - cbn in Hi; lia.
  - cbn in Hi. assert (i = 0)%nat by lia; subst. reflexivity.
  - apply pick_interval; [cbn [length]; lia|exact Ht|].
    split; [exact Hi|]. unfold prefix, weight in *.
    pose proof (nsum_firstn_S i (a :: b :: r) Hi) as HS.
    pose proof (nsum_firstn_le (S i) (a :: b :: r)). lia.
Qed.

Lemma pick_total ws t :
  (2 <= length ws)%nat -> t < nsum ws -> exists i, pick ws t = Ok i /\ (i < length ws)%nat.
Proof.
  intros Hlen Ht. unfold pick.
  destruct ws as [|a [|b r]]; cbn [length] in Hlen; try lia.
  destruct (N.eqb_spec (nsum (a :: b :: r)) 0) as [E|_]; [lia|].
  destruct (scan (a :: b :: r) 0 t 0) as [i| |] eqn:E.
  - exists i; split; [reflexivity|]. apply scan_ok_iff in E; [|lia].
    destruct E as (k & -> & Hk & _). exact Hk.
  - exfalso. eapply scan_never_err; [| |exact E]; lia.
  - exfalso. eapply scan_never_panic; exact E.
Qed.

Lemma pick_never_panic ws t : pick ws t <> Panic.
Proof.
  unfold pick. destruct ws as [|a [|b r]]; try discriminate.
  destruct (nsum (a :: b :: r) =? 0); [discriminate|apply scan_never_panic].
Qed.

(** counting the draws of an interval *)
Lemma count_interval (a : N) : forall (n : nat) (b : N),
  a <= b -> b <= N.of_nat n ->
  length (filter (fun t => (a <=? t) && (t <? b)) (map N.of_nat (seq 0 n))) = N.to_nat (b - a).
Proof.
  induction n as [|n IH]; intros b Hab Hb.
  - cbn. lia.
  - rewrite seq_S, map_app, filter_app, app_length. cbn [plus map filter].
    destruct (N.leb_spec a (N.of_nat n)) as [Ha|Ha];
    destruct (N.ltb_spec (N.of_nat n) b) as [Hn|Hn]; cbn [andb length].
    + assert (Hb' : b = N.of_nat n + 1) by lia.
      (* count up to n of [a, n) plus one *)
      assert (IH' : length (filter (fun t => (a <=? t) && (t <? N.of_nat n)) (map N.of_nat (seq 0 n)))
                    = N.to_nat (N.of_nat n - a)) by (apply IH; lia).
      rewrite (filter_ext_in _ (fun t => (a <=? t) && (t <? N.of_nat n))).
      * rewrite IH'. lia.
      * intros t Hin. apply in_map_iff in Hin. destruct Hin as (m & <- & Hm).
        apply in_seq in Hm. f_equal.
        destruct (N.ltb_spec (N.of_nat m) b), (N.ltb_spec (N.of_nat m) (N.of_nat n)); try reflexivity; lia.
    + rewrite IH by lia. lia.
    + assert (b <= a) by lia. assert (a = b) by lia. subst b.
      rewrite (filter_ext_in _ (fun _ => false)).
      * clear. induction (map N.of_nat (seq 0 n)); cbn; [lia|assumption].
      * intros t _. destruct (N.leb_spec a t), (N.ltb_spec t a); try reflexivity; lia.
    + rewrite IH by lia. lia.
Qed.

Lemma count_picks_eq_weight ws i :
  (2 <= length ws)%nat -> (i < length ws)%nat -> count_picks ws i = weight ws i.
Proof.
  intros Hlen Hi. unfold count_picks, nrange.
  set (a := prefix ws i). set (b := prefix ws i + weight ws i).
  rewrite (filter_ext_in _ (fun t => (a <=? t) && (t <? b))).
  - rewrite count_interval.
    + subst a b. lia.
    + subst a b. lia.
    + subst a b. unfold prefix, weight. rewrite <- nsum_firstn_S by exact Hi.
      pose proof (nsum_firstn_le (S i) ws). lia.
  - intros t Hin. apply in_map_iff in Hin. destruct Hin as (m & <- & Hm). apply in_seq in Hm.
    assert (Ht : N.of_nat m < nsum ws) by lia.
    pose proof (pick_interval ws (N.of_nat m) i Hlen Ht) as PI.
    destruct (pick ws (N.of_nat m)) as [j| |] eqn:E; cbn [outN_eqb].
    + destruct (Nat.eqb_spec j i) as [->|Hne].
      * destruct (proj1 PI eq_refl) as (_ & Hlo & Hhi). subst a b.
        symmetry. apply andb_true_iff. split; [apply N.leb_le|apply N.ltb_lt]; assumption.
      * symmetry. apply not_true_iff_false. intros Hc. apply andb_true_iff in Hc.
        destruct Hc as [H1 H2]. apply N.leb_le in H1. apply N.ltb_lt in H2.
        assert (Ok j = Ok i) as Hji by (apply PI; split; [exact Hi|subst a b; lia]).
        injection Hji as ->. congruence.
    + symmetry. apply not_true_iff_false. intros Hc. apply andb_true_iff in Hc.
      destruct Hc as [H1 H2]. apply N.leb_le in H1. apply N.ltb_lt in H2.
      assert (Err = Ok i) as Hji by (apply PI; split; [exact Hi|subst a b; lia]). discriminate.
    + exfalso. eapply pick_never_panic; exact E.
Qed.

Lemma pick_empty_or_zero ws t :
  ws = [] \/ ((2 <= length ws)%nat /\ nsum ws = 0) -> pick ws t = Err.
Proof.
  intros [->|[Hlen Hz]]; [reflexivity|].
  destruct ws as [|a [|b r]]; cbn [length] in Hlen; try lia.
  unfold pick. rewrite Hz. reflexivity.
Qed.

From Xds Require Import Model.PickCheck.

Lemma model_shares_eq ws : (2 <= length ws)%nat -> model_shares ws = ws.
Proof.
  intros Hlen. unfold model_shares.
  apply nth_ext with (d := 0) (d' := 0).
  - rewrite map_length, seq_length. reflexivity.
  - intros i Hi. rewrite map_length, seq_length in Hi.
    rewrite (nth_indep _ 0 (count_picks ws 0%nat)) by (rewrite map_length, seq_length; exact Hi).
    rewrite map_nth, seq_nth by exact Hi. cbn [plus].
    apply count_picks_eq_weight; assumption.
Qed.

Lemma C09_example_proof :
  (2 <= length [1; 0; 3])%nat /\ map (pick [1; 0; 3]) [0; 1; 2; 3] = [Ok 0; Ok 2; Ok 2; Ok 2]%nat
  /\ model_shares [1; 0; 3] = [1; 0; 3].
Proof. split; [cbn; lia|]. split; vm_compute; reflexivity. Qed.
