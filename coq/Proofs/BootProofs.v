(** Lemmas about the bootstrap model (C20). *)
From Xds Require Import Model.Base Model.Fqdn Model.Boot Proofs.FqdnProofs.
From Coq Require Import Lia.
Open Scope string_scope.

Lemma new_bootstrap_none_iff e :
  new_bootstrap e = None <-> e_ns e = "" \/ e_name e = "" \/ e_ip e = "".
Proof.
  unfold new_bootstrap.
  destruct (String.eqb_spec (e_ns e) ""); [tauto|].
  destruct (String.eqb_spec (e_name e) ""); [tauto|].
  destruct (String.eqb_spec (e_ip e) ""); [tauto|].
  split; [discriminate|]. intros [H|[H|H]]; congruence.
Qed.

Lemma new_bootstrap_some e b :
  new_bootstrap e = Some b ->
  e_ns e <> "" /\ e_name e <> "" /\ e_ip e <> "" /\
  b_node_id b = node_id (e_ip e) (e_name e) (e_ns e) (if String.eqb (e_domain e) "" then "cluster.local" else e_domain e) /\
  b_domain b = (if String.eqb (e_domain e) "" then "cluster.local" else e_domain e) /\
  b_meta b = parse_meta (e_metas e) (e_istio e) (e_ip e) /\
  b_ns b = match aget "NAMESPACE" (b_meta b) with
           | Some v => if String.eqb (str_of v) "" then e_ns e else str_of v
           | None => e_ns e
           end.
Proof.
  unfold new_bootstrap.
  destruct (String.eqb_spec (e_ns e) ""); [discriminate|].
  destruct (String.eqb_spec (e_name e) ""); [discriminate|].
  destruct (String.eqb_spec (e_ip e) ""); [discriminate|].
  intros H. injection H as <-. cbn. repeat split; assumption.
Qed.

Lemma split_on_app c a b : split_on c (a ++ String c b) = (split_on c a ++ split_on c b)%list.
Proof.
  induction a as [|x a IH]; cbn [append split_on].
  - rewrite Ascii.eqb_refl. reflexivity.
  - destruct (Ascii.eqb x c).
    + rewrite IH. reflexivity.
    + rewrite IH. pose proof (split_on_nonempty c a) as Hn.
      destruct (split_on c a) as [|p ps]; [congruence|]. reflexivity.
Qed.

Lemma smem_app x a b : smem x (a ++ b)%list = smem x a || smem x b.
Proof. induction a as [|y a IH]; cbn [smem app]; [reflexivity|]. rewrite IH. apply orb_assoc. Qed.

Lemma ip_listed_appended exist ip :
  no_char comma ip = true -> ip_listed (exist ++ "," ++ ip) ip = true.
Proof.
  intros H. unfold ip_listed. change ("," ++ ip) with (String comma ip).
  rewrite split_on_app, smem_app, (split_on_no_char comma ip H).
  cbn [smem]. rewrite String.eqb_refl. apply orb_true_r.
Qed.

Lemma ip_listed_self ip : no_char comma ip = true -> ip_listed ip ip = true.
Proof.
  intros H. unfold ip_listed. rewrite (split_on_no_char comma ip H). cbn [smem].
  rewrite String.eqb_refl. reflexivity.
Qed.

Lemma aget_aset_same {V} k (v : V) m : aget k (aset k v m) = Some v.
Proof. unfold aset. cbn [aget]. rewrite String.eqb_refl. reflexivity. Qed.

Lemma aget_adel_other {V} k k' (m : list (string * V)) : k <> k' -> aget k (adel k' m) = aget k m.
Proof.
  intros Hne. induction m as [|[k0 v0] m IH]; cbn [adel aget]; [reflexivity|].
  destruct (String.eqb_spec k' k0) as [->|Hk'].
  - rewrite IH. destruct (String.eqb_spec k k0); [congruence|reflexivity].
  - cbn [aget]. rewrite IH. reflexivity.
Qed.

Lemma aget_aset_other {V} k k' (v : V) m : k <> k' -> aget k (aset k' v m) = aget k m.
Proof.
  intros Hne. unfold aset. cbn [aget]. destruct (String.eqb_spec k k'); [congruence|].
  apply aget_adel_other. exact Hne.
Qed.

(** the pod IP is an element of INSTANCE_IPS whenever the key is supplied, and what was supplied is kept as a prefix *)
Lemma instance_ips_member ip kvs v :
  no_char comma ip = true ->
  aget "INSTANCE_IPS" kvs = Some v ->
  exists s, aget "INSTANCE_IPS" (fix_instance_ips ip kvs) = Some (MStr s) /\
            ip_listed s ip = true /\
            (str_of v = "" \/ String.prefix (str_of v) s = true).
Proof.
  intros Hip Hget. unfold fix_instance_ips. rewrite Hget.
  eexists. rewrite aget_aset_same. split; [reflexivity|].
  destruct (String.eqb_spec (str_of v) "") as [E|E].
  - split; [apply ip_listed_self; exact Hip|left; exact E].
  - destruct (ip_listed (str_of v) ip) eqn:L.
    + split; [exact L|right]. rewrite <- (append_nil_r (str_of v)) at 2. apply prefix_app.
    + split; [apply ip_listed_appended; exact Hip|right; apply prefix_app].
Qed.

(** other user fields are carried unchanged *)
Lemma other_fields_carried ip kvs k :
  k <> "INSTANCE_IPS" -> aget k (fix_instance_ips ip kvs) = aget k kvs.
Proof.
  intros Hk. unfold fix_instance_ips. destruct (aget "INSTANCE_IPS" kvs); [|reflexivity].
  apply aget_aset_other. exact Hk.
Qed.

Lemma absent_key_untouched ip kvs :
  aget "INSTANCE_IPS" kvs = None -> fix_instance_ips ip kvs = kvs.
Proof. intros H. unfold fix_instance_ips. rewrite H. reflexivity. Qed.

Lemma namespace_override e b :
  new_bootstrap e = Some b ->
  b_ns b = match e_metas e with
           | Fields kvs => match aget "NAMESPACE" kvs with
                           | Some v => if String.eqb (str_of v) "" then e_ns e else str_of v
                           | None => e_ns e
                           end
           | _ => e_ns e
           end.
Proof.
  intros H. apply new_bootstrap_some in H. destruct H as (_ & _ & _ & _ & _ & Hm & Hns).
  rewrite Hns, Hm. destruct (e_metas e) as [| |kvs]; cbn [parse_meta]; try reflexivity.
  rewrite other_fields_carried by discriminate. reflexivity.
Qed.

Lemma default_metadata e b :
  new_bootstrap e = Some b -> (e_metas e = Unset \/ e_metas e = Invalid) ->
  b_meta b = [("ISTIO_VERSION", MStr (e_istio e))].
Proof.
  intros H Hm. apply new_bootstrap_some in H. destruct H as (_ & _ & _ & _ & _ & -> & _).
  destruct Hm as [-> | ->]; reflexivity.
Qed.

(** first-wins *)
Lemma init_run_from cur ops m :
  cur = Some m -> fold_left (fun cur o => fst (init_step cur o)) ops cur = Some m.
Proof.
  intros ->. induction ops as [|o ops IH]; cbn [fold_left]; [reflexivity|].
  destruct o; exact IH.
Qed.

Lemma init_first_wins ops1 m ops2 :
  init_run ops1 = Some m -> init_run (ops1 ++ ops2) = Some m.
Proof.
  unfold init_run. intros H. rewrite fold_left_app, H. apply init_run_from. reflexivity.
Qed.

Lemma init_failed_leaves_none ops id :
  init_run ops = None -> init_run (ops ++ [InitCall false id]) = None.
Proof. unfold init_run. intros H. rewrite fold_left_app, H. reflexivity. Qed.

Lemma C20_example_proof :
  let e := {| e_ns := "default"; e_name := "pod-1"; e_ip := "10.0.0.1"; e_domain := ""; e_istio := "1.13";
              e_metas := Fields [("INSTANCE_IPS", MStr "10.0.0.10,10.0.0.2"); ("NAMESPACE", MStr "prod"); ("x", MOther 1)] |} in
  new_bootstrap e = Some {| b_node_id := "sidecar~10.0.0.1~pod-1.default~default.svc.cluster.local";
                            b_meta := [("INSTANCE_IPS", MStr "10.0.0.10,10.0.0.2,10.0.0.1"); ("NAMESPACE", MStr "prod"); ("x", MOther 1)];
                            b_ns := "prod"; b_domain := "cluster.local" |}
  /\ no_char comma (e_ip e) = true.
Proof. vm_compute. split; reflexivity. Qed.
