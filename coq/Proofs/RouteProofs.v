(** Lemmas about the route-matching model (C08). *)
From Xds Require Import Model.Base Model.Fqdn Model.Proto Model.Decode Model.Pick Model.Route.
From Xds Require Import Proofs.MapLemmas.
From Coq Require Import Lia.
Open Scope string_scope.

(** "first in order", by list splitting *)
Lemma find_first {A} (p : A -> bool) l r :
  find p l = Some r <->
  exists pre post, l = (pre ++ r :: post)%list /\ p r = true /\ Forall (fun x => p x = false) pre.
Proof.
  split.
  - induction l as [|x l IH]; cbn [find]; [discriminate|].
    destruct (p x) eqn:E.
    + intros H; injection H as <-. exists [], l. repeat split; [exact E|constructor].
    + intros H. destruct (IH H) as (pre & post & -> & Hr & Hpre).
      exists (x :: pre), post. repeat split; [exact Hr|constructor; assumption].
  - intros (pre & post & -> & Hr & Hpre). induction pre as [|x pre IH]; cbn [app find].
    + rewrite Hr. reflexivity.
    + inversion Hpre as [|? ? Hx Hpre']; subst. rewrite Hx. apply IH. exact Hpre'.
Qed.

Lemma find_none_iff {A} (p : A -> bool) l : find p l = None <-> Forall (fun x => p x = false) l.
Proof.
  induction l as [|x l IH]; cbn [find]; [split; [constructor|reflexivity]|].
  destruct (p x) eqn:E; split.
  - discriminate.
  - intros H. inversion H; congruence.
  - intros H. constructor; [exact E|apply IH; exact H].
  - intros H. inversion H; subst. apply IH. assumption.
Qed.

(** every header condition must hold; a condition on an absent key is false *)
Lemma matchers_ok_iff o ms md :
  matchers_ok o ms md = true <->
  forall k m, In (k, m) ms -> exists v, aget k md = Some v /\ matcher_ok o m v = true.
Proof.
  unfold matchers_ok. rewrite forallb_forall. split.
  - intros H k m Hin. specialize (H (k, m) Hin). cbn [fst snd] in H.
    destruct (aget k md) as [v|]; [exists v; split; [reflexivity|exact H]|discriminate].
  - intros H [k m] Hin. cbn [fst snd]. destruct (H k m Hin) as (v & -> & Hv). exact Hv.
Qed.

Lemma matchers_absent_key_false o ms md k m :
  In (k, m) ms -> aget k md = None -> matchers_ok o ms md = false.
Proof.
  intros Hin Hk. destruct (matchers_ok o ms md) eqn:E; [|reflexivity].
  destruct (proj1 (matchers_ok_iff o ms md) E k m Hin) as (v & Hv & _). congruence.
Qed.

Lemma http_route_matched_iff o path md p pre hs cs t rp :
  route_matched o path md {| r_match := HttpMatch p pre hs; r_clusters := cs; r_timeout := t; r_retry := rp |} = true <->
  ((p <> "" /\ p = path) \/ (p = "" /\ pre = "/")) /\
  forall k m, In (k, m) hs -> exists v, aget k md = Some v /\ matcher_ok o m v = true.
Proof.
  unfold route_matched. cbn [r_match]. rewrite andb_true_iff, matchers_ok_iff.
  destruct (String.eqb_spec p "") as [->|Hp].
  - rewrite String.eqb_eq. split; intros [H1 H2]; (split; [|exact H2]).
    + right. split; [reflexivity|exact H1].
    + destruct H1 as [[Hn _]|[_ H]]; [congruence|exact H].
  - rewrite String.eqb_eq. split; intros [H1 H2]; (split; [|exact H2]).
    + left. split; assumption.
    + destruct H1 as [[_ H]|[H _]]; [exact H|congruence].
Qed.

Lemma thrift_route_matched_iff o path md m s tags cs t rp :
  route_matched o path md {| r_match := ThriftMatch m s tags; r_clusters := cs; r_timeout := t; r_retry := rp |} = true <->
  (m = "" \/ m = path) /\
  forall k c, In (k, c) tags -> exists v, aget k md = Some v /\ matcher_ok o c v = true.
Proof.
  unfold route_matched. cbn [r_match]. rewrite andb_true_iff, matchers_ok_iff.
  destruct (String.eqb_spec m "") as [->|Hm].
  - split; intros [_ H2]; (split; [|exact H2]); [left|]; reflexivity.
  - rewrite String.eqb_eq. split; intros [H1 H2]; (split; [|exact H2]).
    + right. exact H1.
    + destruct H1; congruence.
Qed.

(** first match in the order virtual hosts and routes were listed *)
Lemma match_http_first o k rc vhs r :
  rc_http rc = Some vhs ->
  (match_http o k rc = Some r <->
   exists pre post, concat (map snd vhs) = (pre ++ r :: post)%list /\
                    route_matched o (call_path k) (k_md k) r = true /\
                    Forall (fun x => route_matched o (call_path k) (k_md k) x = false) pre).
Proof. intros H. unfold match_http. rewrite H. apply find_first. Qed.

Lemma match_thrift_first o k rc rs r :
  rc_thrift rc = Some rs ->
  (match_thrift o k rc = Some r <->
   exists pre post, rs = (pre ++ r :: post)%list /\
                    route_matched o (k_to_method k) (k_md k) r = true /\
                    Forall (fun x => route_matched o (k_to_method k) (k_md k) x = false) pre).
Proof. intros H. unfold match_thrift. rewrite H. apply find_first. Qed.

(** the HTTP part of matchRoute: inline table first, then the named one *)
Definition http_part (o : oracle) (k : call) (l : lisres) (named : string -> got rcres) : option route :=
  match last_filter false l with
  | None => None
  | Some f =>
      match match nf_inline f with Some rc => match_http o k rc | None => None end with
      | Some r => Some r
      | None => match named (nf_rcname f) with GErr => None | GOk rc => match_http o k rc end
      end
  end.

Definition thrift_part (o : oracle) (k : call) (l : lisres) : option route :=
  match last_filter true l with
  | Some f => match nf_inline f with Some rc => match_thrift o k rc | None => None end
  | None => None
  end.

Lemma match_route_precedence o k l named :
  match_route o k (GOk l) named =
  if k_grpc k then http_part o k l named
  else match thrift_part o k l with Some r => Some r | None => http_part o k l named end.
Proof.
  unfold match_route, http_part, thrift_part. destruct (k_grpc k); [reflexivity|].
  destruct (last_filter true l) as [f|]; [|reflexivity].
  destruct (nf_inline f) as [rc|]; [|reflexivity]. reflexivity.
Qed.

Lemma thrift_hit_wins o k l named r :
  k_grpc k = false -> thrift_part o k l = Some r -> match_route o k (GOk l) named = Some r.
Proof. intros Hg Ht. rewrite match_route_precedence, Hg, Ht. reflexivity. Qed.

Lemma grpc_skips_thrift o k l named :
  k_grpc k = true -> match_route o k (GOk l) named = http_part o k l named.
Proof. intros Hg. rewrite match_route_precedence, Hg. reflexivity. Qed.

Lemma inline_before_named o k l named f rc r :
  last_filter false l = Some f -> nf_inline f = Some rc -> match_http o k rc = Some r ->
  http_part o k l named = Some r.
Proof. intros Hf Hi Hm. unfold http_part. rewrite Hf, Hi, Hm. reflexivity. Qed.

Lemma named_when_inline_misses o k l named f :
  last_filter false l = Some f ->
  match nf_inline f with Some rc => match_http o k rc | None => None end = None ->
  http_part o k l named = match named (nf_rcname f) with GErr => None | GOk rc => match_http o k rc end.
Proof. intros Hf Hi. unfold http_part. rewrite Hf, Hi. reflexivity. Qed.

(** nothing matches -> routing error *)
Lemma no_match_is_error o k l named t :
  match_route o k (GOk l) named = None -> route_call o k (GOk l) named t = None.
Proof. intros H. unfold route_call. rewrite H. reflexivity. Qed.

Lemma listener_error_is_error o k named t : route_call o k GErr named t = None.
Proof. reflexivity. Qed.

Lemma no_http_filter_is_error o k l named :
  last_filter false l = None -> http_part o k l named = None.
Proof. intros H. unfold http_part. rewrite H. reflexivity. Qed.

Lemma C08_example_proof :
  let o := mk_oracle_route [("^v[0-9]+$", true)] [("^v[0-9]+$", [("v1", true); ("canary", false)])] in
  let mk p pre hs c := {| r_match := HttpMatch p pre hs; r_clusters := [(c, 1)]; r_timeout := 0%Z; r_retry := no_retry |} in
  let rc := {| rc_http := Some [("vh0", [mk "/pkg.svc/Ping" "" [] "a"; mk "/pkg.svc/Echo" "" [("stage", MRegex "^v[0-9]+$")] "b"]);
                                ("vh1", [mk "" "/" [] "c"; mk "/pkg.svc/Echo" "" [] "d"])]; rc_thrift := None; rc_maxtok := 0; rc_tpf := 0 |} in
  let k md := {| k_service := "s"; k_pkg := "pkg"; k_svc := "svc"; k_method := "Echo"; k_to_method := "Echo"; k_grpc := true; k_md := md |} in
  option_map r_clusters (match_http o (k [("stage", "v1")]) rc) = Some [("b", 1)] /\
  option_map r_clusters (match_http o (k [("stage", "canary")]) rc) = Some [("c", 1)] /\
  option_map r_clusters (match_http o (k []) rc) = Some [("c", 1)].
Proof. vm_compute. repeat split; reflexivity. Qed.
