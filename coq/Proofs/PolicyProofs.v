(** Proofs about the policy consumers (Model/Policy.v): circuit breaker (C16), retry (C17), limiter (C18). *)
From Xds Require Import Model.Base Model.Fqdn Model.Proto Model.Decode Model.Pick Model.Route Model.Mw Model.Sys Model.Policy.
From Xds Require Import Proofs.MapLemmas.
From Coq Require Import Lia.
Open Scope string_scope.

(** ---- generic folds over association lists ---- *)
Lemma aget_app {V} k (a b : list (string * V)) : aget k (a ++ b) = match aget k a with Some v => Some v | None => aget k b end.
Proof. induction a as [|[x y] a IH]; cbn [app aget]; [reflexivity|]. destruct (String.eqb k x); [reflexivity|exact IH]. Qed.

Lemma fold_aset_get_rev {V} (kvs : list (string * V)) k : forall acc,
  aget k (fold_left (fun acc kv => aset (fst kv) (snd kv) acc) kvs acc) =
  match aget k (rev kvs) with Some v => Some v | None => aget k acc end.
Proof.
  induction kvs as [|[k0 v0] kvs IH]; intros acc; cbn [fold_left rev fst snd]; [reflexivity|].
  rewrite IH, aget_app. destruct (aget k (rev kvs)); [reflexivity|].
  cbn [aget]. rewrite aget_aset. destruct (String.eqb k k0); reflexivity.
Qed.

Lemma amem_rev {V} k (l : list (string * V)) : amem k (rev l) = amem k l.
Proof.
  destruct (amem k l) eqn:E.
  - apply amem_true_iff. apply amem_true_iff in E. unfold akeys in *. rewrite map_rev. apply in_rev in E. exact E.
  - destruct (amem k (rev l)) eqn:E2; [|reflexivity]. apply amem_true_iff in E2. unfold akeys in E2.
    rewrite map_rev in E2. apply in_rev in E2. apply amem_true_iff in E2. congruence.
Qed.

(** ---- C16 ---- *)
Definition last_keys (s : cb_state) : list string := match cb_last s with Some l => l | None => [] end.

(** invariant: every configured key is either configured by the latest update, or disabled *)
Definition cb_inv (s : cb_state) : Prop :=
  (forall k v, aget k (cb_cfg s) = Some v -> smem k (last_keys s) = true \/ v = cb_disabled) /\
  (forall k, smem k (last_keys s) = true -> amem k (cb_cfg s) = true).

Lemma smem_map_fst {V} k (l : list (string * V)) : smem k (map fst l) = amem k l.
Proof.
  unfold amem. induction l as [|[x y] l IH]; cbn [map fst smem aget]; [reflexivity|].
  destruct (String.eqb k x); [reflexivity|exact IH].
Qed.

Lemma fold_disable_get (pol : list (string * cbcfg)) last : forall cfg k,
  aget k (fold_left (fun acc k' => if amem k' pol then acc else aset k' cb_disabled acc) last cfg) =
  if smem k last && negb (amem k pol) then Some cb_disabled else aget k cfg.
Proof.
  induction last as [|k0 last IH]; intros cfg k; cbn [fold_left smem]; [reflexivity|].
  rewrite IH. destruct (String.eqb_spec k k0) as [->|Hne]; cbn [orb].
  - destruct (amem k0 pol) eqn:Ep; cbn [negb andb].
    + rewrite andb_false_r. reflexivity.
    + rewrite andb_true_r. destruct (smem k0 last); [reflexivity|]. apply aget_aset_same.
  - destruct (smem k last && negb (amem k pol)); [reflexivity|].
    destruct (amem k0 pol); [reflexivity|]. apply aget_aset_other. exact Hne.
Qed.

(** one update: keys configured by this update get its policy; every other key configured before is disabled;
    keys never configured stay absent *)
Lemma cb_update_spec s up k :
  cb_inv s ->
  aget k (cb_cfg (cb_update s up)) =
    match aget k (rev (cb_policies up)) with
    | Some p => Some p
    | None => match aget k (cb_cfg s) with Some _ => Some cb_disabled | None => None end
    end.
Proof.
  intros [J1 J2]. unfold cb_update. cbn [cb_cfg].
  set (pol := cb_policies up).
  destruct (cb_last s) as [last|] eqn:El.
  - rewrite fold_disable_get, fold_aset_get_rev.
    assert (Em : amem k pol = match aget k (rev pol) with Some _ => true | None => false end).
    { rewrite <- amem_rev. reflexivity. }
    destruct (aget k (rev pol)) as [p|] eqn:Ep.
    + rewrite Em. cbn [negb]. rewrite andb_false_r. reflexivity.
    + rewrite Em. cbn [negb]. rewrite andb_true_r.
      destruct (smem k last) eqn:Es.
      * assert (H : amem k (cb_cfg s) = true) by (apply J2; unfold last_keys; rewrite El; exact Es).
        unfold amem in H. destruct (aget k (cb_cfg s)); [reflexivity|discriminate].
      * destruct (aget k (cb_cfg s)) as [v|] eqn:Ec; [|reflexivity].
        destruct (J1 k v Ec) as [H|H]; [unfold last_keys in H; rewrite El in H; congruence|subst v; reflexivity].
  - rewrite fold_aset_get_rev. destruct (aget k (rev pol)); [reflexivity|].
    destruct (aget k (cb_cfg s)) as [v|] eqn:Ec; [|reflexivity].
    destruct (J1 k v Ec) as [H|H]; [unfold last_keys in H; rewrite El in H; discriminate|subst v; reflexivity].
Qed.

Lemma cb_update_inv s up : cb_inv s -> cb_inv (cb_update s up).
Proof.
  intros J. pose proof (cb_update_spec s up) as Hs. split.
  - intros k v Hg. rewrite (Hs k J) in Hg. unfold last_keys, cb_update. cbn [cb_last].
    rewrite smem_map_fst. destruct (aget k (rev (cb_policies up))) as [p|] eqn:Ep.
    + left. rewrite <- amem_rev. unfold amem. rewrite Ep. reflexivity.
    + right. destruct (aget k (cb_cfg s)); [injection Hg as <-; reflexivity|discriminate].
  - intros k Hk. unfold last_keys, cb_update in Hk. cbn [cb_last] in Hk. rewrite smem_map_fst, <- amem_rev in Hk.
    unfold amem. rewrite (Hs k J). unfold amem in Hk. destruct (aget k (rev (cb_policies up))); [reflexivity|discriminate].
Qed.

Lemma cb_init_inv : cb_inv cb_init.
Proof. split; intros; discriminate. Qed.

Definition cb_run (ups : list (list (string * cval))) : cb_state := fold_left cb_update ups cb_init.

Lemma cb_run_inv ups : cb_inv (cb_run ups).
Proof.
  unfold cb_run. pose proof cb_init_inv as G. revert G. generalize cb_init.
  induction ups as [|u ups IH]; intros s G; cbn [fold_left]; [exact G|]. apply IH. apply cb_update_inv. exact G.
Qed.

Lemma cb_run_snoc ups up : cb_run (ups ++ [up]) = cb_update (cb_run ups) up.
Proof. unfold cb_run. rewrite fold_left_app. reflexivity. Qed.

(** a key is configured after a history iff some update of the history configured it *)
Lemma cb_run_present ups k :
  amem k (cb_cfg (cb_run ups)) = existsb (fun up => amem k (cb_policies up)) ups.
Proof.
  induction ups as [|up ups IH] using rev_ind; [reflexivity|].
  rewrite cb_run_snoc, existsb_app. cbn [existsb]. rewrite orb_false_r, <- IH.
  unfold amem at 1. rewrite (cb_update_spec _ up k (cb_run_inv ups)).
  rewrite <- (amem_rev k (cb_policies up)). unfold amem.
  destruct (aget k (rev (cb_policies up))); [rewrite orb_true_r; reflexivity|].
  destruct (aget k (cb_cfg (cb_run ups))); reflexivity.
Qed.

(** C16: after any sequence of cluster updates the configuration is the one derived from the LATEST update
    alone; a key configured by an earlier update only is disabled; a key never configured is absent *)
Lemma cb_latest_only ups up k :
  aget k (cb_cfg (cb_run (ups ++ [up]))) =
    match aget k (rev (cb_policies up)) with
    | Some p => Some p
    | None => if existsb (fun u => amem k (cb_policies u)) ups then Some cb_disabled else None
    end.
Proof.
  rewrite cb_run_snoc, (cb_update_spec _ up k (cb_run_inv ups)).
  destruct (aget k (rev (cb_policies up))); [reflexivity|].
  rewrite <- cb_run_present. unfold amem. destruct (aget k (cb_cfg (cb_run ups))); reflexivity.
Qed.

(** what one cluster contributes: enabled with (threshold, volume) iff both are non-zero, else disabled; nothing without outlier detection *)
Lemma cb_of_cluster_spec c :
  cb_of_cluster c = match c_outlier c with
                    | None => None
                    | Some (thr, vol) => Some (if (negb (N.eqb thr 0) && negb (N.eqb vol 0))%bool then (true, thr, vol) else cb_disabled)
                    end.
Proof.
  unfold cb_of_cluster. destruct (c_outlier c) as [[thr vol]|]; [|reflexivity].
  destruct (N.eqb vol 0), (N.eqb thr 0); reflexivity.
Qed.

(** a consumer registered after k updates starts from the cache it is replayed *)
Lemma cb_late_registration p replay :
  p_cb (p_register p KCb replay) = Some (fold_left (fun s u => match u_type u with TCl => cb_update s (u_map u) | _ => s end) replay cb_init).
Proof.
  unfold p_register.
  assert (G : forall s0 p0, p_cb p0 = Some s0 ->
              p_cb (fold_left p_apply replay p0) = Some (fold_left (fun s u => match u_type u with TCl => cb_update s (u_map u) | _ => s end) replay s0)).
  { induction replay as [|u r IH]; intros s0 p0 H; cbn [fold_left]; [exact H|]. apply IH.
    unfold p_apply. destruct (u_type u); cbn [p_cb]; rewrite ?H; reflexivity. }
  apply G. reflexivity.
Qed.

(** ---- C17 ---- *)
Definition rt_inv (s : rt_state) : Prop := forall k, amem k (rt_pol s) = smem k (rt_last s).

Lemma fold_aset_keys_mem {V} (f : string -> V) keys : forall (acc : list (string * V)) k,
  amem k (fold_left (fun acc k' => aset k' (f k') acc) keys acc) = smem k keys || amem k acc.
Proof.
  induction keys as [|k0 keys IH]; intros acc k; cbn [fold_left smem]; [reflexivity|].
  rewrite IH. unfold amem. rewrite aget_aset. destruct (String.eqb_spec k k0) as [->|Hne].
  - rewrite orb_true_r. reflexivity.
  - cbn [orb]. reflexivity.
Qed.

Lemma fold_adel_mem {V} (keep : string -> bool) last : forall (acc : list (string * V)) k,
  amem k (fold_left (fun acc k' => if keep k' then acc else adel k' acc) last acc) =
  amem k acc && negb (smem k last && negb (keep k)).
Proof.
  induction last as [|k0 last IH]; intros acc k; cbn [fold_left smem]; [rewrite andb_true_r; reflexivity|].
  rewrite IH. destruct (String.eqb_spec k k0) as [->|Hne]; cbn [orb].
  - destruct (keep k0) eqn:Ek; cbn [negb andb].
    + rewrite !andb_false_r. cbn [negb]. reflexivity.
    + unfold amem. rewrite aget_adel_same. cbn [orb negb andb]. rewrite ?andb_false_r. reflexivity.
  - destruct (keep k0); [reflexivity|]. unfold amem. rewrite aget_adel_other by exact Hne. reflexivity.
Qed.

(** after an update the installed keys are exactly the keys derived from the tables handed to the handler *)
Lemma rt_update_keys s up k :
  rt_inv s ->
  amem k (rt_pol (rt_update s up)) = smem k (map fst (flat_map (fun kv => table_finals (snd kv)) up)).
Proof.
  intros J. unfold rt_update. cbn [rt_pol].
  set (finals := flat_map (fun kv => table_finals (snd kv)) up). set (keys := map fst finals).
  rewrite (fold_adel_mem (fun k' => smem k' keys)).
  rewrite (fold_aset_keys_mem (fun k' => map snd (filter (fun kv => String.eqb (fst kv) k') finals))).
  rewrite (J k). destruct (smem k keys), (smem k (rt_last s)); reflexivity.
Qed.

Lemma rt_update_inv s up : rt_inv s -> rt_inv (rt_update s up).
Proof. intros J k. rewrite (rt_update_keys s up k J). reflexivity. Qed.

Lemma fold_aset_keys_get {V} (f : string -> V) keys : forall (acc : list (string * V)) k,
  smem k keys = true -> aget k (fold_left (fun acc k' => aset k' (f k') acc) keys acc) = Some (f k).
Proof.
  induction keys as [|k0 keys IH]; intros acc k Hk; cbn [fold_left smem] in *; [discriminate|].
  destruct (smem k keys) eqn:Es.
  - apply IH. exact Es.
  - rewrite orb_false_r in Hk. apply String.eqb_eq in Hk. subst k0.
    assert (G : forall (l : list string) acc0, smem k l = false -> aget k (fold_left (fun acc k' => aset k' (f k') acc) l acc0) = aget k acc0).
    { induction l as [|x l IHl]; intros acc0 Hl; cbn [fold_left smem] in *; [reflexivity|].
      apply orb_false_iff in Hl. destruct Hl as [Hx Hl]. rewrite IHl by exact Hl. apply aget_aset_other.
      intros ->. rewrite String.eqb_refl in Hx. discriminate. }
    rewrite G by exact Es. apply aget_aset_same.
Qed.

Lemma fold_adel_get {V} (keep : string -> bool) last : forall (acc : list (string * V)) k,
  keep k = true -> aget k (fold_left (fun acc k' => if keep k' then acc else adel k' acc) last acc) = aget k acc.
Proof.
  induction last as [|k0 last IH]; intros acc k Hk; cbn [fold_left]; [reflexivity|].
  rewrite IH by exact Hk. destruct (keep k0) eqn:E0; [reflexivity|]. apply aget_adel_other. intros ->. congruence.
Qed.

(** and each installed value is the list of policies those tables configure for that key *)
Lemma rt_update_values s up k :
  let finals := flat_map (fun kv => table_finals (snd kv)) up in
  smem k (map fst finals) = true ->
  aget k (rt_pol (rt_update s up)) = Some (map snd (filter (fun kv => String.eqb (fst kv) k) finals)).
Proof.
  intros finals Hk. unfold rt_update. cbn [rt_pol]. fold finals.
  rewrite (fold_adel_get (fun k' => smem k' (map fst finals))) by exact Hk.
  apply (fold_aset_keys_get (fun k' => map snd (filter (fun kv => String.eqb (fst kv) k') finals))). exact Hk.
Qed.

Lemma rt_init_inv : rt_inv rt_init.
Proof. intros k. reflexivity. Qed.

(** the keys one route table contributes: every destination cluster, and cluster|method for every listed method *)
Lemma table_keys_spec v k :
  amem k (table_finals v) = smem k (map fst (rt_of_rc v)).
Proof.
  rewrite smem_map_fst. transitivity (amem k (rev (rt_of_rc v))); [|apply amem_rev].
  unfold table_finals, amem. rewrite fold_aset_get_rev. cbn [aget].
  destruct (aget k (rev (rt_of_rc v))); reflexivity.
Qed.

(** ---- C18 ---- *)
(** tokens-per-fill of the LAST chain (in listener order) for a port *)
Definition last_chain (p : N) (l : lisres) : option N :=
  fold_left (fun acc f => match nf_inline f with
                          | Some rc => if N.eqb (nf_port f) p then Some (rc_tpf rc) else acc
                          | None => acc end) l None.

Lemma port_get_cons p q t m : port_get p ((q, t) :: m) = if N.eqb q p then Some t else port_get p m.
Proof. unfold port_get. cbn [find fst snd]. destruct (N.eqb q p); reflexivity. Qed.

Lemma port_get_filter p q (m : list (N * N)) :
  port_get p (filter (fun x => negb (N.eqb (fst x) q)) m) = if N.eqb p q then None else port_get p m.
Proof.
  induction m as [|[a b] m IH]; cbn [filter fst]; [destruct (N.eqb p q); reflexivity|].
  destruct (N.eqb_spec a q) as [->|Hne]; cbn [negb].
  - rewrite IH, port_get_cons. destruct (N.eqb_spec p q) as [->|Hpq]; [reflexivity|].
    destruct (N.eqb_spec q p); [congruence|reflexivity].
  - rewrite !port_get_cons, IH. destruct (N.eqb_spec a p) as [->|Hap].
    + destruct (N.eqb_spec p q); [congruence|reflexivity].
    + reflexivity.
Qed.

Lemma limiter_fold_get p (l : lisres) : forall acc,
  port_get p (fold_left (fun acc f => match nf_inline f with
                                      | Some rc => (nf_port f, rc_tpf rc) :: filter (fun x => negb (N.eqb (fst x) (nf_port f))) acc
                                      | None => acc end) l acc) =
  fold_left (fun a f => match nf_inline f with
                        | Some rc => if N.eqb (nf_port f) p then Some (rc_tpf rc) else a
                        | None => a end) l (port_get p acc).
Proof.
  induction l as [|f l IH]; intros acc; cbn [fold_left]; [reflexivity|].
  rewrite IH. f_equal. destruct (nf_inline f) as [rc|]; [|reflexivity].
  rewrite port_get_cons, port_get_filter. destruct (N.eqb_spec (nf_port f) p) as [Heq|Hne]; [reflexivity|].
  destruct (N.eqb_spec p (nf_port f)); [congruence|reflexivity].
Qed.

(** C18: the QPS limit is the tokens-per-fill of the inbound listener's chain for the configured port, else of the
    port-less chain, else unlimited; zero means unlimited; no inbound listener means unlimited *)
Lemma limiter_qps_spec port up :
  limiter_qps port up =
    match aget reserved_lds up with
    | Some (VLis l) =>
        match last_chain port l with
        | Some t => limit_of_tokens t
        | None => match last_chain 0 l with Some t => limit_of_tokens t | None => None end
        end
    | _ => None
    end.
Proof.
  unfold limiter_qps, limiter_ports, last_chain. destruct (aget reserved_lds up) as [[l|r|c|e|]|]; try reflexivity.
  rewrite !(limiter_fold_get _ l []). reflexivity.
Qed.

Lemma limit_zero_unlimited : limit_of_tokens 0 = None.
Proof. reflexivity. Qed.

(** every handler run pushes the new value to the running limiter *)
Lemma lim_update_pushes s up :
  lm_pushes (lim_update s up) = (lm_pushes s ++ [limiter_qps (lm_port s) up])%list /\ lm_qps (lim_update s up) = limiter_qps (lm_port s) up.
Proof. split; reflexivity. Qed.

Lemma lim_late_registration p port replay :
  exists s, p_lim (p_register p (KLimiter port) replay) = Some s /\ lm_port s = port /\ lm_pushes s = [lm_qps s].
Proof.
  unfold p_register.
  assert (G : forall s0 p0, p_lim p0 = Some s0 -> exists s1, p_lim (fold_left p_apply replay p0) = Some s1 /\ lm_port s1 = lm_port s0).
  { induction replay as [|u r IH]; intros s0 p0 H; cbn [fold_left]; [exists s0; split; [exact H|reflexivity]|].
    unfold p_apply at 2. destruct (u_type u); cbn [p_lim]; try (apply IH; exact H).
    rewrite H. cbn [option_map]. destruct (IH (lim_update s0 (u_map u)) {| p_cb := p_cb p0; p_rt := p_rt p0; p_lim := Some (lim_update s0 (u_map u)) |} eq_refl) as (s1 & H1 & H2).
    exists s1. split; [exact H1|exact H2]. }
  destruct (G {| lm_port := port; lm_qps := None; lm_pushes := [] |}
              {| p_cb := p_cb p; p_rt := p_rt p; p_lim := Some {| lm_port := port; lm_qps := None; lm_pushes := [] |} |} eq_refl) as (s1 & H1 & H2).
  cbn [p_lim]. rewrite H1. cbn [option_map]. eexists. split; [reflexivity|]. split; [exact H2|reflexivity].
Qed.

Lemma C16_example_proof :
  let mk thr vol := VCl {| c_dtype := 0; c_lb := 0; c_epname := "e"; c_inline := None; c_outlier := Some (thr, vol) |} in
  let none := VCl {| c_dtype := 0; c_lb := 0; c_epname := "e"; c_inline := None; c_outlier := None |} in
  map (fun k => aget k (cb_cfg (cb_run [[("a", mk 10 5); ("b", mk 0 5)]; [("b", mk 50 100); ("c", none)]])))
      ["a"; "b"; "c"; "d"] = [Some cb_disabled; Some (true, 50, 100); None; None].
Proof. vm_compute. reflexivity. Qed.

Lemma C17_example_proof :
  let rt cluster n methods := {| r_match := HttpMatch "" "/" []; r_clusters := [(cluster, 1)]; r_timeout := 0%Z;
                                 r_retry := {| rp_on := "5xx"; rp_num := n; rp_pertry := 2000000000%Z; rp_idle := 0%Z; rp_cbrate := 0;
                                               rp_backoff := Some (10000000%Z, 50000000%Z); rp_methods := methods |} |} in
  let table rs := VRc {| rc_http := Some [("vh", rs)]; rc_thrift := None; rc_maxtok := 0; rc_tpf := 0 |} in
  let s1 := rt_update rt_init [("A", table [rt "ca" 3 ["m1"]]); ("B", table [rt "cb" 2 []])] in
  let s2 := rt_update s1 [("A", table [rt "ca" 3 ["m1"]]); ("B", table [rt "cb2" 2 []])] in
  (map fst (sort_map (rt_pol s1)), map fst (sort_map (rt_pol s2)),
   option_map (map (fun p => (rq_times p, rq_dur p, rq_bo p))) (aget "ca|m1" (rt_pol s2))) =
  (["ca"; "ca|m1"; "cb"], ["ca"; "ca|m1"; "cb2"], Some [(3, 6000, (2, 10, 50))]).
Proof. vm_compute. reflexivity. Qed.

Lemma C18_example_proof :
  let nf port tpf := {| nf_thrift := false; nf_rcname := ""; nf_port := port;
                        nf_inline := Some {| rc_http := None; rc_thrift := None; rc_maxtok := 100; rc_tpf := tpf |} |} in
  let up l := [(reserved_lds, VLis l)] in
  (limiter_qps 8888 (up [nf 0 7; nf 8888 40]), limiter_qps 9999 (up [nf 0 7; nf 8888 40]), limiter_qps 8888 (up [nf 8888 0; nf 0 7]),
   limiter_qps 8888 [("other", VLis [nf 8888 40])]) = (Some 40, Some 7, None, None).
Proof. vm_compute. reflexivity. Qed.
