(** C20 — Node identity and bootstrap validation.
    Statements only; proofs are [exact] of lemmas in Proofs/BootProofs.v. *)
From Xds Require Import Model.Base Model.Fqdn Model.Boot Proofs.BootProofs.
Open Scope string_scope.

(** Initialisation fails exactly when the pod namespace, name or IP is missing/empty. *)
Theorem C20_required_env : forall e,
  new_bootstrap e = None <-> e_ns e = "" \/ e_name e = "" \/ e_ip e = "".
Proof. exact new_bootstrap_none_iff. Qed.
Print Assumptions C20_required_env.

(** Node id, domain default, metadata source and expansion namespace of every successful configuration. *)
Theorem C20_node_id : forall e b,
  new_bootstrap e = Some b ->
  e_ns e <> "" /\ e_name e <> "" /\ e_ip e <> "" /\
  b_node_id b = node_id (e_ip e) (e_name e) (e_ns e) (if String.eqb (e_domain e) "" then "cluster.local" else e_domain e) /\
  b_domain b = (if String.eqb (e_domain e) "" then "cluster.local" else e_domain e) /\
  b_meta b = parse_meta (e_metas e) (e_istio e) (e_ip e) /\
  b_ns b = match aget "NAMESPACE" (b_meta b) with
           | Some v => if String.eqb (str_of v) "" then e_ns e else str_of v
           | None => e_ns e
           end.
Proof. exact new_bootstrap_some. Qed.
Print Assumptions C20_node_id.

Theorem C20_node_id_format : forall ip name ns dom,
  node_id ip name ns dom = "sidecar~" ++ ip ++ "~" ++ name ++ "." ++ ns ++ "~" ++ ns ++ ".svc." ++ dom.
Proof. exact (fun _ _ _ _ => eq_refl). Qed.
Print Assumptions C20_node_id_format.

(** ISTIO_VERSION defaulted when no (or invalid) metadata is given. *)
Theorem C20_metadata_default : forall e b,
  new_bootstrap e = Some b -> (e_metas e = Unset \/ e_metas e = Invalid) ->
  b_meta b = [("ISTIO_VERSION", MStr (e_istio e))].
Proof. exact default_metadata. Qed.
Print Assumptions C20_metadata_default.

(** User-supplied fields are carried; only INSTANCE_IPS may be rewritten, and only when supplied. *)
Theorem C20_metadata_carried : forall ip kvs k,
  k <> "INSTANCE_IPS" -> aget k (fix_instance_ips ip kvs) = aget k kvs.
Proof. exact other_fields_carried. Qed.
Print Assumptions C20_metadata_carried.

Theorem C20_instance_ips_absent_untouched : forall ip kvs,
  aget "INSTANCE_IPS" kvs = None -> fix_instance_ips ip kvs = kvs.
Proof. exact absent_key_untouched. Qed.
Print Assumptions C20_instance_ips_absent_untouched.

(** The pod IP is an ELEMENT of the comma-separated INSTANCE_IPS whenever the key is supplied
    (not merely a substring), and the supplied list is kept. *)
Theorem C20_instance_ips_member : forall ip kvs v,
  no_char comma ip = true ->
  aget "INSTANCE_IPS" kvs = Some v ->
  exists s, aget "INSTANCE_IPS" (fix_instance_ips ip kvs) = Some (MStr s) /\
            ip_listed s ip = true /\
            (str_of v = "" \/ String.prefix (str_of v) s = true).
Proof. exact instance_ips_member. Qed.
Print Assumptions C20_instance_ips_member.

Theorem C20_namespace_override : forall e b,
  new_bootstrap e = Some b ->
  b_ns b = match e_metas e with
           | Fields kvs => match aget "NAMESPACE" kvs with
                           | Some v => if String.eqb (str_of v) "" then e_ns e else str_of v
                           | None => e_ns e
                           end
           | _ => e_ns e
           end.
Proof. exact namespace_override. Qed.
Print Assumptions C20_namespace_override.

(** Initialising twice keeps the first manager, whatever follows. *)
Theorem C20_first_wins : forall ops1 m ops2,
  init_run ops1 = Some m -> init_run (ops1 ++ ops2) = Some m.
Proof. exact init_first_wins. Qed.
Print Assumptions C20_first_wins.

Theorem C20_failed_init_installs_nothing : forall ops id,
  init_run ops = None -> init_run (ops ++ [InitCall false id]) = None.
Proof. exact init_failed_leaves_none. Qed.
Print Assumptions C20_failed_init_installs_nothing.

Example C20_example :
  let e := {| e_ns := "default"; e_name := "pod-1"; e_ip := "10.0.0.1"; e_domain := ""; e_istio := "1.13";
              e_metas := Fields [("INSTANCE_IPS", MStr "10.0.0.10,10.0.0.2"); ("NAMESPACE", MStr "prod"); ("x", MOther 1)] |} in
  new_bootstrap e = Some {| b_node_id := "sidecar~10.0.0.1~pod-1.default~default.svc.cluster.local";
                            b_meta := [("INSTANCE_IPS", MStr "10.0.0.10,10.0.0.2,10.0.0.1"); ("NAMESPACE", MStr "prod"); ("x", MOther 1)];
                            b_ns := "prod"; b_domain := "cluster.local" |}
  /\ no_char comma (e_ip e) = true.
Proof. exact C20_example_proof. Qed.
