(** C19 — Idle resources are evicted and unsubscribed; used and reserved ones stay.
    Statements only; proofs are [exact] of lemmas in Proofs/SweepProofs.v.
    (The model's clock [s_now] is logical; that the implementation's sweeps happen every expiry period of real
    time is observed by the check around real sweeps, not proved.) *)
From Xds Require Import Model.Base Model.Fqdn Model.Proto Model.Decode Model.DecodeCheck Model.Pick Model.Route Model.Mw Model.Sys Model.SysCheck.
From Xds Require Import Model.FullView Proofs.DecodeProofs Proofs.C01Proofs Proofs.SweepProofs Proofs.FullProofs.
Open Scope string_scope.

(** One sweep, for every type and name at once: exactly the idle names disappear from the cache, from the access
    records and from the interest sets; nothing else changes. *)
Theorem C19_sweep : forall s t k,
  let s' := fst (sweep s) in
  aget k (tget t (s_cache s')) = (if smem k (idle_names s t) then None else aget k (tget t (s_cache s))) /\
  aget k (tget t (s_meta s')) = (if smem k (idle_names s t) then None else aget k (tget t (s_meta s))) /\
  smem k (watched_names s' t) = (if smem k (idle_names s t) then false else smem k (watched_names s t)).
Proof. exact sweep_spec. Qed.
Print Assumptions C19_sweep.

(** idle = has an access record, is not the reserved inbound listener, and was last looked up more than the expiry
    period ago (in every reachable state there is one access record per name) *)
Theorem C19_idle : forall s t k, meta_nd s ->
  smem k (idle_names s t) =
  match aget k (tget t (s_meta s)) with
  | Some tm => negb (is_reserved t k) && N.ltb (tm + expire_ms) (s_now s)
  | None => false
  end.
Proof. exact idle_spec. Qed.
Print Assumptions C19_idle.

Theorem C19_records_unique : forall c o h, meta_nd (final c o h).
Proof. exact reachable_meta_nd. Qed.
Print Assumptions C19_records_unique.

Theorem C19_idle_is_evicted : forall s t k tm, meta_nd s ->
  aget k (tget t (s_meta s)) = Some tm -> (tm + expire_ms < s_now s)%N -> is_reserved t k = false ->
  aget k (tget t (s_cache (fst (sweep s)))) = None /\ smem k (watched_names (fst (sweep s)) t) = false.
Proof. exact idle_is_evicted. Qed.
Print Assumptions C19_idle_is_evicted.

Theorem C19_recently_used_survives : forall s t k tm, meta_nd s ->
  aget k (tget t (s_meta s)) = Some tm -> (s_now s <= tm + expire_ms)%N ->
  aget k (tget t (s_cache (fst (sweep s)))) = aget k (tget t (s_cache s)) /\
  smem k (watched_names (fst (sweep s)) t) = smem k (watched_names s t).
Proof. exact recently_used_survives. Qed.
Print Assumptions C19_recently_used_survives.

(** a lookup that hits sets the access record to the current time *)
Theorem C19_lookup_refreshes : forall s t n v,
  aget n (tget t (s_cache s)) = Some v -> aget n (tget t (s_meta s)) <> None ->
  aget n (tget t (s_meta (fst (fst (lookup s t n))))) = Some (s_now s).
Proof. exact lookup_refreshes. Qed.
Print Assumptions C19_lookup_refreshes.

Theorem C19_reserved_survives : forall s,
  aget reserved_lds (tget TLis (s_cache (fst (sweep s)))) = aget reserved_lds (tget TLis (s_cache s)) /\
  smem reserved_lds (watched_names (fst (sweep s)) TLis) = smem reserved_lds (watched_names s TLis).
Proof. exact reserved_survives. Qed.
Print Assumptions C19_reserved_survives.

(** every eviction sends a request of the type whose name list is the interest set without the evicted name *)
Theorem C19_eviction_unsubscribes : forall s t n, s_closed s = false -> s_sender_ok s = true ->
  snd (evict_one s t n) =
  [(s_stream s, {| q_type := t; q_version := tget t (s_version s); q_nonce := tget t (s_nonce s);
                   q_names := sdel n (watched_names s t); q_error := false |})].
Proof. exact evict_request. Qed.
Print Assumptions C19_eviction_unsubscribes.

(** a later lookup of an evicted name misses, subscribes again and sends a request listing it; the value it then
    obtains is the control plane's current one by C01 ([C01_fold_accepted]) *)
Theorem C19_lookup_after_eviction : forall s t n, aget n (tget t (s_cache s)) = None ->
  let '(s', rq, r) := lookup s t n in
  r = LMiss /\ smem n (watched_names s' t) = true /\
  (s_closed s = false -> s_sender_ok s = true -> exists q, rq = [(s_stream s, q)] /\ q_type q = t /\ smem n (q_names q) = true).
Proof. exact lookup_after_eviction. Qed.
Print Assumptions C19_lookup_after_eviction.

(** OVER HISTORIES, for all access patterns relative to the sweep: in any reachable state a lookup of (t, n) hits; then
    ANYTHING happens - lookups, responses, subscriptions, stream failures, resolutions, clock ticks - except another sweep
    or the test device back-dating this very entry, for at most the expiry period of clock time; then a sweep runs: the
    entry is still cached and still subscribed. *)
Theorem C19_used_within_period_survives : forall c o pre t n mid v,
  aget n (tget t (s_cache (final c o pre))) = Some v ->
  forallb (quiet_for t n) mid = true -> (ticks mid <= expire_ms)%N ->
  let s := final c o (pre ++ OLookup t n :: mid) in
  aget n (tget t (s_cache (fst (sweep s)))) = aget n (tget t (s_cache s)) /\
  smem n (watched_names (fst (sweep s)) t) = smem n (watched_names s t).
Proof. exact used_within_period_survives'. Qed.
Print Assumptions C19_used_within_period_survives.

(** every cached entry has an access record, in every reachable state: nothing can stay cached forever unnoticed *)
Theorem C19_every_entry_can_expire : forall c o h t n,
  amem n (tget t (s_cache (final c o h))) = true -> amem n (tget t (s_meta (final c o h))) = true.
Proof. exact reachable_cover. Qed.
Print Assumptions C19_every_entry_can_expire.

(** Eviction inside the per-key fold of the whole history: see C01_refinement_full; its sweep clause is
    [fv_step .. OSweep]: a key with an access record older than the expiry period (and not reserved) loses its content,
    its access record and its place in the interest set; every other key is untouched.  The fold is evaluated on the
    implementation's traces around real sweeps ([spec_full]). *)
Theorem C19_sweep_in_the_fold : forall c o t n s, finv s -> absf t n (fst (sweep s)) = fv_step c o t n (absf t n s) OSweep.
Proof. exact absf_sweep. Qed.
Print Assumptions C19_sweep_in_the_fold.

Theorem C19_example :
  let c := {| sc_nds_required := false; sc_f := {| f_ns := "default"; f_dom := "cluster.local" |} |} in
  let o := mk_oracle [] [] [] in
  let cl n := RGood {| cl_name := n; cl_type := Some 3; cl_lb := 0; cl_eds_service := None; cl_outlier := None; cl_load := None |} in
  let h := [OSubscribe TCl "a"; OSubscribe TCl "b"; OResp "1" "n1" (PCds [cl "a"; cl "b"]); OTick 20000; OLookup TCl "b"; OTick 20000; OSweep] in
  (map (fun n => is_some (aget n (tget TCl (s_cache (final c o h))))) ["a"; "b"], watched_names (final c o h) TCl) = ([false; true], ["b"]).
Proof. exact C19_example_proof. Qed.
