(** placeholder *)
From Xds Require Import Model.SysCheck.
Theorem C19_placeholder : True. Proof. exact I. Qed.
