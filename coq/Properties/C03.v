(** placeholder *)
From Xds Require Import Model.SysCheck.
Theorem C03_placeholder : True. Proof. exact I. Qed.
