(** C03 — Requests always carry exactly the current interest set of their type.
    Statements only; proofs are [exact] of lemmas in Proofs/SysProofs.v. *)
From Xds Require Import Model.Base Model.Fqdn Model.Proto Model.Decode Model.Pick Model.Route Model.Mw Model.Sys Proofs.SysProofs.
From Xds Require Import Model.DecodeCheck Model.SysCheck Model.Queue Proofs.WireProofs Proofs.QueueProofs Proofs.QueueMonoProofs.
From Coq Require Import Sorting.Sorted.
Open Scope string_scope.

(** Every request a subscription change emits is of that type, is sent on the live stream, and lists exactly
    the interest set as it is after the change. *)
Theorem C03_request_carries_interest : forall s t n rm,
  let '(s', rq) := watch s t n rm in
  forall sq, In sq rq -> q_type (snd sq) = t /\ q_names (snd sq) = watched_names s' t /\ fst sq = s_stream s' /\ q_error (snd sq) = false.
Proof. exact watch_request. Qed.
Print Assumptions C03_request_carries_interest.

(** The interest set of a type changes only by that name being added (subscription, lookup miss) or removed (eviction). *)
Theorem C03_interest_change : forall s t n rm t',
  watched_names (fst (watch s t n rm)) t' =
  if rtype_eqb t' t then (if rm then sdel n (watched_names s t) else sadd n (watched_names s t)) else watched_names s t'.
Proof. exact watch_interest. Qed.
Print Assumptions C03_interest_change.

(** A lookup that hits changes nothing and sends nothing; one that misses adds exactly its name. *)
Theorem C03_lookup : forall s t n t',
  let '(s', rq, r) := lookup s t n in
  match r with
  | LHit _ => watched_names s' t' = watched_names s t' /\ rq = []
  | _ => watched_names s' t' = (if rtype_eqb t' t then sadd n (watched_names s t) else watched_names s t')
  end.
Proof. exact lookup_interest. Qed.
Print Assumptions C03_lookup.

(** Responses and reconnects never change the interest sets. *)
Theorem C03_responses_keep_interest : forall c o s v n p, s_watched (fst (fst (handle_resp c o s v n p))) = s_watched s.
Proof. exact handle_resp_interest. Qed.
Print Assumptions C03_responses_keep_interest.

Theorem C03_reconnect_keeps_interest : forall s, s_watched (fst (reconnect s)) = s_watched s.
Proof. exact reconnect_interest. Qed.
Print Assumptions C03_reconnect_keeps_interest.

(** The replies to responses list the interest set too (see C02_ack / C02_nack: [q_names := ws] with
    [ws] the interest set of the type), and so do the re-requests after a reconnect (C04_resubscribe). *)

(** QUIESCENCE OVER HISTORIES.  [runw] runs a history and logs every request with the stream it was sent on.  After ANY
    history - lookups, bursts, responses, evictions, resolutions, reconnects, Send failures - if the client is open and
    its sender has a stream, the LAST request of every subscribed type on the live stream lists exactly the interest set
    of that type: the control plane's view of the subscriptions equals the client's. *)
Theorem C03_quiescent_wire : forall c o h,
  let '(s, sent, _) := runw c o init_state h [] [] in
  s_closed s = false -> s_sender_ok s = true ->
  forall t ws, tget t (s_watched s) = Some ws ->
  exists q, last_on t (s_stream s) sent = Some q /\ q_names q = ws /\ q_type q = t.
Proof. exact quiescent_wire. Qed.
Print Assumptions C03_quiescent_wire.

(** the logged run is the run of Model/Sys.v *)
Theorem C03_logged_run : forall c o h s sent rcvd,
  fst (fst (runw c o s h sent rcvd)) = fst (run c o s h) /\
  snd (fst (runw c o s h sent rcvd)) = (sent ++ flat_map o_reqs (snd (run c o s h)))%list.
Proof. exact runw_is_run. Qed.
Print Assumptions C03_logged_run.

(** non-vacuity: a subscription, a missing lookup, an accepted response, a reconnect and another missing lookup - the
    last CDS request on the live stream (1) lists the whole interest set; nonce "n7" was only ever sent on stream 0 *)
Theorem C03_example :
  let c := {| sc_nds_required := false; sc_f := {| f_ns := "default"; f_dom := "cluster.local" |} |} in
  let o := mk_oracle [] [] [] in
  let cl n := RGood {| cl_name := n; cl_type := Some 3; cl_lb := 0; cl_eds_service := None; cl_outlier := None; cl_load := None |} in
  let h := [OSubscribe TCl "a"; OLookup TCl "b"; OResp "7" "n7" (PCds [cl "a"]); ORecvErr false; OLookup TCl "c"] in
  let '(s, sent, rcvd) := runw c o init_state h [] [] in
  (s_stream s, option_map q_names (last_on TCl (s_stream s) sent), map (fun sq => (fst sq, q_nonce (snd sq))) sent, rcvd) =
  (1%N, Some ["c"; "b"; "a"], [(0%N, ""); (0%N, ""); (0%N, "n7"); (1%N, ""); (1%N, "")], [(0%N, "n7")]).
Proof. exact wire_example_proof. Qed.

(** WITH THE ASYNCHRONOUS SENDER (Model/Queue.v).  The theorems above treat a request as sent when it is built; in the
    code it is built and queued under the client lock and sent later by the sender goroutine, which may meanwhile lose
    its stream or be handed a new one (it then re-subscribes from the current state, ahead of the older requests still
    queued).  For EVERY interleaving of interest changes, sends, failing sends, reconnects and hand-overs: once nothing is
    in flight (queue empty, no stream waiting to be taken, the sender on the newest stream) the last request of every
    subscribed type on the newest stream lists exactly the interest set. *)
Theorem C03_quiescent_wire_async : forall h, quiescent (qrun h) ->
  forall t ws, tget t (q_sub (qrun h)) = Some ws -> last_sent t (q_live (qrun h)) (q_sent (qrun h)) = Some ws.
Proof. exact async_quiescent_wire. Qed.
Print Assumptions C03_quiescent_wire_async.

(** the transient the asynchrony allows (and which the wire monitor of the stress runs leaves out): on a new stream the
    re-subscription is fresher than an older request still queued behind it, so the listed names shrink once and catch up *)
Theorem C03_async_example :
  let h := [QChange TCl ["a"]; QSend; QReconnect; QChange TCl ["b"; "a"]; QChange TCl ["c"; "b"; "a"]; QPickup 0; QSend; QSend] in
  (map (fun x => (fst x, snd (snd x))) (q_sent (qrun h)), q_queue (qrun h)) =
  ([(0%N, ["a"]); (1%N, ["c"; "b"; "a"]); (1%N, ["b"; "a"]); (1%N, ["c"; "b"; "a"])], []).
Proof. exact async_example. Qed.

(** ... and apart from that re-subscription the wire never goes backwards: while interest sets only grow (lookups that
    miss, acknowledgements; no eviction), for EVERY interleaving of changes, sends, failing sends, reconnects, hand-overs
    and pick-ups (any number of queued requests discarded while the sender waits for the client lock), the name lists
    of the requests of a type sent on a stream - the first one left out on every stream but the first - form a chain
    under inclusion.  This is the statement the wire monitor of the concurrent runs evaluates on the implementation. *)
Theorem C03_monotone_wire_async : forall h, grow_only q_init h ->
  forall t j, StronglySorted (@incl string) (after_resub j (sent_on t j (q_sent (qrun h)))).
Proof. exact monotone_wire. Qed.
Print Assumptions C03_monotone_wire_async.

Theorem C03_monotone_wire_example :
  let h := [QChange TCl ["a"]; QSend; QReconnect; QChange TCl ["b"; "a"]; QChange TCl ["c"; "b"; "a"]; QPickup 0; QSend; QSend] in
  grow_only q_init h /\ sent_on TCl 1 (q_sent (qrun h)) = [["c"; "b"; "a"]; ["b"; "a"]; ["c"; "b"; "a"]] /\
  after_resub 1 (sent_on TCl 1 (q_sent (qrun h))) = [["b"; "a"]; ["c"; "b"; "a"]].
Proof. exact monotone_wire_example. Qed.
