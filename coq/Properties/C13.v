(** C13 — Decoders are total: hostile payloads produce errors, never panics.
    Statements only; proofs are [exact] of lemmas in Proofs/DecodeProofs.v.

    The model's decoders are total functions into [option] over the whole proto AST of
    Model/Proto.v (every tree proto.Unmarshal can return, every nil-able pointer possibly
    absent): there is no input on which they are undefined.  Every field access the Go
    decoders make through a pointer that may be nil goes through a nil-safe getter or an
    explicit guard (inspected line by line; listed in DESIGN.md section 5 C13), so no Panic
    outcome is reachable in the model; the theorems below characterise exactly when the
    outcome is an error (= the response is NACKed).  The bytes -> AST step is protobuf-go's
    and is covered by the differential run (partial, see DESIGN.md). *)
From Xds Require Import Model.Base Model.Fqdn Model.Proto Model.Decode Model.DecodeCheck Proofs.DecodeProofs.

(** A listener response is rejected iff some resource has the wrong type url, does not parse,
    contains an unparsable Thrift-proxy / HTTP-connection-manager / rate-limit payload that
    the scan reaches, a route without match or action, or an RDS reference without a name. *)
Theorem C13_lds_error_iff : forall o rs, is_some (decode_lds o rs) = all_ok listener_ok rs.
Proof. exact decode_lds_some. Qed.
Print Assumptions C13_lds_error_iff.

Theorem C13_rds_error_iff : forall o rs, is_some (decode_rds o rs) = all_ok rc_ok rs.
Proof. exact decode_rds_some. Qed.
Print Assumptions C13_rds_error_iff.

(** cluster and endpoint responses are rejected only for wrong type urls / unparsable bytes *)
Theorem C13_cds_error_iff : forall rs, is_some (decode_cds rs) = all_ok (fun _ => true) rs.
Proof. exact decode_cds_some. Qed.
Print Assumptions C13_cds_error_iff.

Theorem C13_eds_error_iff : forall rs, is_some (decode_eds rs) = all_ok (fun _ => true) rs.
Proof. exact decode_eds_some. Qed.
Print Assumptions C13_eds_error_iff.

(** the name table: rejected iff the response is empty or its first resource is bad *)
Theorem C13_nds_error_iff : forall rs, is_some (decode_nds rs) = nds_ok rs.
Proof. exact decode_nds_some. Qed.
Print Assumptions C13_nds_error_iff.

(** a well-formed payload is never reported as an error *)
Theorem C13_wellformed_accepted : forall o rs,
  (forall r, In r rs -> exists l, r = RGood l /\ listener_ok l = true) -> is_some (decode_lds o rs) = true.
Proof. exact (fun o rs H => eq_trans (decode_lds_some o rs) (proj2 (all_ok_true_iff listener_ok rs) H)). Qed.
Print Assumptions C13_wellformed_accepted.

(** the executable statement evaluated on the implementation holds of the model's own verdict *)
Theorem C13_spec_holds_of_model : forall o rs ov orr,
  total_spec (all_ok listener_ok rs)
    {| rc_ovalid := ov; rc_orates := orr; rc_resources := rs; rc_err := is_none (decode_lds o rs); rc_panic := false;
       rc_decoded := option_map sort_map (decode_lds o rs) |} = true.
Proof. exact (fun o rs ov orr => total_spec_model _ (decode_lds o rs) rs ov orr (decode_lds_some o rs)). Qed.
Print Assumptions C13_spec_holds_of_model.

Example C13_example :
  let o := mk_oracle [] [] [] in
  let bad_route := {| rt_name := "r"; rt_match := None; rt_action := ANone |} in
  let rc := {| rcp_name := "rc"; rcp_vhosts := [{| vh_name := "v"; vh_routes := [bad_route] |}] |} in
  decode_rds o [RGood rc] = None /\ decode_rds o [RGood {| rcp_name := "rc"; rcp_vhosts := [] |}] <> None /\
  decode_nds [] = None /\ decode_cds [RWrongUrl] = None /\ decode_eds [RUnparsable] = None.
Proof. exact C13_example_proof. Qed.
