(** placeholder *)
From Xds Require Import Model.SysCheck.
Theorem C10_placeholder : True. Proof. exact I. Qed.
