(** C10 — Resolution returns exactly the control plane's endpoints for the cluster.
    Statements only; proofs are [exact] of lemmas in Proofs/MwProofs.v and Proofs/SweepProofs.v.
    ("cacheable under the cluster name" is a flag of discovery.Result that the model does not carry; the check
    asserts it on the implementation's results through [res_spec].) *)
From Xds Require Import Model.Base Model.Fqdn Model.Proto Model.Decode Model.DecodeCheck Model.Pick Model.Route Model.Mw Model.Sys Model.SysCheck.
From Xds Require Import Model.FullView Proofs.MwProofs Proofs.SweepProofs Proofs.ResolveProofs Proofs.FullProofs.
Open Scope string_scope.

(** A successful resolution returns exactly the endpoints of the cluster's load assignment - the inline one if
    the cluster has one, otherwise the one cached under the cluster's EDS service name ([c_epname] is the cluster
    name when no service name is given: [C12_endpoint_name]) - localities concatenated in order, each endpoint's
    address:port and weight as decoded (C12), and never an empty list. *)
Theorem C10_exactly_the_endpoints : forall cl eds l,
  resolve cl eds = Some l ->
  exists c locs, cl = GOk c /\
    (c_inline c = Some locs \/ (c_inline c = None /\ eds (c_epname c) = GOk (Some locs))) /\
    l = concat locs /\ l <> [].
Proof. exact resolve_some_spec. Qed.
Print Assumptions C10_exactly_the_endpoints.

Theorem C10_complete : forall c eds locs,
  (c_inline c = Some locs \/ (c_inline c = None /\ eds (c_epname c) = GOk (Some locs))) ->
  concat locs <> [] -> resolve (GOk c) eds = Some (concat locs).
Proof. exact resolve_complete. Qed.
Print Assumptions C10_complete.

(** A cluster that cannot be fetched, an endpoint set that cannot be fetched, or no endpoints at all: an error. *)
Theorem C10_never_empty_success : forall cl eds, resolve cl eds <> Some [].
Proof. exact resolve_never_empty. Qed.
Print Assumptions C10_never_empty_success.

Theorem C10_cluster_error : forall eds, resolve GErr eds = None.
Proof. exact resolve_cluster_error. Qed.
Print Assumptions C10_cluster_error.

Theorem C10_endpoint_error : forall c eds, c_inline c = None -> eds (c_epname c) = GErr -> resolve (GOk c) eds = None.
Proof. exact resolve_endpoint_error. Qed.
Print Assumptions C10_endpoint_error.

Theorem C10_no_endpoints : forall c eds,
  (c_inline c = None /\ eds (c_epname c) = GOk None) \/
  (exists locs, (c_inline c = Some locs \/ (c_inline c = None /\ eds (c_epname c) = GOk (Some locs))) /\ concat locs = []) ->
  resolve (GOk c) eds = None.
Proof. exact resolve_no_endpoints. Qed.
Print Assumptions C10_no_endpoints.

(** Over histories: in any state of the client/manager machine, resolving [d] applies [resolve] to what is cached
    NOW for the cluster [d] and for the endpoint sets - and what is cached after any update history is the fold of
    the accepted responses (C01_refinement). *)
Theorem C10_resolves_the_cache : forall c o s d,
  o_lookup (snd (step c o s (OResolve d))) = Some (LResolved (resolve (cached_cluster s d) (cached_endpoints s))).
Proof. exact resolve_step. Qed.
Print Assumptions C10_resolves_the_cache.

Theorem C10_resolving_keeps_cache : forall c o s d, s_cache (fst (step c o s (OResolve d))) = s_cache s.
Proof. exact resolve_keeps_cache. Qed.
Print Assumptions C10_resolving_keeps_cache.

(** Over update histories, stated without reference to any state: after ANY history (of any length) of
    subscriptions, lookups, responses of every type, stream failures and earlier resolutions, resolving [d] returns
    [resolve] applied to the FOLDS of that history - the cluster [d] as last accepted ([cl_view]) and the endpoint
    set it names as last accepted ([ep_view]); [expected_resolution] is the statement the check evaluates on the
    implementation's results. *)
Theorem C10_resolution_of_history : forall c o pre d, forallb hist_op pre = true ->
  o_lookup (snd (step c o (final c o pre) (OResolve d))) = Some (LResolved (expected_resolution c o pre d)).
Proof. exact resolution_of_history. Qed.
Print Assumptions C10_resolution_of_history.

(** The same after ANY history whatsoever - eviction sweeps, clock ticks and back-dating included - with the complete
    per-key folds of Model/FullView.v. *)
Theorem C10_resolution_of_any_history : forall c o pre d,
  o_lookup (snd (step c o (final c o pre) (OResolve d))) = Some (LResolved (expected_resolution_full c o pre d)).
Proof. exact resolution_of_any_history. Qed.
Print Assumptions C10_resolution_of_any_history.

Theorem C10_cluster_is_fold : forall c o pre d, forallb hist_op pre = true ->
  aget d (tget TCl (s_cache (final c o pre))) = kv_val (cl_view c o pre d).
Proof. exact cluster_is_fold. Qed.
Theorem C10_endpoints_are_fold : forall c o pre e, forallb hist_op pre = true ->
  aget e (tget TEp (s_cache (final c o pre))) = kv_val (ep_view c o pre e).
Proof. exact endpoints_are_fold. Qed.
Print Assumptions C10_endpoints_are_fold.

Theorem C10_history_example :
  let c := {| sc_nds_required := false; sc_f := {| f_ns := "default"; f_dom := "cluster.local" |} |} in
  let o := mk_oracle [] [] [] in
  let cl n svc := RGood {| cl_name := n; cl_type := Some 3; cl_lb := 0; cl_eds_service := svc; cl_outlier := None; cl_load := None |} in
  let ep n addr := RGood {| cla_name := n; cla_localities := [[{| lbe_sock := Some {| sa_addr := addr; sa_port := 80 |}; lbe_weight := Some 3 |}]] |} in
  let h := [OResolve "c1"; OResp "1" "n1" (PCds [cl "c1" (Some "svc")]); OResolve "c1"; OResp "1" "m1" (PEds [ep "svc" "10.0.0.1"; ep "other" "10.0.0.9"])] in
  expected_resolution c o h "c1" = Some [("10.0.0.1:80", 3%N)].
Proof. exact C10_history_example_proof. Qed.

(** the statement evaluated on the implementation against the MESSAGES the control plane sent ([src_spec]: the
    cluster and load assignments as read back from the bytes by the independent summariser, decoded by the model
    decoders whose field preservation is C12) holds of the model *)
Theorem C10_spec_from_messages_of_model : forall c, rs_obs (r2_case c) = resolve (src_cluster c) (src_eds c) -> src_spec c = true.
Proof. exact src_spec_model. Qed.
Print Assumptions C10_spec_from_messages_of_model.

(** the executable statement evaluated on the implementation holds of the model's own result *)
Theorem C10_spec_of_model : forall cl eds desc,
  res_spec {| rs_cluster := cl; rs_eds := []; rs_desc := desc; rs_obs := resolve cl eds;
              rs_cacheable := true; rs_cache_key := desc; rs_panic := false |} = true.
Proof. exact res_spec_model. Qed.
Print Assumptions C10_spec_of_model.
