(** C11 — Listener and route decoding preserves the control plane's meaning.
    Statements only; proofs are [exact] of lemmas in Proofs/PreserveProofs.v.
    The preservation predicates ([route_preserved], [rc_preserved], [listener_preserved], ...,
    Model/DecodeCheck.v) are stated per field on the SOURCE message and are the same boolean
    functions the check evaluates on the implementation's output. *)
From Xds Require Import Model.Base Model.Fqdn Model.Proto Model.Decode Model.DecodeCheck.
From Xds Require Import Proofs.DecodeProofs Proofs.PreserveProofs.

(** Every accepted route keeps: path condition, the header conditions in force, destination
    clusters with weights, timeout, and the retry policy (attempts, per-try timeouts,
    retriable-header extensions, back-off base and maximum as sent). *)
Theorem C11_route_fields : forall o s d, decode_route o s = Some d -> route_preserved o s d = true.
Proof. exact route_preserved_model. Qed.
Print Assumptions C11_route_fields.

(** ... for every virtual host and route, in order. *)
Theorem C11_route_config : forall o s d, decode_rc o s = Some d -> rc_preserved o s d = true.
Proof. exact rc_preserved_model. Qed.
Print Assumptions C11_route_config.

(** The condition in force for a header name is the last supported one listed for it (exact,
    prefix, or valid regular expression). *)
Theorem C11_header_conditions : forall o hs name, aget name (build_matchers o hs) = last_supported o hs name.
Proof. exact build_matchers_get. Qed.
Print Assumptions C11_header_conditions.

(** The rate-limit bucket is that of the first HTTP filter carrying one, wherever it sits. *)
Theorem C11_bucket_anywhere : forall fs b, rate_limit fs = Some b -> b = first_bucket fs.
Proof. exact rate_limit_first_bucket. Qed.
Print Assumptions C11_bucket_anywhere.

(** Per filter chain, in order: destination port, named or inline table, Thrift routes, bucket. *)
Theorem C11_listener_fields : forall o l n d,
  decode_listener o l = Some (n, d) -> n = l_name l /\ listener_preserved o l d = true.
Proof. exact listener_preserved_model. Qed.
Print Assumptions C11_listener_fields.

(** Whole responses: every resource is keyed by its own name and carries its own content. *)
Theorem C11_rds_response : forall o rs m,
  decode_rds o rs = Some m ->
  resources_preserved rcp_name (fun s r => rc_preserved o s r && N.eqb (rc_maxtok r) 0 && N.eqb (rc_tpf r) 0) rs (sort_map m) = true.
Proof. exact rds_response_preserved. Qed.
Print Assumptions C11_rds_response.

Theorem C11_lds_response : forall o rs m,
  decode_lds o rs = Some m -> resources_preserved l_name (listener_preserved o) rs (sort_map m) = true.
Proof. exact lds_response_preserved. Qed.
Print Assumptions C11_lds_response.

(** Known finding D12, stated as a theorem about the faithful model: two conditions on one
    header name collapse, so "every header condition is in force" is false in general ... *)
Theorem C11_every_header_refuted : exists o hs, every_header_in_force o hs = false.
Proof. exact every_header_refuted. Qed.
Print Assumptions C11_every_header_refuted.

(** ... and true whenever the supported conditions of a route are on pairwise distinct names. *)
Theorem C11_every_header_partial : forall o hs,
  NoDup (map h_name (filter (fun h => is_some (header_supported o h)) hs)) -> every_header_in_force o hs = true.
Proof. exact every_header_distinct. Qed.
Print Assumptions C11_every_header_partial.

Example C11_example :
  let o := mk_oracle [("v[0-9]+", true)] [("0.1", Some 4591870180066957722)] [] in
  let r := {| rt_name := "r"; rt_match := Some {| rm_path := PPath "/pkg.svc/Echo"; rm_headers := [{| h_name := "stage"; h_spec := HSString (SMRegex "v[0-9]+") |}] |};
              rt_action := ARoute {| ra_spec := CSWeighted [{| wcp_name := "a"; wcp_weight := Some 25 |}; {| wcp_name := "b"; wcp_weight := None |}];
                                     ra_timeout := Some 1000000000%Z;
                                     ra_retry := Some {| rpp_on := "5xx"; rpp_num := Some 2; rpp_pertry := Some 100000000%Z; rpp_idle := None;
                                                         rpp_headers := [{| h_name := "kitexRetryErrorRate"; h_spec := HSString (SMExact "0.1") |}];
                                                         rpp_backoff := Some {| bo_base := Some 10000000%Z; bo_max := Some 500000000%Z |} |} |} |} in
  exists d, decode_route o r = Some d /\ r_clusters d = [("a", 25); ("b", 0)] /\
            rp_backoff (r_retry d) = Some (10000000%Z, 500000000%Z) /\ rp_cbrate (r_retry d) = 4591870180066957722.
Proof. exact C11_example_proof. Qed.
