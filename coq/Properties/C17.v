(** C17 — Retry policies track the route tables currently in force.
    Statements only; proofs are [exact] of lemmas in Proofs/PolicyProofs.v.
    The handler is handed the route tables in force after the update (for this merge-type the cache overlaid
    with the update: Model/Sys.v [handle_resp], tied to the code by the correspondence of the [u_map]s). *)
From Xds Require Import Model.Base Model.Fqdn Model.Proto Model.Decode Model.Sys Model.Policy.
From Xds Require Import Model.DecodeCheck Model.Pick Model.Route Model.Mw Model.SysCheck Model.PolicyCheck.
From Xds Require Import Proofs.PolicyProofs Proofs.PolicySysProofs.
Open Scope string_scope.

(** After a handler run on the tables [up] the installed keys are EXACTLY the keys derived from those tables:
    policies of clusters no longer referenced by any of them are removed, and a table that a partial update
    omitted is still in [up], so its policies stay. *)
Theorem C17_installed_keys : forall s up k, rt_inv s ->
  amem k (rt_pol (rt_update s up)) = smem k (map fst (flat_map (fun kv => table_finals (snd kv)) up)).
Proof. exact rt_update_keys. Qed.
Print Assumptions C17_installed_keys.

Theorem C17_invariant_kept : forall s up, rt_inv s -> rt_inv (rt_update s up).
Proof. exact rt_update_inv. Qed.
Theorem C17_invariant_init : rt_inv rt_init.
Proof. exact rt_init_inv. Qed.
Print Assumptions C17_invariant_kept.

(** ... and the value installed for a key is the policy those tables configure for it (when several tables
    configure the same key, one of them: Go's map order decides, the model keeps the candidates). *)
Theorem C17_installed_values : forall s up k,
  let finals := flat_map (fun kv => table_finals (snd kv)) up in
  smem k (map fst finals) = true ->
  aget k (rt_pol (rt_update s up)) = Some (map snd (filter (fun kv => String.eqb (fst kv) k) finals)).
Proof. exact rt_update_values. Qed.
Print Assumptions C17_installed_values.

(** the keys of one table: every destination cluster and cluster|method for each listed method *)
Theorem C17_table_keys : forall v k, amem k (table_finals v) = smem k (map fst (rt_of_rc v)).
Proof. exact table_keys_spec. Qed.
Print Assumptions C17_table_keys.

(** the policy of one route: attempts, total duration attempts x per-try timeout (in ms, uint32 arithmetic as in
    the code), error-rate ceiling, back-off none / fixed at the base interval / random between base and maximum *)
Theorem C17_policy_of_route : forall r,
  rq_times (rpol_of_route r) = rp_num (r_retry r) /\
  rq_dur (rpol_of_route r) = u32 (u32z (ms_of (rp_pertry (r_retry r))) * u32 (rp_num (r_retry r))) /\
  rq_rate (rpol_of_route r) = rp_cbrate (r_retry r) /\
  rq_bo (rpol_of_route r) = match rp_backoff (r_retry r) with
                            | None => (0, 0, 0)
                            | Some (base, mx) => if (base <? mx)%Z then (2, Z.to_N (ms_of base), Z.to_N (ms_of mx))
                                                 else (1, Z.to_N (ms_of base), 0)
                            end.
Proof. exact (fun r => conj eq_refl (conj eq_refl (conj eq_refl eq_refl))). Qed.
Print Assumptions C17_policy_of_route.

(** END TO END, over every history of the manager + client + registered consumers (no eviction sweeps): the installed
    keys are exactly the keys of the route tables CURRENTLY cached (the fold of the accepted RDS responses): a table
    omitted from a partial push is still cached and keeps its policies, a cluster no longer referenced loses them. *)
Theorem C17_tracks_the_cache : forall c o h rs, forallb pop_ok h = true -> p_rt (snd (jrun c o h)) = Some rs ->
  rt_tracks rs (tget TRc (s_cache (fst (jrun c o h)))).
Proof. exact retry_tracks_cache. Qed.
Print Assumptions C17_tracks_the_cache.

(** non-vacuity: two tables; the second update renames B's cluster: cb's policy goes, cb2's comes, A's (with its method key) stay;
    3 attempts x 2 s per try = 6000 ms, random back-off between 10 and 50 ms *)
Theorem C17_example :
  let rt cluster n methods := {| r_match := HttpMatch "" "/" []; r_clusters := [(cluster, 1)]; r_timeout := 0%Z;
                                 r_retry := {| rp_on := "5xx"; rp_num := n; rp_pertry := 2000000000%Z; rp_idle := 0%Z; rp_cbrate := 0;
                                               rp_backoff := Some (10000000%Z, 50000000%Z); rp_methods := methods |} |} in
  let table rs := VRc {| rc_http := Some [("vh", rs)]; rc_thrift := None; rc_maxtok := 0; rc_tpf := 0 |} in
  let s1 := rt_update rt_init [("A", table [rt "ca" 3 ["m1"]]); ("B", table [rt "cb" 2 []])] in
  let s2 := rt_update s1 [("A", table [rt "ca" 3 ["m1"]]); ("B", table [rt "cb2" 2 []])] in
  (map fst (sort_map (rt_pol s1)), map fst (sort_map (rt_pol s2)),
   option_map (map (fun p => (rq_times p, rq_dur p, rq_bo p))) (aget "ca|m1" (rt_pol s2))) =
  (["ca"; "ca|m1"; "cb"], ["ca"; "ca|m1"; "cb2"], Some [(3, 6000, (2, 10, 50))]).
Proof. exact C17_example_proof. Qed.
