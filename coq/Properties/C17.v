(** placeholder *)
From Xds Require Import Model.PolicyCheck.
Theorem C17_placeholder : True. Proof. exact I. Qed.
