(** placeholder *)
From Xds Require Import Model.ConcCheck.
Theorem C06_placeholder : True. Proof. exact I. Qed.
