(** C06 — No lost wake-ups: a resource accepted before the deadline is returned.
    Statements only; proofs are [exact] of lemmas in Proofs/ConcProofs.v.
    [h] ranges over ALL schedules: any number of other callers for the same or other names may
    have arrived, shared the notifier, timed out or been cancelled in [h]. *)
From Xds Require Import Model.Base Model.Conc Proofs.ConcProofs.
Open Scope N_scope.

(** The invariant that carries it: after every schedule, every waiting lookup's notifier is either
    already closed or is THE registered notifier of its key, the registered notifier's waiter count
    is exactly the number of lookups waiting on it, and notifier identities are unique. *)
Theorem C06_invariant : forall h, inv (crun h).
Proof. exact crun_inv. Qed.
Print Assumptions C06_invariant.

(** Whenever a response carrying a name is accepted, every lookup of that name that is waiting at
    that moment returns that resource by its own next step alone: no deadline has to fire. *)
Theorem C06_no_lost_wakeup : forall h full up scope t th nid v,
  let s := crun (h ++ [EDeliver full up scope]) in
  kget t (c_threads s) = Some th -> th_st th = TWaiting nid -> kget (th_key th) (rev up) = Some v ->
  enabled s (EWake t) = true /\ thread_result (cstep s (EWake t)) t = Some (RVal v).
Proof. exact no_lost_wakeup. Qed.
Print Assumptions C06_no_lost_wakeup.

(** A lookup that had missed the cache but not yet registered when the response was accepted finds
    the resource under the lock instead of registering a notifier nobody would close. *)
Theorem C06_late_registrant_served : forall h full up scope t th v,
  let s := crun (h ++ [EDeliver full up scope]) in
  kget t (c_threads s) = Some th -> th_st th = TMissed -> kget (th_key th) (rev up) = Some v ->
  enabled s (EStep t) = true /\ thread_result (cstep s (EStep t)) t = Some (RVal v).
Proof. exact late_registrant_served. Qed.
Print Assumptions C06_late_registrant_served.

(** One caller's timeout affects only that caller: it preserves the invariant for everybody else
    (in particular it cannot remove a notifier that other lookups still wait on). *)
Theorem C06_timeouts_are_local : forall s t, inv s -> inv (cstep s (ETimeout t)).
Proof. exact (fun s t => cstep_inv s (ETimeout t)). Qed.
Print Assumptions C06_timeouts_are_local.

Example C06_example :
  let h := [EInvoke 0 7; EInvoke 1 7; EStep 0; EStep 1; EFire 0; ETimeout 0; EDeliver true [(7, 42)] [7]] in
  thread_result (crun h) 0 = Some RErr /\ thread_result (crun (h ++ [EWake 1])) 1 = Some (RVal 42) /\
  thread_result (crun [EInvoke 0 7; EDeliver true [(7, 42)] [7]; EStep 0]) 0 = Some (RVal 42).
Proof. exact C06_example_proof. Qed.
