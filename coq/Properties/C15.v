(** C15 — The routing step decides the destination once and fails closed.
    Statements only; proofs are [exact] of lemmas in Proofs/MwProofs.v.
    Lookups are inputs of type [got]: under C05's guarantee a lookup yields a resource of the
    requested kind or an error (never nil); "never panics" is then the totality of the model
    functions together with C09_no_panic for the cluster pick, and is observed per call by the
    correspondence run (recovered panics are reported). *)
From Xds Require Import Model.Base Model.Fqdn Model.Proto Model.Decode Model.Pick Model.Route Model.Mw.
From Xds Require Import Proofs.PickProofs Proofs.RouteProofs Proofs.MwProofs.
Open Scope string_scope.

(** undecided + Route succeeded: destination recorded and locked, timeout set, passed on exactly once *)
Theorem C15_decides_once : forall t0 c tmo,
  mw_step None t0 (Some (c, tmo)) = {| mo_err := 0; mo_next := 1; mo_tag := Some c; mo_locked := true; mo_timeout := tmo |}.
Proof. exact mw_decides_once. Qed.
Print Assumptions C15_decides_once.

(** already decided: nothing changes, passed on once, whatever Route would say *)
Theorem C15_already_decided_noop : forall t t0 r,
  mw_step (Some t) t0 r = {| mo_err := 0; mo_next := 1; mo_tag := Some t; mo_locked := false; mo_timeout := t0 |}.
Proof. exact mw_already_decided. Qed.
Print Assumptions C15_already_decided_noop.

(** Route failed: routing error, not passed on, destination and timeout untouched *)
Theorem C15_fail_closed : forall t0,
  mw_step None t0 None = {| mo_err := 1; mo_next := 0; mo_tag := None; mo_locked := false; mo_timeout := t0 |}.
Proof. exact mw_fail_closed. Qed.
Print Assumptions C15_fail_closed.

Theorem C15_never_twice : forall pre t0 r, mo_next (mw_step pre t0 r) <= 1.
Proof. exact mw_next_le_one. Qed.
Print Assumptions C15_never_twice.

Theorem C15_passed_on_iff : forall pre t0 r, mo_next (mw_step pre t0 r) = 1 <-> (pre <> None \/ r <> None).
Proof. exact mw_passes_on_iff. Qed.
Print Assumptions C15_passed_on_iff.

Theorem C15_error_iff : forall pre t0 r, mo_err (mw_step pre t0 r) = 1 <-> (pre = None /\ r = None).
Proof. exact mw_error_iff. Qed.
Print Assumptions C15_error_iff.

(** each way a lookup can fail makes Route fail (hence the step fails closed) *)
Theorem C15_listener_unavailable : forall o k named t, route_call o k GErr named t = None.
Proof. exact route_fails_listener. Qed.
Print Assumptions C15_listener_unavailable.

Theorem C15_named_table_unavailable : forall o k l named f t,
  k_grpc k = true \/ thrift_part o k l = None ->
  last_filter false l = Some f ->
  match nf_inline f with Some rc => match_http o k rc | None => None end = None ->
  named (nf_rcname f) = GErr ->
  route_call o k (GOk l) named t = None.
Proof. exact route_fails_named. Qed.
Print Assumptions C15_named_table_unavailable.

(** the recorded destination is a cluster the matched route's pick can produce, with the route's timeout *)
Theorem C15_destination_from_route : forall o k lis named t c tmo,
  route_call o k lis named t = Some (c, tmo) ->
  exists r, match_route o k lis named = Some r /\ tmo = r_timeout r /\
            exists i, pick (map snd (r_clusters r)) t = Ok i /\ c = nth i (map fst (r_clusters r)) "".
Proof. exact route_call_some. Qed.
Print Assumptions C15_destination_from_route.

(** retry key: same effect on the call as the routing step; empty key on failure *)
Theorem C15_key_effect : forall t0 mm m r,
  let e := snd (key_step None t0 mm m r) in let w := mw_step None t0 r in
  mo_tag e = mo_tag w /\ mo_locked e = mo_locked w /\ mo_timeout e = mo_timeout w.
Proof. exact key_and_mw_same_effect. Qed.
Print Assumptions C15_key_effect.

Theorem C15_key_failure : forall t0 mm m,
  key_step None t0 mm m None = ("", {| mo_err := 0; mo_next := 0; mo_tag := None; mo_locked := false; mo_timeout := t0 |}).
Proof. exact key_failure_is_empty. Qed.
Print Assumptions C15_key_failure.

(** resolver: fails closed on every lookup failure, never an empty success *)
Theorem C15_resolver_cluster_unavailable : forall eds, resolve GErr eds = None.
Proof. exact resolve_cluster_error. Qed.
Print Assumptions C15_resolver_cluster_unavailable.

Theorem C15_resolver_endpoints_unavailable : forall c eds,
  c_inline c = None -> eds (c_epname c) = GErr -> resolve (GOk c) eds = None.
Proof. exact resolve_endpoint_error. Qed.
Print Assumptions C15_resolver_endpoints_unavailable.

Theorem C15_resolver_never_empty : forall cl eds, resolve cl eds <> Some [].
Proof. exact resolve_never_empty. Qed.
Print Assumptions C15_resolver_never_empty.

Example C15_example :
  let o := mk_oracle_route [] [] in
  let r := {| r_match := HttpMatch "" "/" []; r_clusters := [("c1", 1)]; r_timeout := 250000000%Z; r_retry := no_retry |} in
  let rc := {| rc_http := Some [("vh", [r])]; rc_thrift := None; rc_maxtok := 0; rc_tpf := 0 |} in
  let lis := [{| nf_thrift := false; nf_rcname := "named"; nf_port := 0; nf_inline := None |}] in
  let k := {| k_service := "s"; k_pkg := ""; k_svc := "svc"; k_method := "m"; k_to_method := "m"; k_grpc := false; k_md := [] |} in
  mw_step None 0%Z (route_call o k (GOk lis) (fun _ => GOk rc) 0) =
    {| mo_err := 0; mo_next := 1; mo_tag := Some "c1"; mo_locked := true; mo_timeout := 250000000%Z |} /\
  mw_step None 0%Z (route_call o k (GOk lis) (fun _ => GErr) 0) =
    {| mo_err := 1; mo_next := 0; mo_tag := None; mo_locked := false; mo_timeout := 0%Z |}.
Proof. exact C15_example_proof. Qed.
