(** placeholder *)
From Xds Require Import Model.PolicyCheck.
Theorem C18_placeholder : True. Proof. exact I. Qed.
