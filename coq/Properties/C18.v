(** C18 — The server rate limit tracks the inbound listener.
    Statements only; proofs are [exact] of lemmas in Proofs/PolicyProofs.v.
    (The connection limit is a field of Kitex's limit.Option that the model does not carry: the check asserts on
    the implementation that it is never restricted.) *)
From Xds Require Import Model.Base Model.Fqdn Model.Proto Model.Decode Model.Sys Model.Policy.
From Xds Require Import Model.DecodeCheck Model.Pick Model.Route Model.Mw Model.SysCheck Model.PolicyCheck.
From Xds Require Import Proofs.PolicyProofs Proofs.PolicySysProofs.
Open Scope string_scope.

(** The limit after a listener update: tokens-per-fill of the inbound listener's chain for the configured port
    ([last_chain]: the last such chain in listener order), else of the chain without a port (port 0), else
    unlimited ([None]); zero tokens or no inbound listener also mean unlimited. *)
Theorem C18_limit : forall port up,
  limiter_qps port up =
    match aget reserved_lds up with
    | Some (VLis l) =>
        match last_chain port l with
        | Some t => limit_of_tokens t
        | None => match last_chain 0 l with Some t => limit_of_tokens t | None => None end
        end
    | _ => None
    end.
Proof. exact limiter_qps_spec. Qed.
Print Assumptions C18_limit.

Theorem C18_zero_is_unlimited : limit_of_tokens 0 = None.
Proof. exact limit_zero_unlimited. Qed.

(** Every handler run - every accepted listener update - sets the limit from that update alone and pushes it to the
    running server's limiter. *)
Theorem C18_every_change_pushed : forall s up,
  lm_pushes (lim_update s up) = (lm_pushes s ++ [limiter_qps (lm_port s) up])%list /\ lm_qps (lim_update s up) = limiter_qps (lm_port s) up.
Proof. exact lim_update_pushes. Qed.
Print Assumptions C18_every_change_pushed.

(** A limiter created after updates were received starts from the current state, which the updater receives. *)
Theorem C18_late_registration : forall p port replay,
  exists s, p_lim (p_register p (KLimiter port) replay) = Some s /\ lm_port s = port /\ lm_pushes s = [lm_qps s].
Proof. exact lim_late_registration. Qed.
Print Assumptions C18_late_registration.

(** END TO END, over every history of the manager + client + registered consumers (no eviction sweeps): the limit is
    the one of the inbound listener CURRENTLY cached ([C18_limit] says which), from registration on. *)
Theorem C18_tracks_the_cache : forall c o h ls, forallb pop_ok h = true -> p_lim (snd (jrun c o h)) = Some ls ->
  lim_tracks ls (tget TLis (s_cache (fst (jrun c o h)))).
Proof. exact limiter_tracks_cache. Qed.
Print Assumptions C18_tracks_the_cache.

(** non-vacuity: service-port chain wins; else the port-less chain; a zero bucket on the service port means unlimited
    (it does NOT fall through to the port-less chain); no inbound listener means unlimited *)
Theorem C18_example :
  let nf port tpf := {| nf_thrift := false; nf_rcname := ""; nf_port := port;
                        nf_inline := Some {| rc_http := None; rc_thrift := None; rc_maxtok := 100; rc_tpf := tpf |} |} in
  let up l := [(reserved_lds, VLis l)] in
  (limiter_qps 8888 (up [nf 0 7; nf 8888 40]), limiter_qps 9999 (up [nf 0 7; nf 8888 40]), limiter_qps 8888 (up [nf 8888 0; nf 0 7]),
   limiter_qps 8888 [("other", VLis [nf 8888 40])]) = (Some 40, Some 7, None, None).
Proof. exact C18_example_proof. Qed.
