(** C07 — Concurrent use is linearizable, race- and deadlock-free; policy before data.
    Statements only; proofs are [exact] of lemmas in Proofs/ConcProofs.v, Proofs/SkelProofs.v, Proofs/SysProofs.v.
    The property has three layers:
      (a) linearizability of lookups against updates, over ALL interleavings of Get's sections with deliveries and
          cancellations (Model/Conc.v; tied to the code by the deterministic scheduler at the tagged yield points);
      (b) the lock structure that makes those sections atomic and excludes deadlocks and data races: theorems about the
          skeleton REGENERATED from the sources on every run (Properties/C07Skel.v, compiled by the check) using the
          semantic theorems below;
      (c) policy before data (handlers complete before a lookup can see the resource): skeleton theorem
          C07_policy_before_data + the state machine's atomic step.
    PARTIAL: data races on memory that the skeleton does not list as a guarded field (e.g. fields of the decoded
    resources shared with handlers) and the Go memory model itself are outside the model; the race detector runs of the
    thorough tier are tests, not proofs. *)
From Xds Require Import Model.Base Model.Conc Model.Skel Proofs.ConcProofs Proofs.SkelProofs.
From Xds Require Import Model.Fqdn Model.Proto Model.Decode Model.Pick Model.Route Model.Mw Model.Sys Proofs.SysProofs.
From Coq Require Import Relations.
Open Scope N_scope.

(** (a) Linearization point: along ANY schedule, the event at which a lookup returns reads the cache as it is at
    that very event - which lies between the lookup's invocation and its return - or is the lookup's own deadline
    or an unknown kind.  So the trace order itself is the sequential order that explains every result: updates
    take effect at their EDeliver event, lookups at their returning event. *)
Theorem C07_linearization_point : forall h e t r,
  thread_result (crun h) t = None -> thread_result (crun (h ++ [e])) t = Some r ->
  exists th, kget t (c_threads (crun (h ++ [e]))) = Some th /\
    match r with
    | RVal v => kget (th_key th) (c_cache (crun h)) = Some v
    | RErr => kget (th_key th) (c_cache (crun h)) = None \/ (exists k, e = EInvokeBad t /\ k = 0) \/ (e = ETimeout t)
    | _ => False
    end.
Proof. exact linearization_point. Qed.
Print Assumptions C07_linearization_point.

(** the register a lookup reads changes only at deliveries (no value that was never current) ... *)
Theorem C07_cache_changes_only_by_delivery : forall s e,
  (forall full up scope, e <> EDeliver full up scope) -> c_cache (cstep s e) = c_cache s.
Proof. exact cache_changes_only_by_delivery. Qed.
Print Assumptions C07_cache_changes_only_by_delivery.

(** ... and a result, once returned, is never revised *)
Theorem C07_result_is_final : forall h h' t r, thread_result (crun h) t = Some r -> thread_result (crun (h ++ h')) t = Some r.
Proof. exact result_is_final_run. Qed.
Print Assumptions C07_result_is_final.

(** (b) Deadlock freedom of any lock structure that passes the path checker: any number of threads, each somewhere along
    a checked path - no cycle of threads each waiting for a lock the next one holds. *)
Theorem C07_ordered_locking_excludes_deadlock : forall cap (P : list (list atom)),
  (forall p, In p P -> v_all (check_path cap [] [[]] p) = true) ->
  forall ts, (forall t, In t ts -> exists p, In p P /\ reach (start p) t) ->
  forall i, ~ clos_trans nat (waits_for_waiting ts) i i.
Proof. exact checked_paths_no_deadlock. Qed.
Print Assumptions C07_ordered_locking_excludes_deadlock.

(** every chain of waiting threads ends after at most three hops (the ranks are 1..3) *)
Theorem C07_wait_chains_bounded : forall cap ts i j,
  (forall t, In t ts -> v_rank (checked cap t) = true) ->
  clos_trans nat (waits_for_waiting ts) i j -> (req_rank ts j <= 3)%nat /\ (req_rank ts i < req_rank ts j)%nat.
Proof. exact wait_chain_bounded. Qed.
Print Assumptions C07_wait_chains_bounded.

(** Data-race freedom on guarded fields for checked paths, given the exclusion the locks provide ... *)
Theorem C07_lockset_excludes_races : forall cap (P : list (list atom)),
  (forall p, In p P -> v_all (check_path cap [] [[]] p) = true) ->
  forall ts, (forall t, In t ts -> exists p, In p P /\ reach (start p) t) -> exclusive ts ->
  forall i j ti tj f l wi wj, i <> j -> nth_error ts i = Some ti -> nth_error ts j = Some tj ->
    accesses ti = Some (f, l, wi) -> accesses tj = Some (f, l, wj) -> (wi || wj = true)%bool -> False.
Proof. exact checked_paths_no_race. Qed.
Print Assumptions C07_lockset_excludes_races.

(** ... which holds initially and is kept by every step that respects the lock semantics *)
Theorem C07_exclusion_kept : forall ts i t t',
  exclusive ts -> nth_error ts i = Some t -> may_step ts i t -> thr_step t = Some t' -> exclusive (set_nth ts i t').
Proof. exact exclusive_step. Qed.
Theorem C07_exclusion_initially : forall ts, (forall t, In t ts -> t_held t = []) -> exclusive ts.
Proof. exact exclusive_initial. Qed.
Print Assumptions C07_exclusion_kept.

(** a write section excludes every access by others to the fields its lock guards (so nothing can be read between the
    handler runs and the cache write of UpdateResource, which are one write section of m.mu: C07_policy_before_data_on_every_path) *)
Theorem C07_write_section_excludes_readers : forall cap ts i j ti tj f l w,
  exclusive ts -> i <> j -> nth_error ts i = Some ti -> nth_error ts j = Some tj ->
  In (l, true) (t_held ti) ->
  v_lockset (checked cap tj) = true -> accesses tj = Some (f, l, w) -> False.
Proof. exact writer_excludes_accesses. Qed.
Print Assumptions C07_write_section_excludes_readers.

(** (c) Policy before data, in the state machine: what the handlers of an accepted response are handed is exactly what
    lookups can see after that (atomic) step, and the cache never changes without a handler run in the same step. *)
Theorem C07_handlers_see_the_new_cache : forall c o s v n p u,
  In u (snd (handle_resp c o s v n p)) ->
  u_type u = payload_type p /\ u_map u = tget (u_type u) (s_cache (fst (fst (handle_resp c o s v n p)))).
Proof. exact handlers_see_the_new_cache. Qed.
Print Assumptions C07_handlers_see_the_new_cache.

Theorem C07_cache_change_runs_handlers : forall c o s v n p,
  s_cache (fst (fst (handle_resp c o s v n p))) <> s_cache s -> snd (handle_resp c o s v n p) <> [].
Proof. exact cache_change_runs_handlers. Qed.
Print Assumptions C07_cache_change_runs_handlers.

(** non-vacuity: two threads on checked paths, the first waits for the second, the second does not wait *)
Theorem C07_example :
  let p1 := [AAcq LM true; AAcq LC true; ARel LC true; ARel LM true] in
  let p2 := [AAcq LC false; ARel LC false] in
  let ts := [ {| t_held := [(LM, true)]; t_frames := [[]]; t_path := [AAcq LC true; ARel LC true; ARel LM true] |};
              {| t_held := [(LC, false)]; t_frames := [[]]; t_path := [ARel LC false] |} ] in
  v_all (check_path true [] [[]] p1) = true /\ v_all (check_path true [] [[]] p2) = true /\
  waits_for ts 0 1 /\ wants (nth 1 ts (start [])) = None.
Proof. exact waits_example. Qed.
