(** placeholder *)
From Xds Require Import Model.ConcCheck.
Theorem C07_placeholder : True. Proof. exact I. Qed.
