(** C08 — Route matching: first match in order; path and all header conditions hold.
    Statements only; proofs are [exact] of lemmas in Proofs/RouteProofs.v.
    Stated on the decoded tables the router works on; how decoded tables relate to what the
    control plane sent is C11 (and known finding D12 for repeated header names). *)
From Xds Require Import Model.Base Model.Fqdn Model.Proto Model.Decode Model.Pick Model.Route Proofs.RouteProofs.
Open Scope string_scope.

(** The route used is the FIRST one, in the order virtual hosts and routes were listed, that matches. *)
Theorem C08_first_match_http : forall o k rc vhs r,
  rc_http rc = Some vhs ->
  (match_http o k rc = Some r <->
   exists pre post, concat (map snd vhs) = (pre ++ r :: post)%list /\
                    route_matched o (call_path k) (k_md k) r = true /\
                    Forall (fun x => route_matched o (call_path k) (k_md k) x = false) pre).
Proof. exact match_http_first. Qed.
Print Assumptions C08_first_match_http.

Theorem C08_first_match_thrift : forall o k rc rs r,
  rc_thrift rc = Some rs ->
  (match_thrift o k rc = Some r <->
   exists pre post, rs = (pre ++ r :: post)%list /\
                    route_matched o (k_to_method k) (k_md k) r = true /\
                    Forall (fun x => route_matched o (k_to_method k) (k_md k) x = false) pre).
Proof. exact match_thrift_first. Qed.
Print Assumptions C08_first_match_thrift.

(** An HTTP route matches iff its path condition holds for /<package>.<service>/<method> (exact
    path, or the catch-all prefix "/") and EVERY header condition holds for the metadata. *)
Theorem C08_conditions_http : forall o path md p pre hs cs t rp,
  route_matched o path md {| r_match := HttpMatch p pre hs; r_clusters := cs; r_timeout := t; r_retry := rp |} = true <->
  ((p <> "" /\ p = path) \/ (p = "" /\ pre = "/")) /\
  forall k m, In (k, m) hs -> exists v, aget k md = Some v /\ matcher_ok o m v = true.
Proof. exact http_route_matched_iff. Qed.
Print Assumptions C08_conditions_http.

Theorem C08_conditions_thrift : forall o path md m s tags cs t rp,
  route_matched o path md {| r_match := ThriftMatch m s tags; r_clusters := cs; r_timeout := t; r_retry := rp |} = true <->
  (m = "" \/ m = path) /\
  forall k c, In (k, c) tags -> exists v, aget k md = Some v /\ matcher_ok o c v = true.
Proof. exact thrift_route_matched_iff. Qed.
Print Assumptions C08_conditions_thrift.

(** a condition on an absent key is false *)
Theorem C08_absent_key_false : forall o ms md k m,
  In (k, m) ms -> aget k md = None -> matchers_ok o ms md = false.
Proof. exact matchers_absent_key_false. Qed.
Print Assumptions C08_absent_key_false.

(** Precedence: for non-gRPC calls a matching Thrift-proxy route wins; gRPC calls skip Thrift
    routes; the inline table is consulted before the named one. *)
Theorem C08_precedence : forall o k l named,
  match_route o k (GOk l) named =
  if k_grpc k then http_part o k l named
  else match thrift_part o k l with Some r => Some r | None => http_part o k l named end.
Proof. exact match_route_precedence. Qed.
Print Assumptions C08_precedence.

Theorem C08_inline_before_named : forall o k l named f rc r,
  last_filter false l = Some f -> nf_inline f = Some rc -> match_http o k rc = Some r ->
  http_part o k l named = Some r.
Proof. exact inline_before_named. Qed.
Print Assumptions C08_inline_before_named.

Theorem C08_named_when_inline_misses : forall o k l named f,
  last_filter false l = Some f ->
  match nf_inline f with Some rc => match_http o k rc | None => None end = None ->
  http_part o k l named = match named (nf_rcname f) with GErr => None | GOk rc => match_http o k rc end.
Proof. exact named_when_inline_misses. Qed.
Print Assumptions C08_named_when_inline_misses.

(** When nothing matches (or the listener cannot be obtained) the call fails with a routing error. *)
Theorem C08_no_match_is_error : forall o k l named t,
  match_route o k (GOk l) named = None -> route_call o k (GOk l) named t = None.
Proof. exact no_match_is_error. Qed.
Print Assumptions C08_no_match_is_error.

Theorem C08_listener_error_is_error : forall o k named t, route_call o k GErr named t = None.
Proof. exact listener_error_is_error. Qed.
Print Assumptions C08_listener_error_is_error.

Example C08_example :
  let o := mk_oracle_route [("^v[0-9]+$", true)] [("^v[0-9]+$", [("v1", true); ("canary", false)])] in
  let mk p pre hs c := {| r_match := HttpMatch p pre hs; r_clusters := [(c, 1)]; r_timeout := 0%Z; r_retry := no_retry |} in
  let rc := {| rc_http := Some [("vh0", [mk "/pkg.svc/Ping" "" [] "a"; mk "/pkg.svc/Echo" "" [("stage", MRegex "^v[0-9]+$")] "b"]);
                                ("vh1", [mk "" "/" [] "c"; mk "/pkg.svc/Echo" "" [] "d"])]; rc_thrift := None; rc_maxtok := 0; rc_tpf := 0 |} in
  let k md := {| k_service := "s"; k_pkg := "pkg"; k_svc := "svc"; k_method := "Echo"; k_to_method := "Echo"; k_grpc := true; k_md := md |} in
  option_map r_clusters (match_http o (k [("stage", "v1")]) rc) = Some [("b", 1)] /\
  option_map r_clusters (match_http o (k [("stage", "canary")]) rc) = Some [("c", 1)] /\
  option_map r_clusters (match_http o (k []) rc) = Some [("c", 1)].
Proof. exact C08_example_proof. Qed.
