(** C09 — Weighted cluster selection is proportional; zero weight is never picked.
    Statements only; every proof is [exact] of a lemma from Proofs/PickProofs.v. *)
From Xds Require Import Model.Base Model.Pick Model.PickCheck Proofs.PickProofs.

(** With at least two clusters, draw t (uniform in [0,total)) selects cluster i exactly when
    t lies in the i-th cumulative interval, whose length is weight_i. *)
Theorem C09_pick_interval : forall ws t i,
  (2 <= length ws)%nat -> t < nsum ws ->
  (pick ws t = Ok i <-> (i < length ws)%nat /\ prefix ws i <= t < prefix ws i + weight ws i).
Proof. exact pick_interval. Qed.
Print Assumptions C09_pick_interval.

(** Hence exactly weight_i of the [total] equiprobable draws select cluster i. *)
Theorem C09_proportional : forall ws i,
  (2 <= length ws)%nat -> (i < length ws)%nat -> count_picks ws i = weight ws i.
Proof. exact count_picks_eq_weight. Qed.
Print Assumptions C09_proportional.

(** ... so the shares the correspondence run compares against are the weights themselves. *)
Theorem C09_model_shares_are_weights : forall ws,
  (2 <= length ws)%nat -> model_shares ws = ws.
Proof. exact model_shares_eq. Qed.
Print Assumptions C09_model_shares_are_weights.

Theorem C09_zero_never : forall ws t i,
  (2 <= length ws)%nat -> t < nsum ws -> weight ws i = 0 -> pick ws t <> Ok i.
Proof. exact pick_zero_never. Qed.
Print Assumptions C09_zero_never.

Theorem C09_sole_always : forall ws t i,
  (i < length ws)%nat -> 0 < nsum ws -> weight ws i = nsum ws -> t < nsum ws -> pick ws t = Ok i.
Proof. exact pick_sole_always. Qed.
Print Assumptions C09_sole_always.

Theorem C09_single_listed : forall w t, pick [w] t = Ok 0%nat.
Proof. exact (fun _ _ => eq_refl). Qed.
Print Assumptions C09_single_listed.

Theorem C09_empty_or_zero_total_error : forall ws t,
  ws = [] \/ ((2 <= length ws)%nat /\ nsum ws = 0) -> pick ws t = Err.
Proof. exact pick_empty_or_zero. Qed.
Print Assumptions C09_empty_or_zero_total_error.

(** a valid route never yields an error nor an index outside the route *)
Theorem C09_valid_always_picks : forall ws t,
  (2 <= length ws)%nat -> t < nsum ws -> exists i, pick ws t = Ok i /\ (i < length ws)%nat.
Proof. exact pick_total. Qed.
Print Assumptions C09_valid_always_picks.

Theorem C09_no_panic : forall ws t, pick ws t <> Panic.
Proof. exact pick_never_panic. Qed.
Print Assumptions C09_no_panic.

(** non-vacuity: a concrete vector with a zero in the middle *)
Example C09_example :
  (2 <= length [1; 0; 3])%nat /\ map (pick [1; 0; 3]) [0; 1; 2; 3] = [Ok 0; Ok 2; Ok 2; Ok 2]%nat
  /\ model_shares [1; 0; 3] = [1; 0; 3].
Proof. exact C09_example_proof. Qed.
