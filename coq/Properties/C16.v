(** placeholder *)
From Xds Require Import Model.PolicyCheck.
Theorem C16_placeholder : True. Proof. exact I. Qed.
