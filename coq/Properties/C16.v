(** C16 — Circuit-breaker configuration tracks the latest cluster state.
    Statements only; proofs are [exact] of lemmas in Proofs/PolicyProofs.v.
    A configuration is (enabled, failure-percentage threshold, minimum sample); the error rate Kitex is given is
    threshold/100 (a float: compared on the implementation side by the check, see PolicyCheck.kitex_rate). *)
From Xds Require Import Model.Base Model.Fqdn Model.Proto Model.Decode Model.Sys Model.Policy.
From Xds Require Import Model.DecodeCheck Model.Pick Model.Route Model.Mw Model.SysCheck Model.PolicyCheck.
From Xds Require Import Proofs.PolicyProofs Proofs.PolicySysProofs.
Open Scope string_scope.

(** After ANY sequence of cluster updates followed by [up], the configuration of every destination [k] is the
    one derived from [up] alone; a destination configured only by an earlier update is disabled; a destination
    never configured has no entry. *)
Theorem C16_latest_only : forall ups up k,
  aget k (cb_cfg (cb_run (ups ++ [up]))) =
    match aget k (rev (cb_policies up)) with
    | Some p => Some p
    | None => if existsb (fun u => amem k (cb_policies u)) ups then Some cb_disabled else None
    end.
Proof. exact cb_latest_only. Qed.
Print Assumptions C16_latest_only.

(** What one cluster contributes: enabled with (threshold, volume) iff both are non-zero, disabled if either is
    zero, nothing without outlier detection. *)
Theorem C16_per_cluster : forall c,
  cb_of_cluster c = match c_outlier c with
                    | None => None
                    | Some (thr, vol) => Some (if (negb (N.eqb thr 0) && negb (N.eqb vol 0))%bool then (true, thr, vol) else cb_disabled)
                    end.
Proof. exact cb_of_cluster_spec. Qed.
Print Assumptions C16_per_cluster.

(** One step of the history (the invariant [cb_inv] holds after every history: [C16_invariant]). *)
Theorem C16_one_update : forall s up k, cb_inv s ->
  aget k (cb_cfg (cb_update s up)) =
    match aget k (rev (cb_policies up)) with
    | Some p => Some p
    | None => match aget k (cb_cfg s) with Some _ => Some cb_disabled | None => None end
    end.
Proof. exact cb_update_spec. Qed.
Print Assumptions C16_one_update.

Theorem C16_invariant : forall ups, cb_inv (cb_run ups).
Proof. exact cb_run_inv. Qed.
Print Assumptions C16_invariant.

(** A breaker created after updates were received starts from the current state: it is replayed the cache. *)
Theorem C16_late_registration : forall p replay,
  p_cb (p_register p KCb replay) =
  Some (fold_left (fun s u => match u_type u with TCl => cb_update s (u_map u) | _ => s end) replay cb_init).
Proof. exact cb_late_registration. Qed.
Print Assumptions C16_late_registration.

(** END TO END, over every history of the manager + client + registered consumers ([jrun]: subscriptions, lookups,
    responses of every type, stream failures, registrations at any point; no eviction sweeps): the breaker's
    configuration tracks the clusters CURRENTLY cached - which are the fold of the accepted responses
    (C16_manager_side + C01_refinement).  [cb_tracks cs cache]: every destination that the cached clusters configure
    has exactly that configuration, every other entry is disabled. *)
Theorem C16_tracks_the_cache : forall c o h cs, forallb pop_ok h = true -> p_cb (snd (jrun c o h)) = Some cs ->
  cb_tracks cs (tget TCl (s_cache (fst (jrun c o h)))).
Proof. exact breaker_tracks_cache. Qed.
Print Assumptions C16_tracks_the_cache.

Theorem C16_manager_side : forall c o h, fst (jrun c o h) = final c o (map op_of h).
Proof. exact jrun_manager. Qed.
Print Assumptions C16_manager_side.

Theorem C16_example :
  let mk thr vol := VCl {| c_dtype := 0; c_lb := 0; c_epname := "e"; c_inline := None; c_outlier := Some (thr, vol) |} in
  let none := VCl {| c_dtype := 0; c_lb := 0; c_epname := "e"; c_inline := None; c_outlier := None |} in
  map (fun k => aget k (cb_cfg (cb_run [[("a", mk 10 5); ("b", mk 0 5)]; [("b", mk 50 100); ("c", none)]])))
      ["a"; "b"; "c"; "d"] = [Some cb_disabled; Some (true, 50, 100); None; None].
Proof. exact C16_example_proof. Qed.
