(** C14 — A service address is bound to the listener the name table designates.
    Statements only; proofs are [exact] of lemmas in Proofs/FqdnProofs.v.
    The history part — "the table then current" — is [C14_binding] below, a statement about the state machine of
    Model/Sys.v (the one Properties/C01.v is about). *)
From Xds Require Import Model.Base Model.Fqdn Model.Proto Model.Decode Model.Sys Proofs.FqdnProofs Proofs.BindingProofs.
Open Scope string_scope.

(** Expansion is idempotent, for every host string and every namespace/domain. *)
Theorem C14_expand_idempotent : forall c h, expand c (expand c h) = expand c h.
Proof. exact expand_idempotent. Qed.
Print Assumptions C14_expand_idempotent.

(** Already-qualified names are left unchanged. *)
Theorem C14_qualified_unchanged : forall c h, contains h ".svc." = true -> expand c h = h.
Proof. exact expand_qualified. Qed.
Print Assumptions C14_qualified_unchanged.

(** Expansion only appends, and whatever it appends ends with ".<domain>". *)
Theorem C14_expand_appends : forall c h,
  expand c h = h \/ exists mid, expand c h = h ++ mid ++ "." ++ f_dom c.
Proof. exact expand_shape. Qed.
Print Assumptions C14_expand_appends.

(** host:port is bound to <ip>_<port>, host alone to <ip>_80, where <ip> is the first address
    the table gives for the expanded lower-cased host, else for the literal lower-cased host. *)
Theorem C14_listener_name : forall c t h p ip,
  no_char colon h = true -> no_char colon p = true -> ip <> "" ->
  resolve_want c t h = Some ip ->
  listener_name c t (h ++ String colon p) = Some (ip ++ "_" ++ p) /\
  listener_name c t h = Some (ip ++ "_" ++ "80").
Proof. exact bound_to_designated. Qed.
Print Assumptions C14_listener_name.

Theorem C14_resolve : forall c t h,
  resolve c t h = match resolve_want c t h with Some ip => ip | None => "" end.
Proof. exact resolve_spec. Qed.
Print Assumptions C14_resolve.

Theorem C14_case_insensitive : forall c t h1 h2, lower h1 = lower h2 -> resolve c t h1 = resolve c t h2.
Proof. exact resolve_case_insensitive. Qed.
Print Assumptions C14_case_insensitive.

(** Hosts the table cannot resolve are never bound to any listener. *)
Theorem C14_unresolvable_never_bound : forall c t h p,
  no_char colon h = true -> no_char colon p = true ->
  first_addr t (expand c (lower h)) = None -> first_addr t (lower h) = None ->
  listener_name c t (h ++ String colon p) = None /\ listener_name c t h = None.
Proof. exact unresolvable_never_bound. Qed.
Print Assumptions C14_unresolvable_never_bound.

Theorem C14_too_many_colons : forall c t r,
  (3 <= length (split_on colon r))%nat -> listener_name c t r = None.
Proof. exact listener_name_too_many_colons. Qed.
Print Assumptions C14_too_many_colons.

(** The executable specification used on the implementation's observations holds of the
    model's own outputs, for every configuration, table and host string. *)
Theorem C14_spec_holds_of_model : forall c t h, fq_spec (model_case c t h) = true.
Proof. exact fq_spec_model. Qed.
Print Assumptions C14_spec_holds_of_model.

(** Over histories: whatever history [h] (name-table pushes, earlier listener pushes, reconnects, sweeps, resolutions)
    led to the state an accepted listener push arrives in, every subscribed service address [n] is then stored with
    exactly the listener the name table of THAT state binds it to, and with nothing when the table binds it to no
    listener or the push does not carry that listener. *)
Theorem C14_binding : forall c o h ver nonce p res ws n,
  let s := final c o h in
  s_closed s = false -> payload_type p = TLis -> decode_payload o p = Some (DMap res) ->
  tget TLis (s_watched s) = Some ws -> smem n ws = true ->
  sc_nds_required c = true -> n <> reserved_lds ->
  aget n (tget TLis (s_cache (fst (step c o s (OResp ver nonce p))))) =
    match listener_name (sc_f c) (s_table s) n with Some ln => aget ln res | None => None end.
Proof. exact binding_after_any_history. Qed.
Print Assumptions C14_binding.

Example C14_example :
  let c := {| f_ns := "default"; f_dom := "cluster.local" |} in
  let t := [("kitex-server.default.svc.cluster.local", ["10.0.0.1"; "10.0.0.2"]); ("www.example.com", ["1.2.3.4"])] in
  map (expand c) ["kitex-server"; "a.b"; "a.b.svc"; "a.b.c"; "a.b.c.d"; "x.svc.y"]
  = ["kitex-server.default.svc.cluster.local"; "a.b.svc.cluster.local"; "a.b.svc.cluster.local"; "a.b.c";
     "a.b.c.d.default.svc.cluster.local"; "x.svc.y"] /\
  map (listener_name c t) ["Kitex-Server:8888"; "kitex-server"; "www.example.com:443"; "nope:1"; "a:b:c"]
  = [Some "10.0.0.1_8888"; Some "10.0.0.1_80"; Some "1.2.3.4_443"; None; None].
Proof. exact C14_example_proof. Qed.
