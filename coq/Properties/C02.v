(** placeholder *)
From Xds Require Import Model.SysCheck.
Theorem C02_placeholder : True. Proof. exact I. Qed.
