(** C02 — Each response is ACKed or NACKed correctly; a NACK changes nothing.
    Statements only; proofs are [exact] of lemmas in Proofs/SysProofs.v.  [handle_resp] is the
    model of handleResponse/handleLDS..handleNDS + updateAndACK + UpdateResource (Model/Sys.v);
    whether a payload decodes is [decode_payload] (Model/Decode.v, characterised by C13). *)
From Xds Require Import Model.Base Model.Fqdn Model.Proto Model.Decode Model.Pick Model.Route Model.Mw Model.Sys Proofs.SysProofs.
Open Scope string_scope.

(** A rejected response of a subscribed type: exactly one reply (when the sender has a stream) echoing the
    nonce, with the LAST ACCEPTED version and an error detail, listing the interest set; and the resulting
    state is the old state with the nonce of that type replaced - nothing else. *)
Theorem C02_nack : forall c o s v n p ws,
  s_closed s = false -> tget (payload_type p) (s_watched s) = Some ws -> decode_payload o p = None ->
  let t := payload_type p in
  handle_resp c o s v n p =
    (set_ack s t None n,
     emit (set_ack s t None n) {| q_type := t; q_version := tget t (s_version s); q_nonce := n; q_names := ws; q_error := true |}, []).
Proof. exact nack_changes_nothing. Qed.
Print Assumptions C02_nack.

Theorem C02_nack_no_effect : forall s t n,
  let s' := set_ack s t None n in
  s_cache s' = s_cache s /\ s_table s' = s_table s /\ s_version s' = s_version s /\ s_watched s' = s_watched s /\
  s_meta s' = s_meta s /\ s_has_cache s' = s_has_cache s /\ s_closed s' = s_closed s /\ s_stream s' = s_stream s /\
  forall t', tget t' (s_nonce s') = if rtype_eqb t' t then n else tget t' (s_nonce s).
Proof. exact set_ack_none_keeps. Qed.
Print Assumptions C02_nack_no_effect.

(** An accepted response: one reply with the response's version and nonce, no error detail. *)
Theorem C02_ack : forall c o s v n p ws d,
  s_closed s = false -> tget (payload_type p) (s_watched s) = Some ws -> decode_payload o p = Some d ->
  let t := payload_type p in
  snd (fst (handle_resp c o s v n p)) =
    emit (set_ack s t (Some v) n) {| q_type := t; q_version := v; q_nonce := n; q_names := ws; q_error := false |}.
Proof. exact ack_reply. Qed.
Print Assumptions C02_ack.

Theorem C02_at_most_one_reply : forall c o s v n p, (length (snd (fst (handle_resp c o s v n p))) <= 1)%nat.
Proof. exact resp_at_most_one_reply. Qed.
Print Assumptions C02_at_most_one_reply.

(** Responses of never-subscribed types and of unknown type urls are neither acknowledged nor applied. *)
Theorem C02_unsubscribed_ignored : forall c o s v n p,
  tget (payload_type p) (s_watched s) = None -> handle_resp c o s v n p = (s, [], []).
Proof. exact resp_unsubscribed_ignored. Qed.
Print Assumptions C02_unsubscribed_ignored.

Theorem C02_unknown_ignored : forall c o s, step c o s ORespUnknown = (s, no_out).
Proof. exact resp_unknown_ignored. Qed.
Print Assumptions C02_unknown_ignored.

Example C02_example :
  let c := {| sc_nds_required := false; sc_f := {| f_ns := "default"; f_dom := "cluster.local" |} |} in
  let o := mk_oracle_route [] [] in
  let h := [OLookup TCl "c1"; OResp "v1" "n1" (PCds [RGood {| cl_name := "c1"; cl_type := Some 3; cl_lb := 0; cl_eds_service := None; cl_outlier := None; cl_load := None |}]);
            OResp "v2" "n2" (PCds [RUnparsable])] in
  let '(s, outs) := run c o init_state h in
  tget TCl (s_version s) = "v1" /\ tget TCl (s_nonce s) = "n2" /\ map fst (tget TCl (s_cache s)) = ["c1"] /\
  map (fun ot => map (fun sq => (q_version (snd sq), q_nonce (snd sq), q_error (snd sq))) (o_reqs ot)) outs =
    [[("", "", false)]; [("v1", "n1", false)]; [("v1", "n2", true)]].
Proof. exact C02_example_proof. Qed.
