(** placeholder *)
From Xds Require Import Model.SysCheck.
Theorem C04_placeholder : True. Proof. exact I. Qed.
