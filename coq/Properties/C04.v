(** C04 — Stream failures: resubscribe, per-stream nonces, cache kept, clean stop.
    Statements only; proofs are [exact] of lemmas in Proofs/SysProofs.v. *)
From Xds Require Import Model.Base Model.Fqdn Model.Proto Model.Decode Model.Pick Model.Route Model.Mw Model.Sys Proofs.SysProofs.
From Xds Require Import Model.DecodeCheck Model.SysCheck Model.Queue Proofs.WireProofs Proofs.QueueProofs.
Open Scope string_scope.

(** After a non-authentication Recv failure a new stream is opened and every subscribed type - and only those -
    is re-requested on it with the full name set, the last accepted version and an EMPTY nonce (the nonces of the
    old stream are forgotten, so no request on the new stream can carry a nonce that was not issued on it). *)
Theorem C04_resubscribe : forall s,
  s_closed s = false ->
  let '(s', rq) := reconnect s in
  s_stream s' = s_stream s + 1 /\
  rq = flat_map (fun t => match tget t (s_watched s) with
                          | Some ws => [(s_stream s + 1, {| q_type := t; q_version := tget t (s_version s); q_nonce := ""; q_names := ws; q_error := false |})]
                          | None => [] end) all_types.
Proof. exact reconnect_requests. Qed.
Print Assumptions C04_resubscribe.

Theorem C04_nonces_forgotten : forall s t, tget t (s_nonce (fst (reconnect s))) = "".
Proof. exact (fun s t => match t with TLis | TRc | TCl | TEp | TNt => eq_refl end). Qed.
Print Assumptions C04_nonces_forgotten.

(** Stream events never touch the cache, the name table, the accepted versions or the interest sets:
    resources already cached keep being served throughout, and convergence (C01) simply continues. *)
Theorem C04_cache_kept : forall c o s x,
  (exists a, x = ORecvErr a) \/ x = OSendErr ->
  let s' := fst (step c o s x) in
  s_cache s' = s_cache s /\ s_table s' = s_table s /\ s_version s' = s_version s /\ s_watched s' = s_watched s /\ s_meta s' = s_meta s.
Proof. exact stream_events_keep_data. Qed.
Print Assumptions C04_cache_kept.

(** An authentication rejection stops the client for good ... *)
Theorem C04_auth_rejection_stops : forall c o s, s_closed (fst (step c o s (ORecvErr true))) = true.
Proof. exact auth_rejection_closes. Qed.
Print Assumptions C04_auth_rejection_stops.

Theorem C04_stopped_for_good : forall c o s x, s_closed s = true -> s_closed (fst (step c o s x)) = true.
Proof. exact closed_stays_closed. Qed.
Print Assumptions C04_stopped_for_good.

(** ... after which lookups still return - the cached value or an error - and nothing more is sent. *)
Theorem C04_closed_lookups_return : forall s t n,
  s_closed s = true ->
  snd (lookup s t n) = match aget n (tget t (s_cache s)) with Some v => LHit v | None => LMiss end /\
  snd (fst (lookup s t n)) = [].
Proof. exact closed_lookup_serves_cache. Qed.
Print Assumptions C04_closed_lookups_return.

Theorem C04_lookups_always_return : forall s t n,
  match snd (lookup s t n) with LHit _ | LMiss => True | _ => False end.
Proof. exact lookup_returns. Qed.
Print Assumptions C04_lookups_always_return.

(** NONCES OVER HISTORIES.  [runw] also logs every response received as (stream, nonce).  Every request ever sent, on any
    stream, after any history, carries an empty nonce or a nonce that a response delivered on the very stream the request
    is sent on: a nonce never crosses a reconnect. *)
Theorem C04_nonces_stay_on_their_stream : forall c o h,
  let '(s, sent, rcvd) := runw c o init_state h [] [] in
  forall i q, In (i, q) sent -> q_nonce q = "" \/ In (i, q_nonce q) rcvd.
Proof. exact nonces_stay_on_their_stream. Qed.
Print Assumptions C04_nonces_stay_on_their_stream.

(** non-vacuity: a subscription, a missing lookup, an accepted response, a reconnect and another missing lookup - the
    last CDS request on the live stream (1) lists the whole interest set; nonce "n7" was only ever sent on stream 0 *)
Theorem C04_example :
  let c := {| sc_nds_required := false; sc_f := {| f_ns := "default"; f_dom := "cluster.local" |} |} in
  let o := mk_oracle [] [] [] in
  let cl n := RGood {| cl_name := n; cl_type := Some 3; cl_lb := 0; cl_eds_service := None; cl_outlier := None; cl_load := None |} in
  let h := [OSubscribe TCl "a"; OLookup TCl "b"; OResp "7" "n7" (PCds [cl "a"]); ORecvErr false; OLookup TCl "c"] in
  let '(s, sent, rcvd) := runw c o init_state h [] [] in
  (s_stream s, option_map q_names (last_on TCl (s_stream s) sent), map (fun sq => (fst sq, q_nonce (snd sq))) sent, rcvd) =
  (1%N, Some ["c"; "b"; "a"], [(0%N, ""); (0%N, ""); (0%N, "n7"); (1%N, ""); (1%N, "")], [(0%N, "n7")]).
Proof. exact wire_example_proof. Qed.

(** With the asynchronous sender (Model/Queue.v): a request lost in a failing Send does not lose the subscription - when the
    sender takes the next stream it re-subscribes every subscribed type from the current state; and the synchronous
    schedule of that model is the instantaneous sending assumed by the theorems above. *)
Theorem C04_lost_request_is_resubscribed : forall s t ws j,
  tget t (q_sub s) = Some ws -> q_pending s = Some j -> last_sent t j (q_sent (qstep s (QPickup 0))) = Some ws.
Proof. exact lost_request_is_resubscribed. Qed.
Print Assumptions C04_lost_request_is_resubscribed.

Theorem C04_synchronous_schedule : forall s t ws i, q_queue s = [] -> q_cur s = Some i ->
  let s' := qstep (qstep s (QChange t ws)) QSend in
  q_sent s' = (q_sent s ++ [(i, (t, ws))])%list /\ q_queue s' = [] /\ tget t (q_sub s') = Some ws.
Proof. exact sync_send. Qed.
Print Assumptions C04_synchronous_schedule.
