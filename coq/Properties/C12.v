(** C12 — Cluster, endpoint and name-table decoding preserves meaning.
    Statements only; proofs are [exact] of lemmas in Proofs/PreserveProofs.v. *)
From Xds Require Import Model.Base Model.Fqdn Model.Proto Model.Decode Model.DecodeCheck.
From Xds Require Import Proofs.DecodeProofs Proofs.PreserveProofs.

(** discovery type (incl. the getter's default), lb policy, EDS service name defaulting to the
    cluster name, outlier-detection percentages, inline endpoints *)
Theorem C12_cluster_fields : forall c, cluster_preserved c (snd (decode_cluster c)) = true.
Proof. exact cluster_preserved_model. Qed.
Print Assumptions C12_cluster_fields.

Theorem C12_cluster_name : forall c, fst (decode_cluster c) = cl_name c.
Proof. exact (fun _ => eq_refl). Qed.
Print Assumptions C12_cluster_name.

(** localities and endpoints in order with address, port and weight *)
Theorem C12_endpoints : forall c, cla_preserved c (parse_cla c) = true.
Proof. exact cla_preserved_model. Qed.
Print Assumptions C12_endpoints.

(** every host with its addresses in order *)
Theorem C12_nametable : forall rs t, decode_nds rs = Some t -> table_preserved rs (sort_map t) = true.
Proof. exact table_preserved_model. Qed.
Print Assumptions C12_nametable.

(** resources are keyed by their own names: none lost, duplicated or attributed to another name *)
Theorem C12_cds_keyed_by_own_name : forall rs m,
  decode_cds rs = Some m -> resources_preserved cl_name cluster_preserved rs (sort_map m) = true.
Proof. exact cds_response_preserved. Qed.
Print Assumptions C12_cds_keyed_by_own_name.

Theorem C12_eds_keyed_by_own_name : forall rs m,
  decode_eds rs = Some m -> resources_preserved cla_name (fun c r => cla_preserved (Some c) r) rs (sort_map m) = true.
Proof. exact eds_response_preserved. Qed.
Print Assumptions C12_eds_keyed_by_own_name.

(** the lookup behind "keyed by own name": the result map sends a name to the content of the
    last source resource carrying it, and to nothing else *)
Theorem C12_lookup : forall (rs : list (res_pb cluster_pb)) m,
  decode_cds rs = Some m ->
  NoDup (akeys m) /\
  forall k, aget k m = match find (fun c => String.eqb (cl_name c) k) (rev (goods rs)) with
                       | Some c => Some (snd (decode_cluster c))
                       | None => None
                       end.
Proof. exact cds_lookup. Qed.
Print Assumptions C12_lookup.

Example C12_example :
  let c := {| cl_name := "c1"; cl_type := None; cl_lb := 2; cl_eds_service := Some ""%string; cl_outlier := Some {| od_threshold := Some 10; od_volume := None |};
              cl_load := Some {| cla_name := "x"; cla_localities := [[{| lbe_sock := Some {| sa_addr := "fd00::1"; sa_port := 80 |}; lbe_weight := None |}]] |} |} in
  decode_cluster c = ("c1"%string, {| c_dtype := 2; c_lb := 1; c_epname := "c1"; c_inline := Some [[("[fd00::1]:80"%string, 0)]]; c_outlier := Some (10, 0) |}).
Proof. exact C12_example_proof. Qed.
