(** C07 (lock structure), thorough tier: the paths of the two dispatchers as well (needs an unlimited stack). *)
From Xds Require Import Model.Base Model.Skel Proofs.SkelProofs.
From Xds Require Import gen.SkelGen Properties.C07Skel.
From Coq Require Import Relations.
Open Scope string_scope.

Lemma C07_every_path_checked_full_bool : all_defined entry_points && forallb (fun p => v_all (check_path true [] [[]] p)) (paths_of entry_points) = true.
Proof. vm_compute. reflexivity. Qed.

Theorem C07_every_path_checked_full : forall p, In p (paths_of entry_points) -> v_all (check_path true [] [[]] p) = true.
Proof.
  pose proof C07_every_path_checked_full_bool as H. apply andb_true_iff in H. destruct H as [_ H].
  rewrite forallb_forall in H. exact H.
Qed.

Theorem C07_no_lock_deadlock_full : forall ts,
  (forall t, In t ts -> exists p, In p (paths_of entry_points) /\ reach (start p) t) ->
  forall i, ~ clos_trans nat (waits_for_waiting ts) i i.
Proof. exact (checked_paths_no_deadlock true (paths_of entry_points) C07_every_path_checked_full). Qed.

Theorem C07_no_data_race_full : forall ts,
  (forall t, In t ts -> exists p, In p (paths_of entry_points) /\ reach (start p) t) -> exclusive ts ->
  forall i j ti tj f l wi wj, i <> j -> nth_error ts i = Some ti -> nth_error ts j = Some tj ->
    accesses ti = Some (f, l, wi) -> accesses tj = Some (f, l, wj) -> wi || wj = true -> False.
Proof. exact (checked_paths_no_race true (paths_of entry_points) C07_every_path_checked_full). Qed.

Print Assumptions C07_every_path_checked_full.
Print Assumptions C07_no_lock_deadlock_full.
Print Assumptions C07_no_data_race_full.
