(** C01 — Served cache equals the fold of accepted responses (SotW convergence).
    Statements only; proofs are [exact] of lemmas in Proofs/C01Proofs.v.

    The specification is the per-key fold [kv_step] of Model/SysCheck.v: for a key (type t, name n) it tracks
    (client open?, name table, name table subscribed?, interest set of t, content of (t, n)).  It is short
    enough to read (Model/SysCheck.v, [kv_step]) and it is the SAME function that the check evaluates on the
    traces observed on the implementation ([spec_c01]), so that the theorem below says: the state machine
    that agrees with the implementation step by step implements this fold on every history. *)
From Xds Require Import Model.Base Model.Fqdn Model.Proto Model.Decode Model.DecodeCheck Model.Pick Model.Route Model.Mw Model.Sys Model.SysCheck.
From Xds Require Import Model.FullView Proofs.DecodeProofs Proofs.C01Proofs Proofs.ResolveProofs Proofs.FullProofs.
Open Scope string_scope.

(** Refinement, for every history (of any length) of subscriptions, lookups, bursts of lookups, responses of
    every type (well-formed or not, solicited or not, in any order), unknown type urls, handler registrations,
    stream failures, clock ticks: the content served for (t, n), the interest set, the name table and the
    open/closed status after the history are those of the fold.  ([c01_op] excludes only eviction sweeps - C19 -
    and the resolver's two-stage lookup - C10.)  Both configurations (name table required or not) are covered
    by the quantification over [c]. *)
Theorem C01_refinement : forall c o t n h, t <> TNt -> forallb c01_op h = true ->
  abs t n (final c o h) = fold_left (kv_step c o t n) h kv_init.
Proof. exact final_refines. Qed.
Print Assumptions C01_refinement.

(** The same with resolver lookups in the history, for listeners, route tables and clusters; for endpoint sets the
    fold is [ep_fold] (a resolution subscribes the endpoint set named by the cluster it finds): C10_endpoints_are_fold. *)
Theorem C01_refinement_with_resolutions : forall c o t n h, t <> TNt -> t <> TEp -> forallb hist_op h = true -> forall s, inv s ->
  abs t n (fst (run c o s h)) = fold_left (kv_step c o t n) h (abs t n s).
Proof. exact run_refines_hist. Qed.
Print Assumptions C01_refinement_with_resolutions.

(** The COMPLETE per-key refinement (Model/FullView.v, [fv_step]): the view records whether the key itself is of
    interest (rather than the whole interest set), its access record and the clock, and follows EVERY operation - eviction
    sweeps, clock ticks and the back-dating device included.  After ANY history the content served for a key, whether
    it is of interest, its access record, the name table, the clock and the open/closed status are those of the fold.
    ([full_op] only excludes resolver lookups for endpoint-set keys, which C10_endpoints_are_fold covers.)
    The same fold is evaluated on the implementation's traces around real sweeps ([spec_full], C19 check). *)
Theorem C01_refinement_full : forall c o t n h, t <> TNt -> forallb (full_op t) h = true ->
  absf t n (final c o h) = fold_left (fv_step c o t n) h fv_init.
Proof. exact final_refines_full. Qed.
Print Assumptions C01_refinement_full.

(** ... and for endpoint-set keys with NO exception at all: a resolution looks up the endpoint set named by the cluster it
    finds, which is read off the cluster's own complete fold ([ep_ffold]).  Together: every type, every history. *)
Theorem C01_refinement_full_endpoints : forall c o n h pre,
  absf TEp n (fst (run c o (final c o pre) h)) = ep_ffold c o n pre (absf TEp n (final c o pre)) h.
Proof. exact run_refines_ep_full. Qed.
Print Assumptions C01_refinement_full_endpoints.

Theorem C01_full_example :
  let c := {| sc_nds_required := false; sc_f := {| f_ns := "default"; f_dom := "cluster.local" |} |} in
  let o := mk_oracle [] [] [] in
  let cl n := RGood {| cl_name := n; cl_type := Some 3; cl_lb := 0; cl_eds_service := None; cl_outlier := None; cl_load := None |} in
  let h := [OSubscribe TCl "a"; OSubscribe TCl "b"; OResp "1" "n1" (PCds [cl "a"; cl "b"]); OTick 20000; OLookup TCl "b"; OTick 20000; OSweep;
            OResp "2" "n2" (PCds [cl "a"; cl "b"])] in
  map (fun n => let v := fold_left (fv_step c o TCl n) h fv_init in (fv_in v, is_some (fv_val v), fv_meta v)) ["a"; "b"] =
  [(false, false, None); (true, true, Some 1020000%N)].
Proof. exact full_example_proof. Qed.

(** A lookup succeeds exactly when the fold contains the name and returns the fold's content. *)
Theorem C01_lookup_serves_fold : forall c o t n h, t <> TNt -> forallb c01_op h = true ->
  snd (lookup (final c o h) t n) =
  match kv_val (fold_left (kv_step c o t n) h kv_init) with Some v => LHit v | None => LMiss end.
Proof. exact lookup_serves_fold. Qed.
Print Assumptions C01_lookup_serves_fold.

(** The fold for one accepted response of the key's type: a carried name takes the response's content (the most
    recent accepted one wins); an omitted name is dropped for listeners and clusters (every accepted response
    replaces the whole set) and kept for route tables and endpoint sets (merge by name).  With the name table
    required, a listener is looked up under the name the table binds the requested host to (C14). *)
Theorem C01_fold_accepted : forall c o t n v ver nonce p res ws,
  kv_open v = true -> payload_type p = t -> t <> TNt -> decode_payload o p = Some (DMap res) -> kv_interest v = Some ws -> smem n ws = true ->
  kv_val (kv_step c o t n v (OResp ver nonce p)) =
    match (if rtype_eqb t TLis && sc_nds_required c && negb (String.eqb n reserved_lds)
           then match listener_name (sc_f c) (kv_table v) n with Some ln => aget ln res | None => None end
           else aget n res) with
    | Some cv => Some cv
    | None => if full_type t then None else kv_val v
    end.
Proof. exact fold_step_accepted. Qed.
Print Assumptions C01_fold_accepted.

(** A response that does not decode is not part of the fold. *)
Theorem C01_fold_rejected : forall c o t n v ver nonce p,
  decode_payload o p = None -> kv_step c o t n v (OResp ver nonce p) = v.
Proof. exact fold_step_rejected. Qed.
Print Assumptions C01_fold_rejected.

(** "accepted" = well-formed: a payload decodes exactly when the acceptability predicate of C13 holds. *)
Theorem C01_accepted_iff_well_formed : forall o p, payload_ok o p = is_some (decode_payload o p).
Proof. exact payload_ok_decodes. Qed.
Print Assumptions C01_accepted_iff_well_formed.

(** Names that were never asked for are never stored or served: in EVERY reachable state (sweeps and resolver
    lookups included) the cache holds only names of the interest set of its type. *)
Theorem C01_never_asked_never_served : forall c o h t n,
  smem n (watched_names (final c o h) t) = false -> aget n (tget t (s_cache (final c o h))) = None.
Proof. exact never_asked_never_served. Qed.
Print Assumptions C01_never_asked_never_served.

Theorem C01_reachable_invariant : forall c o h, inv (final c o h).
Proof. exact reachable_inv. Qed.
Print Assumptions C01_reachable_invariant.

(** non-vacuity: a full-state type drops an omitted name and never stores an unsolicited one *)
Theorem C01_example :
  let c := {| sc_nds_required := false; sc_f := {| f_ns := "default"; f_dom := "cluster.local" |} |} in
  let o := mk_oracle [] [] [] in
  let cl n := RGood {| cl_name := n; cl_type := Some 3; cl_lb := 0; cl_eds_service := None; cl_outlier := None; cl_load := None |} in
  let h := [OSubscribe TCl "a"; OSubscribe TCl "b"; OResp "1" "n1" (PCds [cl "a"; cl "b"; cl "zz"]); OResp "2" "n2" (PCds [cl "b"])] in
  map (fun n => is_some (aget n (tget TCl (s_cache (final c o h))))) ["a"; "b"; "zz"] = [false; true; false].
Proof. exact C01_example_proof. Qed.
