(** placeholder *)
From Xds Require Import Model.SysCheck.
Theorem C01_placeholder : True. Proof. exact I. Qed.
