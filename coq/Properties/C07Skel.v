(** C07 (lock structure) — theorems about the skeleton REGENERATED from /repo's sources by tools/skel on every run
    of the check (gen/SkelGen.v, not under version control).  This file is compiled by the check after the
    translator has run (it is not part of _CoqProject).  The first four are closed by computation of the executable
    checkers of Model/Skel.v on the generated skeleton; the others combine the enumeration of every path of every
    entry point with the semantic theorems of Proofs/SkelProofs.v. *)
From Xds Require Import Model.Base Model.Skel Proofs.SkelProofs.
From Xds Require Import gen.SkelGen.
From Coq Require Import Relations.
Open Scope string_scope.

(** every function of the manager and the client, entered with no lock held: locks are taken in strictly
    increasing rank (m.mu < c.mu < cipResolver.mu) and never re-entered; every way out releases what was
    taken; every access to a guarded field holds its owning lock (write mode for writes); no channel
    operation blocks under a lock except sends to the request queue (capacity assumption); handlers are only
    called inside a write section of m.mu; Watch and the cache serialisation run under m.mu; nothing irregular
    was met by the translator *)
Theorem C07_lock_discipline : v_all (sv (check_all true skel)) = true.
Proof. vm_compute. reflexivity. Qed.

(** by the time a lookup can see a resource, every registered handler has completed for the update that
    delivered it: in UpdateResource every handler call precedes the first write of the cache, and the whole
    function is one write section of m.mu *)
Theorem C07_policy_before_data : check_policy_before_data skel = true /\ check_update_is_one_section skel = true.
Proof. vm_compute. split; reflexivity. Qed.

(** the same, path by path and without the abstract interpreter: on EVERY path of UpdateResource the write section of m.mu
    is opened first and closed only by the function's deferred unlock, and every handler call precedes the first write of
    the cache.  With SkelProofs.writer_excludes_accesses (no other goroutine can access a field guarded by m.mu while one
    holds m.mu in write mode) no lookup can read the cache between the handlers and the write. *)
Theorem C07_policy_before_data_on_every_path : check_policy_paths skel = true.
Proof. vm_compute. reflexivity. Qed.

(** update handlers never call back into the manager *)
Theorem C07_handlers_do_not_reenter : check_no_reentry skel = true.
Proof. vm_compute. reflexivity. Qed.

(** without the assumption that the request queue always has a free slot, a producer can wait for a slot while
    holding m.mu and c.mu (a stall for as long as the control plane exerts back-pressure on the sender) ... *)
Theorem C07_blocking_send_under_locks_without_capacity : v_block (sv (check_all false skel)) = false.
Proof. vm_compute. reflexivity. Qed.

(** ... but never a deadlock: the only consumer of the queue, the sender, never waits for a lock on any of its paths
    (its re-subscription on a new stream spins on TryLock, discarding the superseded queue entries; this is the repair
    of D13), so the thread a blocked producer waits for is not waiting for any lock the producer holds *)
Theorem C07_queue_consumer_never_waits_for_a_lock : check_consumer_never_waits skel = true.
Proof. vm_compute. reflexivity. Qed.

(** ---- path level ---- *)
(** entry points whose paths are enumerated in the quick tier (the two dispatchers, about 150 000 paths each, are
    enumerated by Properties/C07SkelFull.v in the thorough tier; the structured checker above covers them always) *)
Definition enumerated : list string :=
  filter (fun f => negb (String.eqb f "handleResponse" || String.eqb f "receiver")) entry_points.

Definition paths_of (fs : list string) : list (list atom) :=
  flat_map (fun f => match aget f skel with Some b => map fst (all_paths skel b) | None => [] end) fs.
Definition all_defined (fs : list string) : bool := forallb (fun f => match aget f skel with Some _ => true | None => false end) fs.

Lemma C07_every_path_checked_bool : all_defined enumerated && forallb (fun p => v_all (check_path true [] [[]] p)) (paths_of enumerated) = true.
Proof. vm_compute. reflexivity. Qed.

(** every path (calls inlined, loops zero times and once) of every enumerated entry point passes the path checker *)
Theorem C07_every_path_checked : forall p, In p (paths_of enumerated) -> v_all (check_path true [] [[]] p) = true.
Proof.
  pose proof C07_every_path_checked_bool as H. apply andb_true_iff in H. destruct H as [_ H].
  rewrite forallb_forall in H. exact H.
Qed.

(** non-vacuity: there are paths, and some of them take two locks *)
Theorem C07_paths_exist : (100 <=? length (paths_of enumerated))%nat = true /\
  existsb (fun p => (2 <=? length (filter (fun a => match a with AAcq _ _ => true | _ => false end) p))%nat) (paths_of enumerated) = true.
Proof. vm_compute. split; reflexivity. Qed.

(** DEADLOCK FREEDOM of the lock structure: any number of goroutines, each anywhere along any path of any of these
    functions - no cycle of goroutines each waiting for a lock the next one holds *)
Theorem C07_no_lock_deadlock : forall ts,
  (forall t, In t ts -> exists p, In p (paths_of enumerated) /\ reach (start p) t) ->
  forall i, ~ clos_trans nat (waits_for_waiting ts) i i.
Proof. exact (checked_paths_no_deadlock true (paths_of enumerated) C07_every_path_checked). Qed.

(** DATA-RACE FREEDOM on the guarded fields (cache, meta, notifierMap, handlers, watchedResource, versionMap, nonceMap,
    lookup table): never two goroutines about to access the same field, one of them writing ([exclusive]: what sync.RWMutex
    provides, kept by every step that respects it: SkelProofs.exclusive_step) *)
Theorem C07_no_data_race : forall ts,
  (forall t, In t ts -> exists p, In p (paths_of enumerated) /\ reach (start p) t) -> exclusive ts ->
  forall i j ti tj f l wi wj, i <> j -> nth_error ts i = Some ti -> nth_error ts j = Some tj ->
    accesses ti = Some (f, l, wi) -> accesses tj = Some (f, l, wj) -> wi || wj = true -> False.
Proof. exact (checked_paths_no_race true (paths_of enumerated) C07_every_path_checked). Qed.

Print Assumptions C07_lock_discipline.
Print Assumptions C07_policy_before_data.
Print Assumptions C07_policy_before_data_on_every_path.
Print Assumptions C07_handlers_do_not_reenter.
Print Assumptions C07_blocking_send_under_locks_without_capacity.
Print Assumptions C07_queue_consumer_never_waits_for_a_lock.
Print Assumptions C07_every_path_checked.
Print Assumptions C07_paths_exist.
Print Assumptions C07_no_lock_deadlock.
Print Assumptions C07_no_data_race.
