(** placeholder *)
From Xds Require Import Model.ConcCheck.
Theorem C05_placeholder : True. Proof. exact I. Qed.
