(** C05 — Lookup returns a value of the requested kind xor an error, in bounded time.
    Statements only; proofs are [exact] of lemmas in Proofs/ConcProofs.v.  Schedules are lists
    of events of Model/Conc.v: every interleaving of lookups (at Get's lock-free gaps), deliveries
    and deadline firings is such a list; the theorems quantify over ALL of them. *)
From Xds Require Import Model.Base Model.Conc Proofs.ConcProofs.
Open Scope N_scope.

(** In every state reachable by any schedule, a finished lookup has a value or an error:
    never nil-and-nil, never both, never anything else. *)
Theorem C05_value_xor_error : forall h t th r,
  kget t (c_threads (crun h)) = Some th -> th_st th = TDone r ->
  match r with RVal _ | RErr => True | _ => False end.
Proof. exact (fun h => crun_results_good h). Qed.
Print Assumptions C05_value_xor_error.

(** A value returned is the content the cache holds for the requested key at the very step that
    returns it (so it is of the requested kind and was supplied by the control plane); an error
    is returned only if the key is absent at that step, the kind is unknown, or the lookup's own
    deadline fired. *)
Theorem C05_value_is_current : forall s e t r,
  thread_result s t = None -> thread_result (cstep s e) t = Some r ->
  exists th, kget t (c_threads (cstep s e)) = Some th /\
    match r with
    | RVal v => kget (th_key th) (c_cache s) = Some v
    | RErr => kget (th_key th) (c_cache s) = None \/ (exists k, e = EInvokeBad t /\ k = 0) \/ (e = ETimeout t)
    | _ => False
    end.
Proof. exact step_reads_current. Qed.
Print Assumptions C05_value_is_current.

(** Bounded steps: the rank of a lookup (3 new, 2 missed, 1 waiting, 0 returned) never increases
    and strictly decreases with each of its own enabled steps: at most three own steps. *)
Theorem C05_bounded_steps : forall s e t th th',
  kget t (c_threads s) = Some th -> kget t (c_threads (cstep s e)) = Some th' ->
  (rank (th_st th') <= rank (th_st th))%nat /\
  ((e = EStep t \/ e = EWake t \/ e = ETimeout t) -> enabled s e = true -> (rank (th_st th') < rank (th_st th))%nat).
Proof. exact own_step_decreases. Qed.
Print Assumptions C05_bounded_steps.

(** Progress: a lookup's next own step is enabled unless it waits with an open notifier and an
    unfired deadline; once its deadline has fired it can always return. *)
Theorem C05_progress : forall s t th,
  kget t (c_threads s) = Some th ->
  match th_st th with
  | TMissed => enabled s (EStep t) = true
  | TWaiting nid => and (nmem nid (c_closed s) = true -> enabled s (EWake t) = true)
                        (th_fired th = true -> enabled s (ETimeout t) = true)
  | _ => True
  end.
Proof. exact own_step_enabled. Qed.
Print Assumptions C05_progress.

(** An unknown kind is rejected at its first step. *)
Theorem C05_unknown_kind : forall s t,
  kget t (c_threads s) = None -> thread_result (cstep s (EInvokeBad t)) t = Some RErr /\
  c_watches (cstep s (EInvokeBad t)) = c_watches s /\ c_nmap (cstep s (EInvokeBad t)) = c_nmap s.
Proof. exact unknown_kind_rejected. Qed.
Print Assumptions C05_unknown_kind.

(** The sequential lookup of the state machine (Model/Sys.v [lookup], used by C01-C04, C10, C19: "Get with an expired
    context") is the uninterrupted schedule of this model: alone, a hit returns the value at once without subscribing; a
    miss registers, issues exactly one subscription request and - its deadline fired - returns an error, leaving no
    notifier behind. *)
Theorem C05_sequential_hit : forall s t k v, kget t (c_threads s) = None -> kget k (c_cache s) = Some v ->
  thread_result (cstep s (EInvoke t k)) t = Some (RVal v) /\ c_watches (cstep s (EInvoke t k)) = c_watches s.
Proof. exact sequential_hit. Qed.
Theorem C05_sequential_miss : forall s t k, kget t (c_threads s) = None -> kget k (c_cache s) = None -> kget k (c_nmap s) = None ->
  let s' := fold_left cstep [EInvoke t k; EStep t; EFire t; ETimeout t] s in
  thread_result s' t = Some RErr /\ c_watches s' = (c_watches s ++ [k])%list /\ kget k (c_nmap s') = None /\ c_cache s' = c_cache s.
Proof. exact sequential_miss. Qed.
Print Assumptions C05_sequential_miss.

Example C05_example :
  (* the wake-up/removal race: delivered, then removed by a full response before the woken lookup re-reads: an error, not nil *)
  thread_result (crun [EInvoke 0 7; EStep 0; EDeliver true [(7, 42)] [7; 8]; EDeliver true [(8, 43)] [7; 8]; EWake 0]) 0 = Some RErr.
Proof. exact C05_example_proof. Qed.
