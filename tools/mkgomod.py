#!/usr/bin/env python3
"""Regenerate harness/go.mod and harness/go.sum from /repo/go.mod (same requires and replaces,
plus replace github.com/kitex-contrib/xds => REPO).  Writes only when content changes."""
import os, re, sys
repo = os.environ.get("VERIF_REPO", "/repo")
here = os.path.dirname(os.path.dirname(os.path.abspath(__file__)))
src = open(os.path.join(repo, "go.mod")).read()
body = src.split("\n", 1)[1]
body = re.sub(r"^go .*$", "", body, count=1, flags=re.M)
gover = re.search(r"^go (.*)$", src, flags=re.M).group(1)
out = "module verifharness\n\ngo %s\n%s\nrequire github.com/kitex-contrib/xds v0.0.0\n\nreplace github.com/kitex-contrib/xds => %s\n" % (gover, body, repo)
def put(path, content):
    old = open(path).read() if os.path.exists(path) else None
    if old != content:
        open(path, "w").write(content)
put(os.path.join(here, "harness", "go.mod"), out)
put(os.path.join(here, "harness", "go.sum"), open(os.path.join(repo, "go.sum")).read())
