#!/usr/bin/env python3
"""Applies each behaviour-preserving rewrite under /verif/harmless to /repo, runs every quick check and expects silence
(development tool: measures false alarms; a harmless rewrite MAY legitimately break a proof obligation or the
correspondence - such cases are listed in DESIGN.md)."""
import json, os, subprocess, sys
VERIF = os.path.dirname(os.path.dirname(os.path.abspath(__file__)))
ENV = dict(os.environ, GOFLAGS="-mod=mod", GOPROXY="off", GOSUMDB="off", GOTOOLCHAIN="local")
def sh(cmd, **kw):
    p = subprocess.run(cmd, stdout=subprocess.PIPE, stderr=subprocess.STDOUT, text=True, **kw)
    return p.returncode, p.stdout
assert sh(["git", "-C", "/repo", "status", "--porcelain"])[1].strip() == "", "/repo dirty"
only = sys.argv[1:]
res = {}
for f in sorted(os.listdir(os.path.join(VERIF, "harmless"))):
    if not f.endswith(".diff") or (only and f[:-5] not in only):
        continue
    name = f[:-5]
    rc, out = sh(["git", "-C", "/repo", "apply", os.path.join(VERIF, "harmless", f)])
    if rc != 0:
        res[name] = {"applies": False}; print(name, "does not apply"); continue
    try:
        rc, out = sh(["sh", "-c", "go build ./... && go build -tags verif ./... && unshare -n sh -c 'ip link set lo up; go test -vet=off -count=1 ./...'"], cwd="/repo", env=ENV)
        alarms = []
        for i in range(1, 21):
            p = "C%02d" % i
            r, o = sh([os.path.join(VERIF, "check"), p, "--tier", "quick"], cwd=VERIF, env=dict(os.environ, VERIF_SHRINK_ROUNDS="1"))
            if r != 0:
                alarms.append({"check": p, "line": [l for l in o.splitlines() if l.startswith("VIOLATION")][-1:]})
        res[name] = {"applies": True, "suite_passes": rc == 0, "alarms": alarms}
        print(name, "suite", "ok" if rc == 0 else "FAILS", "alarms:", alarms or "none", flush=True)
    finally:
        sh(["git", "-C", "/repo", "checkout", "--", "."]); sh(["git", "-C", "/repo", "clean", "-fdq"])
json.dump(res, open(os.path.join(VERIF, "harmless", "RESULTS.json"), "w"), indent=1, sort_keys=True)
