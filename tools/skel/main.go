// Command skel regenerates the lock skeleton of kitex-contrib/xds from its source: for each
// function of core/manager/{manager,client}.go and xdssuite/{circuitbreak,retry,limiter}.go a
// structured command tree listing, in order, every lock operation, access to a guarded field,
// channel operation and call.  It is a purely syntactic transcription (go/ast): path
// enumeration, defer handling, call inlining and all checks are done in Coq (coq/Model/Skel.v).
// Anything it cannot classify is emitted as Irregular, which fails the check.
//
// usage: skel <repo> > SkelGen.v
package main

import (
	"fmt"
	"go/ast"
	"go/parser"
	"go/token"
	"os"
	"path/filepath"
	"sort"
	"strings"
)

var files = []string{
	"core/manager/manager.go", "core/manager/client.go",
	"xdssuite/circuitbreak.go", "xdssuite/retry.go", "xdssuite/limiter.go",
}

// fields guarded by a lock: selector text -> (field name, lock)
var guarded = map[string][2]string{
	"m.cache": {"cache", "LM"}, "m.meta": {"meta", "LM"}, "m.notifierMap": {"notifierMap", "LM"}, "m.xdsHandlers": {"xdsHandlers", "LM"},
	"nf.waiters":        {"waiters", "LM"},
	"c.watchedResource": {"watchedResource", "LC"}, "c.versionMap": {"versionMap", "LC"}, "c.nonceMap": {"nonceMap", "LC"},
	"r.lookupTable": {"lookupTable", "LR"}, "r.closed": {"resolverClosed", "LR"},
}

var locks = map[string]string{"m.mu": "LM", "c.mu": "LC", "r.mu": "LR"}

// functions of the skeleton set (callees are inlined in Coq)
var known = map[string]bool{}

func sel(e ast.Expr) string {
	switch x := e.(type) {
	case *ast.Ident:
		return x.Name
	case *ast.SelectorExpr:
		return sel(x.X) + "." + x.Sel.Name
	case *ast.IndexExpr:
		return sel(x.X)
	case *ast.ParenExpr:
		return sel(x.X)
	case *ast.StarExpr:
		return sel(x.X)
	case *ast.CallExpr:
		return sel(x.Fun) + "()"
	}
	return "?"
}

type gen struct {
	fset *token.FileSet
}

func q(s string) string { return `"` + strings.ReplaceAll(s, `"`, `""`) + `"` }

// silent: the command contains nothing the checks look at (no lock operation, guarded access,
// channel operation, call, handler call, return or loop exit); such commands are dropped, which
// keeps the number of paths enumerated in Coq small without changing any verdict
func silent(c string) bool {
	for _, w := range []string{"Acq ", "Rel ", "DeferRel ", "Access ", "Send ", "Recv ", "Call ", "CallHandler", "Return", "LoopExit", "Irregular ", "Select ", "SelDefault", "CloseCh ", "GoStmt ", "Ext \"json.", "Ext \"m.client.Watch"} {
		if strings.Contains(c, w) {
			return false
		}
	}
	return true
}

func seq(cs []string) string {
	var out []string
	for _, c := range cs {
		if c != "" && !silent(c) {
			out = append(out, c)
		}
	}
	if len(out) == 0 {
		return ""
	}
	if len(out) == 1 {
		return out[0]
	}
	return "Seq [" + strings.Join(out, "; ") + "]"
}

// branch builds a Branch of distinct alternatives; a branch whose alternatives are all silent is dropped
func branch(alts []string) string {
	var out []string
	seen := map[string]bool{}
	allSilent := true
	for _, a := range alts {
		if a == "" || silent(a) {
			a = "Seq []"
		} else {
			allSilent = false
		}
		if !seen[a] {
			seen[a] = true
			out = append(out, a)
		}
	}
	if allSilent {
		return ""
	}
	if len(out) == 1 {
		return out[0]
	}
	return "Branch [" + strings.Join(out, "; ") + "]"
}

func loop(body string) string {
	if body == "" || silent(body) {
		return ""
	}
	return "Loop (" + body + ")"
}

// accesses collects reads of guarded fields in an expression (writes are handled by the caller)
func (g *gen) accesses(e ast.Node, write map[string]bool) []string {
	var out []string
	if e == nil {
		return nil
	}
	ast.Inspect(e, func(n ast.Node) bool {
		switch x := n.(type) {
		case *ast.FuncLit:
			return false
		case *ast.SelectorExpr:
			s := sel(x)
			if f, ok := guarded[s]; ok {
				out = append(out, fmt.Sprintf("Access %s %s %v", q(f[0]), f[1], write[s]))
				return false
			}
		}
		return true
	})
	return out
}

func (g *gen) call(c *ast.CallExpr, deferred bool) []string {
	fn := sel(c.Fun)
	var out []string
	// lock operations
	for _, op := range []struct {
		suffix string
		acq, w bool
	}{{".Lock", true, true}, {".RLock", true, false}, {".Unlock", false, true}, {".RUnlock", false, false}} {
		if strings.HasSuffix(fn, op.suffix) {
			recv := strings.TrimSuffix(fn, op.suffix)
			l, ok := locks[recv]
			if !ok {
				return []string{fmt.Sprintf("Irregular %s", q("lock operation on "+recv))}
			}
			switch {
			case deferred && !op.acq:
				return []string{fmt.Sprintf("DeferRel %s %v", l, op.w)}
			case deferred:
				return []string{"Irregular " + q("deferred acquire")}
			case op.acq:
				return []string{fmt.Sprintf("Acq %s %v", l, op.w)}
			default:
				return []string{fmt.Sprintf("Rel %s %v", l, op.w)}
			}
		}
	}
	if strings.HasSuffix(fn, ".TryLock") || strings.HasSuffix(fn, ".TryRLock") {
		// only the spin form `for !mu.TryLock() { ... }` is understood (see ForStmt)
		return []string{"Irregular " + q("conditional lock acquisition "+fn)}
	}
	// arguments first (reads), delete(...) writes its first argument
	write := map[string]bool{}
	if fn == "delete" && len(c.Args) > 0 {
		write[sel(c.Args[0])] = true
	}
	for _, a := range c.Args {
		out = append(out, g.accesses(a, write)...)
	}
	if se, ok := c.Fun.(*ast.SelectorExpr); ok {
		out = append(out, g.accesses(se.X, nil)...)
	}
	last := fn
	if i := strings.LastIndex(fn, "."); i >= 0 {
		last = fn[i+1:]
	}
	switch {
	case fn == "close":
		out = append(out, "CloseCh "+q(sel(c.Args[0])))
	case fn == "handler":
		out = append(out, "CallHandler")
	case fn == "delete" || fn == "make" || fn == "len" || fn == "append" || fn == "new" || fn == "cap" || fn == "panic" || fn == "recover" || fn == "string" || fn == "uint32" || fn == "float64" || fn == "int64" || fn == "int32" || fn == "int":
	case strings.HasPrefix(fn, "klog.") || strings.HasPrefix(fn, "fmt.") || strings.HasPrefix(fn, "time.") || strings.HasPrefix(fn, "strings.") ||
		strings.HasPrefix(fn, "os.") || strings.HasPrefix(fn, "debug.") || strings.HasPrefix(fn, "xdsresource.") ||
		strings.HasPrefix(fn, "context.") || strings.HasPrefix(fn, "backoff.") || strings.HasPrefix(fn, "auth.") || strings.HasPrefix(fn, "atomic."):
	case fn == "m.client.Watch":
		// the manager subscribes / unsubscribes: must be atomic with the cache and notifier change that causes it
		out = append(out, "Ext "+q(fn), "Call "+q(last))
	case known[last] && (strings.HasPrefix(fn, "m.") || strings.HasPrefix(fn, "c.") || strings.HasPrefix(fn, "r.") || strings.HasPrefix(fn, "rc.") || strings.HasPrefix(fn, "cb.") || strings.HasPrefix(fn, "l.") || !strings.Contains(fn, ".")):
		out = append(out, "Call "+q(last))
	case strings.HasSuffix(fn, ".notify"):
		out = append(out, "CloseCh "+q("nf.ch"))
	default:
		out = append(out, "Ext "+q(fn))
	}
	if deferred {
		return []string{"Irregular " + q("deferred call of "+fn)}
	}
	return out
}

func (g *gen) expr(e ast.Expr) []string {
	if e == nil {
		return nil
	}
	var out []string
	switch x := e.(type) {
	case *ast.CallExpr:
		return g.call(x, false)
	case *ast.UnaryExpr:
		if x.Op == token.ARROW {
			return append(g.accesses(x.X, nil), "Recv "+q(sel(x.X)))
		}
		return g.expr(x.X)
	case *ast.BinaryExpr:
		return append(g.expr(x.X), g.expr(x.Y)...)
	case *ast.ParenExpr:
		return g.expr(x.X)
	case *ast.TypeAssertExpr:
		return g.expr(x.X)
	case *ast.CompositeLit, *ast.FuncLit:
		// calls inside literals
		ast.Inspect(e, func(n ast.Node) bool {
			if c, ok := n.(*ast.CallExpr); ok {
				out = append(out, g.call(c, false)...)
				return false
			}
			return true
		})
		return append(g.accesses(e, nil), out...)
	case *ast.IndexExpr, *ast.SelectorExpr, *ast.Ident, *ast.BasicLit, *ast.StarExpr, *ast.SliceExpr, *ast.KeyValueExpr:
		ast.Inspect(e, func(n ast.Node) bool {
			if c, ok := n.(*ast.CallExpr); ok {
				out = append(out, g.call(c, false)...)
				return false
			}
			return true
		})
		return append(g.accesses(e, nil), out...)
	}
	return []string{"Irregular " + q(fmt.Sprintf("expression %T", e))}
}

func (g *gen) block(b *ast.BlockStmt) string {
	if b == nil {
		return ""
	}
	var cs []string
	for _, s := range b.List {
		cs = append(cs, g.stmt(s))
	}
	return seq(cs)
}

func (g *gen) stmt(s ast.Stmt) string {
	switch x := s.(type) {
	case nil:
		return ""
	case *ast.ExprStmt:
		return seq(g.expr(x.X))
	case *ast.AssignStmt:
		var cs []string
		for _, r := range x.Rhs {
			cs = append(cs, g.expr(r)...)
		}
		for _, l := range x.Lhs {
			write := map[string]bool{sel(l): true}
			// m.cache[rt][name] = v writes the field; an index expression on the left also reads the outer map
			cs = append(cs, g.accesses(l, write)...)
		}
		return seq(cs)
	case *ast.IncDecStmt:
		return seq(g.accesses(x.X, map[string]bool{sel(x.X): true}))
	case *ast.DeclStmt:
		var cs []string
		ast.Inspect(x, func(n ast.Node) bool {
			if c, ok := n.(*ast.CallExpr); ok {
				cs = append(cs, g.call(c, false)...)
				return false
			}
			return true
		})
		return seq(cs)
	case *ast.DeferStmt:
		if fl, ok := x.Call.Fun.(*ast.FuncLit); ok {
			// deferred closure: only recover / logging / Store / cancel are expected
			bad := false
			ast.Inspect(fl, func(n ast.Node) bool {
				if c, ok := n.(*ast.CallExpr); ok {
					fn := sel(c.Fun)
					for suf := range map[string]bool{".Lock": true, ".RLock": true, ".Unlock": true, ".RUnlock": true} {
						if strings.HasSuffix(fn, suf) {
							bad = true
						}
					}
				}
				return true
			})
			if bad {
				return "Irregular " + q("lock operation in a deferred closure")
			}
			return ""
		}
		fn := sel(x.Call.Fun)
		if strings.HasSuffix(fn, "Unlock") {
			return seq(g.call(x.Call, true))
		}
		return "" // defer cancel(), ticker.Stop(), Store(...): no lock, channel or guarded access
	case *ast.GoStmt:
		return "GoStmt " + q(sel(x.Call.Fun))
	case *ast.ReturnStmt:
		var cs []string
		for _, r := range x.Results {
			cs = append(cs, g.expr(r)...)
		}
		return seq(append(cs, "Return"))
	case *ast.BlockStmt:
		return g.block(x)
	case *ast.IfStmt:
		pre := []string{g.stmt(x.Init)}
		pre = append(pre, g.expr(x.Cond)...)
		els := ""
		if x.Else != nil {
			els = g.stmt(x.Else)
		}
		return seq(append(pre, branch([]string{g.block(x.Body), els})))
	case *ast.ForStmt:
		// for !mu.TryLock() { body }: the body runs without the lock (a failed attempt acquires nothing),
		// the loop is left holding it
		if u, ok := x.Cond.(*ast.UnaryExpr); ok && u.Op == token.NOT && x.Init == nil && x.Post == nil {
			if c, ok := u.X.(*ast.CallExpr); ok {
				fn := sel(c.Fun)
				for suf, w := range map[string]bool{".TryLock": true, ".TryRLock": false} {
					if strings.HasSuffix(fn, suf) {
						l, ok := locks[strings.TrimSuffix(fn, suf)]
						if !ok {
							return "Irregular " + q("lock operation on "+fn)
						}
						return seq([]string{loop(g.block(x.Body)), fmt.Sprintf("TryAcq %s %v", l, w)})
					}
				}
			}
		}
		pre := []string{g.stmt(x.Init)}
		body := []string{}
		body = append(body, g.expr(x.Cond)...)
		body = append(body, g.block(x.Body), g.stmt(x.Post))
		return seq(append(pre, loop(seq(body))))
	case *ast.RangeStmt:
		pre := g.expr(x.X)
		return seq(append(pre, loop(g.block(x.Body))))
	case *ast.SwitchStmt, *ast.TypeSwitchStmt:
		var pre, alts []string
		var body *ast.BlockStmt
		hasDefault := false
		if sw, ok := x.(*ast.SwitchStmt); ok {
			pre = append(pre, g.stmt(sw.Init))
			pre = append(pre, g.expr(sw.Tag)...)
			body = sw.Body
		} else {
			ts := x.(*ast.TypeSwitchStmt)
			pre = append(pre, g.stmt(ts.Init), g.stmt(ts.Assign))
			body = ts.Body
		}
		for _, c := range body.List {
			cc := c.(*ast.CaseClause)
			if cc.List == nil {
				hasDefault = true
			}
			var cs []string
			for _, e := range cc.List {
				if _, isType := e.(*ast.StarExpr); !isType {
					cs = append(cs, g.expr(e)...)
				}
			}
			for _, st := range cc.Body {
				cs = append(cs, g.stmt(st))
			}
			alts = append(alts, seq(cs))
		}
		if !hasDefault {
			alts = append(alts, "Seq []")
		}
		return seq(append(pre, branch(alts)))
	case *ast.SelectStmt:
		var alts []string
		for _, c := range x.Body.List {
			cc := c.(*ast.CommClause)
			var cs []string
			if cc.Comm == nil {
				cs = append(cs, "SelDefault")
			} else {
				cs = append(cs, g.stmt(cc.Comm))
			}
			for _, st := range cc.Body {
				cs = append(cs, g.stmt(st))
			}
			a := seq(cs)
			if a == "" {
				a = "Seq []"
			}
			alts = append(alts, a)
		}
		return "Select [" + strings.Join(alts, "; ") + "]"
	case *ast.SendStmt:
		cs := g.expr(x.Value)
		return seq(append(cs, "Send "+q(sel(x.Chan))))
	case *ast.BranchStmt:
		if x.Tok == token.CONTINUE || x.Tok == token.BREAK {
			return "LoopExit"
		}
		return "Irregular " + q("branch "+x.Tok.String())
	case *ast.EmptyStmt, *ast.LabeledStmt:
		return ""
	}
	return "Irregular " + q(fmt.Sprintf("statement %T", s))
}

func main() {
	if len(os.Args) < 2 {
		fmt.Fprintln(os.Stderr, "usage: skel <repo>")
		os.Exit(2)
	}
	repo := os.Args[1]
	g := &gen{fset: token.NewFileSet()}
	type fn struct {
		name, file string
		decl       *ast.FuncDecl
	}
	var fns []fn
	for _, f := range files {
		af, err := parser.ParseFile(g.fset, filepath.Join(repo, f), nil, 0)
		if err != nil {
			fmt.Fprintln(os.Stderr, err)
			os.Exit(1)
		}
		for _, d := range af.Decls {
			if fd, ok := d.(*ast.FuncDecl); ok && fd.Body != nil {
				if strings.HasPrefix(fd.Name.Name, "Verif") || fd.Name.Name == "verifYield" {
					continue
				}
				name := fd.Name.Name
				if strings.HasPrefix(f, "xdssuite/") {
					name = "suite." + name
				}
				fns = append(fns, fn{name, f, fd})
				known[fd.Name.Name] = true
			}
		}
	}
	sort.Slice(fns, func(i, j int) bool { return fns[i].name < fns[j].name })
	fmt.Println("(** GENERATED by /verif/tools/skel from the sources of /repo on every run of the C07 check. Do not edit. *)")
	fmt.Println("From Xds Require Import Model.Base Model.Skel.")
	fmt.Println("Open Scope string_scope.")
	fmt.Println("Definition skel : list (string * cmd) := [")
	for i, f := range fns {
		sepr := ";"
		if i == len(fns)-1 {
			sepr = ""
		}
		body := g.block(f.decl.Body)
		if body == "" {
			body = "Seq []"
		}
		fmt.Printf("  (* %s *)\n  (%s, %s)%s\n", f.file, q(f.name), body, sepr)
	}
	fmt.Println("].")
}
