module skel

go 1.18
