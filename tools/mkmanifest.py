#!/usr/bin/env python3
"""Writes /verif/MANIFEST.json from the table below (kept in one place so it stays valid)."""
import json, os
here = os.path.dirname(os.path.dirname(os.path.abspath(__file__)))
props = [json.loads(l) for l in open(os.path.join(here, "properties.jsonl"))]
ids = [p["id"] for p in props]

CLAIMED = {
 "C09": dict(engine="pure", design="5 C09",
   technique="Coq proof (induction over the weight list) of the pickCluster model + statistical differential test of Route against the model's exact shares",
   text="Theorems C09_pick_interval / C09_proportional / C09_zero_never / C09_sole_always / C09_single_listed / C09_empty_or_zero_total_error / C09_valid_always_picks / C09_no_panic are proved in Coq for all weight vectors and all draws (no size bound). The model is tied to xdssuite/router.go by routing N calls per generated vector through the public XDSRouter.Route and comparing per-cluster frequencies with the model's exact shares.",
   note="Trusted: Coq kernel; uniformity of fastrand.Uint64n; the draw cannot be injected, so the tie is in distribution (12 sigma + 20 draws tolerance; zero share must never be drawn). Weight sums are modelled over unbounded N (code: uint64, cannot wrap below 2^32 clusters)."),
 "C14": dict(engine="pure", design="5 C14",
   technique="Coq proof (structural induction over strings) of the tryExpandFQDN/resolveAddr/getListenerName model + differential run through tagged wrappers",
   text="C14_expand_idempotent, C14_qualified_unchanged, C14_expand_appends, C14_listener_name, C14_resolve, C14_case_insensitive, C14_unresolvable_never_bound, C14_too_many_colons and C14_spec_holds_of_model are proved for all strings, tables and namespace/domain configurations. The model is run against core/manager (tryExpandFQDN, resolveAddr, getListenerName on a real client with an installed name table) on bounded-exhaustive and random host spellings; the executable spec is also evaluated on the implementation's outputs.",
   note="Trusted: Coq kernel; ASCII-only lower-casing in the model; the table is installed through updateLookupTable by a tagged hook. The history aspect (table then current) is carried by the C01 state machine."),
 "C20": dict(engine="pure", design="5 C20",
   technique="Coq proofs about the bootstrap model (case analysis, string-split lemmas, fold induction for first-wins) + differential run of newBootstrapConfig / xds.Init",
   text="C20_required_env, C20_node_id, C20_metadata_default, C20_metadata_carried, C20_instance_ips_member (element membership, not substring), C20_namespace_override, C20_first_wins are proved for all environments / op sequences. The model is run against newBootstrapConfig under generated environments (incl. INSTANCE_IPS lists with textual prefixes), the node of the first real request is compared, and Init/SetXDSResourceManager sequences are run in separate processes against the repo's mock ADS server.",
   note="Trusted: Coq kernel; protojson parsing of KITEX_XDS_METAS is glue (model starts from parsed fields, non-string values opaque); INSTANCE_IP without comma."),
 "C11": dict(engine="pure", design="5 C11",
   technique="Coq proofs (induction over routes/filters/resources, map lemmas) that the decoder model preserves every field of the source message + differential run of UnmarshalLDS/UnmarshalRDS on generated messages read back by an independent summariser",
   text="C11_route_fields, C11_route_config, C11_header_conditions, C11_bucket_anywhere, C11_listener_fields, C11_rds_response, C11_lds_response are proved for every proto AST (no size bound); D12 (conditions on one header name collapse) is stated as C11_every_header_refuted with C11_every_header_partial carrying what holds. The model is tied to lds.go/rds.go/matcher.go by decoding generated messages with the real decoders and comparing the complete decoded structures (and evaluating the per-field preservation predicates on the implementation's output).",
   note="Trusted: Coq kernel; protobuf-go (bytes<->messages); Go regexp validity and ParseFloat shipped as oracle data; the independent proto->AST summariser and the dumper of decoded structs in the harness. TypedStruct numbers outside [0,2^32) are skipped (float->uint32 undefined)."),
 "C12": dict(engine="pure", design="5 C12",
   technique="Coq proofs that the cluster/endpoint/name-table decoder model preserves every field and keys resources by their own names + differential run of UnmarshalCDS/EDS/NDS",
   text="C12_cluster_fields, C12_endpoints, C12_nametable, C12_cds_keyed_by_own_name, C12_eds_keyed_by_own_name, C12_lookup are proved for every proto AST and every multi-resource response (incl. duplicate names: later wins). Tied to cds.go/eds.go/nds.go by decoding generated messages with the real decoders and comparing the complete result maps.",
   note="Trusted: as C11. net.JoinHostPort / strconv.Itoa are modelled (bracket rule for hosts with a colon, decimal port)."),
 "C13": dict(engine="pure", design="5 C13",
   technique="Coq proofs characterising exactly when each decoder model returns an error (total functions over the whole proto AST) + differential run on structured-invalid messages and byte-level mutants (panics caught per call)",
   text="C13_{lds,rds,cds,eds,nds}_error_iff, C13_wellformed_accepted, C13_spec_holds_of_model: the decoder models are total over every tree proto.Unmarshal can return, and return an error iff some resource has a wrong type url / does not parse / has a route without match or action / empty RDS name / (NDS) is missing. PARTIAL: the bytes->tree step is protobuf-go's and is differential-tested (truncations, bit flips, overwrites, url swaps), not proved; absence of panics in the Go code is observed per call, and argued in the model by the absence of partial operations.",
   note="Trusted: as C11; the nil-safety of each Go field access was established by reading (getters/guards), the run catches panics on every generated input incl. one-absent-at-a-time variants."),
 "C08": dict(engine="pure", design="5 C08",
   technique="Coq proofs (list splitting for first-match, iff characterisations of route predicates, precedence by case analysis) about the router model + differential run of XDSRouter.Route on tables decoded by the real decoders",
   text="C08_first_match_http/_thrift (first matching route in listing order, by list splitting), C08_conditions_http/_thrift (path condition and EVERY header condition; absent key false), C08_precedence, C08_inline_before_named, C08_named_when_inline_misses, C08_no_match_is_error are proved for all tables, calls and regex oracles. Tied to router.go/rds.go/matcher.go by routing generated calls through the public XDSRouter.Route (real RegexMatcher, default and custom metadata extractor, both transports) and comparing the route used; the executable spec is evaluated on the SOURCE tables the control plane sent. Known finding D12 (conditions on one header name collapse) is reported as KNOWN-FINDING when and only when the code-faithful model explains the observation.",
   note="Trusted: Coq kernel; truth of regex conditions computed with Go regexp and shipped as oracle data; lookups served by a fake manager. Theorems are on decoded tables; decoded-vs-sent is C11."),
 "C15": dict(engine="pure", design="5 C15",
   technique="Coq proofs about the routing-step / retry-key / resolver model + differential run of the real middleware, retry key function and resolver on a fault-injecting manager",
   text="C15_decides_once, C15_already_decided_noop, C15_fail_closed, C15_never_twice, C15_passed_on_iff, C15_error_iff, C15_listener_unavailable, C15_named_table_unavailable, C15_destination_from_route, C15_key_effect, C15_resolver_* are proved for every lookup outcome. The real NewXDSRouterMiddleware, genRetryServiceKey (through the retry container) and XDSResolver are run with each lookup failing in each way; next-count, tag, lock, timeout, error class and recovered panics are compared with the model.",
   note="Trusted: Coq kernel; lookups return a resource of the requested kind or an error (C05); ri.To() is a Kitex remoteinfo. 'Never panics' is totality of the model + per-call panic recovery in the run."),
}

checks = []
for i in ids:
    if i in CLAIMED:
        c = CLAIMED[i]
        checks.append({
            "property_id": i,
            "quick_cmd": "./check %s --tier quick" % i,
            "thorough_cmd": "./check %s --tier thorough" % i,
            "evidence_file": "/verif/evidence/%s.json" % i,
            "replay_cmd_template": "./check %s --replay {path}" % i,
            "engine": c["engine"],
            "level_claimed": {"category": "proof", "text": c["text"], "design_ref": c["design"]},
            "level_note": c["note"],
            "technique": c["technique"],
        })
na = [{"property_id": i, "reason": "check not built yet in this round (work in progress; planned in DESIGN.md section 5)"}
      for i in ids if i not in CLAIMED]
m = {
 "version": 1,
 "setup_cmd": "sh /verif/setup.sh",
 "hooks": {
   "guard": "verif",
   "enable": "go build -tags verif (the harness under /verif/harness is built with it against /repo via a replace directive)",
   "baseline_off_cmd": "cd /repo && go test -vet=off -count=1 -timeout 25m ./...",
   "source_commits": ["396cbed"],
   "add_only": True,
 },
 "engines": [
   {"name": "pure", "path": "/verif/harness", "serves_properties": [i for i in ids if i in CLAIMED and CLAIMED[i]["engine"] == "pure"],
    "kind_free_text": "direct calls of the real code on generated inputs; observations evaluated against the Coq model/spec inside coqc (vm_compute)"},
 ],
 "checks": checks,
 "not_applicable": na,
 "notes": "All checks: ./check <id> --tier quick|thorough. Coq development under /verif/coq (theorems in coq/Properties/<id>.v).",
}
json.dump(m, open(os.path.join(here, "MANIFEST.json"), "w"), indent=1)
print("claimed:", len(checks), "not claimed:", len(na))
