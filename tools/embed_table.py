#!/usr/bin/env python3
"""Regenerates seeded/RESULTS.md from seeded/RESULTS.json (descriptions from the seeds' notes or patches) and embeds it
in DESIGN.md between the SEED-TABLE markers."""
import json, os, sys
sys.path.insert(0, os.path.dirname(os.path.abspath(__file__)))
import run_seeds
V = "/verif"
res = json.load(open(os.path.join(V, "seeded", "RESULTS.json")))
lines = ["| seed | what it changes | caught by | failing input reported by |", "|---|---|---|---|"]
key = lambda s: (s.split("-")[0], int(s.split("-")[1]))
for s in sorted(res, key=key):
    r = res[s]
    what = ""
    mp = os.path.join(V, "seeded", s, "meta.json")
    if os.path.exists(mp):
        first = [l for l in json.load(open(mp)).get("needs_to_manifest", "").splitlines() if l.strip()]
        what = first[0].lstrip("# ").strip()[:150] if first else ""
    if not what:
        what = run_seeds.patch_summary(os.path.join(V, "seeded", s, "patch.diff"))
    what = what.replace("|", "/")
    if not r.get("applies"):
        lines.append("| %s | %s | (patch no longer applies to the repaired tree) | |" % (s, what))
        continue
    lines.append("| %s | %s | %s | %s |" % (s, what, ", ".join(r["caught_by"]) or "**missed**",
                                            ", ".join(r["with_failing_input"]) or "none (no-failing-input-found)"))
open(os.path.join(V, "seeded", "RESULTS.md"), "w").write("\n".join(lines) + "\n")
d = open(os.path.join(V, "DESIGN.md")).read()
a, b = "<!-- SEED-TABLE-BEGIN -->", "<!-- SEED-TABLE-END -->"
i, j = d.index(a) + len(a), d.index(b)
open(os.path.join(V, "DESIGN.md"), "w").write(d[:i] + "\n" + "\n".join(lines) + "\n" + d[j:])
n = len(res); caught = sum(1 for r in res.values() if r.get("caught_by")); fi = sum(1 for r in res.values() if r.get("with_failing_input"))
print("seeds %d caught %d with failing input %d" % (n, caught, fi))
