#!/usr/bin/env python3
"""verify_seed.py <property> <src_dir> <name> [--needs "..."]
Confirms a seeded change in a scratch worktree of /repo (outside /repo and /verif): demo passes on the clean
tree; with the patch the tree builds (with and without -tags verif), the whole existing suite passes, the demo fails.
On success stores patch.diff, the demo and meta.json under /verif/seeded/<name>/ . The worktree is removed afterwards."""
import json, os, re, shutil, subprocess, sys, time
ENV = dict(os.environ, GOFLAGS="-mod=mod", GOPROXY="off", GOSUMDB="off", GOTOOLCHAIN="local")


def sh(cmd, cwd, timeout=1500):
    p = subprocess.run(cmd, cwd=cwd, env=ENV, shell=True, stdout=subprocess.PIPE, stderr=subprocess.STDOUT, text=True, timeout=timeout)
    return p.returncode, p.stdout


def main():
    prop, src, name = sys.argv[1], sys.argv[2], sys.argv[3]
    wt = "/tmp/seedv/%s" % name
    os.makedirs("/tmp/seedv", exist_ok=True)
    subprocess.run(["git", "-C", "/repo", "worktree", "remove", "--force", wt], stdout=subprocess.DEVNULL, stderr=subprocess.DEVNULL)
    subprocess.check_call(["git", "-C", "/repo", "worktree", "add", "-q", "--detach", wt, "HEAD"])
    meta = {"property": prop, "name": name, "repo_head": subprocess.check_output(["git", "-C", "/repo", "rev-parse", "--short", "HEAD"], text=True).strip(),
            "ran": []}
    ok = False
    try:
        demo = open(os.path.join(src, "demo_test.go")).read()
        m = re.search(r"copy (?:it )?(?:in)?to\s+([A-Za-z0-9_./-]+)", demo.splitlines()[0])
        ddir = m.group(1).strip("/") if m else "xdssuite"
        dst = os.path.join(wt, ddir, "verif_demo_seed_test.go")
        shutil.copy(os.path.join(src, "demo_test.go"), dst)
        pkg = "./" + ddir + "/"
        runre = "|".join(re.findall(r"^func (Test\w+)\(", demo, flags=re.M)) or "."
        democmd = "unshare -n sh -c 'ip link set lo up; go test -vet=off -count=1 -run \"^(%s)$\" %s'" % (runre, pkg)
        rc, out = sh(democmd, wt, 600)
        meta["ran"].append({"cmd": "clean tree: " + democmd, "rc": rc, "tail": out[-600:]})
        clean_ok = rc == 0
        os.remove(dst)
        rc, out = sh("git apply %s" % os.path.join(src, "patch.diff"), wt)
        meta["ran"].append({"cmd": "git apply patch.diff", "rc": rc, "tail": out[-400:]})
        applies = rc == 0
        rc1, out1 = sh("go build ./... && go build -tags verif ./...", wt)
        meta["ran"].append({"cmd": "go build ./... && go build -tags verif ./...", "rc": rc1, "tail": out1[-400:]})
        rc2, out2 = sh("unshare -n sh -c 'ip link set lo up; go test -vet=off -count=1 -timeout 20m ./...'", wt, 1500)
        meta["ran"].append({"cmd": "patched: full suite (go test -vet=off -count=1 ./...) in a private network namespace", "rc": rc2, "tail": out2[-600:]})
        shutil.copy(os.path.join(src, "demo_test.go"), dst)
        rc3, out3 = sh(democmd, wt, 600)
        meta["ran"].append({"cmd": "patched: " + democmd, "rc": rc3, "tail": out3[-900:]})
        ok = clean_ok and applies and rc1 == 0 and rc2 == 0 and rc3 != 0
        meta["confirmed"] = ok
        meta["summary"] = {"demo_passes_clean": clean_ok, "patch_applies": applies, "builds": rc1 == 0, "suite_passes_patched": rc2 == 0, "demo_fails_patched": rc3 != 0}
        for nn in ("NOTES.md", "notes.md"):
            notes = os.path.join(src, nn)
            if os.path.exists(notes):
                meta["needs_to_manifest"] = open(notes).read()[:3000]
                break
        out_dir = "/verif/seeded/%s" % name
        if ok:
            os.makedirs(out_dir, exist_ok=True)
            shutil.copy(os.path.join(src, "patch.diff"), os.path.join(out_dir, "patch.diff"))
            shutil.copy(os.path.join(src, "demo_test.go"), os.path.join(out_dir, "demo_test.go"))
            json.dump(meta, open(os.path.join(out_dir, "meta.json"), "w"), indent=1)
        print(name, "CONFIRMED" if ok else "REJECTED", json.dumps(meta["summary"]))
        if not ok:
            os.makedirs("/tmp/seedv/rejected", exist_ok=True)
            json.dump(meta, open("/tmp/seedv/rejected/%s.json" % name, "w"), indent=1)
    finally:
        subprocess.run(["git", "-C", "/repo", "worktree", "remove", "--force", wt], stdout=subprocess.DEVNULL, stderr=subprocess.DEVNULL)
        subprocess.run("go clean -testcache", shell=True, env=ENV, stdout=subprocess.DEVNULL, stderr=subprocess.DEVNULL)


main()
