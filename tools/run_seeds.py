#!/usr/bin/env python3
"""Runs the checks against every seeded change under /verif/seeded (development tool, not a registered check).

For each seed: git -C /repo apply patch.diff; run the seed's own property check (quick tier); if that
stays quiet, run the other properties' checks listed in NEIGHBOURS (or all with --all); undo the
patch (git apply -R, then checkout as a fallback).  Results go to seeded/RESULTS.json and RESULTS.md.
"""
import json, os, re, subprocess, sys, time

VERIF = os.path.dirname(os.path.dirname(os.path.abspath(__file__)))
REPO = "/repo"
ALL = ["C%02d" % i for i in range(1, 21)]
# checks that share machinery with a property (tried when the property's own check stays quiet)
NEIGHBOURS = {
    "C01": ["C02", "C03", "C10", "C16", "C17", "C18", "C19", "C05", "C07"],
    "C02": ["C01", "C03", "C04", "C19", "C13", "C11"], "C03": ["C01", "C02", "C04", "C19", "C07"], "C04": ["C01", "C02", "C03", "C07"],
    "C05": ["C06", "C07", "C15", "C10", "C01"], "C06": ["C05", "C07"], "C07": ["C05", "C06", "C16", "C17", "C18", "C01"],
    "C08": ["C11", "C15"], "C09": ["C08", "C15", "C11"], "C10": ["C01", "C12", "C15"], "C11": ["C08", "C13", "C17", "C18"],
    "C12": ["C10", "C13", "C16"], "C13": ["C11", "C12"], "C14": ["C01"], "C15": ["C08", "C10"],
    "C16": ["C12", "C07", "C01"], "C17": ["C11", "C07", "C01"], "C18": ["C11", "C07", "C01"], "C19": ["C03", "C01", "C07"], "C20": ["C03"],
}


def sh(cmd, **kw):
    p = subprocess.run(cmd, stdout=subprocess.PIPE, stderr=subprocess.STDOUT, text=True, **kw)
    return p.returncode, p.stdout


def clean_repo():
    rc, out = sh(["git", "-C", REPO, "status", "--porcelain"])
    return out.strip() == ""


def run_check(prop):
    t = time.time()
    env = dict(os.environ, VERIF_SHRINK_ROUNDS=os.environ.get("VERIF_SHRINK_ROUNDS", "1"))
    rc, out = sh([os.path.join(VERIF, "check"), prop, "--tier", "quick"], cwd=VERIF, timeout=1500, env=env)
    line = ""
    for l in out.splitlines():
        if l.startswith("VIOLATION"):
            line = l
    kind = part = None
    m = re.search(r"replay=(\S+)", line)
    if m and os.path.exists(m.group(1)):
        try:
            d = json.load(open(m.group(1)))
            kind, part = d.get("kind"), d.get("part")
        except Exception:
            pass
    return {"check": prop, "rc": rc, "violation": line, "kind": kind, "part": part, "seconds": round(time.time() - t, 1),
            "failing_input": bool(line) and "no-failing-input-found" not in line}


def patch_summary(path):
    """files and functions a patch touches, and its first added comment (for seeds stored without their notes)"""
    import re
    if not os.path.exists(path):
        return ""
    files, funcs, comment = [], [], ""
    for l in open(path, errors="ignore"):
        if l.startswith("+++ b/"):
            files.append(l[6:].strip())
        elif l.startswith("@@"):
            m = re.search(r"func (?:\([^)]*\) )?(\w+)", l)
            if m and m.group(1) not in funcs:
                funcs.append(m.group(1))
        elif l.startswith("+") and not l.startswith("+++"):
            m = re.match(r"\+\s*func (?:\([^)]*\) )?(\w+)", l)
            if m and m.group(1) not in funcs:
                funcs.append(m.group(1))
            t = l[1:].strip()
            if not comment and t.startswith("//") and len(t) > 12:
                comment = t.lstrip("/ ").strip()
    out = ", ".join(files)
    if funcs:
        out += " (" + ", ".join(funcs[:4]) + ")"
    if comment:
        out += ": \"" + comment[:100] + "\""
    return out


def main():
    only = [a for a in sys.argv[1:] if not a.startswith("--")]
    everything = "--all" in sys.argv
    seeds = sorted(d for d in os.listdir(os.path.join(VERIF, "seeded")) if os.path.isdir(os.path.join(VERIF, "seeded", d)))
    if only:
        seeds = [s for s in seeds if s in only or s.split("-")[0] in only]
    if not clean_repo():
        print("refusing: /repo has local changes")
        return 2
    respath = os.path.join(VERIF, "seeded", "RESULTS.json")
    results = json.load(open(respath)) if os.path.exists(respath) else {}
    for s in seeds:
        if s in results and results[s].get("applies") and "--redo" not in sys.argv and not only:
            continue
        d = os.path.join(VERIF, "seeded", s)
        patch = os.path.join(d, "patch.diff")
        prop = s.split("-")[0]
        rc, out = sh(["git", "-C", REPO, "apply", patch])
        if rc != 0:
            results[s] = {"applies": False, "log": out[-500:]}
            print(s, "does not apply")
            continue
        runs = []
        try:
            runs.append(run_check(prop))
            if runs[-1]["rc"] == 0 or everything:
                for o in (ALL if everything else NEIGHBOURS.get(prop, [])):
                    if o == prop:
                        continue
                    runs.append(run_check(o))
                    if runs[-1]["rc"] != 0 and not everything:
                        break
        finally:
            sh(["git", "-C", REPO, "apply", "-R", patch])
            sh(["git", "-C", REPO, "checkout", "--", "."])
            sh(["git", "-C", REPO, "clean", "-fdq"])
        caught = [r for r in runs if r["rc"] != 0]
        results[s] = {"applies": True, "own_check_catches": runs[0]["rc"] != 0, "caught_by": [r["check"] for r in caught],
                      "with_failing_input": [r["check"] for r in caught if r["failing_input"]], "runs": runs,
                      "repo_head": sh(["git", "-C", REPO, "rev-parse", "--short", "HEAD"])[1].strip()}
        print(s, "caught by", results[s]["caught_by"] or "NOTHING", "(failing input: %s)" % (results[s]["with_failing_input"] or "-"), flush=True)
        json.dump(results, open(respath, "w"), indent=1, sort_keys=True)
    # table
    lines = ["| seed | what it changes | caught by | failing input reported by |", "|---|---|---|---|"]
    for s in sorted(results):
        r = results[s]
        what = ""
        mp = os.path.join(VERIF, "seeded", s, "meta.json")
        if os.path.exists(mp):
            txt = json.load(open(mp)).get("needs_to_manifest", "")
            first = [l for l in txt.splitlines() if l.strip()]
            what = first[0].lstrip("# ").strip()[:150] if first else ""
        if not what:
            what = patch_summary(os.path.join(VERIF, "seeded", s, "patch.diff"))
        if not r.get("applies"):
            lines.append("| %s | %s | (patch no longer applies to the repaired tree) | |" % (s, what))
            continue
        lines.append("| %s | %s | %s | %s |" % (s, what.replace("|", "/"), ", ".join(r["caught_by"]) or "**missed**",
                                                ", ".join(r["with_failing_input"]) or "none (no-failing-input-found)"))
    open(os.path.join(VERIF, "seeded", "RESULTS.md"), "w").write("\n".join(lines) + "\n")
    assert clean_repo(), "/repo left dirty"
    return 0


if __name__ == "__main__":
    sys.exit(main())
