#!/bin/sh
# Offline setup: builds the Coq development (full .vo build), and warms the Go build cache
# with the harness built against /repo with -tags verif.
set -e
cd "$(dirname "$0")"
export GOFLAGS=-mod=mod GOPROXY=off GOSUMDB=off GOTOOLCHAIN=local
mkdir -p work/bin evidence replays
( cd coq && coq_makefile -f _CoqProject -o Makefile >/dev/null && timeout 3000 make -j16 >../work/coq_build.log 2>&1 ) || { tail -30 work/coq_build.log; exit 1; }
python3 tools/mkgomod.py
( cd harness && go build -tags verif -o ../work/bin/harness . )
echo "setup done"
