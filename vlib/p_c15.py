"""C15 — the routing step decides once and fails closed (router.go middleware, retry.go key, resolver.go)."""
import json
from .astgen import tj, C, L, Some, Gen
from .core import gbool, glist, gpair, gstr, gZ, gN, gopt
from .p_c08 import Route

PROP = "C15"
PROP_FILE = "Properties/C15.v"
RULE = ("mw: route tables as in C08 (incl. empty listeners / tables / routes without clusters / zero total weight) served by a fault-injecting manager that "
        "fails the listener and the named-table lookup in each way (error, timeout, absent) ; destination undecided or already decided; every call runs "
        "the real middleware (next-counter, tag, tag lock, timeout, error class, recovered panic) and the real retry-key function (observed through which "
        "installed policy the retry container selects). resolve: clusters (EDS / inline / static, with and without service name) x load assignments "
        "(0..3 localities x 0..3 endpoints, nil assignment) x failing cluster / endpoint lookups through the real XDSResolver. "
        "distinct_nontrivial = distinct cases where the destination was undecided and at least one lookup was made")
ASSUMPTIONS = ["lookups return a resource of the requested kind or an error (C05's guarantee); typed-nil / nil values are excluded here and are C05's business",
               "ri.To() is a Kitex remoteinfo (as in every Kitex client)"]


def gmw(e):
    return "(Build_mw_out %s %s %s %s %s)" % (gN(e["err"]), gN(e["next"]), gopt(e["tag"], gstr), gbool(e["locked"]), gZ(e["timeout"]))


class Mw:
    NAME = "mw"
    ENGINE = "mw"
    IMPORTS = "From Xds Require Import Model.Base Model.Fqdn Model.Proto Model.Decode Model.Pick Model.Route Model.Mw."
    FN = "mw_check"
    TY = "mw_case"
    SHARD = 150
    HARNESS_SHARDS = 8
    SHRINK_WIDTH = 60

    @staticmethod
    def gen_cases(rng, tier):
        n = 600 if tier == "quick" else 8000
        cases = []
        for _ in range(n):
            base = Route.gen_case(rng, dup_ok=False)
            call = rng.choice(base["calls"])
            k = rng.random()
            c = {"lds": base["lds"], "named": base["named"], "call": call,
                 "fault_lis": rng.choice(["", "", "", "", "err", "timeout"]),
                 "fault_named": rng.choice(["", "", "", "err", "timeout"]),
                 "pre_tag": rng.choice([None, None, None, "decided-before"]),
                 "t0": rng.choice([0, 1000000, 250000000]), "match_method": rng.random() < 0.5,
                 # the caller fixed the call's timeout (client.WithRPCTimeout locks it): routing must still decide and pass on
                 "lock_timeout": rng.random() < 0.25,
                 # the caller's context is already cancelled: a failing lookup is still a ROUTING error, a routable call is still routed
                 "ctx_done": rng.random() < 0.2}
            if k < 0.06:
                c["lds"] = C("RGood", C("Build_listener_pb", "svc-listener", L([]), None))            # empty listener
            elif k < 0.1:
                c["lds"] = None                                                                      # absent listener
            cases.append(c)
        return cases

    @staticmethod
    def to_harness(c):
        return {k: c[k] for k in ("lds", "named", "call", "fault_lis", "fault_named", "pre_tag", "t0", "match_method", "lock_timeout", "ctx_done")}

    @staticmethod
    def to_gallina(c, o):
        if o.get("decode_err"):
            z = "(Build_mw_out 0 1 None false 0%Z)"
            return ('Build_mw_case [] [] GErr [] (Build_call ""%%string ""%%string ""%%string ""%%string ""%%string false []) (Some ""%%string) 0%%Z false false %s false ""%%string '
                    '(Build_mw_out 0 0 (Some ""%%string) false 0%%Z) false' % z)
        return "Build_mw_case %s %s %s %s %s %s %s %s %s %s %s %s %s %s" % (
            tj(o["re_valid"]), tj(o["re_match"]), tj(o["lis"]), tj(o["named"]), Route.gcall(c["call"]),
            gopt(c["pre_tag"], gstr), gZ(c["t0"]), gbool(c["match_method"]), gbool(bool(c.get("lock_timeout"))),
            gmw(o["mw"]), gbool(bool(o["mw"]["panic"])), gstr(o["key"]), gmw(o["key_eff"]), gbool(bool(o["key_eff"]["panic"])))

    @staticmethod
    def nontrivial(c, o):
        if o.get("decode_err") or c["pre_tag"] is not None:
            return None
        return json.dumps([c["lds"], c["named"], c["call"], c["fault_lis"], c["fault_named"]], sort_keys=True)

    @staticmethod
    def describe(c, o):
        d = {"listener": c["lds"], "named": c["named"], "call": c["call"], "fault_listener": c["fault_lis"], "fault_named": c["fault_named"],
             "pre_tag": c["pre_tag"], "middleware": o.get("mw"), "retry_key": o.get("key"), "retry_key_effect": o.get("key_eff")}
        t = json.dumps(d)
        return d if len(t) < 2500 else {"truncated": t[:2400]}

    @staticmethod
    def shrink(c):
        for cand in Route.shrink({"lds": c["lds"], "named": c["named"], "calls": [c["call"]], "repeat": 1}):
            if cand["calls"]:
                yield dict(c, lds=cand["lds"], named=cand["named"], call=cand["calls"][0])
        if c["fault_named"]:
            yield dict(c, fault_named="")

    @classmethod
    def model_view(cls, c, o, tier):
        from . import core
        term = cls.to_gallina(c, o)
        return core.coq_show(PROP, tier, cls.IMPORTS, "let c := %s in (route_outcomes c, map (mw_step (mk_pre c) (mk_t0 c)) (route_outcomes c))" % term)[:2500]

    @staticmethod
    def histogram(cases, obs):
        h = {"cases": len(cases), "fault_listener": 0, "fault_named": 0, "already_decided": 0, "routed": 0, "failed_closed": 0, "panics": 0, "decode_err": 0}
        for c in cases:
            o = obs[c["id"]]
            if o.get("decode_err"):
                h["decode_err"] += 1
                continue
            h["fault_listener"] += 1 if c["fault_lis"] else 0
            h["fault_named"] += 1 if c["fault_named"] else 0
            h["already_decided"] += 1 if c["pre_tag"] is not None else 0
            h["panics"] += 1 if o["mw"]["panic"] or o["key_eff"]["panic"] else 0
            if c["pre_tag"] is None:
                h["routed" if o["mw"]["err"] == 0 else "failed_closed"] += 1
        return h


def ggot(x):
    return tj(x)


class Resolve:
    NAME = "resolve"
    ENGINE = "resolve"
    IMPORTS = Mw.IMPORTS
    FN = "res_check2"
    TY = "res_src"
    SHARD = 200
    HARNESS_SHARDS = 8

    @staticmethod
    def gen_cases(rng, tier):
        n = 500 if tier == "quick" else 8000
        g = Gen(rng, bad=0.0, sparse=0.3)
        cases = []
        for _ in range(n):
            g.sparse = rng.choice([0.0, 0.2, 0.5])
            desc = rng.choice(["c1", "c2", "outbound|80||a.default.svc.cluster.local"])
            cl = g.cluster(desc)
            # endpoint sets under the names the cluster may refer to
            names = set([desc, "svc-a", "outbound|80||a.default.svc.cluster.local", "other"])
            eps = [C("RGood", g.cla(nm)) for nm in sorted(names) if rng.random() < 0.7]
            cases.append({"cluster": C("RGood", cl) if rng.random() < 0.95 else None, "endpoints": eps, "desc": desc,
                          "fault_cl": rng.choice(["", "", "", "", "err", "timeout"]), "fault_ep": rng.choice(["", "", "", "err", "timeout"])})
        return cases

    @staticmethod
    def to_harness(c):
        return c

    @staticmethod
    def to_gallina_case(c, o):
        if o.get("decode_err"):
            return 'Build_res_case GErr [] ""%string None false ""%string false'
        obs = "None" if (o["err"] or o["panic"]) else "(Some %s)" % tj({"l": o["insts"]})
        return "Build_res_case %s %s %s %s %s %s %s" % (tj(o["cluster"]), tj(o["eds"]), gstr(c["desc"]), obs,
                                                     gbool(o["cacheable"]), gstr(o["cache_key"]), gbool(bool(o["panic"])))

    @classmethod
    def to_gallina(cls, c, o):
        base = cls.to_gallina_case(c, o)
        if o.get("decode_err"):
            # the decoders rejected the generated messages: nothing was resolved (C13's business)
            return "Build_res_src (%s) None [] true true" % base
        src_cl = "None" if o.get("src_cluster") is None else "(Some %s)" % tj(o["src_cluster"])
        return "Build_res_src (%s) %s %s %s %s" % (base, src_cl, tj({"l": o.get("src_eds") or []}), gbool(c["fault_cl"] != ""), gbool(c["fault_ep"] != ""))

    @staticmethod
    def nontrivial(c, o):
        if o.get("decode_err"):
            return None
        return json.dumps([o["cluster"], o["eds"]], sort_keys=True) if o["cluster"] != ["GErr"] else None

    @staticmethod
    def describe(c, o):
        d = {"cluster": c["cluster"], "endpoints": c["endpoints"], "fault_cluster": c["fault_cl"], "fault_endpoints": c["fault_ep"],
             "resolved": o.get("insts"), "error": o.get("err"), "panic": o.get("panic")}
        t = json.dumps(d)
        return d if len(t) < 2500 else {"truncated": t[:2400]}

    @staticmethod
    def shrink(c):
        eps = c["endpoints"]
        for i in range(len(eps)):
            yield dict(c, endpoints=eps[:i] + eps[i + 1:])
        from .decode_common import shrink as dshrink
        if c["cluster"] is not None:
            for cand in dshrink({"kind": "cds", "resources": [c["cluster"]]}):
                if cand["resources"]:
                    yield dict(c, cluster=cand["resources"][0])
        for cand in dshrink({"kind": "eds", "resources": eps}):
            yield dict(c, endpoints=cand["resources"])

    @classmethod
    def model_view(cls, c, o, tier):
        from . import core
        return core.coq_show(PROP, tier, cls.IMPORTS, "let c := %s in resolve (rs_cluster c) (eds_fun (rs_eds c))" % cls.to_gallina_case(c, o))[:2000]

    @staticmethod
    def histogram(cases, obs):
        h = {"cases": len(cases), "errors": 0, "successes": 0, "panics": 0, "fault_cluster": 0, "fault_endpoints": 0, "empty_success": 0}
        for c in cases:
            o = obs[c["id"]]
            if o.get("decode_err"):
                continue
            h["errors"] += 1 if o["err"] else 0
            h["successes"] += 0 if o["err"] or o["panic"] else 1
            h["empty_success"] += 1 if (not o["err"] and not o["panic"] and not o["insts"]) else 0
            h["panics"] += 1 if o["panic"] else 0
            h["fault_cluster"] += 1 if c["fault_cl"] else 0
            h["fault_endpoints"] += 1 if c["fault_ep"] else 0
        return h


PARTS = [Mw, Resolve]
