"""C20 — node identity and bootstrap validation (bootstrap.go, xds.go, xdssuite/xds.go)."""
import json
from .core import gstr, glist, gopt, gpair, gN, gbool

PROP = "C20"
PROP_FILE = "Properties/C20.v"
RULE = ("boot: environment combinations (each of POD_NAMESPACE/POD_NAME/INSTANCE_IP/KITEX_XDS_DOMAIN/ISTIO_VERSION unset, empty or set) x "
        "KITEX_XDS_METAS in {unset, empty, invalid JSON, objects with string/number/bool/nested values, NAMESPACE override, "
        "INSTANCE_IPS lists incl. addresses that are textual prefixes/suffixes of the pod IP, empty, non-string}; a third of the successful "
        "cases also start a client on that configuration and read the node of the first request. "
        "init: sequences of SetXDSResourceManager / xds.Init (valid or incomplete environment, real construction against the repo's "
        "mock ADS server on loopback), one process per sequence. distinct_nontrivial = distinct successful configurations with user metadata, "
        "plus init sequences with >= 2 installations attempted")
ASSUMPTIONS = ["the JSON text -> struct step (protojson) is glue: the model starts from the parsed fields; non-string values are carried opaquely",
               "INSTANCE_IP contains no comma (hypothesis of C20_instance_ips_member)"]

POD_IPS = ["10.0.0.1", "10.0.0.10", "192.168.1.2", "fd00::1", "1.1.1.1"]


def near(ip, rng):
    """addresses that contain / are contained in the pod ip textually"""
    return rng.choice([ip + "0", ip + "1", "1" + ip, "2" + ip + "5", ip[:-1] if len(ip) > 1 else ip + "9", ip + ".9", "x" + ip])


class Boot:
    NAME = "boot"
    ENGINE = "boot"
    IMPORTS = "From Xds Require Import Model.Base Model.Fqdn Model.Boot."
    FN = "boot_check"
    TY = "boot_case"
    SHARD = 400
    HARNESS_SHARDS = 8

    @staticmethod
    def gen_metas(rng, ip):
        r = rng.random()
        if r < 0.12:
            return None
        if r < 0.18:
            return ""
        if r < 0.28:
            return rng.choice(["{", "not json", '{"a":', '[1,2]', '"str"', '{"a":1,}', "{'a':1}"])
        d = {}
        if rng.random() < 0.75:
            style = rng.randrange(10)
            others = [rng.choice(POD_IPS) for _ in range(rng.randint(0, 2))]
            others = [o for o in others if o != ip]
            if style == 0:
                v = ""
            elif style == 1:
                v = ip
            elif style == 2:
                v = ",".join(others + [ip])
            elif style == 3:
                v = ",".join([ip] + others)
            elif style in (4, 5, 6):
                v = ",".join([near(ip, rng)] + others + ([near(ip, rng)] if rng.random() < 0.5 else []))
            elif style == 7:
                v = ",".join(others) if others else "8.8.8.8"
            elif style == 8:
                v = rng.choice([1, True, None, {"a": "b"}, ["x"]])
            else:
                v = ",".join([near(ip, rng), ip])
            d["INSTANCE_IPS"] = v
        if rng.random() < 0.4:
            d["NAMESPACE"] = rng.choice(["", "prod", "kube-system", 5, {"x": 1}])
        if rng.random() < 0.3:
            d["ISTIO_VERSION"] = rng.choice(["1.16.3", ""])
        for _ in range(rng.randint(0, 3)):
            d[rng.choice(["CLUSTER_ID", "app", "k8s", "LABELS", "n", "flag"])] = rng.choice(
                ["Kubernetes", "", 1, 2.5, True, False, None, {"a": 1, "b": [1, "x"]}, ["l", 1]])
        return json.dumps(d)

    @classmethod
    def gen_cases(cls, rng, tier):
        n = 500 if tier == "quick" else 6000
        cases = []
        for _ in range(n):
            ip = rng.choice(POD_IPS)
            env = {}

            def put(key, vals, p_unset, p_empty):
                r = rng.random()
                if r < p_unset:
                    env[key] = None
                elif r < p_unset + p_empty:
                    env[key] = ""
                else:
                    env[key] = rng.choice(vals)
            put("POD_NAMESPACE", ["default", "ns-a", "a.b"], 0.06, 0.06)
            put("POD_NAME", ["pod-1", "kitex-6d5f", "p~q"], 0.06, 0.06)
            put("INSTANCE_IP", [ip], 0.06, 0.06)
            put("KITEX_XDS_DOMAIN", ["cluster.local", "example.org", "svc"], 0.4, 0.1)
            put("ISTIO_VERSION", ["1.13.5", "1.20"], 0.4, 0.1)
            env["KITEX_XDS_METAS"] = cls.gen_metas(rng, ip)
            cases.append({"env": env, "with_node": rng.random() < 0.33})
        return cases

    @staticmethod
    def to_harness(c):
        return {"env": c["env"], "with_node": c["with_node"]}

    @staticmethod
    def _tags(c, o):
        """consistent numbering of the canonical JSON of non-string values across input and observation"""
        tags = {}

        def tag(js):
            canon = json.dumps(json.loads(js), sort_keys=True, separators=(",", ":"))
            return tags.setdefault(canon, len(tags))
        return tag

    @classmethod
    def to_gallina(cls, c, o):
        tag = cls._tags(c, o)
        e = c["env"]

        def s(k):
            return gstr(e.get(k) or "")
        m = e.get("KITEX_XDS_METAS")
        if m is None or m == "":
            metas = "Unset"
        else:
            try:
                d = json.loads(m)
                if not isinstance(d, dict):
                    raise ValueError
                metas = "(Fields %s)" % glist(sorted(d.items()), lambda kv: gpair(gstr(kv[0]), "MStr " + gstr(kv[1]) if isinstance(kv[1], str)
                                                                                 else "MOther " + gN(tag(json.dumps(kv[1])))))
            except ValueError:
                metas = "Invalid"
        env = "(Build_env %s %s %s %s %s %s)" % (s("POD_NAMESPACE"), s("POD_NAME"), s("INSTANCE_IP"), s("KITEX_XDS_DOMAIN"), s("ISTIO_VERSION"), metas)

        def gmeta(md):
            return glist(sorted((md or {}).items()), lambda kv: gpair(gstr(kv[0]), "MStr " + gstr(kv[1]["s"]) if kv[1].get("s") is not None
                                                                       else "MOther " + gN(tag(kv[1]["o"]))))
        if o["err"]:
            ob = "None"
        else:
            ob = "(Some (Build_boot %s %s %s %s))" % (gstr(o["node_id"]), gmeta(o["meta"]), gstr(o["ns"]), gstr(o["dom"]))
        rn = "None" if o.get("req_node") is None else "(Some %s)" % gpair(gstr(o["req_node"]), gmeta(o["req_meta"]))
        return "Build_boot_case %s %s %s" % (env, ob, rn)

    @staticmethod
    def nontrivial(c, o):
        if o["err"]:
            return None
        m = c["env"].get("KITEX_XDS_METAS")
        if not m:
            return None
        return json.dumps(c["env"], sort_keys=True)

    @staticmethod
    def describe(c, o):
        return {"env": c["env"], "error": o["err"], "node_id": o["node_id"], "meta": o["meta"], "ns": o["ns"], "request_node": o.get("req_node")}

    @staticmethod
    def shrink(c):
        e = c["env"]
        for k in ("KITEX_XDS_DOMAIN", "ISTIO_VERSION"):
            if e.get(k) is not None:
                yield {"env": dict(e, **{k: None}), "with_node": False}
        m = e.get("KITEX_XDS_METAS")
        try:
            d = json.loads(m) if m else None
        except ValueError:
            d = None
        if isinstance(d, dict):
            for k in list(d):
                d2 = dict(d)
                del d2[k]
                yield {"env": dict(e, KITEX_XDS_METAS=json.dumps(d2)), "with_node": False}
        if c["with_node"]:
            yield {"env": e, "with_node": False}

    @staticmethod
    def histogram(cases, obs):
        h = {"errors": 0, "metas_unset_or_empty": 0, "metas_invalid": 0, "metas_object": 0, "instance_ips_supplied": 0,
             "namespace_override": 0, "with_request_node": 0}
        for c in cases:
            o = obs[c["id"]]
            h["errors"] += 1 if o["err"] else 0
            m = c["env"].get("KITEX_XDS_METAS")
            if not m:
                h["metas_unset_or_empty"] += 1
            else:
                try:
                    d = json.loads(m)
                    if isinstance(d, dict):
                        h["metas_object"] += 1
                        h["instance_ips_supplied"] += 1 if "INSTANCE_IPS" in d else 0
                        h["namespace_override"] += 1 if isinstance(d.get("NAMESPACE"), str) and d.get("NAMESPACE") else 0
                    else:
                        h["metas_invalid"] += 1
                except ValueError:
                    h["metas_invalid"] += 1
            h["with_request_node"] += 1 if o.get("req_node") is not None else 0
        return h

    @classmethod
    def model_view(cls, c, o, tier):
        from . import core
        term = cls.to_gallina(c, o)
        return core.coq_show(PROP, tier, cls.IMPORTS, "new_bootstrap (bc_env (%s))" % term)


class Init:
    NAME = "init"
    ENGINE = "init"
    IMPORTS = "From Xds Require Import Model.Base Model.Fqdn Model.Boot."
    FN = "init_check"
    TY = "init_case"
    HARNESS_SHARDS = None

    @staticmethod
    def gen_cases(rng, tier):
        seqs = [[("init", True)], [("init", False)], [("init", False), ("init", True)], [("init", True), ("init", True)],
                [("set", "A"), ("set", "B")], [("set", "A"), ("init", True)], [("set", "A"), ("init", False)],
                [("init", True), ("set", "A")], [("init", False), ("set", "A"), ("set", "B"), ("init", True)],
                [("init", True), ("init", False), ("set", "B")], []]
        n = 4 if tier == "quick" else 30
        for _ in range(n):
            k = rng.randint(2, 5)
            seqs.append([rng.choice([("set", "A"), ("set", "B"), ("set", "C"), ("init", True), ("init", False)]) for _ in range(k)])
        return [{"ops": [list(o) for o in s]} for s in seqs]

    @staticmethod
    def run_impl(cases):
        from . import core
        out = {}
        from concurrent.futures import ThreadPoolExecutor

        def one(c):
            ops = [{"kind": "set", "name": o[1]} if o[0] == "set" else {"kind": "init", "env_ok": bool(o[1])} for o in c["ops"]]
            r = core.run_harness("init", [{"id": c["id"], "ops": ops}], timeout=120, shards=1)
            return c["id"], r[c["id"]]
        with ThreadPoolExecutor(max_workers=8) as ex:
            for i, o in ex.map(one, cases):
                out[i] = o
        return out

    NAMES = {"init": 0, "A": 1, "B": 2, "C": 3, "panic": 99}     # 99: an operation panicked; no model run serves that

    @classmethod
    def to_gallina(cls, c, o):
        ops = glist(c["ops"], lambda op: "SetMgr " + gN(cls.NAMES[op[1]]) if op[0] == "set" else "InitCall %s 0%%N" % gbool(op[1]))
        served = "None" if o["served"] == "" else "(Some %s)" % gN(cls.NAMES[o["served"]])
        return "Build_init_case %s %s %s" % (ops, served, glist(o["errs"] or [], gbool))

    @staticmethod
    def nontrivial(c, o):
        n = sum(1 for op in c["ops"] if op[0] == "set" or op[1])
        return json.dumps(c["ops"]) if n >= 2 else None

    @staticmethod
    def describe(c, o):
        return {"ops": c["ops"], "errors": o["errs"], "served_by": o["served"]}

    @staticmethod
    def shrink(c):
        ops = c["ops"]
        for i in range(len(ops)):
            yield {"ops": ops[:i] + ops[i + 1:]}


PARTS = [Boot, Init]
