"""Histories with xdssuite policy consumers registered on the real manager (C16-C18) and their Gallina form."""
import json
from . import sysgen
from .sysgen import SysGen, gop, gstep, merge_oracles, RT
from .astgen import tj
from .core import gbool, gstr, gN

IMPORTS = ("From Xds Require Import Model.Base Model.Fqdn Model.Proto Model.Decode Model.DecodeCheck Model.Sys Model.SysCheck "
           "Model.Policy Model.PolicyCheck.")
NOPOL = "(Build_pol_obs None None None)"


def history(rng, what, focus, n_ops):
    g = SysGen(rng, faults=False)
    istio = rng.random() < 0.3
    c = g.history(n_ops, istio=istio, lds_warm=(what == "limiter" and rng.random() < 0.6) or rng.random() < 0.2)
    # bias towards the consumer's resource type: replace some responses by responses of that type
    ops = c["ops"]
    tbl = {}
    for i, op in enumerate(ops):
        if op["op"] == "resp" and op["rt"] != "nds" and rng.random() < 0.6:
            ops[i], tbl = g.resp(focus, istio, tbl)
        elif op["op"] == "lookup" and rng.random() < 0.5:
            pool = (g.lis_names(istio) if focus == "lds" else g.NAMES[focus])
            ops[i] = {"op": "lookup", "rt": focus, "name": rng.choice(pool if focus != "lds" else ["virtualInbound", "virtualInbound"] + pool)}
    pos = rng.choice([0, 0, rng.randint(0, len(ops)), len(ops) // 2])
    ops.insert(pos, {"op": "register", "what": what, "port": rng.choice([0, 80, 8888, 9090])})
    if rng.random() < 0.15:   # a second consumer of another kind registered as well
        ops.insert(rng.randint(0, len(ops)), {"op": "register", "what": rng.choice([w for w in ("cb", "retry", "limiter") if w != what]), "port": 8888})
    return c


def gconsumer(op):
    return {"cb": "KCb", "retry": "KRetry"}.get(op["what"]) or "(KLimiter %s)" % gN(op["port"])


def to_gallina(c, o):
    cfg = c["cfg"]
    gcfg = "(Build_scfg %s (Build_fcfg %s %s))" % (gbool(cfg["nds"]), gstr(cfg["ns"]), gstr(cfg["dom"]))
    if o.get("fatal") and (not o.get("steps") or any(st.get("state") is None for st in o["steps"])):
        return "Build_pol_case %s [] [] [] None [] true" % gcfg
    steps = o["steps"]
    for st in steps:
        st["reqs"] = st.get("reqs") or []
    nstart = (2 if cfg["nds"] else 0) + (2 if cfg["lds"] else 0)
    startup, i = [], 0
    if cfg["nds"]:
        startup += ['OSubscribe TNt ""%string', gop(c["init_nds"], steps[1])]
        i = 2
    if cfg["lds"]:
        startup += ['OSubscribe TLis "virtualInbound"%string', gop(c["init_lds"], steps[i + 1])]
    start_obs = "None" if nstart == 0 else "(Some %s)" % gstep(steps[nstart - 1])
    rv, rt = merge_oracles(steps)
    trace = []
    for op, st in zip(c["ops"], steps[nstart:]):
        pop = "PReg %s" % gconsumer(op) if op["op"] == "register" else "POp (%s)" % gop(op, st)
        pol = tj(st["policy"]) if st.get("policy") else NOPOL
        trace.append("(%s, %s, %s)" % (pop, gstep(st), pol))
    return "Build_pol_case %s %s %s %s %s %s %s" % (gcfg, tj(rv), tj(rt), "[" + "; ".join(startup) + "]", start_obs,
                                                  "[" + ";\n ".join(trace) + "]", gbool(bool(o.get("fatal"))))


def describe(c, o):
    d = sysgen.describe(c, o)
    d["ops"] = [("register %s port %s" % (op["what"], op["port"]) if op["op"] == "register" else x) for op, x in zip(c["ops"], d["ops"])]
    last = [st.get("policy") for st in o.get("steps", []) if st.get("policy")]
    d["policies_at_end"] = last[-1] if last else None
    t = json.dumps(d)
    return d if len(t) < 3000 else {"truncated": t[:2900]}


class PolPart:
    ENGINE = "sys"
    IMPORTS = IMPORTS
    FN = "pol_check"
    TY = "pol_case"
    SHARD = 25
    HARNESS_SHARDS = 16
    SHRINK_WIDTH = 30
    SHRINK_ROUNDS = 6
    N_QUICK, N_THOROUGH = 200, 3000

    def __init__(self, prop, what, focus, idx):
        self.PROP, self.what, self.focus, self.idx = prop, what, focus, idx
        self.NAME = what

    def gen_cases(self, rng, tier):
        n = self.N_QUICK if tier == "quick" else self.N_THOROUGH
        return [history(rng, self.what, self.focus, rng.choice([8, 12, 20, 30])) for _ in range(n)]

    to_harness = staticmethod(sysgen.to_harness)
    to_gallina = staticmethod(to_gallina)
    describe = staticmethod(describe)
    histogram = staticmethod(sysgen.histogram)

    @staticmethod
    def shrink(c):
        for cand in sysgen.shrink(c):
            if any(op["op"] == "register" for op in cand["ops"]):
                yield cand

    def PROJECT(self, v, c, o):
        # The consumer's state is a deterministic function of the history (for retry: up to the choice among the
        # candidates of several tables, which the comparison allows): the policy model driven by the handler views of
        # the state machine is, by C01_refinement + C07_handlers_see_the_new_cache + the C16/C17/C18 theorems, exactly
        # the right-hand side of the property.  A difference on this observable is therefore the property failing on
        # this history, not merely a model/implementation mismatch.
        return (v[self.idx], v[3 + self.idx] and v[self.idx])

    def model_view(self, c, o, tier):
        from . import core
        term = to_gallina(c, o)
        return core.coq_show(self.PROP, tier, IMPORTS,
                             "let k := %s in let '(s0, _) := run (pk_cfg k) (pk_oracle k) init_state (pk_startup k) in "
                             "(fix go (s : state) (p : pstate) (tr : list (pop * step_obs * pol_obs)) : list pstate := match tr with [] => [] | (x, _, _) :: r => "
                             "let '(s1, p1) := match x with POp y => let '(s1, ot) := step (pk_cfg k) (pk_oracle k) s y in (s1, fold_left p_apply (o_updates ot) p) "
                             "| PReg kk => let '(s1, ot) := step (pk_cfg k) (pk_oracle k) s (ORegister (consumer_type kk)) in (s1, p_register p kk (o_updates ot)) end in "
                             "p1 :: go s1 p1 r end) s0 p_init (pk_trace k)" % term)[-3000:]

    def nontrivial(self, c, o):
        if o.get("fatal"):
            return None
        pols = [json.dumps(st.get("policy")) for st in o["steps"] if st.get("policy")]
        return json.dumps(c["ops"], sort_keys=True) if len(set(pols)) >= 3 else None
