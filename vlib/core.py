"""Shared machinery of the checks: builds (Coq, Go harness), running the implementation on
cases, evaluating the Coq model / spec on (case, observation) pairs inside coqc, theorem
status, evidence, violation reports.  See DESIGN.md sections 1.2 and 4."""
import fcntl, hashlib, json, os, random, re, subprocess, sys, time, glob, shutil
from concurrent.futures import ThreadPoolExecutor

VERIF = os.path.dirname(os.path.dirname(os.path.abspath(__file__)))
REPO = os.environ.get("VERIF_REPO", "/repo")
COQ = os.path.join(VERIF, "coq")
WORK = os.path.join(VERIF, "work")
BIN = os.path.join(WORK, "bin")
EVID = os.path.join(VERIF, "evidence")
REPLAYS = os.path.join(VERIF, "replays")
GOENV = dict(os.environ, GOFLAGS="-mod=mod", GOPROXY="off", GOSUMDB="off", GOTOOLCHAIN="local",
             CGO_ENABLED=os.environ.get("CGO_ENABLED", "1"))
NCPU = os.cpu_count() or 4

TRUSTED_BASE = [
    "Coq 8.16.1 kernel (coqc; vm_compute used by the case evaluation and by *_example/_refuted lemmas; no native_compute)",
    "no axioms declared; Print Assumptions of every property theorem is recorded below",
    "hand-written Gallina model tied to /repo by the correspondence run (Go harness built from /repo's working tree with -tags verif; Python orchestrator translating each case to JSON for the harness and to Gallina for coqc)",
    "Go toolchain/runtime, google.golang.org/protobuf, Kitex v0.11.3 as libraries",
]


class Lock:
    def __init__(self, name):
        os.makedirs(WORK, exist_ok=True)
        self.path = os.path.join(WORK, "." + name + ".lock")

    def __enter__(self):
        self.f = open(self.path, "w")
        fcntl.flock(self.f, fcntl.LOCK_EX)
        return self

    def __exit__(self, *a):
        fcntl.flock(self.f, fcntl.LOCK_UN)
        self.f.close()


def sh(cmd, cwd=None, env=None, timeout=None, input=None):
    p = subprocess.run(cmd, cwd=cwd, env=env, timeout=timeout, input=input,
                       stdout=subprocess.PIPE, stderr=subprocess.STDOUT, text=True)
    return p.returncode, p.stdout


# ----------------------------------------------------------------------------- builds

def build_coq():
    """Full .vo build of the Coq development (no -vos). Returns (ok, log)."""
    with Lock("coq"):
        if not os.path.exists(os.path.join(COQ, "Makefile")) or \
           os.path.getmtime(os.path.join(COQ, "Makefile")) < os.path.getmtime(os.path.join(COQ, "_CoqProject")):
            rc, out = sh(["coq_makefile", "-f", "_CoqProject", "-o", "Makefile"], cwd=COQ)
            if rc != 0:
                return False, out
        rc, out = sh(["timeout", "1500", "make", "-k", "-j%d" % NCPU], cwd=COQ, timeout=1600)
        return rc == 0, out


def vo_ok(relpath):
    """A compiled file exists and is newer than its source."""
    v = os.path.join(COQ, relpath)
    vo = v[:-2] + ".vo"
    return os.path.exists(vo) and os.path.getmtime(vo) >= os.path.getmtime(v)


def build_harness():
    """Build the Go harness against /repo's current working tree with -tags verif."""
    with Lock("harness"):
        os.makedirs(BIN, exist_ok=True)
        rc, out = sh([sys.executable, os.path.join(VERIF, "tools", "mkgomod.py")], env=GOENV)
        if rc != 0:
            return False, out
        rc, out = sh(["go", "build", "-tags", "verif", "-o", os.path.join(BIN, "harness"), "."],
                     cwd=os.path.join(VERIF, "harness"), env=GOENV, timeout=1200)
        return rc == 0, out


def run_harness(engine, cases, timeout=600, shards=None, extra_env=None):
    """Run the real code on the cases (list of dicts with an 'id'); returns {id: observation}."""
    if not cases:
        return {}
    shards = shards or min(NCPU, max(1, len(cases) // 50))
    chunks = [cases[i::shards] for i in range(shards)]
    env = dict(GOENV)
    if extra_env:
        env.update(extra_env)

    def one(chunk):
        data = "".join(json.dumps(c, separators=(",", ":")) + "\n" for c in chunk)
        p = subprocess.run([os.path.join(BIN, "harness"), engine], input=data, env=env,
                           stdout=subprocess.PIPE, stderr=subprocess.PIPE, text=True, timeout=timeout)
        if p.returncode != 0:
            raise HarnessError("harness %s exited %d: %s" % (engine, p.returncode, p.stderr[-2000:]))
        out = {}
        for line in p.stdout.splitlines():
            line = line.strip()
            if line:
                o = json.loads(line)
                out[o["id"]] = o
        return out
    res = {}
    with ThreadPoolExecutor(max_workers=shards) as ex:
        for r in ex.map(one, chunks):
            res.update(r)
    return res


class HarnessError(Exception):
    pass


class CoqError(Exception):
    pass


# ----------------------------------------------------------------------------- Gallina printers

def gN(n):
    return "%d%%N" % n


def gnat(n):
    return "%d%%nat" % n


def gZ(n):
    return "(%d)%%Z" % n


def gbool(b):
    return "true" if b else "false"


def gstr(s):
    if isinstance(s, bytes):
        bs = s
    else:
        bs = s.encode("utf-8", "surrogateescape")
    if all(0x20 <= b <= 0x7e for b in bs):
        return '"%s"%%string' % bs.decode("ascii").replace('"', '""')
    return "(bs [%s])" % "; ".join("%d%%N" % b for b in bs)


def glist(xs, f=None):
    return "[" + "; ".join((f(x) if f else x) for x in xs) + "]"


def gopt(x, f=None):
    if x is None:
        return "None"
    return "(Some %s)" % (f(x) if f else x)


def gpair(a, b):
    return "(%s, %s)" % (a, b)


def gapp(ctor, *args):
    return "(" + " ".join([ctor] + list(args)) + ")"


# ----------------------------------------------------------------------------- coqc evaluation

def coq_eval(prop, tier, imports, fn, terms, ty, shard_size=400, timeout=900, tag="cases"):
    """Evaluate [fn] (a Gallina function of type ty -> bool*bool or any tuple of bools) on every
    term with vm_compute inside coqc; returns a list of tuples of bools, one per term.
    The generated files are kept under work/<prop>/<tier>/ for inspection."""
    wd = os.path.join(WORK, prop, tier)
    os.makedirs(wd, exist_ok=True)
    for old in glob.glob(os.path.join(wd, tag + "_*")):
        os.remove(old)
    shards = [terms[i:i + shard_size] for i in range(0, len(terms), shard_size)]
    files = []
    for k, sh_terms in enumerate(shards):
        path = os.path.join(wd, "%s_%d.v" % (tag, k))
        with open(path, "w") as f:
            f.write("(* generated by the check: cases and the implementation's observations *)\n")
            f.write(imports + "\n")
            f.write("Definition cases : list (%s) := [\n" % ty)
            f.write(";\n".join(sh_terms))
            f.write("\n].\n")
            f.write("Definition results := Eval vm_compute in map (%s) cases.\n" % fn)
            f.write("Print results.\n")
        files.append(path)

    def one(path):
        rc, out = sh(["timeout", str(timeout), "coqc", "-Q", COQ, "Xds", "-w", "none", path], cwd=wd, timeout=timeout + 30)
        if rc != 0:
            raise CoqError("coqc failed on %s:\n%s" % (path, out[-3000:]))
        # compiled outputs of case files are never needed again (disk space)
        for ext in (".vo", ".vok", ".vos", ".glob"):
            try:
                os.remove(path[:-2] + ext)
            except OSError:
                pass
        try:
            os.remove(os.path.join(wd, "." + os.path.basename(path)[:-2] + ".aux"))
        except OSError:
            pass
        m = re.search(r"results\s*=\s*(.*?)\n\s*:\s*list", out, flags=re.S)
        if not m:
            raise CoqError("cannot parse coqc output for %s:\n%s" % (path, out[-2000:]))
        # the case file itself is kept only when some verdict in it is false (for inspection)
        if "false" not in m.group(1) and tier != "quick":
            try:
                os.remove(path)
            except OSError:
                pass
        return m.group(1)
    outs = []
    with ThreadPoolExecutor(max_workers=NCPU) as ex:
        outs = list(ex.map(one, files))
    results = []
    for sh_terms, body in zip(shards, outs):
        toks = re.findall(r"true|false", body)
        if not sh_terms:
            continue
        if len(toks) % len(sh_terms) != 0:
            raise CoqError("unexpected number of booleans in coqc output")
        w = len(toks) // len(sh_terms)
        for i in range(len(sh_terms)):
            results.append(tuple(t == "true" for t in toks[i * w:(i + 1) * w]))
    return results


def coq_show(prop, tier, imports, expr, timeout=300, tag="show"):
    """Evaluate one Gallina expression with vm_compute and return coqc's printed value."""
    wd = os.path.join(WORK, prop, tier)
    os.makedirs(wd, exist_ok=True)
    path = os.path.join(wd, tag + ".v")
    with open(path, "w") as f:
        f.write(imports + "\nDefinition shown := Eval vm_compute in (%s).\nPrint shown.\n" % expr)
    rc, out = sh(["timeout", str(timeout), "coqc", "-Q", COQ, "Xds", "-w", "none", path], cwd=wd, timeout=timeout + 30)
    if rc != 0:
        return "coqc failed: " + out[-1500:]
    m = re.search(r"shown\s*=\s*(.*?)\n\s*:\s", out, flags=re.S)
    return re.sub(r"\s+", " ", m.group(1)) if m else out[-1500:]


# ----------------------------------------------------------------------------- theorems

def property_theorems(prop_file):
    """Names of the Theorem/Example statements in a Properties file."""
    src = open(os.path.join(COQ, prop_file)).read()
    return re.findall(r"^(?:Theorem|Example|Corollary|Lemma)\s+([A-Za-z0-9_']+)", src, flags=re.M)


def coq_deps(relpath):
    """Transitive closure of the project files a .v file depends on (via coqdep)."""
    rc, out = sh(["coqdep", "-Q", ".", "Xds"] + sorted(
        os.path.relpath(p, COQ) for p in glob.glob(os.path.join(COQ, "**", "*.v"), recursive=True)), cwd=COQ)
    deps = {}
    for line in out.splitlines():
        if ".vo" not in line or ":" not in line:
            continue
        lhs, rhs = line.split(":", 1)
        tgt = [t for t in lhs.split() if t.endswith(".vo")]
        if not tgt:
            continue
        src = tgt[0][:-1]
        deps[src] = [d[:-1] for d in rhs.split() if d.endswith(".vo") and not d.startswith("/")]
    seen, todo = [], [relpath]
    while todo:
        x = todo.pop()
        x = os.path.normpath(x)
        if x in seen:
            continue
        seen.append(x)
        todo.extend(deps.get(x, []))
    return seen


def count_statements(files):
    n = 0
    for f in files:
        src = open(os.path.join(COQ, f)).read()
        n += len(re.findall(r"^\s*(?:Theorem|Lemma|Corollary|Example|Fact|Proposition)\s", src, flags=re.M))
    return n


FORBIDDEN = re.compile(r"\b(Admitted|admit|Axiom|Axioms|Parameter|Parameters|Conjecture|Conjectures|Abort All|bypass_check|Unset Guard Checking|Unset Positivity Checking|Unset Universe Checking|Admit Obligations)\b")


def scan_forbidden(files):
    bad = []
    for f in files:
        src = open(os.path.join(COQ, f)).read()
        src = re.sub(r"\(\*.*?\*\)", "", src, flags=re.S)
        for m in FORBIDDEN.finditer(src):
            bad.append("%s: %s" % (f, m.group(1)))
    return bad


def theorem_status(prop, prop_file):
    """Compile status of the property file and Print Assumptions of each of its theorems."""
    deps = coq_deps(prop_file)
    names = property_theorems(prop_file)
    st = {"file": prop_file, "depends_on": sorted(deps), "theorems": names, "compiled": False,
          "assumptions": {}, "obligations": count_statements(deps), "discharged": 0,
          "forbidden": scan_forbidden(deps), "failed_files": []}
    st["failed_files"] = [d for d in deps if not vo_ok(d)]
    st["compiled"] = not st["failed_files"]
    if not st["compiled"]:
        ok_files = [d for d in deps if vo_ok(d)]
        st["discharged"] = count_statements(ok_files)
        return st
    wd = os.path.join(WORK, prop)
    os.makedirs(wd, exist_ok=True)
    path = os.path.join(wd, "assumptions.v")
    mod = "Xds." + prop_file[:-2].replace("/", ".")
    with open(path, "w") as f:
        f.write("Require Import %s.\n" % mod)
        for n in names:
            f.write('Goal True. idtac "@@ %s". exact I. Qed.\nPrint Assumptions %s.\n' % (n, n))
    rc, out = sh(["timeout", "300", "coqc", "-Q", COQ, "Xds", "-w", "none", path], cwd=wd, timeout=330)
    if rc != 0:
        st["compiled"] = False
        st["failed_files"] = [prop_file + " (Print Assumptions run failed: %s)" % out[-500:]]
        return st
    parts = re.split(r"@@ (\S+)\n", out)
    for i in range(1, len(parts) - 1, 2):
        txt = parts[i + 1].strip()
        st["assumptions"][parts[i]] = re.sub(r"\s+", " ", txt)
    st["discharged"] = st["obligations"]
    return st


def coqchk(prop_file, extra_modules=()):
    """Thorough tier: re-check the compiled property file and everything it depends on with the independent
    checker and report the axioms it relies on (coqchk -o)."""
    mods = ["Xds." + prop_file[:-2].replace("/", ".")] + list(extra_modules)
    with Lock("coqchk"):
        rc, out = sh(["timeout", "3000", "coqchk", "-silent", "-o", "-Q", COQ, "Xds"] + mods, cwd=COQ, timeout=3100)
    m = re.search(r"\* Axioms:(.*?)\n\s*\n\* Constants/Inductives relying on type-in-type:(.*?)\n\s*\n\* Constants/Inductives relying on unsafe \(co\)fixpoints:(.*?)\n\s*\n\* Inductives whose positivity is assumed:(.*?)(\n\s*\n|$)", out, re.S)
    summary = {"modules": mods, "rc": rc}
    if m:
        summary.update({"axioms": " ".join(m.group(1).split()), "type_in_type": " ".join(m.group(2).split()),
                        "unsafe_fixpoints": " ".join(m.group(3).split()), "assumed_positivity": " ".join(m.group(4).split())})
    else:
        summary["output_tail"] = out[-800:]
    ok = rc == 0 and m is not None and all(summary[k] == "<none>" for k in ("axioms", "type_in_type", "unsafe_fixpoints", "assumed_positivity"))
    return ok, summary


def theorems_closed(st):
    if not st["compiled"] or st["forbidden"]:
        return False
    for n in st["theorems"]:
        a = st["assumptions"].get(n, "")
        if "Closed under the global context" not in a:
            return False
    return True


# ----------------------------------------------------------------------------- reporting

def known_findings():
    p = os.path.join(VERIF, "known_findings.json")
    if not os.path.exists(p):
        return {"open": [], "fixed": []}
    return json.load(open(p))


def write_replay(prop, obj):
    os.makedirs(REPLAYS, exist_ok=True)
    blob = json.dumps(obj, indent=1, sort_keys=True, default=str)
    h = hashlib.sha1(blob.encode()).hexdigest()[:10]
    path = os.path.join(REPLAYS, "%s-%s.json" % (prop, h))
    with open(path, "w") as f:
        f.write(blob + "\n")
    return path


def violation(prop, replay_obj, no_input=False):
    path = write_replay(prop, replay_obj)
    print("VIOLATION property=%s replay=%s%s" % (prop, path, " no-failing-input-found" if no_input else ""))
    sys.stdout.flush()
    return path


def write_evidence(prop, tier, seed, st, coverage, wall, violations, assumptions=None, extra=None):
    os.makedirs(EVID, exist_ok=True)
    cov = dict(coverage)
    cov.setdefault("obligations", st["obligations"] if st else 0)
    cov.setdefault("discharged", st["discharged"] if st else 0)
    cov.setdefault("checker_cmd", "make -C /verif/coq -j%d (coq_makefile from _CoqProject, full .vo build with coqc 8.16.1); "
                   "coqc -Q /verif/coq Xds work/%s/assumptions.v (Print Assumptions); "
                   "coqc -Q /verif/coq Xds work/%s/%s/cases_*.v (model and spec evaluated on the implementation's observations)" % (NCPU, prop, prop, tier))
    cov.setdefault("trusted_base", TRUSTED_BASE)
    if st:
        cov["theorems"] = st["theorems"]
        cov["print_assumptions"] = st["assumptions"]
        cov["proof_files"] = st["depends_on"]
        cov["forbidden_constructs_found"] = st["forbidden"]
        cov["files_not_compiled"] = st["failed_files"]
        if st.get("coqchk"):
            cov["coqchk"] = st["coqchk"]
            cov["checker_cmd"] += "; coqchk -silent -o -Q /verif/coq Xds " + " ".join(st["coqchk"]["modules"])
    ev = {"property_id": prop, "tier": tier, "seed": seed, "level": "proof", "coverage": cov,
          "assumptions": assumptions or [], "wall_s": round(wall, 2), "violations": violations}
    if extra:
        ev.update(extra)
    with open(os.path.join(EVID, prop + ".json"), "w") as f:
        json.dump(ev, f, indent=1, sort_keys=True, default=str)
        f.write("\n")


def seed_from_env(default=1):
    try:
        return int(os.environ.get("VERIF_SEED", default))
    except ValueError:
        return default


def repo_head():
    rc, out = sh(["git", "-C", REPO, "rev-parse", "--short", "HEAD"])
    rc2, out2 = sh(["git", "-C", REPO, "status", "--porcelain"])
    return out.strip() + ("+dirty" if out2.strip() else "")
