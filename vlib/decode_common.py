"""Shared part of the C11 / C12 / C13 checks: the 'decode' engine cases and their Gallina form."""
import json
from .astgen import tj, Gen
from .core import gbool, glist, gpair, gstr, gopt, gN

IMPORTS = "From Xds Require Import Model.Base Model.Fqdn Model.Proto Model.Decode Model.DecodeCheck."
FN = {"lds": "lds_check", "rds": "rds_check", "cds": "cds_check", "eds": "eds_check", "nds": "nds_check"}
TY = {"lds": "resp_case listener_pb lisres", "rds": "resp_case rc_pb rcres", "cds": "resp_case cluster_pb clres",
      "eds": "resp_case cla_pb (option epres)", "nds": "resp_case nt_pb (list string)"}


def to_harness(c):
    return {"kind": c["kind"], "resources": c["resources"], "mutations": c.get("mutations", []), "raw_hex": c.get("raw_hex", [])}


def to_gallina(c, o):
    return "Build_resp_case _ _ %s %s %s %s %s %s" % (
        tj(o["re_valid"]), tj(o["rates"]), tj(o["summary"]), gbool(o["err"]), gbool(bool(o["panic"])),
        "None" if o["decoded"] is None else "(Some %s)" % tj(o["decoded"]))


def summary_stats(o):
    s = json.dumps(o["summary"])
    return {"good": s.count('"RGood"'), "wrong_url": s.count('"RWrongUrl"'), "unparsable": s.count('"RUnparsable"')}


def describe(c, o):
    d = {"kind": c["kind"], "resources_as_parsed": o["summary"], "error": o["err"], "panic": o["panic"]}
    if c.get("mutations"):
        d["byte_mutations"] = c["mutations"]
    txt = json.dumps(d)
    if len(txt) > 1500:
        d["resources_as_parsed"] = txt[:1200] + "...(truncated)"
    return d


def shrink(c):
    rs = c["resources"]
    for i in range(len(rs)):
        yield dict(c, resources=rs[:i] + rs[i + 1:], mutations=[m for m in c.get("mutations", []) if m["res"] != i and len(rs) > 1])
    ms = c.get("mutations", [])
    for i in range(len(ms)):
        yield dict(c, mutations=ms[:i] + ms[i + 1:])
    # structural shrinking inside resources: drop list elements anywhere
    def drops(x, path=()):
        if isinstance(x, dict) and "l" in x:
            for i in range(len(x["l"])):
                yield path, i
            for i, e in enumerate(x["l"]):
                yield from drops(e, path + (("l", i),))
        elif isinstance(x, dict) and "some" in x:
            yield from drops(x["some"], path + (("some",),))
        elif isinstance(x, dict) and "p" in x:
            for i, e in enumerate(x["p"]):
                yield from drops(e, path + (("p", i),))
        elif isinstance(x, list):
            for i, e in enumerate(x[1:], 1):
                yield from drops(e, path + (("c", i),))

    def apply(x, path, idx):
        if not path:
            y = dict(x)
            y["l"] = x["l"][:idx] + x["l"][idx + 1:]
            return y
        h = path[0]
        if h[0] == "l":
            y = dict(x); y["l"] = list(x["l"]); y["l"][h[1]] = apply(x["l"][h[1]], path[1:], idx); return y
        if h[0] == "some":
            return {"some": apply(x["some"], path[1:], idx)}
        if h[0] == "p":
            y = {"p": list(x["p"])}; y["p"][h[1]] = apply(x["p"][h[1]], path[1:], idx); return y
        y = list(x); y[h[1]] = apply(x[h[1]], path[1:], idx); return y
    for ri, r in enumerate(rs):
        n = 0
        for path, idx in drops(r):
            n += 1
            if n > 40:
                break
            yield dict(c, resources=rs[:ri] + [apply(r, path, idx)] + rs[ri + 1:])


def model_view(prop, c, o, tier):
    from . import core
    kind = c["kind"]
    dec = {"lds": "decode_lds (case_oracle k) (rc_resources k)", "rds": "decode_rds (case_oracle k) (rc_resources k)",
           "cds": "decode_cds (rc_resources k)", "eds": "decode_eds (rc_resources k)", "nds": "decode_nds (rc_resources k)"}[kind]
    return core.coq_show(prop, tier, IMPORTS, "let k : %s := %s in %s" % (TY[kind], to_gallina(c, o), dec))[:3000]


class KindPart:
    """one part per resource kind; subclasses set PROP, choose generator and projection"""
    ENGINE = "decode"
    IMPORTS = IMPORTS
    SHARD = 150
    HARNESS_SHARDS = 8
    SHRINK_WIDTH = 80

    def __init__(self, prop, kind, gen, project):
        self.PROP = prop
        self.kind = kind
        self.NAME = kind
        self.FN = FN[kind]
        self.TY = TY[kind]
        self._gen = gen
        self.PROJECT = project

    def gen_cases(self, rng, tier):
        return self._gen(self.kind, rng, tier)

    to_harness = staticmethod(to_harness)
    to_gallina = staticmethod(to_gallina)
    describe = staticmethod(describe)
    shrink = staticmethod(shrink)

    def model_view(self, c, o, tier):
        return model_view(self.PROP, c, o, tier)

    def nontrivial(self, c, o):
        st = summary_stats(o)
        if st["good"] >= 1 and not o.get("unmodelled"):
            return json.dumps(o["summary"], sort_keys=True)
        return None

    def histogram(self, cases, obs):
        h = {"responses": len(cases), "resources_good": 0, "wrong_url": 0, "unparsable": 0, "impl_errors": 0, "impl_panics": 0,
             "byte_mutated": 0, "resources_per_response": {}, "unmodelled_skipped": 0}
        for c in cases:
            o = obs[c["id"]]
            st = summary_stats(o)
            h["resources_good"] += st["good"]; h["wrong_url"] += st["wrong_url"]; h["unparsable"] += st["unparsable"]
            h["impl_errors"] += 1 if o["err"] else 0
            h["impl_panics"] += 1 if o["panic"] else 0
            h["byte_mutated"] += 1 if c.get("mutations") else 0
            h["unmodelled_skipped"] += 1 if o.get("unmodelled") else 0
            n = str(len(c["resources"]))
            h["resources_per_response"][n] = h["resources_per_response"].get(n, 0) + 1
        return h
