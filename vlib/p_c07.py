"""C07 — lookups under concurrency (core/manager/manager.go Get / UpdateResource)."""
from .concgen import ConcPart

PROP = "C07"
PROP_FILE = "Properties/C07.v"
RULE = ("schedules of 1..3 concurrent lookups (same and different names, a full-state type and a merge type, an unknown kind) with 1..2 deliveries "
        "(incl. full responses that remove the name again) and the firing of each caller's deadline, at the granularity of Get's lock-free gaps: "
        "every interleaving is enumerated per configuration (DFS) up to a budget, random walks beyond it, plus prefixes; real Get goroutines are parked "
        "at the four tagged yield points by a deterministic scheduler and UpdateResource / cancellations are placed between their sections; each lookup "
        "left unfinished is then drained, firing its deadline only if it cannot return otherwise (reported). distinct_nontrivial = distinct schedules with a lookup and a delivery")
ASSUMPTIONS = ["atomicity of the sections between yield points (each runs under m.mu) is what the generated lock skeleton of C07 states",
               "real time is not modelled: 'bounded time' is bounded steps + progress; wall-clock is not measured here (partial)",
               "Go's runtime scheduler inside an atomic section is irrelevant by construction; a select that finds both channels ready may take either branch: the model follows the branch observed"]
PARTS = [ConcPart(PROP, 2)]


# ---- lock skeleton: translator tie (regenerated from /repo on every run) ----
import os, re, subprocess
from . import core

SKEL_THEOREMS = ["C07_lock_discipline", "C07_policy_before_data", "C07_handlers_do_not_reenter",
                 "C07_blocking_send_under_locks_without_capacity"]


def extra_problems(tier):
    gen = os.path.join(core.COQ, "gen")
    with core.Lock("skel"):
        rc, out = core.sh(["go", "build", "-o", os.path.join(core.BIN, "skel"), "."], cwd=os.path.join(core.VERIF, "tools", "skel"), env=core.GOENV, timeout=600)
        if rc != 0:
            return [{"kind": "theorem", "what": "the skeleton translator tools/skel does not build", "log": out[-1500:]}], None
        p = subprocess.run([os.path.join(core.BIN, "skel"), core.REPO], stdout=subprocess.PIPE, stderr=subprocess.PIPE, text=True, timeout=120)
        if p.returncode != 0:
            return [{"kind": "theorem", "what": "tools/skel could not parse the sources", "log": p.stderr[-1500:]}], None
        path = os.path.join(gen, "SkelGen.v")
        old = open(path).read() if os.path.exists(path) else None
        if old != p.stdout:
            open(path, "w").write(p.stdout)
        nfun = p.stdout.count("\n  (\"")
        rc1, out1 = core.sh(["timeout", "300", "coqc", "-Q", core.COQ, "Xds", "-w", "none", path], cwd=core.COQ, timeout=330)
        rc2, out2 = (1, "") if rc1 != 0 else core.sh(["timeout", "300", "coqc", "-Q", core.COQ, "Xds", "-w", "none", os.path.join(gen, "SkelTheorems.v")], cwd=core.COQ, timeout=330)
    info = {"obligations": len(SKEL_THEOREMS), "discharged": 0, "theorems": SKEL_THEOREMS, "assumptions": {},
            "info": {"translator": "tools/skel (go/ast) -> coq/gen/SkelGen.v", "functions_transcribed": nfun,
                     "irregular_constructs": p.stdout.count("Irregular "), "source_files": ["core/manager/manager.go", "core/manager/client.go",
                     "xdssuite/circuitbreak.go", "xdssuite/retry.go", "xdssuite/limiter.go"]}}
    if rc1 == 0 and rc2 == 0:
        closed = out2.count("Closed under the global context")
        info["discharged"] = len(SKEL_THEOREMS)
        for t in SKEL_THEOREMS:
            info["assumptions"][t] = "Closed under the global context" if closed >= len(SKEL_THEOREMS) else out2[-300:]
        return [], info
    # which function breaks which rule
    diag = core.coq_show("C07", tier, "From Xds Require Import Model.Base Model.Skel gen.SkelGen.",
                         "(filter (fun x => negb (v_all (sv (snd x))) || negb (sv_handler_first (snd x))) (map (fun f => (f, check_function true skel f)) entry_points), "
                         "check_policy_before_data skel, check_update_is_one_section skel, check_no_reentry skel, v_block (sv (check_all false skel)))", tag="skeldiag") if rc1 == 0 else out1[-800:]
    return [{"kind": "theorem", "what": "the theorems of coq/gen/SkelTheorems.v about the lock skeleton regenerated from /repo no longer check "
                                        "(lock order / lock-set / blocking under lock / handlers inside the write section / no re-entry)",
             "offending (function, verdict) pairs and the three structural checks": diag, "coqc": (out1 + out2)[-1200:]}], info
