"""C07 — lookups under concurrency (core/manager/manager.go Get / UpdateResource)."""
from .concgen import ConcPart

PROP = "C07"
PROP_FILE = "Properties/C07.v"
RULE = ("schedules of 1..3 concurrent lookups (same and different names, a full-state type and a merge type, an unknown kind) with 1..2 deliveries "
        "(incl. full responses that remove the name again) and the firing of each caller's deadline, at the granularity of Get's lock-free gaps: "
        "every interleaving is enumerated per configuration (DFS) up to a budget, random walks beyond it, plus prefixes; real Get goroutines are parked "
        "at the four tagged yield points by a deterministic scheduler and UpdateResource / cancellations are placed between their sections; each lookup "
        "left unfinished is then drained, firing its deadline only if it cannot return otherwise (reported). distinct_nontrivial = distinct schedules with a lookup and a delivery")
ASSUMPTIONS = ["atomicity of the sections between yield points (each runs under m.mu) is what the generated lock skeleton of C07 states",
               "real time is not modelled: 'bounded time' is bounded steps + progress; wall-clock is not measured here (partial)",
               "Go's runtime scheduler inside an atomic section is irrelevant by construction; a select that finds both channels ready may take either branch: the model follows the branch observed"]


class Stall:
    """deadlock part on the running code: held sender, piled-up requests, stream failure"""
    NAME = "stall"
    NONDETERMINISTIC = True
    ENGINE = "stall"
    IMPORTS = "From Xds Require Import Model.Base Model.Conc Model.ConcCheck."
    FN = "stall_check"
    TY = "stall_case"
    EXTRA_ROUNDS = 1

    @staticmethod
    def gen_cases(rng, tier):
        items = [{"pending": 300, "recv_err": False, "trials": 1}, {"pending": 1100, "recv_err": False, "trials": 1},
                 {"pending": 300, "recv_err": True, "trials": 1}, {"pending": 1100, "recv_err": True, "trials": 4},
                 # the re-subscription on a new stream fails (its first Send), that stream fails too, the next one works
                 {"pending": 20, "recv_err": False, "resub_fail": True, "trials": 2}]
        if tier != "quick":
            items += [{"pending": rng.choice([1026, 1500, 2500]), "recv_err": True, "trials": 10},
                      {"pending": rng.choice([1030, 4000]), "recv_err": rng.random() < 0.5, "trials": 5}]
        return [{"item": it} for it in items]

    @staticmethod
    def run_impl(cases):
        from . import core
        res = core.run_harness("stall", [{"id": 0, "items": [c["item"] for c in cases]}], timeout=600, shards=1)
        return {c["id"]: r for c, r in zip(cases, res[0]["results"])}

    @staticmethod
    def to_gallina(c, o):
        from .core import gN
        it = c["item"]
        b = lambda x: "true" if x else "false"
        return "Build_stall_case %s %s %s %s %s %s %s %s %s" % (
            gN(it["pending"]), b(it["recv_err"]), b(it.get("resub_fail")), gN(o["queue_max"]), gN(max(0, o["stuck"])), b(o["hot_after"] == "val"),
            gN(o["streams"]), b(o["resub_on_new"]), gN(o["trials_failed"]))

    @staticmethod
    def nontrivial(c, o):
        import json
        return json.dumps(c["item"], sort_keys=True) if o["queue_max"] > 0 or c["item"].get("resub_fail") else None

    @staticmethod
    def describe(c, o):
        return {"scenario": c["item"], "observed": o}




class Stress:
    """random concurrent mix on one real manager; built with the race detector in the thorough tier"""
    NAME = "stress"
    NONDETERMINISTIC = True
    IMPORTS = "From Xds Require Import Model.Base Model.Conc Model.ConcCheck."
    FN = "stress_check"
    TY = "stress_case"
    EXTRA_ROUNDS = 0
    TIER = "quick"

    @classmethod
    def gen_cases(cls, rng, tier):
        cls.TIER = tier
        n, ms = (3, 1500) if tier == "quick" else (6, 8000)
        return [{"seed": rng.randrange(1 << 30), "millis": ms, "workers": rng.choice([3, 4, 6])} for _ in range(n)]

    @classmethod
    def run_impl(cls, cases):
        import json, subprocess, os
        from concurrent.futures import ThreadPoolExecutor
        from . import core
        race = cls.TIER != "quick"
        binary = os.path.join(core.BIN, "harness")
        if race:
            binary = os.path.join(core.BIN, "harness_race")
            with core.Lock("harness"):
                rc, out = core.sh(["go", "build", "-race", "-tags", "verif", "-o", binary, "."], cwd=os.path.join(core.VERIF, "harness"), env=core.GOENV, timeout=1200)
            if rc != 0:
                raise core.HarnessError("race build failed: " + out[-1500:])

        def one(c):
            p = subprocess.run([binary, "stress"], input=json.dumps({"id": c["id"], "seed": c["seed"], "millis": c["millis"], "workers": c["workers"]}) + "\n",
                               env=dict(core.GOENV, GORACE="halt_on_error=0"), stdout=subprocess.PIPE, stderr=subprocess.PIPE, text=True, timeout=c["millis"] / 1000 + 120)
            o = {}
            for line in p.stdout.splitlines():
                if line.strip().startswith("{"):
                    o = json.loads(line)
            reports = p.stderr.split("WARNING: DATA RACE")[1:]
            o["races"] = len(reports)
            o["race_reports"] = ["WARNING: DATA RACE" + r[:2500] for r in reports[:3]]
            o["race_detector"] = race
            if p.returncode != 0 and not reports:
                o["unfinished"] = True
                o["stderr_tail"] = p.stderr[-1500:]
            return c["id"], o
        with ThreadPoolExecutor(max_workers=3) as ex:
            return dict(ex.map(one, cases))

    @staticmethod
    def to_gallina(c, o):
        from .core import gN
        return "Build_stress_case %s %s %s %s %s %s %s %s %s" % (
            gN(o.get("races", 0)), gN(o.get("bad", 0)), "true" if o.get("unfinished", True) else "false",
            gN(o.get("lookups", 0)), gN(o.get("overlap", 0)), gN(o.get("regress", 0)),
            gN(o.get("behind", 0)), gN(o.get("shrinks", 0)), gN(o.get("wire_stale", 0)))

    @staticmethod
    def nontrivial(c, o):
        return c["seed"] if o.get("lookups", 0) > 100 and o.get("responses", 0) > 10 else None

    @staticmethod
    def describe(c, o):
        return {"run": {k: c[k] for k in ("seed", "millis", "workers")}, "observed": {k: v for k, v in o.items() if k != "race_reports"},
                "race_reports": o.get("race_reports", [])[:1]}


PARTS = [ConcPart(PROP, 2), Stall, Stress]
COQCHK_EXTRA = ("Xds.Properties.C07Skel",)


# ---- lock skeleton: translator tie (regenerated from /repo on every run) ----
import os, re, subprocess
from . import core

SKEL_THEOREMS = ["C07_lock_discipline", "C07_policy_before_data", "C07_policy_before_data_on_every_path", "C07_handlers_do_not_reenter",
                 "C07_blocking_send_under_locks_without_capacity", "C07_queue_consumer_never_waits_for_a_lock", "C07_every_path_checked", "C07_paths_exist", "C07_no_lock_deadlock", "C07_no_data_race"]
SKEL_THEOREMS_FULL = ["C07_every_path_checked_full", "C07_no_lock_deadlock_full", "C07_no_data_race_full"]


def extra_problems(tier):
    gen = os.path.join(core.COQ, "gen")
    with core.Lock("skel"):
        rc, out = core.sh(["go", "build", "-o", os.path.join(core.BIN, "skel"), "."], cwd=os.path.join(core.VERIF, "tools", "skel"), env=core.GOENV, timeout=600)
        if rc != 0:
            return [{"kind": "theorem", "what": "the skeleton translator tools/skel does not build", "log": out[-1500:]}], None
        p = subprocess.run([os.path.join(core.BIN, "skel"), core.REPO], stdout=subprocess.PIPE, stderr=subprocess.PIPE, text=True, timeout=120)
        if p.returncode != 0:
            return [{"kind": "theorem", "what": "tools/skel could not parse the sources", "log": p.stderr[-1500:]}], None
        path = os.path.join(gen, "SkelGen.v")
        old = open(path).read() if os.path.exists(path) else None
        if old != p.stdout:
            open(path, "w").write(p.stdout)
        nfun = p.stdout.count("\n  (\"")
        rc1, out1 = core.sh(["timeout", "300", "coqc", "-Q", core.COQ, "Xds", "-w", "none", path], cwd=core.COQ, timeout=330)
        # the theorem files about the generated skeleton (tracked, compiled here because they depend on gen/SkelGen.v);
        # path enumeration recurses deeply: unlimited stack
        def thm(f, t):
            return core.sh(["sh", "-c", "ulimit -s unlimited; exec timeout %d coqc -Q %s Xds -w none %s" % (t, core.COQ, os.path.join(core.COQ, "Properties", f))],
                           cwd=core.COQ, timeout=t + 30)
        rc2, out2 = (1, "") if rc1 != 0 else thm("C07Skel.v", 300)
        names = list(SKEL_THEOREMS)
        if tier == "thorough" and rc2 == 0:
            names += SKEL_THEOREMS_FULL
            rc3, out3 = thm("C07SkelFull.v", 900)
            rc2, out2 = (rc3, out2 + out3)
    info = {"obligations": len(names), "discharged": 0, "theorems": names, "assumptions": {},
            "info": {"translator": "tools/skel (go/ast) -> coq/gen/SkelGen.v", "functions_transcribed": nfun,
                     "irregular_constructs": p.stdout.count("Irregular "), "source_files": ["core/manager/manager.go", "core/manager/client.go",
                     "xdssuite/circuitbreak.go", "xdssuite/retry.go", "xdssuite/limiter.go"]}}
    bad = core.scan_forbidden(["Properties/C07Skel.v", "Properties/C07SkelFull.v", "gen/SkelGen.v"])
    if bad:
        return [{"kind": "theorem", "what": "forbidden constructs in the skeleton theorem files", "forbidden": bad}], info
    if rc1 == 0 and rc2 == 0:
        closed = out2.count("Closed under the global context")
        info["discharged"] = len(names)
        for t in names:
            info["assumptions"][t] = "Closed under the global context" if closed >= len(names) else out2[-300:]
        if closed >= len(names):
            return [], info
        return [{"kind": "theorem", "what": "a theorem of coq/Properties/C07Skel.v depends on assumptions", "coqc": out2[-1200:]}], info
    # which function breaks which rule
    diag = core.coq_show("C07", tier, "From Xds Require Import Model.Base Model.Skel gen.SkelGen.",
                         "(filter (fun x => negb (v_all (sv (snd x))) || negb (sv_handler_first (snd x))) (map (fun f => (f, check_function true skel f)) entry_points), "
                         "check_policy_before_data skel, check_update_is_one_section skel, check_no_reentry skel, v_block (sv (check_all false skel)))", tag="skeldiag") if rc1 == 0 else out1[-800:]
    return [{"kind": "theorem", "what": "the theorems of coq/Properties/C07Skel.v about the lock skeleton regenerated from /repo no longer check "
                                        "(lock order / lock-set / blocking under lock / handlers inside the write section / no re-entry)",
             "offending (function, verdict) pairs and the three structural checks": diag, "coqc": (out1 + out2)[-1200:]}], info
