"""C07 — lookups under concurrency (core/manager/manager.go Get / UpdateResource)."""
from .concgen import ConcPart

PROP = "C07"
PROP_FILE = "Properties/C07.v"
RULE = ("schedules of 1..3 concurrent lookups (same and different names, a full-state type and a merge type, an unknown kind) with 1..2 deliveries "
        "(incl. full responses that remove the name again) and the firing of each caller's deadline, at the granularity of Get's lock-free gaps: "
        "every interleaving is enumerated per configuration (DFS) up to a budget, random walks beyond it, plus prefixes; real Get goroutines are parked "
        "at the four tagged yield points by a deterministic scheduler and UpdateResource / cancellations are placed between their sections; each lookup "
        "left unfinished is then drained, firing its deadline only if it cannot return otherwise (reported). distinct_nontrivial = distinct schedules with a lookup and a delivery")
ASSUMPTIONS = ["atomicity of the sections between yield points (each runs under m.mu) is what the generated lock skeleton of C07 states",
               "real time is not modelled: 'bounded time' is bounded steps + progress; wall-clock is not measured here (partial)",
               "Go's runtime scheduler inside an atomic section is irrelevant by construction; a select that finds both channels ready may take either branch: the model follows the branch observed"]
PARTS = [ConcPart(PROP, 2)]
