"""C02 — each response is ACKed or NACKed correctly; a NACK changes nothing (client.go updateAndACK / handle*)."""
import json
from . import sysgen, p_c01

PROP = "C02"
PROP_FILE = "Properties/C02.v"
RULE = p_c01.RULE.replace("distinct_nontrivial = distinct histories in which an accepted response changed the answer of a later lookup",
                          "Responses are valid, partially corrupt (unparsable resource, wrong type url, route without match/action, empty name table), of unknown "
                          "type urls and of never-subscribed types, at random positions. distinct_nontrivial = distinct histories containing both an accepted and a rejected response")
ASSUMPTIONS = p_c01.ASSUMPTIONS + ["error text of the NACK is not compared (only its presence)"]


class Part(p_c01.Part):
    @staticmethod
    def PROJECT(v, c, o):
        (cache, lookup, reqs, watched, acks, table, closed, s1, s2, s3, s4, s10, s19, sfull) = v
        return (reqs and acks and cache and table, s2)

    @classmethod
    def model_view(cls, c, o, tier):
        return sysgen.model_view(PROP, c, o, tier)

    @staticmethod
    def nontrivial(c, o):
        if o.get("fatal"):
            return None
        acks = [q for st in o["steps"] for q in (st.get("reqs") or []) if q["nonce"] != ""]
        if any(q["error"] for q in acks) and any(not q["error"] for q in acks):
            return json.dumps(c["ops"], sort_keys=True)
        return None


PARTS = [Part]
