"""Generators of proto ASTs in the tagged-JSON form shared with the Go harness (harness/ast.go) and
the printer of tagged JSON as Gallina terms."""
from .core import gN, gZ, gstr, gbool


def tj(x):
    """tagged JSON -> Gallina"""
    if x is None:
        return "None"
    if isinstance(x, bool):
        return gbool(x)
    if isinstance(x, int):
        return gN(x)
    if isinstance(x, str):
        return gstr(x)
    if isinstance(x, list):
        if len(x) == 1:
            return x[0]
        return "(" + x[0] + " " + " ".join(tj(a) for a in x[1:]) + ")"
    if isinstance(x, dict):
        if "some" in x:
            return "(Some " + tj(x["some"]) + ")"
        if "z" in x:
            return gZ(int(x["z"]))
        if "l" in x:
            return "[" + "; ".join(tj(a) for a in x["l"]) + "]"
        if "p" in x:
            return "(" + ", ".join(tj(a) for a in x["p"]) + ")"
    raise ValueError("bad tagged json %r" % (x,))


def C(name, *args):
    return [name] + list(args)


def L(xs):
    return {"l": list(xs)}


def Some(x):
    return {"some": x}


def Z(n):
    return {"z": n}


def P(a, b):
    return {"p": [a, b]}


MS = 1000000
HEADER_NAMES = ["stage", "x-user", "env", "kitexRetryErrorRate", "kitexRetryMethods", ""]
REGEXES = ["^a.*z$", "v[0-9]+", "(", "[a-", "", ".*", "^$", "a|b", "\\d+", "canary"]
VALUES = ["canary", "v1", "v12", "abz", "", "prod", "0.1", "0.25", "abc", "GET,PUT", "Echo"]
CLUSTERS = ["outbound|80||a.default.svc.cluster.local", "c1", "c2", "c3", "", "c1.", "C1", " c1"]
RC_NAMES = ["80", "8888", "rc-a", "rc-b", "rc-a.", "RC-A", ""]
LIS_NAMES = ["10.0.0.1_80", "10.0.0.2_8888", "virtualInbound", "l1", "L1", "l1.", ""]
CL_NAMES = ["c1", "c2", "outbound|80||a.default.svc.cluster.local", "cluster-x", "c1.", "C1", " c1", ""]
METHODS = ["Echo", "Ping", ""]


# payloads of foreign (unknown type url) Any values, hex: valid encodings of other messages that are NOT valid encodings of the
# messages the decoders know, so that a decoder which parses them under the wrong type fails
FOREIGN_PAYLOADS = ["", "1a03616263", "0a03616263", "0801", "12020801", "2a0568656c6c6f", "ffffffff", "0a0a0a0a", "7a0161", "0d01020304"]


MANY_METHODS = ",".join("Method%d" % i for i in range(20))     # more than any "reasonable" bound
VH_NAMES = ["web", "vh-b", "api", "vh-a", "zz", "default", "b", "a"]


class Gen:
    def __init__(self, rng, bad=0.0, sparse=0.0):
        self.r = rng
        self.bad = bad         # probability of structurally invalid pieces (missing match/action, unparsable nested)
        self.sparse = sparse   # probability that an optional sub-message is absent

    def opt(self, f, p_absent=None):
        p = self.sparse if p_absent is None else p_absent
        return None if self.r.random() < p else Some(f())

    def u32(self):
        return self.r.choice([0, 1, 2, 5, 50, 100, 1000, 65535, 2 ** 32 - 1, self.r.randint(0, 200)])

    def dur(self):
        return Z(self.r.choice([0, 1, 10, 100, 250, 500, 1000, 2500, self.r.randint(0, 5000)]) * MS)

    def header(self):
        r = self.r
        name = r.choice(HEADER_NAMES)
        k = r.random()
        if k < 0.3:
            spec = C("HSString", C("SMExact", r.choice(VALUES)))
        elif k < 0.5:
            spec = C("HSString", C("SMPrefix", r.choice(VALUES)))
        elif k < 0.75:
            spec = C("HSString", C("SMRegex", r.choice(REGEXES)))
        elif k < 0.82:
            spec = C("HSString", C("SMOther"))
        elif k < 0.88:
            spec = C("HSString", C("SMNone"))
        elif k < 0.94:
            spec = C("HSOther")
        else:
            spec = C("HSNone")
        return C("Build_header_pb", name, spec)

    def headers(self, mx=3):
        return L(self.header() for _ in range(self.r.choice([0, 0, 1, 1, 2, mx])))

    def wcs(self):
        n = self.r.choice([0, 1, 2, 2, 3, 4])
        return L(C("Build_wc_pb", self.r.choice(CLUSTERS), self.opt(self.u32, 0.2)) for _ in range(n))

    def retry(self):
        r = self.r
        hs = []
        for _ in range(r.choice([0, 0, 1, 2, 3])):
            if r.random() < 0.7:
                nm = r.choice(["kitexRetryErrorRate", "kitexRetryMethods"])
                v = r.choice(["0.1", "0.25", "0.3", "abc", "", "1e-1", ".5", "Echo,Ping", "Echo", ",", MANY_METHODS, MANY_METHODS + ",Echo"])
                hs.append(C("Build_header_pb", nm, C("HSString", C("SMExact", v))))
            else:
                hs.append(self.header())
        bo = self.opt(lambda: C("Build_backoff_pb", self.opt(self.dur, 0.2), self.opt(self.dur, 0.2)), 0.4)
        return C("Build_retry_pb", r.choice(["", "5xx", "connect-failure,refused-stream"]), self.opt(lambda: r.choice([0, 1, 2, 3, 5, 7]), 0.2),
                 self.opt(self.dur, 0.3), self.opt(self.dur, 0.5), L(hs), bo)

    def route(self, name="r"):
        r = self.r
        if r.random() < self.bad * 0.5:
            match = None
        else:
            k = r.random()
            if k < 0.35:
                ps = C("PPrefix", r.choice(["/", "/", "/pkg", ""]))
            elif k < 0.75:
                ps = C("PPath", r.choice(["/pkg.svc/Echo", "/svc/Echo", "/pkg.svc/Ping", "/", ""]))
            elif k < 0.88:
                ps = C("POther")
            else:
                ps = C("PNone")
            match = Some(C("Build_rmatch_pb", ps, self.headers()))
        k = r.random()
        if k < self.bad * 0.5:
            action = C("ANone")
        elif k < 0.08 + self.bad * 0.5:
            action = C("AOther")
        else:
            k2 = r.random()
            if k2 < 0.4:
                cs = C("CSCluster", r.choice(CLUSTERS))
            elif k2 < 0.85:
                cs = C("CSWeighted", self.wcs())
            elif k2 < 0.93:
                cs = C("CSOther")
            else:
                cs = C("CSNone")
            action = C("ARoute", C("Build_raction_pb", cs, self.opt(self.dur, 0.3), self.opt(self.retry, 0.4)))
        return C("Build_route_pb", name, match, action)

    def rc(self, name=None):
        r = self.r
        name = r.choice(RC_NAMES) if name is None else name
        vhs = []
        # names in no particular order (first match follows the order sent, not the names)
        for i, vn in enumerate(r.sample(VH_NAMES, r.choice([0, 1, 1, 2, 3]))):
            vhs.append(C("Build_vhost_pb", vn, L(self.route("r%d" % j) for j in range(r.choice([0, 1, 2, 3, 5])))))
        return C("Build_rc_pb", name, L(vhs))

    def thrift(self):
        r = self.r
        if r.random() < 0.1:
            return C("Build_tproxy_pb", None)
        routes = []
        for _ in range(r.choice([0, 1, 2, 3])):
            if r.random() < self.bad * 0.5:
                m = None
            else:
                k = r.random()
                sp = C("TMMethod", r.choice(METHODS)) if k < 0.5 else (C("TMService", "svc") if k < 0.8 else C("TMNone"))
                m = Some(C("Build_tmatch_pb", sp, self.headers(2)))
            if r.random() < self.bad * 0.5:
                a = None
            else:
                k = r.random()
                a = Some(C("TACluster", r.choice(CLUSTERS)) if k < 0.45 else (C("TAWeighted", self.wcs()) if k < 0.85 else
                         (C("TAOther") if k < 0.93 else C("TANone"))))
            routes.append(C("Build_troute_pb", m, a))
        return C("Build_tproxy_pb", Some(C("Build_trc_pb", "trc", L(routes))))

    def tsval(self):
        return C("TVNum", self.u32()) if self.r.random() < 0.8 else C("TVOther")

    def hfilter(self):
        r = self.r
        k = r.random()
        if k < 0.25:
            flags = [r.choice(["fill-500ms", "fill-0", "fill-absent", "fill-1h"])] if r.random() < 0.3 else []
            return C("HFRateLimit", self.opt(lambda: P(self.u32(), self.opt(self.u32, 0.2)), 0.25), *flags)
        if k < 0.25 + self.bad * 0.15:
            return C("HFRateLimitBad")
        if k < 0.5:
            style = r.random()
            # "foreign-inner": the TypedStruct of ANOTHER http filter (lua, wasm: what an EnvoyFilter patch inserts), usually
            # without a token bucket, often ahead of the rate limit filter
            if style < 0.3:
                flags = [f for f in ("value-without-key", "foreign-inner") if r.random() < 0.5]
                return C("HFTypedStruct", None, *flags)
            if style < 0.4:
                return C("HFTypedStruct", Some(C("TBNotStruct")))
            flags = ["foreign-inner"] if r.random() < 0.2 else []
            return C("HFTypedStruct", Some(C("TBStruct", self.opt(self.tsval, 0.15), self.opt(self.tsval, 0.15))), *flags)
        if k < 0.5 + self.bad * 0.15:
            return C("HFTypedStructBad")
        if k < 0.85:
            return C("HFUnknownUrl") if r.random() < 0.5 else C("HFUnknownUrl", r.choice(FOREIGN_PAYLOADS))
        return C("HFNotTyped") if r.random() < 0.5 else C("HFNotTyped", "discovery")

    def hcm(self):
        r = self.r
        fs = [self.hfilter() for _ in range(r.choice([0, 1, 2, 2, 3, 4]))]
        k = r.random()
        if k < 0.45:
            sp = C("RSRds", r.choice(RC_NAMES if r.random() < 0.3 + self.bad else RC_NAMES[:-1]))
        elif k < 0.85:
            sp = C("RSInline", self.rc())
        elif k < 0.93:
            sp = C("RSOther")
        else:
            sp = C("RSNone")
        return C("Build_hcm_pb", L(fs), sp)

    def nfilter(self):
        r = self.r
        k = r.random()
        if k < 0.25:
            return C("NFThrift", self.thrift())
        if k < 0.25 + self.bad * 0.1:
            return C("NFThriftBad")
        if k < 0.75:
            return C("NFHcm", self.hcm())
        if k < 0.75 + self.bad * 0.1:
            return C("NFHcmBad")
        if k < 0.9:
            return C("NFUnknownUrl") if r.random() < 0.5 else C("NFUnknownUrl", r.choice(FOREIGN_PAYLOADS))
        return C("NFNotTyped") if r.random() < 0.5 else C("NFNotTyped", "discovery")

    def chain(self):
        r = self.r
        k = r.random()
        port = None if k < 0.3 else (C("MatchWithoutPort") if k < 0.4 else Some(r.choice([0, 80, 8888, 9090, 65535])))
        return C("Build_fchain_pb", port, L(self.nfilter() for _ in range(r.choice([0, 1, 1, 2, 3]))))

    def listener(self, name=None):
        r = self.r
        name = r.choice(LIS_NAMES) if name is None else name
        chains = [self.chain() for _ in range(r.choice([0, 1, 1, 2, 3]))]
        default = self.opt(self.chain, 0.6)
        # the very same network filters (byte for byte) under another destination port, as the inbound listener of a mesh has them
        if chains and r.random() < 0.3:
            src = r.choice(chains)
            twin = C("Build_fchain_pb", Some(r.choice([0, 80, 8888, 9090, 15006])), src[2])
            if r.random() < 0.3 and default is None:
                default = Some(C("Build_fchain_pb", None, src[2]))
            chains.insert(r.randint(0, len(chains)), twin)
        return C("Build_listener_pb", name, L(chains), default)

    def sock(self):
        r = self.r
        k = r.random()
        if k < 0.04:
            return C("NoHostIdentifier")
        if k < 0.08:
            return C("EndpointName")
        if k < 0.12:
            return C("NoAddress")
        if k < 0.16:
            return C("PipeAddress")
        if k < 0.2:
            return None
        addr = r.choice(["10.0.0.1", "10.0.0.2", "192.168.0.7", "fd00::1", "::1", "", "host.example.com", "2001:db8::2:1"])
        if r.random() < 0.06:
            return Some(C("Build_sockaddr_pb", addr, 0, "named"))
        return Some(C("Build_sockaddr_pb", addr, r.choice([0, 80, 8080, 8888, 65535, 70000, 2 ** 32 - 1])))

    def cla(self, name=None):
        r = self.r
        name = r.choice(CL_NAMES) if name is None else name
        locs = []
        for _ in range(r.choice([0, 1, 1, 2, 3])):
            locs.append(L(C("Build_lbep_pb", self.sock(), self.opt(self.u32, 0.3)) for _ in range(r.choice([0, 1, 2, 3]))))
        return C("Build_cla_pb", name, L(locs))

    def cluster(self, name=None):
        r = self.r
        name = r.choice(CL_NAMES) if name is None else name
        k = r.random()
        t = None if k < 0.12 else (C("CustomType") if k < 0.2 else Some(r.choice([0, 1, 2, 3, 3, 3, 4])))
        eds = self.opt(lambda: r.choice(["", "svc-a", "outbound|80||a.default.svc.cluster.local", name]), 0.4)
        # both are uint32 wrappers: a percentage that may be out of range, a request count with no upper bound
        od = self.opt(lambda: C("Build_outlier_pb", self.opt(lambda: r.choice([0, 1, 10, 50, 100, 101, 255, 4294967295]), 0.2),
                                self.opt(lambda: r.choice([0, 1, 5, 100, 101, 250, 1000, 65536, 2147483648, 4294967295]), 0.2)), 0.4)
        la = self.opt(lambda: self.cla(r.choice([name, "other"])), 0.6)
        return C("Build_cluster_pb", name, t, r.choice([0, 0, 1, 2, 2, 3, 5, 6]), eds, od, la)

    def nametable(self):
        r = self.r
        hosts = ["a.default.svc.cluster.local", "b.default.svc.cluster.local", "www.example.com", "kitex-server.default.svc.cluster.local", "",
                 "a.default.svc.cluster.local.", "A.Default.svc.cluster.local", " a.default.svc.cluster.local", "*.wildcard.example.com", "a"]
        kvs, seen = [], set()
        for _ in range(r.choice([0, 1, 2, 3, 5])):
            h = r.choice(hosts)
            if h in seen:
                continue
            seen.add(h)
            kvs.append(P(h, L(r.choice(["10.0.0.%d" % r.randint(1, 9), "fd00::%d" % r.randint(1, 9), ""]) for _ in range(r.choice([0, 1, 1, 2, 3])))))
        return C("Build_nt_pb", L(kvs))

    def resource(self, kind):
        f = {"lds": self.listener, "rds": self.rc, "cds": self.cluster, "eds": self.cla, "nds": self.nametable}[kind]
        k = self.r.random()
        if k < self.bad * 0.25:
            return C("RWrongUrl") if self.r.random() < 0.5 else C("RWrongUrl", self.r.choice(FOREIGN_PAYLOADS))
        if k < self.bad * 0.5:
            return C("RUnparsable")
        return C("RGood", f())

    def response(self, kind):
        n = self.r.choice([0, 1, 1, 2, 3, 4, 6]) if kind != "nds" else self.r.choice([0, 1, 1, 1, 2])
        return [self.resource(kind) for _ in range(n)]
