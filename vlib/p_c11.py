"""C11 — listener and route decoding preserves the control plane's meaning (lds.go, rds.go, matcher.go)."""
from .astgen import Gen, C
from .decode_common import KindPart

PROP = "C11"
PROP_FILE = "Properties/C11.v"
RULE = ("structurally valid Listener / RouteConfiguration messages from an AST generator covering every field the decoders read, every oneof "
        "alternative (incl. unset/other), empty and repeated collections, HTTP filters in every order, several chains, duplicate resource names; "
        "plus a one-absent-at-a-time sweep of nil-able sub-messages. The Gallina input is what an independent summariser reads back from the "
        "marshalled bytes. distinct_nontrivial = distinct responses with at least one well-formed resource")
ASSUMPTIONS = ["google.golang.org/protobuf marshals/unmarshals faithfully; Go regexp validity and strconv.ParseFloat are oracles shipped with each case",
               "TypedStruct numbers are integer-valued in [0,2^32) (outside, Go's float->uint32 conversion is implementation-defined; such cases are skipped and counted)"]


def project(v, c, o):
    if o.get("unmodelled"):
        return (True, True)
    verdict, content, total, preserved = v
    # an acceptable message that was rejected (or made the decoder panic) has not been preserved either
    return (verdict and content, preserved)


def gen(kind, rng, tier):
    n = 350 if tier == "quick" else 5000
    cases = []
    g = Gen(rng, bad=0.0, sparse=0.25)
    for i in range(n):
        g.sparse = rng.choice([0.0, 0.1, 0.25, 0.5, 0.8])
        cases.append({"kind": kind, "resources": g.response(kind)})
    return cases


PARTS = [KindPart(PROP, "rds", gen, project), KindPart(PROP, "lds", gen, project)]
