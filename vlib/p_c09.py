"""C09 — weighted cluster selection (xdssuite/router.go pickCluster)."""
from .core import gN, glist, gapp

PROP = "C09"
PROP_FILE = "Properties/C09.v"
ENGINE = "pick"
IMPORTS = "From Xds Require Import Model.Base Model.Pick Model.PickCheck."
FN = "pick_check"
TY = "pick_case"
RULE = ("weight vectors of 0..6 clusters: zeros in every position, totals 1..20 emphasised, unequal/large weights, "
        "totals other than 100; each routed N times through the public XDSRouter.Route; per-cluster frequencies compared "
        "with the model's exact shares (12 sigma + 20 draws; zero share => never drawn; expected >= 40 => drawn). "
        "distinct_nontrivial = distinct vectors with >= 2 clusters and non-zero total")
ASSUMPTIONS = ["fastrand.Uint64n is uniform on [0,n) (library, not modelled)",
               "the tie is statistical: an implementation whose shares differ from weight_i/total by less than the tolerance is not distinguished"]
SHARD = 40
HARNESS_SHARDS = 16


def gen_cases(rng, tier):
    n = 20000 if tier == "quick" else 200000
    vecs = [[], [0], [5], [0, 0], [0, 1], [1, 0], [1, 1], [0, 1, 0], [1, 0, 1], [0, 0, 1], [1, 0, 0], [1, 1, 2], [2, 1, 1],
            [25, 75], [100, 100], [25, 25], [1, 99], [99, 1], [1, 2, 3, 4], [4, 3, 2, 1], [0, 0, 0], [1, 1, 1, 1, 1, 1],
            [3, 0, 0, 7], [1, 10000], [10000, 1], [2147483647, 1], [1, 2147483647], [4294967295, 4294967295],
            [4294967295, 1], [2147483648, 2147483648, 1], [3000000000, 1000000000]]
    count = 30 if tier == "quick" else 300
    for _ in range(count):
        k = rng.choice([2, 2, 3, 3, 4, 5, 6])
        style = rng.random()
        if style < 0.6:
            tot = rng.randint(1, 20)
            cuts = sorted(rng.randint(0, tot) for _ in range(k - 1))
            ws = [b - a for a, b in zip([0] + cuts, cuts + [tot])]
        elif style < 0.85:
            ws = [rng.choice([0, 1, 2, 5, 10, 33, 50, 100, 250]) for _ in range(k)]
        else:
            ws = [rng.choice([0, 1, 1000, 65535, 65536, 10 ** 6, 2 ** 31 - 1, 2 ** 31, 2 ** 32 - 1]) for _ in range(k)]
        vecs.append(ws)
    cases = [{"weights": ws, "n": n} for ws in vecs]
    # a route may list one cluster several times (the shares of a name add up), and the other consumers of a client suite
    # (retry, circuit breaker) have been handed the same route table before the calls are routed
    for ws, names in (([10, 80, 10], [0, 0, 1]), ([0, 5, 0], [0, 0, 1]), ([1, 2, 3], [0, 1, 0]), ([3, 3, 3, 1], [0, 1, 1, 2]), ([7, 7], [0, 0])):
        cases.append({"weights": ws, "n": n, "names": names, "suites": True})
    for c in cases[:len(vecs)]:
        if rng.random() < 0.4:
            c["suites"] = True
        if len(c["weights"]) >= 3 and rng.random() < 0.3:
            k = len(c["weights"])
            c["names"] = [rng.randrange(max(1, k - 1)) for _ in range(k)]
    return cases


def merged(c):
    """weights per distinct name, in the order of first occurrence (what the shares of the NAMES are)"""
    names = c.get("names") or list(range(len(c["weights"])))
    order, tot = [], {}
    for w, nm in zip(c["weights"], names):
        if nm not in tot:
            order.append(nm)
            tot[nm] = 0
        tot[nm] += w
    return [tot[nm] for nm in order]


def to_harness(c):
    return {"weights": c["weights"], "n": c["n"], "names": c.get("names") or [], "suites": bool(c.get("suites"))}


def to_gallina(c, o):
    return "Build_pick_case %s %s %s %s %s %s" % (glist(merged(c), gN), gN(c["n"]), glist(o["counts"], gN),
                                                   gN(o["errs"]), gN(o["panics"]), gN(o["other"]))


def nontrivial(c, o):
    ws = c["weights"]
    return tuple(ws) if len(ws) >= 2 and sum(ws) > 0 else None


def describe(c, o):
    return {"weights": c["weights"], "calls": c["n"], "picked": o["counts"], "errors": o["errs"], "panics": o["panics"]}


def shrink(c):
    ws = c["weights"]
    for i in range(len(ws)):
        if len(ws) > 2:
            yield {"weights": ws[:i] + ws[i + 1:], "n": c["n"]}
    for i in range(len(ws)):
        if ws[i] > 1:
            yield {"weights": ws[:i] + [ws[i] // 2] + ws[i + 1:], "n": c["n"]}
            yield {"weights": ws[:i] + [1] + ws[i + 1:], "n": c["n"]}


def model_view(c, o, tier):
    from . import core
    ws = c["weights"]
    if sum(ws) <= 4096:
        return "model shares (draws selecting each cluster, out of total %d): %s" % (
            sum(ws), core.coq_show(PROP, tier, IMPORTS, "model_shares %s" % glist(ws, gN)))
    return "shares weight_i/total with weights %s" % ws


def histogram(cases, obs):
    h = {"clusters": {}, "zero_weight_positions": 0, "total_le_20": 0, "total_ge_2^31": 0, "error_cases": 0}
    for c in cases:
        ws = c["weights"]
        h["clusters"][str(len(ws))] = h["clusters"].get(str(len(ws)), 0) + 1
        h["zero_weight_positions"] += sum(1 for w in ws if w == 0)
        if 0 < sum(ws) <= 20:
            h["total_le_20"] += 1
        if sum(ws) >= 2 ** 31:
            h["total_ge_2^31"] += 1
        if len(ws) == 0 or (len(ws) >= 2 and sum(ws) == 0):
            h["error_cases"] += 1
    return h
