"""Schedules for the 'conc' engine: interleavings of lookups (at Get's yield points), deliveries and deadline firings."""
import json
from .core import gN, gbool, glist, gopt

IMPORTS = "From Xds Require Import Model.Base Model.Conc Model.ConcCheck."
KEYS = [("cds", "c1"), ("cds", "c2"), ("rds", "r1")]
FULL = {"cds": True, "rds": False, "lds": True, "eds": False}


class Sim:
    """mirror of the scheduler's view, used only to enumerate enabled events"""
    def __init__(self, nthreads, keys, deliveries, fires):
        self.th = {t: {"phase": "new", "key": keys[t], "fired": False, "nid": None} for t in range(nthreads)}
        self.deliveries, self.next_d = deliveries, 0
        self.fires = set(fires)
        self.cache, self.nmap, self.closed, self.next_nid = {}, {}, set(), 0

    def clone(self):
        s = Sim(0, [], self.deliveries, self.fires)
        s.th = {t: dict(v) for t, v in self.th.items()}
        s.next_d = self.next_d
        s.cache, self.nmap = dict(self.cache), self.nmap
        s.nmap = dict(self.nmap)
        s.closed, s.next_nid = set(self.closed), self.next_nid
        return s

    def choices(self):
        out = []
        for t, v in self.th.items():
            ph = v["phase"]
            if ph == "new":
                out.append(("invoke", t))
            elif ph == "y1":
                out.append(("step", t))
            elif ph == "y3":
                out.append(("wake", t))
            elif ph == "y4":
                out.append(("timeout", t))
            if ph not in ("new", "done") and not v["fired"] and t in self.fires:
                out.append(("fire", t))
        if self.next_d < len(self.deliveries):
            out.append(("deliver", self.next_d))
        return out

    def apply(self, ev):
        kind, x = ev
        if kind == "invoke":
            v = self.th[x]
            v["phase"] = "done" if v["key"] in self.cache else "y1"
        elif kind == "step":
            v = self.th[x]
            if v["key"] in self.cache:
                v["phase"] = "done"
            else:
                if v["key"] not in self.nmap:
                    self.nmap[v["key"]] = self.next_nid
                    self.next_nid += 1
                v["nid"] = self.nmap[v["key"]]
                v["phase"] = "y4" if v["fired"] else "waiting"
        elif kind in ("wake", "timeout"):
            v = self.th[x]
            if kind == "timeout" and self.nmap.get(v["key"]) == v["nid"]:
                others = [u for u in self.th.values() if u is not v and u["nid"] == v["nid"] and u["phase"] in ("waiting", "y3", "y4")]
                if not others:
                    del self.nmap[v["key"]]
            v["phase"] = "done"
        elif kind == "fire":
            v = self.th[x]
            v["fired"] = True
            if v["phase"] == "waiting":
                v["phase"] = "y4"
        elif kind == "deliver":
            rt, up = self.deliveries[x]
            self.next_d += 1
            for k, st in up:
                self.cache[k] = st
                if k in self.nmap:
                    nid = self.nmap.pop(k)
                    self.closed.add(nid)
                    for u in self.th.values():
                        if u["nid"] == nid and u["phase"] == "waiting":
                            u["phase"] = "y3"
            if FULL[rt]:
                for i, (krt, _) in enumerate(KEYS):
                    if krt == rt and i not in dict(up) and i in self.cache:
                        del self.cache[i]


def event_json(sim_before, ev, deliveries):
    kind, x = ev
    if kind == "invoke":
        return {"e": "invoke", "t": x, "k": sim_before.th[x]["key"]}
    if kind == "deliver":
        rt, up = deliveries[x]
        return {"e": "deliver", "rt": rt, "up": [[k, st] for k, st in up]}
    return {"e": kind, "t": x}


def enumerate_schedules(rng, nthreads, keys, deliveries, fires, limit, prefixes=True):
    """all maximal schedules (DFS) up to [limit]; beyond it, random walks"""
    out = []

    def dfs(sim, acc):
        if len(out) >= limit:
            return
        ch = sim.choices()
        if not ch:
            out.append(list(acc))
            return
        for ev in ch:
            s2 = sim.clone()
            acc.append(event_json(sim, ev, deliveries))
            s2.apply(ev)
            dfs(s2, acc)
            acc.pop()
            if len(out) >= limit:
                return
    dfs(Sim(nthreads, keys, deliveries, fires), [])
    if len(out) >= limit:
        # the space is larger than the budget: replace by random walks (uniform choice at each point)
        out = []
        for _ in range(limit):
            sim, acc = Sim(nthreads, keys, deliveries, fires), []
            while True:
                ch = sim.choices()
                if not ch:
                    break
                ev = rng.choice(ch)
                acc.append(event_json(sim, ev, deliveries))
                sim.apply(ev)
            out.append(acc)
    if prefixes:
        out += [s[:rng.randint(1, len(s))] for s in out[:len(out) // 4] if len(s) > 1]
    return out


def configurations(rng, tier):
    """(nthreads, keys, deliveries, fires, budget)"""
    cfgs = []
    big = 4000 if tier == "thorough" else 260
    # one lookup
    cfgs.append((1, [0], [("cds", [(0, 11)])], [0], big))
    cfgs.append((1, [0], [("cds", [(0, 11)]), ("cds", [(1, 12)])], [0], big))           # delivered, then removed by a full response
    cfgs.append((1, [2], [("rds", [(2, 21)]), ("rds", [])], [0], big))
    # two lookups of the same name
    cfgs.append((2, [0, 0], [("cds", [(0, 11)])], [0, 1], big * 2))
    cfgs.append((2, [0, 0], [("cds", [(0, 11)]), ("cds", [(0, 13), (1, 14)])], [0], big))
    cfgs.append((2, [0, 0], [("cds", [(0, 11)]), ("cds", [])], [1], big))
    # two lookups of different names
    cfgs.append((2, [0, 1], [("cds", [(0, 11), (1, 12)])], [0, 1], big))
    cfgs.append((2, [0, 1], [("cds", [(0, 11)]), ("cds", [(1, 12)])], [1], big))
    cfgs.append((2, [0, 2], [("cds", [(0, 11)]), ("rds", [(2, 21)])], [0], big))
    if tier == "thorough":
        cfgs.append((3, [0, 0, 0], [("cds", [(0, 11)])], [0, 1], 6000))
        cfgs.append((3, [0, 0, 1], [("cds", [(0, 11)]), ("cds", [(0, 13), (1, 14)])], [0, 2], 6000))
        cfgs.append((3, [2, 2, 2], [("rds", [(2, 21)]), ("rds", [(2, 22)])], [1], 6000))
    return cfgs


def gen_cases(rng, tier):
    cases = []
    for (n, keys, dels, fires, budget) in configurations(rng, tier):
        for evs in enumerate_schedules(rng, n, keys, dels, fires, budget):
            cases.append({"keys": [list(k) for k in KEYS], "events": evs})
    # an unknown kind is rejected at once
    # a kind the manager does not know (beyond the range, zero, negative, extreme values), alone and next to a real lookup
    for j in range(8):
        cases.append({"keys": [list(k) for k in KEYS], "events": [{"e": "invoke", "t": 0, "k": 0, "kind": 1, "kidx": j}, {"e": "deliver", "rt": "cds", "up": [[0, 5]]}]})
        cases.append({"keys": [list(k) for k in KEYS], "events": [{"e": "invoke", "t": 1, "k": 0}, {"e": "invoke", "t": 0, "k": 0, "kind": 1, "kidx": j},
                                                                  {"e": "deliver", "rt": "cds", "up": [[0, 5]]}, {"e": "wake", "t": 1}]})
    return cases


def gevent(ev, branch):
    k = ev["e"]
    if k == "invoke":
        return "EInvokeBad %s" % gN(ev["t"]) if ev.get("kind") == 1 else "EInvoke %s %s" % (gN(ev["t"]), gN(ev["k"]))
    if k == "step":
        return "EStep %s" % gN(ev["t"])
    if k in ("wake", "timeout"):
        # follow the branch the implementation actually took when both were possible
        b = {3: "EWake", 4: "ETimeout"}.get(branch) or ("EWake" if k == "wake" else "ETimeout")
        return "%s %s" % (b, gN(ev["t"]))
    if k == "fire":
        return "EFire %s" % gN(ev["t"])
    if k == "deliver":
        scope = [i for i, (rt, _) in enumerate(KEYS) if rt == ev["rt"]]
        return "EDeliver %s %s %s" % (gbool(FULL[ev["rt"]]), glist(ev["up"], lambda kv: "(%s, %s)" % (gN(kv[0]), gN(kv[1]))), glist(scope, gN))
    raise ValueError(k)


def to_gallina(c, o):
    if o.get("fatal"):
        return "Build_conc_case [] [] [] [] [] 0 true"
    evs = []
    for ev, b in zip(c["events"], o["branches"]):
        executed = True
        if ev["e"] in ("wake", "timeout", "step") and ev["e"] != "step":
            executed = b != 0
        evs.append("(%s, %s)" % (gevent(ev, b), gbool(executed and ev["e"] != "step")))
    drain = []
    for t in o["threads"] or []:
        tid = t["t"]
        drain.append("EStep %s" % gN(tid))
        if t["need_fire"]:
            drain.append("EFire %s" % gN(tid))
        if t["drained_by"] == "y3":
            drain.append("EWake %s" % gN(tid))
        elif t["drained_by"] == "y4":
            drain.append("ETimeout %s" % gN(tid))
    res = {"val": lambda t: "(Some (RVal %s))" % gN(t["stamp"]), "err": lambda t: "(Some RErr)", "nil": lambda t: "(Some RNil)",
           "bad": lambda t: "(Some RBad)", "none": lambda t: "None"}
    threads = ["(Build_tobs %s %s %s %s)" % (gN(t["t"]), res[t["result"]](t), gbool(t["need_fire"]),
                                             "None" if t["done_at"] < 0 else "(Some %s)" % gN(t["done_at"])) for t in o["threads"] or []]
    kidx = {"%s/%s" % (rt, n): i for i, (rt, n) in enumerate(KEYS)}
    notifs = [kidx[x] for x in (o.get("notifiers") or [])]
    w = o.get("watches") or []
    watches = [kidx[x] for x in w if not x.startswith("req:")]
    nreq = sum(1 for x in w if x.startswith("req:"))
    return "Build_conc_case %s %s %s %s %s %s false" % ("[" + "; ".join(evs) + "]", "[" + "; ".join(drain) + "]", "[" + "; ".join(threads) + "]",
                                                      glist(notifs, gN), glist(watches, gN), gN(nreq))


def describe(c, o):
    def short(ev):
        if ev["e"] == "deliver":
            return "deliver %s %s" % (ev["rt"], ev["up"])
        if ev["e"] == "invoke":
            return "invoke t%d key%d%s" % (ev["t"], ev["k"], " (unknown kind)" if ev.get("kind") else "")
        return "%s t%d" % (ev["e"], ev["t"])
    return {"schedule": [short(e) for e in c["events"]], "branches": o.get("branches"), "threads": o.get("threads"), "fatal": o.get("fatal")}


def shrink(c):
    evs = c["events"]
    for i in range(len(evs) - 1, -1, -1):
        yield dict(c, events=evs[:i] + evs[i + 1:])


def histogram(cases, obs):
    h = {"schedules": len(cases), "events": 0, "lookups": 0, "deliveries": 0, "fires": 0, "needed_fire": 0, "results": {}, "fatal": 0, "len": {}}
    for c in cases:
        o = obs[c["id"]]
        h["fatal"] += 1 if o.get("fatal") else 0
        h["events"] += len(c["events"])
        ln = str(len(c["events"]))
        h["len"][ln] = h["len"].get(ln, 0) + 1
        for e in c["events"]:
            h["lookups"] += e["e"] == "invoke"
            h["deliveries"] += e["e"] == "deliver"
            h["fires"] += e["e"] == "fire"
        for t in o.get("threads") or []:
            h["results"][t["result"]] = h["results"].get(t["result"], 0) + 1
            h["needed_fire"] += 1 if t["need_fire"] else 0
    return h


class ConcPart:
    ENGINE = "conc"
    IMPORTS = IMPORTS
    FN = "conc_check"
    TY = "conc_case"
    SHARD = 300
    HARNESS_SHARDS = 16
    SHRINK_WIDTH = 40
    NAME = "conc"

    def __init__(self, prop, idx):
        self.PROP, self.idx = prop, idx

    gen_cases = staticmethod(gen_cases)
    to_gallina = staticmethod(to_gallina)
    describe = staticmethod(describe)
    shrink = staticmethod(shrink)
    histogram = staticmethod(histogram)

    @staticmethod
    def to_harness(c):
        return {"keys": c["keys"], "events": c["events"]}

    def PROJECT(self, v, c, o):
        return (v[0], v[1 + self.idx])

    def nontrivial(self, c, o):
        if o.get("fatal"):
            return None
        kinds = {e["e"] for e in c["events"]}
        return json.dumps(c["events"], sort_keys=True) if {"invoke", "deliver"} <= kinds and len(c["events"]) >= 3 else None

    def model_view(self, c, o, tier):
        from . import core
        return core.coq_show(self.PROP, tier, IMPORTS,
                             "let c := %s in let s := fold_left cstep (cc_drain c) (fst (run_checked cinit (cc_events c))) in "
                             "(map (fun t => thread_result s (to_id t)) (cc_threads c), snd (run_checked cinit (cc_events c)), c_nmap s, c_watches s)" % to_gallina(c, o))[:2000]
