"""Histories for the 'sys' engine (real manager + client around a scripted ADS client) and their Gallina form."""
import json
from .astgen import tj, C, L, Some, Z, P, MS
from .core import gbool, glist, gpair, gstr, gN, gopt

IMPORTS = "From Xds Require Import Model.Base Model.Fqdn Model.Proto Model.Decode Model.DecodeCheck Model.Sys Model.SysCheck."
RT = {"lds": "TLis", "rds": "TRc", "cds": "TCl", "eds": "TEp", "nds": "TNt"}
PL = {"lds": "PLds", "rds": "PRds", "cds": "PCds", "eds": "PEds", "nds": "PNds"}


# ---- small stamped resources ----
def hcm(stamp, tokens=None, inline=False, typed_struct=False, router_first=False):
    filters = []
    if router_first:
        # another http filter ahead of the rate limit: by its own type url, or as the TypedStruct an EnvoyFilter patch inserts
        filters.append(C("HFUnknownUrl") if stamp % 2 == 0 else C("HFTypedStruct", None, "value-without-key", "foreign-inner"))
    if tokens is not None:
        if typed_struct:
            filters.append(C("HFTypedStruct", Some(C("TBStruct", Some(C("TVNum", tokens * 3 + 100)), Some(C("TVNum", tokens))))))
        else:
            filters.append(C("HFRateLimit", Some(P(tokens * 3 + 100, Some(tokens)))))
    filters.append(C("HFUnknownUrl"))
    spec = C("RSInline", route_config("inl-%d" % stamp, stamp)) if inline else C("RSRds", "rc-%d" % stamp)
    return C("NFHcm", C("Build_hcm_pb", L(filters), spec))


def listener(name, stamp, port=None, tokens=None, inline=False, chains=None):
    """chains: optional list of (port|None, tokens|None, typed_struct, router_first) for a multi-chain (inbound) listener"""
    if chains is None:
        chains = [(port, tokens, False, False)]
    # a chain may name (5th element) the index of an earlier chain whose filters it repeats byte for byte
    fcs = [C("Build_fchain_pb", None if ch[0] is None else Some(ch[0]),
             L([hcm(stamp + (ch[4] if len(ch) > 4 else i), ch[1], inline and i == 0, ch[2], ch[3])]))
           for i, ch in enumerate(chains)]
    return C("Build_listener_pb", name, L(fcs), None)


def inbound_chains(r):
    """filter chains of an inbound listener: per-port buckets (zero and non-zero), a port-less chain, in any order"""
    chains = []
    for p in r.sample([80, 8888, 9090], r.choice([0, 1, 2, 3])):
        chains.append((p, r.choice([None, 0, 0, 7, 100]), r.random() < 0.4, r.random() < 0.5))
    if r.random() < 0.7:
        chains.append((None, r.choice([None, 0, 50, 9]), r.random() < 0.4, r.random() < 0.5))
    r.shuffle(chains)
    if chains and r.random() < 0.3:
        # the same HttpConnectionManager (same bucket, same route table: identical bytes) under a second port
        i = r.randrange(len(chains))
        p, t, ts, rf = chains[i][:4]
        other = r.choice([q for q in (80, 8888, 9090, 15006) if q != p])
        chains.append((other, t, ts, rf, i))
    return chains or [(None, None, False, False)]


def retry_policy(r):
    hs = []
    if r.random() < 0.5:
        hs.append(C("Build_header_pb", "kitexRetryMethods", C("HSString", C("SMExact", r.choice(["Echo", "Echo,Ping", "Ping", ",".join("M%d" % i for i in range(18))])))))
    if r.random() < 0.5:
        hs.append(C("Build_header_pb", "kitexRetryErrorRate", C("HSString", C("SMExact", r.choice(["0.1", "0.25", "0.3", "0.5", "abc"])))))
    return Some(C("Build_retry_pb", "5xx", Some(r.choice([0, 1, 2, 3, 5])), r.choice([None, Some(Z(r.choice([10, 100, 1500, 250]) * MS))]), None, L(hs),
                  r.choice([None, Some(C("Build_backoff_pb", Some(Z(10 * MS)), Some(Z(r.choice([10, 500]) * MS))))])))


def route_config(name, stamp, clusters=None, retry=None, weighted=None):
    """weighted: optional list of (cluster, weight) served by one further route (a cluster may be listed twice)"""
    clusters = clusters or ["cl-%d" % stamp]
    routes = []
    for i, cl in enumerate(clusters):
        act = C("ARoute", C("Build_raction_pb", C("CSCluster", cl), Some(Z((stamp % 1000 + 1) * MS)), retry))
        routes.append(C("Build_route_pb", "r%d" % i, Some(C("Build_rmatch_pb", C("PPrefix", "/"), L([]))), act))
    if weighted:
        act = C("ARoute", C("Build_raction_pb", C("CSWeighted", L([C("Build_wc_pb", c, Some(w)) for c, w in weighted])),
                            Some(Z((stamp % 1000 + 1) * MS)), retry))
        routes.append(C("Build_route_pb", "rw", Some(C("Build_rmatch_pb", C("PPrefix", "/w"), L([]))), act))
    return C("Build_rc_pb", name, L([C("Build_vhost_pb", "vh", L(routes))]))


def cluster(name, stamp, eds=True, outlier=None, inline=None, eds_name=None):
    return C("Build_cluster_pb", name, Some(3), 0, Some(eds_name or "eds-%d" % stamp) if eds else None,
             None if outlier is None else Some(C("Build_outlier_pb", Some(outlier[0]), Some(outlier[1]))),
             None if inline is None else Some(inline))


def endpoints(name, stamp, nloc=1, nep=1):
    locs = []
    for i in range(nloc):
        locs.append(L([C("Build_lbep_pb", Some(C("Build_sockaddr_pb", "10.1.%d.%d" % (i, j), stamp % 60000 + 1)), Some(j + 1)) for j in range(nep)]))
    return C("Build_cla_pb", name, L(locs))


def nametable(entries):
    return C("Build_nt_pb", L([P(h, L(ips)) for h, ips in sorted(entries.items())]))


# outlier detection (threshold, volume): every kind of single-field change between two picks is likely
# (threshold only, volume only, to/from zero, to/from absent)
OUTLIERS = [None, None, (10, 5), (30, 5), (10, 100), (30, 100), (100, 100), (0, 5), (50, 0), (0, 0),
            (2, 2147483648), (4, 1073741824), (64, 67108864), (100, 4294967295),   # products that wrap in 32 bits
            (10, 101), (10, 250), (50, 1000)]                                       # volumes above 100


class SysGen:
    """random histories; one PRNG; names drawn from small pools so that unsolicited names occur"""
    # the same service under several spellings and with several ports, with and without a port
    HOSTS = ["svc-a:80", "svc-b", "svc-c.default:8888", "SVC-A:80", "unknown-host:80", "svc-a:8888", "svc-b:80", "svc-b:8888"]
    LOOKUP_TYPES = ["lds", "rds", "cds", "eds"]
    E2E = 0.015         # probability (per operation) of a waiting lookup + response + join
    RESP_BIAS = []      # extra weight for some types of responses
    FQDN = {"svc-a": "svc-a.default.svc.cluster.local", "svc-b": "svc-b.default.svc.cluster.local",
            "svc-c.default": "svc-c.default.svc.cluster.local"}
    PLAIN_LIS = ["l1", "l2", "l3", "virtualInbound"]
    # "same" occurs in every pool: a cluster, its endpoint set and a route table often share their name
    NAMES = {"rds": ["rc-a", "rc-b", "rc-c", "same"], "cds": ["c1", "c2", "c3", "same"], "eds": ["e1", "e2", "same", "eds-1"]}

    def __init__(self, rng, faults=False, policy=None):
        self.r = rng
        self.faults = faults
        self.policy = policy
        self.stamp = 0
        self.version = 0

    def next_stamp(self):
        self.stamp += 1
        return self.stamp

    def table(self):
        r = self.r
        ent = {}
        for short, fq in self.FQDN.items():
            if r.random() < 0.8:
                ent[fq] = ["10.0.0.%d" % r.randint(1, 4)] + (["10.9.9.9"] if r.random() < 0.3 else [])
        if r.random() < 0.2:
            ent["unknown-host"] = []
        return ent

    def lis_names(self, istio):
        return self.HOSTS + ["virtualInbound"] if istio else self.PLAIN_LIS

    def lis_resource_names(self, istio, tbl):
        if not istio:
            return self.PLAIN_LIS
        ips = sorted({ip for v in tbl.values() for ip in v[:1]}) or ["10.0.0.1"]
        out = ["virtualInbound"]
        for ip in ips + ["10.0.0.9"]:
            out += [ip + "_80", ip + "_8888"]
        return out

    def resp(self, rt, istio, tbl):
        r = self.r
        self.version += 1
        op = {"op": "resp", "rt": rt, "version": "v%d" % self.version, "nonce": "n%d" % self.version, "resources": []}
        # a control plane may repeat a version string and number its nonces per stream: now and then a response carries
        # exactly the (version, nonce) of the previous response of its type (e.g. the first one after a reconnect)
        last = getattr(self, "_last_vn", None)
        if last is None:
            last = self._last_vn = {}
        if rt in last and r.random() < 0.12:
            op["version"], op["nonce"] = last[rt]
        last[rt] = (op["version"], op["nonce"])
        if rt == "nds":
            if r.random() < 0.08:
                return op, tbl                                  # empty NDS: NACK
            new = self.table()
            op["resources"] = [C("RGood", nametable(new))]
            if r.random() < 0.1:
                op["resources"] = [C("RUnparsable")]
                return op, tbl
            return op, new
        pool = {"lds": self.lis_resource_names(istio, tbl)}.get(rt) or self.NAMES[rt]
        style = r.random()
        if style < 0.1:
            names = []
        elif style < 0.45:
            names = list(pool)
        else:
            names = [n for n in pool if r.random() < 0.5]
        if r.random() < 0.15 and names:
            names.append(r.choice(names))                      # duplicate name: later wins
        prev_args = getattr(self, "_prev_args", None)
        if prev_args is None:
            prev_args = self._prev_args = {}
        for n in names:
            st = self.next_stamp()
            if rt == "lds" and n == "virtualInbound":
                res = listener(n, st, chains=inbound_chains(r))
                self.stamp += 4
                op["resources"].append(C("RGood", res))
                continue
            if rt == "lds":
                a = dict(port=r.choice([None, 80, 8888]), tokens=r.choice([None, 0, 7, 100]), inline=r.random() < 0.2)
            elif rt == "rds":
                a = dict(clusters=["cl-%d" % st] + (["cl-shared"] if r.random() < 0.3 else []), retry=None if r.random() < 0.4 else retry_policy(r),
                         weighted=None if r.random() < 0.7 else r.choice([
                             [("wa-%d" % st, 10), ("wa-%d" % st, 80), ("wb-%d" % st, 10)], [("wa-%d" % st, 0), ("wa-%d" % st, 5), ("cl-shared", 0)],
                             [("wa-%d" % st, 1), ("wb-%d" % st, 2), ("wa-%d" % st, 3)], [("wa-%d" % st, 7)]]))
            elif rt == "cds":
                a = dict(eds=r.random() < 0.7, outlier=r.choice(OUTLIERS), inl=None if r.random() < 0.75 else (r.choice([0, 1, 2]), r.choice([0, 1, 2])),
                         eds_name=r.choice(self.NAMES["eds"]) if r.random() < 0.5 else None)
            else:
                a = dict(nloc=r.choice([0, 1, 1, 2]), nep=r.choice([0, 1, 2]))
            # a resource pushed again exactly as before except for ONE policy field (the retry policy of a route table,
            # the outlier detection of a cluster, the token count of a listener, the endpoint count of a load assignment)
            pv = prev_args.get((rt, n))
            k_again = r.random()
            if pv is not None and k_again < 0.25:
                st, old = pv
                field = {"lds": "tokens", "rds": "retry", "cds": "outlier", "eds": "nep"}[rt]
                a = dict(old, **{field: a[field]})
            elif pv is not None and k_again < 0.4:
                st, a = pv          # ... or exactly as it was when last pushed (possibly after having been absent for a while)
            prev_args[(rt, n)] = (st, a)
            if rt == "lds":
                res = listener(n, st, port=a["port"], tokens=a["tokens"], inline=a["inline"])
            elif rt == "rds":
                res = route_config(n, st, clusters=a["clusters"], retry=a["retry"], weighted=a.get("weighted"))
            elif rt == "cds":
                res = cluster(n, st, eds=a["eds"], outlier=a["outlier"], eds_name=a.get("eds_name"),
                              inline=None if a["inl"] is None else endpoints(n, st, nloc=a["inl"][0], nep=a["inl"][1]))
            else:
                res = endpoints(n, st, nloc=a["nloc"], nep=a["nep"])
            op["resources"].append(C("RGood", res))
        # the exact bytes of a resource the previous response of this type carried, under another kind's type url
        prev_good = getattr(self, "_prev_good", None)
        if prev_good is None:
            prev_good = self._prev_good = {}
        if rt in prev_good and r.random() < 0.08:
            op["resources"].insert(r.randint(0, len(op["resources"])), C("RWrongUrlOf", prev_good[rt]))
        goods = [x for x in op["resources"] if x[0] == "RGood"]
        if goods:
            prev_good[rt] = r.choice(goods)[1]
        k = r.random()
        if k < 0.08:
            op["resources"].insert(r.randint(0, len(op["resources"])), C("RUnparsable"))
        elif k < 0.14:
            op["resources"].insert(r.randint(0, len(op["resources"])), C("RWrongUrl"))
        elif k < 0.18 and rt == "rds":
            op["resources"].append(C("RGood", C("Build_rc_pb", "rc-bad", L([C("Build_vhost_pb", "vh", L([C("Build_route_pb", "r", None, C("ANone"))]))]))))
        return op, tbl

    def history(self, n_ops, istio, lds_warm):
        r = self.r
        cfg = {"nds": istio, "lds": lds_warm, "ns": "default", "dom": "cluster.local"}
        tbl = {}
        case = {"cfg": cfg, "ops": []}
        if istio:
            op, tbl = self.resp("nds", istio, tbl)
            while not op["resources"] or op["resources"][0][0] != "RGood":
                op, tbl = self.resp("nds", istio, tbl)
            case["init_nds"] = op
        if lds_warm:
            self.version += 1
            st = self.next_stamp()
            case["init_lds"] = {"op": "resp", "rt": "lds", "version": "v%d" % self.version, "nonce": "n%d" % self.version,
                                "resources": [C("RGood", listener("virtualInbound", st, chains=inbound_chains(r)))] if r.random() < 0.9 else []}
            self.stamp += 4
        types = ["lds", "rds", "cds", "eds"] + (["nds"] if istio else [])
        dead = False
        held = 0          # > 0: the sender is held inside a Send for that many further operations
        held_rt = None
        for i in range(n_ops):
            k = r.random()
            if held > 0:
                # inside a held Send: lookups and responses only, biased towards one type so that several requests
                # of the same type (a subscription and its ACKs, two ACKs in a row) wait in the queue together
                held -= 1
                if k < 0.3:
                    rt = held_rt if held_rt != "nds" and r.random() < 0.5 else r.choice(["lds", "rds", "cds", "eds"])
                    pool = self.lis_names(istio) if rt == "lds" else self.NAMES[rt]
                    case["ops"].append({"op": "lookup", "rt": rt, "name": r.choice(pool)})
                else:
                    rt = held_rt if r.random() < 0.7 else r.choice(types)
                    op, tbl = self.resp(rt, istio, tbl)
                    case["ops"].append(op)
                if held == 0:
                    case["ops"].append({"op": "unblock_send"})
                continue
            if not self.faults and i + 3 < n_ops and r.random() < 0.04:
                case["ops"].append({"op": "block_send"})
                held = r.choice([2, 2, 3, 4, 5])
                held_rt = r.choice(types)
                continue
            if r.random() < 0.03:
                case["ops"].append({"op": "dump"})       # Dump() renders the cache: an observation, no effect
                continue
            if not self.faults and r.random() < self.E2E:
                # a lookup that WAITS (a real Get with a deadline), the next response, and the waiting caller's return
                rt = r.choice(self.LOOKUP_TYPES)
                pool = self.lis_names(istio) if rt == "lds" else self.NAMES[rt]
                case["ops"].append({"op": "lookup_async", "rt": rt, "name": r.choice(pool), "ms": 1500})
                op, tbl = self.resp(rt if r.random() < 0.8 else r.choice(types), istio, tbl)
                case["ops"].append(op)
                case["ops"].append({"op": "join"})
                continue
            if k < 0.4:
                rt = r.choice(self.LOOKUP_TYPES)
                pool = self.lis_names(istio) if rt == "lds" else self.NAMES[rt]
                case["ops"].append({"op": "lookup", "rt": rt, "name": r.choice(pool)})
            elif k < 0.88:
                rt = r.choice(types + [t for t in self.RESP_BIAS if t in types])
                op, tbl = self.resp(rt, istio, tbl)
                case["ops"].append(op)
            elif k < 0.9:
                case["ops"].append({"op": "resp_unknown"})
            elif k < 0.92:
                case["ops"].append({"op": "lookup_unknown"})
            elif self.faults:
                f = r.random()
                if f < 0.55:
                    case["ops"].append({"op": "recverr", "auth": False, "connectfail": r.choice([0, 0, 1, 2])})
                    dead = False
                elif f < 0.8 and not dead:
                    # a stream whose Send fails is broken: its Recv fails too, a little later
                    case["ops"].append({"op": "senderr"})
                    dead = True
                    for _ in range(r.choice([0, 1, 2])):
                        rt = r.choice(["rds", "cds", "eds"])
                        case["ops"].append({"op": "lookup", "rt": rt, "name": r.choice(self.NAMES[rt])})
                    case["ops"].append({"op": "recverr", "auth": False, "connectfail": 0})
                    dead = False
                elif f < 0.9:
                    case["ops"].append({"op": "recverr", "auth": True})
                    for _ in range(r.choice([1, 2, 3])):
                        rt = r.choice(["rds", "cds", "eds"])
                        case["ops"].append({"op": "lookup", "rt": rt, "name": r.choice(self.NAMES[rt])})
                    break
        if held > 0:
            case["ops"].append({"op": "unblock_send"})
        return case


# ---- Gallina ----
def greq(q):
    return "(%s, Build_request %s %s %s %s %s)" % (gN(q["stream"]), RT[q["type"]], gstr(q["version"]), gstr(q["nonce"]),
                                                 glist(q["names"], gstr), gbool(q["error"]))


def gop(op, st):
    k = op["op"]
    if k == "lookup":
        return "OLookup %s %s" % (RT[op["rt"]], gstr(op["name"]))
    if k == "lookups":
        return "OLookups %s %s" % (RT[op["rt"]], glist(op["names"], gstr))
    if k == "resolve":
        return "OResolve %s" % gstr(op["name"])
    if k == "lookup_unknown":
        return "OLookupUnknown"
    if k == "resp_unknown":
        return "ORespUnknown"
    if k == "resp":
        return "OResp %s %s (%s %s)" % (gstr(op["version"]), gstr(op["nonce"]), PL[op["rt"]], tj(st["summary"]))
    if k == "recverr":
        return "ORecvErr %s" % gbool(op["auth"])
    if k in ("block_send", "unblock_send", "dump"):
        return "OTick 0"
    if k == "lookup_async":
        return "OLookup %s %s" % (RT[op["rt"]], gstr(op["name"]))
    if k == "join":
        # the waiting caller returns what a lookup at this moment returns when the resource is cached (and nothing when it is not)
        if st.get("joined") == "cached":
            return "OLookup %s %s" % (RT[st["join_rt"]], gstr(st["join_name"]))
        return "OTick 0"
    if k == "burst_unblock":
        return "OLookups %s %s" % (RT[op["rt"]], glist(op["names"], gstr))
    if k == "senderr":
        return "OSendErr"
    raise ValueError(k)


def greq_light(q):
    """a request of a long burst: the name list is replaced by a list of the same length (only the last three requests of
    such a step are compared in full, see reqs_eqb) so that the generated file stays small"""
    return "(%s, Build_request %s %s %s (repeat EmptyString %d) %s)" % (gN(q["stream"]), RT[q["type"]], gstr(q["version"]), gstr(q["nonce"]),
                                                                     len(q["names"]), gbool(q["error"]))


def gstep(st):
    lk = "None" if st.get("lookup") is None else "(Some %s)" % tj(st["lookup"])
    reqs = st["reqs"]
    if len(reqs) > 64:
        keep = set(range(len(reqs) - 3, len(reqs)))
        for i, q in enumerate(reqs):       # the last request of each type on each stream stays in full (quiescence clause)
            keep.add(max(j for j, r in enumerate(reqs) if r["type"] == q["type"] and r["stream"] == q["stream"]))
        rs = "[" + "; ".join(greq(q) if i in keep else greq_light(q) for i, q in enumerate(reqs)) + "]"
    else:
        rs = glist(reqs, greq)
    return "(Build_step_obs %s %s %s %s)" % (rs, lk, tj(st["state"]), gbool(bool(st.get("deferred"))))


def merge_oracles(steps):
    rv, rt = {}, {}
    for st in steps:
        for key, acc in (("re_valid", rv), ("rates", rt)):
            t = st.get(key)
            if t:
                for p in t["l"]:
                    acc[p["p"][0]] = p["p"][1]
    return ({"l": [{"p": [k, v]} for k, v in sorted(rv.items())]}, {"l": [{"p": [k, v]} for k, v in sorted(rt.items())]})


def to_gallina(c, o):
    cfg = c["cfg"]
    gcfg = "(Build_scfg %s (Build_fcfg %s %s))" % (gbool(cfg["nds"]), gstr(cfg["ns"]), gstr(cfg["dom"]))
    if o.get("fatal") and (not o.get("steps") or any(st.get("state") is None for st in o["steps"])):
        return "Build_sys_case %s [] [] [] None [] true true" % gcfg
    steps = o["steps"]
    for st in steps:
        st["reqs"] = st.get("reqs") or []
    nstart = (2 if cfg["nds"] else 0) + (2 if cfg["lds"] else 0)
    startup, i = [], 0
    if cfg["nds"]:
        startup += ['OSubscribe TNt ""%string', gop(c["init_nds"], steps[1])]
        i = 2
    if cfg["lds"]:
        startup += ['OSubscribe TLis "virtualInbound"%string', gop(c["init_lds"], steps[i + 1])]
    start_obs = "None" if nstart == 0 else "(Some %s)" % gstep(steps[nstart - 1])
    rv, rt = merge_oracles(steps)
    trace = []
    for op, st in zip(c["ops"], steps[nstart:]):
        if op["op"] == "register":
            continue
        trace.append("(%s, %s)" % (gop(op, st), gstep(st)))
    nodes_ok = all(q["node_id"] == "node-" + cfg["ns"] for st in steps for q in st["reqs"])
    fatal = bool(o.get("fatal"))
    return "Build_sys_case %s %s %s %s %s %s %s %s" % (gcfg, tj(rv), tj(rt), "[" + "; ".join(startup) + "]", start_obs,
                                                    "[" + ";\n ".join(trace) + "]", gbool(nodes_ok), gbool(fatal))


def to_harness(c):
    return {k: c[k] for k in ("cfg", "ops", "init_nds", "init_lds") if k in c}


def describe(c, o):
    ops = []
    for op in c["ops"]:
        if op["op"] == "resp":
            ops.append("resp %s %s %d resources" % (op["rt"], op["version"], len(op["resources"])))
        elif op["op"] == "lookup":
            ops.append("lookup %s %s" % (op["rt"], op["name"]))
        elif op["op"] in ("lookups", "burst_unblock"):
            ops.append("%s %s x%d" % (op["op"], op["rt"], len(op["names"])))
        else:
            ops.append(op["op"] + (" auth" if op.get("auth") else ""))
    return {"cfg": c["cfg"], "ops": ops, "fatal": o.get("fatal"),
            "requests_per_step": [len(s.get("reqs") or []) for s in o.get("steps", [])][:60]}


def shrink(c):
    ops = c["ops"]
    if any(op["op"] in ("lookups", "burst_unblock") for op in ops) or any(op.get("nowait") for op in ops):
        return      # burst scenarios are fixed, already minimal, and expensive to re-evaluate
    # drop suffixes first, then single ops
    for cut in (len(ops) // 2, len(ops) - 1):
        if 0 < cut < len(ops):
            yield dict(c, ops=ops[:cut])
    for i in range(len(ops)):
        if ops[i]["op"] == "join":
            continue        # a waiting lookup is never left waiting across later operations
        yield dict(c, ops=ops[:i] + ops[i + 1:])
    for i, op in enumerate(ops):
        if op["op"] == "resp" and len(op["resources"]) > 0:
            for j in range(len(op["resources"])):
                op2 = dict(op, resources=op["resources"][:j] + op["resources"][j + 1:])
                yield dict(c, ops=ops[:i] + [op2] + ops[i + 1:])


def histogram(cases, obs):
    h = {"histories": len(cases), "ops": {}, "istio": 0, "lds_warmup": 0, "nack_responses": 0, "accepted_responses": 0, "fatal": 0,
         "lookup_hits": 0, "lookup_misses": 0, "history_len": {}}
    for c in cases:
        o = obs[c["id"]]
        h["istio"] += 1 if c["cfg"]["nds"] else 0
        h["lds_warmup"] += 1 if c["cfg"]["lds"] else 0
        h["fatal"] += 1 if o.get("fatal") else 0
        ln = str(len(c["ops"]) // 10 * 10)
        h["history_len"][ln] = h["history_len"].get(ln, 0) + 1
        for op in c["ops"]:
            h["ops"][op["op"]] = h["ops"].get(op["op"], 0) + 1
        for st in o.get("steps", []):
            for q in st.get("reqs") or []:
                if q["nonce"] != "":
                    h["nack_responses" if q["error"] else "accepted_responses"] += 1
            lk = st.get("lookup")
            if lk:
                h["lookup_hits" if lk[0] == "LHit" else "lookup_misses"] += 1
    return h


def model_view(prop, c, o, tier):
    from . import core
    term = to_gallina(c, o)
    return core.coq_show(prop, tier, IMPORTS,
                         "let k := %s in let '(s0, _) := run (sk_cfg k) (sk_oracle k) init_state (sk_startup k) in "
                         "let '(s1, outs) := run (sk_cfg k) (sk_oracle k) s0 (map fst (sk_trace k)) in "
                         "(map (fun ot => (o_reqs ot, o_lookup ot)) outs, s_watched s1, s_version s1, s_nonce s1, s_closed s1, map (fun t => map fst (tget t (s_cache s1))) data_types)" % term)[:3500]
