"""C14 — FQDN expansion and listener-name binding (bootstrap.go tryExpandFQDN, client.go resolveAddr/getListenerName)."""
import itertools, json, sys
from .core import gstr, glist, gopt, gpair
from . import sysgen, p_c01

PROP = "C14"
PROP_FILE = "Properties/C14.v"
ENGINE = "fqdn"
IMPORTS = "From Xds Require Import Model.Base Model.Fqdn."
FN = "fq_check"
TY = "fq_case"
RULE = ("hosts of 1..5 labels over {a,b,svc,Kitex,x1,''} (all label tuples up to 3 labels, sampled beyond), mixed case, "
        "with/without :port, with extra colons, already-qualified and non-Kubernetes names; 4 namespace/domain configurations "
        "(incl. empty); name tables holding the expanded name, the literal name, both, neither, empty address lists, empty first address, "
        "upper-case keys. distinct_nontrivial = distinct (config,host,table) cases in which expansion changed the host or a listener was bound")
ASSUMPTIONS = ["ASCII hosts only (Go's strings.ToLower is Unicode-aware, the model's is ASCII)",
               "fqdn part: the name table is installed through the tagged hook VerifSetTable (= updateLookupTable); the binding part pushes it as NDS responses"]
SHARD = 500
HARNESS_SHARDS = 4

CFGS = [("default", "cluster.local"), ("ns2", "example.org"), ("", ""), ("a.b", "svc")]
LABELS = ["a", "b", "svc", "Kitex", "x1", ""]


def py_expand(ns, dom, host):
    if ".svc." in host:
        return host
    parts = host.split(".")
    if len(parts) == 1:
        return host + "." + ns + ".svc." + dom
    if len(parts) == 2:
        return host + ".svc." + dom
    if len(parts) == 3:
        return host + "." + dom if parts[2] == "svc" else host
    return host + "." + ns + ".svc." + dom


def mk_case(rng, cfg, host, port_style):
    ns, dom = cfg
    full = host
    if port_style == 1:
        full = host + ":" + rng.choice(["80", "8888", "0", "", "http"])
    elif port_style == 2:
        full = host + ":1:2"
    elif port_style == 3:
        full = ":" + host
    addr = full.split(":")[0] if full.count(":") <= 1 else host
    lh = addr.lower()
    fq = py_expand(ns, dom, lh)
    table = {}
    style = rng.randrange(9)
    ip1, ip2 = "10.0.0.%d" % rng.randint(1, 9), "fd00::%d" % rng.randint(1, 9)
    if style in (0, 1, 2):
        table[fq] = [ip1, "10.9.9.9"]
    if style in (2, 3):
        table[lh] = [ip2]
    if style == 4:
        table[fq] = []
        table[lh] = [ip2]
    if style == 5:
        table[fq] = [""]
        table[lh] = [ip2]
    if style == 6:
        table[fq.upper()] = [ip1]
        table[addr] = [ip2]
    if style == 7:
        table[py_expand(ns, dom, addr)] = [ip1]
    table.setdefault("other.default.svc.cluster.local", ["10.1.1.1"])
    c = {"ns": ns, "dom": dom, "host": full, "table": table}
    # a fifth of the cases take their configuration from the ENVIRONMENT (namespace from POD_NAMESPACE, domain from
    # KITEX_XDS_DOMAIN: unset, present but empty - both mean cluster.local -, or set); needs a non-empty namespace
    if ns != "" and rng.random() < 0.2:
        mode = rng.choice(["unset", "empty", "set"]) if dom != "" else rng.choice(["unset", "empty"])
        c["env_dom"] = mode
        if mode != "set":
            c["dom"] = "cluster.local"
            return mk_case_fix(rng, c, host, port_style)
    return c


def mk_case_fix(rng, c, host, port_style):
    """the same case with the table rebuilt for the effective domain"""
    env = c["env_dom"]
    c2 = mk_case(random_clone(rng), (c["ns"], c["dom"]), host, port_style)
    c2.pop("env_dom", None)
    c2["env_dom"] = env
    return c2


def random_clone(rng):
    import random
    return random.Random(rng.getrandbits(64))


def gen_cases(rng, tier):
    cases = []
    hosts = []
    for k in (1, 2, 3):
        for tup in itertools.product(LABELS, repeat=k):
            hosts.append(".".join(tup))
    extra = 400 if tier == "quick" else 6000
    for _ in range(extra):
        k = rng.choice([4, 4, 5, 5, 6])
        hosts.append(".".join(rng.choice(LABELS) for _ in range(k)))
    hosts += ["kitex-server", "kitex-server.default", "kitex-server.default.svc", "kitex-server.default.svc.cluster.local",
              "www.example.com", "org.cloudwego.kitex.samples.api.greetprovider", "x.svc.", ".svc.", "svc", "a..b", ".", "",
              "A.B.SVC", "a.b.Svc", "a.b.svc.", "x.SVC.y"]
    reps = 1 if tier == "quick" else 3
    for h in hosts:
        for _ in range(reps):
            cfg = rng.choice(CFGS)
            ps = rng.choice([0, 0, 1, 1, 1, 2, 3])
            hh = h
            if rng.random() < 0.3:
                hh = "".join(ch.upper() if rng.random() < 0.5 else ch for ch in h)
            cases.append(mk_case(rng, cfg, hh, ps))
    return cases


def to_harness(c):
    return {"ns": c["ns"], "dom": c["dom"], "host": c["host"], "table": c["table"], "env_dom": c.get("env_dom", "")}


def to_gallina(c, o):
    table = glist(sorted(c["table"].items()), lambda kv: gpair(gstr(kv[0]), glist(kv[1], gstr)))
    return "Build_fq_case (Build_fcfg %s %s) %s %s %s %s %s %s" % (
        gstr(c["ns"]), gstr(c["dom"]), table, gstr(c["host"]), gstr(o["expand"]), gstr(o["expand2"]),
        gstr(o["resolve"]), gopt(o["lname"], gstr))


def nontrivial(c, o):
    if o["lname"] is not None or o["expand"] != c["host"]:
        return (c["ns"], c["dom"], c["host"], tuple(sorted((k, tuple(v)) for k, v in c["table"].items())))
    return None


def describe(c, o):
    return {"ns": c["ns"], "domain": c["dom"], "host": c["host"], "table": c["table"],
            "expanded": o["expand"], "listener": o["lname"]}


def shrink(c):
    t = c["table"]
    for k in list(t):
        t2 = dict(t)
        del t2[k]
        yield dict(c, table=t2)
    h = c["host"]
    for i in range(len(h)):
        yield dict(c, host=h[:i] + h[i + 1:])


def model_view(c, o, tier):
    from . import core
    table = glist(sorted(c["table"].items()), lambda kv: gpair(gstr(kv[0]), glist(kv[1], gstr)))
    cfg = "(Build_fcfg %s %s)" % (gstr(c["ns"]), gstr(c["dom"]))
    return core.coq_show(PROP, tier, IMPORTS, "(expand %s %s, resolve %s %s %s, listener_name %s %s %s)" % (
        cfg, gstr(c["host"]), cfg, table, gstr(c["host"]), cfg, table, gstr(c["host"])))


def histogram(cases, obs):
    h = {"labels": {}, "with_port": 0, "extra_colons": 0, "bound": 0, "unbound": 0, "expanded": 0, "mixed_case": 0}
    for c in cases:
        host = c["host"]
        n = str(len(host.split(":")[0].split(".")))
        h["labels"][n] = h["labels"].get(n, 0) + 1
        if host.count(":") == 1:
            h["with_port"] += 1
        if host.count(":") > 1:
            h["extra_colons"] += 1
        o = obs[c["id"]]
        h["bound" if o["lname"] is not None else "unbound"] += 1
        if o["expand"] != host:
            h["expanded"] += 1
        if host != host.lower():
            h["mixed_case"] += 1
    return h


class Pure:
    """the three functions on single inputs (module-level definitions above)"""
    NAME = "fqdn"
    ENGINE, IMPORTS, FN, TY, SHARD, HARNESS_SHARDS = ENGINE, IMPORTS, FN, TY, SHARD, HARNESS_SHARDS
    RULE, ASSUMPTIONS = RULE, ASSUMPTIONS
    gen_cases = staticmethod(gen_cases)
    to_harness = staticmethod(to_harness)
    to_gallina = staticmethod(to_gallina)
    nontrivial = staticmethod(nontrivial)
    describe = staticmethod(describe)
    shrink = staticmethod(shrink)
    model_view = staticmethod(model_view)
    histogram = staticmethod(histogram)


class BindGen(sysgen.SysGen):
    LOOKUP_TYPES = ["lds"] * 5 + ["rds", "cds", "eds"]
    RESP_BIAS = ["lds"] * 3 + ["nds"] * 2


class Binding(p_c01.Part):
    """the binding inside the client: every subscribed address of a listener push is bound through the name table
    then current (handleLDS), over histories in which several spellings and ports of one service are subscribed and
    the table changes between pushes; model, comparison and per-key specification are C01's (theorem C14_binding)"""
    NAME = "binding"
    N_QUICK, N_THOROUGH = 120, 1500
    RULE = ("binding part: histories as in C01 with the name table always required, lookups mostly of service addresses (the same service in several "
            "spellings, with ports 80 / 8888 and without a port, an unresolvable host), listener and name-table pushes over-represented; "
            "the cache, the lookup results and the name table are compared with the model after every operation and the per-key fold is evaluated "
            "on the implementation's snapshots")

    @classmethod
    def gen_cases(cls, rng, tier):
        n = cls.N_QUICK if tier == "quick" else cls.N_THOROUGH
        return [BindGen(rng).history(rng.choice([8, 12, 20, 30]), istio=True, lds_warm=rng.random() < 0.3) for _ in range(n)]

    @staticmethod
    def PROJECT(v, c, o):
        (cache, lookup, reqs, watched, acks, table, closed, s1, s2, s3, s4, s10, s19, sfull) = v
        return (cache and lookup and table and watched, s1 and sfull)

    @classmethod
    def model_view(cls, c, o, tier):
        return sysgen.model_view(PROP, c, o, tier)

    @staticmethod
    def nontrivial(c, o):
        if o.get("fatal"):
            return None
        hit = any(op["op"] == "lookup" and op["rt"] == "lds" and st.get("lookup") and st["lookup"][0] == "LHit"
                  for op, st in zip(c["ops"], o["steps"][len(o["steps"]) - len(c["ops"]):]))
        return json.dumps(c["ops"], sort_keys=True) if hit else None


RULE = "fqdn part: " + RULE + "; " + Binding.RULE
ASSUMPTIONS = ASSUMPTIONS + ["binding part: " + a for a in p_c01.ASSUMPTIONS]
PARTS = [Pure, Binding]
