"""C08 — route matching (xdssuite/router.go, core/xdsresource/rds.go, matcher.go)."""
import json
from .astgen import tj, C, L, Some, Z, P, MS
from .core import gbool, glist, gpair, gstr, gZ

PROP = "C08"
PROP_FILE = "Properties/C08.v"
RULE = ("route tables with 0..3 virtual hosts x 0..4 routes, overlapping predicates, catch-all in any position, exact paths for several "
        "package/service/method spellings, header conditions (exact / prefix / regular expressions incl. invalid ones and ones matching the empty string) "
        "on present, absent and mismatching metadata keys; Thrift-proxy routes (method + headers) with and without an HTTP table; inline tables, "
        "named tables, both, neither, failing named lookups; gRPC and non-gRPC calls; default metainfo extractor and a custom extractor. Tables are "
        "decoded by the real decoders from generated protos; every route has its own cluster and timeout so the route used is identified. "
        "distinct_nontrivial = distinct (tables, call) pairs in which at least two routes are candidates for the path")
ASSUMPTIONS = ["truth of each regular-expression condition on each metadata value is computed with Go's regexp in the harness and shipped as oracle data",
               "the listener / named table lookups are served by a fake manager (the real manager's Get is C05-C07)"]


class Route:
    NAME = "route"
    ENGINE = "route"
    IMPORTS = "From Xds Require Import Model.Base Model.Fqdn Model.Proto Model.Decode Model.Pick Model.Route."
    FN = "route_check"
    TY = "route_case"
    SHARD = 100
    HARNESS_SHARDS = 8
    SHRINK_WIDTH = 60

    KEYS = ["stage", "x-user", "env"]
    VALS = ["canary", "v1", "v12", "ca", "", "pre-canary", "xv12"]
    # literal patterns (no meta characters) are un-anchored too: they match anywhere in the value
    REGEX = ["^v[0-9]+$", "can", ".*", "(", "^$", "v1|prod", "ary", "v1", "canary"]
    METHODS = ["Echo", "Ping"]

    @classmethod
    def header(cls, r):
        k = r.random()
        name = r.choice(cls.KEYS)
        if k < 0.4:
            return C("Build_header_pb", name, C("HSString", C("SMExact", r.choice(cls.VALS))))
        if k < 0.6:
            return C("Build_header_pb", name, C("HSString", C("SMPrefix", r.choice(cls.VALS))))
        if k < 0.9:
            return C("Build_header_pb", name, C("HSString", C("SMRegex", r.choice(cls.REGEX))))
        return C("Build_header_pb", name, r.choice([C("HSOther"), C("HSNone"), C("HSString", C("SMOther"))]))

    @classmethod
    def headers(cls, r, dup_ok):
        n = r.choice([0, 0, 0, 1, 1, 2, 3])
        hs = [cls.header(r) for _ in range(n)]
        if dup_ok and r.random() < 0.5:
            # two supported conditions on one header name (D12 territory)
            k = r.choice(cls.KEYS)
            hs += [C("Build_header_pb", k, C("HSString", C("SMExact", r.choice(["canary", "v1"])))),
                   C("Build_header_pb", k, C("HSString", r.choice([C("SMPrefix", r.choice(["v", "ca", "c"])), C("SMRegex", ".*"), C("SMExact", "v12")])))]
            r.shuffle(hs)
        if not dup_ok:
            seen, out = set(), []
            for h in hs:
                if h[1] not in seen:
                    seen.add(h[1])
                    out.append(h)
            hs = out
        return L(hs)

    @classmethod
    def http_route(cls, r, tag, dup_ok):
        k = r.random()
        if k < 0.3:
            ps = C("PPrefix", r.choice(["/", "/", "/", "/pkg", ""]))
        elif k < 0.9:
            ps = C("PPath", r.choice(["/pkg.svc/Echo", "/svc/Echo", "/pkg.svc/Ping", "/svc/Ping", "/other/Echo", ""]))
        else:
            ps = r.choice([C("POther"), C("PNone")])
        tmo = Some(Z(tag[1] * MS))
        k2 = r.random()
        if k2 < 0.85:
            cs = C("CSCluster", tag[0])
        elif k2 < 0.95:
            cs = C("CSWeighted", L([C("Build_wc_pb", tag[0] + "a", Some(r.choice([0, 1, 3]))), C("Build_wc_pb", tag[0] + "b", Some(r.choice([0, 2])))]))
        else:
            cs = C("CSNone")
        act = C("ARoute", C("Build_raction_pb", cs, tmo, None)) if r.random() < 0.95 else C("AOther")
        return C("Build_route_pb", tag[0], Some(C("Build_rmatch_pb", ps, cls.headers(r, dup_ok))), act)

    @classmethod
    def rc(cls, r, name, prefix, counter, dup_ok):
        vhs = []
        for i, vn in enumerate(r.sample(["web", "vh-b", "api", "vh-a", "zz", "default"], r.choice([0, 1, 1, 2, 3]))):
            routes = []
            for j in range(r.choice([0, 1, 2, 3, 4])):
                counter[0] += 1
                routes.append(cls.http_route(r, ("%s%d" % (prefix, counter[0]), counter[0]), dup_ok))
            vhs.append(C("Build_vhost_pb", vn, L(routes)))
        return C("Build_rc_pb", name, L(vhs))

    @classmethod
    def thrift(cls, r, counter, dup_ok):
        routes = []
        for j in range(r.choice([0, 1, 2, 3])):
            counter[0] += 1
            k = r.random()
            sp = C("TMMethod", r.choice(cls.METHODS + [""])) if k < 0.7 else (C("TMService", "svc") if k < 0.85 else C("TMNone"))
            routes.append(C("Build_troute_pb", Some(C("Build_tmatch_pb", sp, cls.headers(r, dup_ok))), Some(C("TACluster", "t%d" % counter[0]))))
        return C("Build_tproxy_pb", Some(C("Build_trc_pb", "trc", L(routes))))

    @classmethod
    def gen_case(cls, r, dup_ok):
        counter = [0]
        filters = []
        kind = r.random()
        named = []
        if r.random() < 0.5:
            filters.append(C("NFThrift", cls.thrift(r, counter, dup_ok)))
        if kind < 0.9:
            k = r.random()
            if k < 0.4:
                sp = C("RSRds", "rc-named")
                named.append(C("RGood", cls.rc(r, "rc-named", "n", counter, dup_ok)))
            elif k < 0.8:
                sp = C("RSInline", cls.rc(r, r.choice(["rc-inline", "rc-named"]), "i", counter, dup_ok))
                if r.random() < 0.6:
                    named.append(C("RGood", cls.rc(r, "rc-named", "n", counter, dup_ok)))
            elif k < 0.9:
                sp = C("RSRds", "rc-missing")
            else:
                sp = r.choice([C("RSNone"), C("RSOther")])
                if r.random() < 0.5:
                    named.append(C("RGood", cls.rc(r, "", "e", counter, dup_ok)))
            hcm = C("NFHcm", C("Build_hcm_pb", L([]), sp))
            if r.random() < 0.15:   # a second HCM: the last one is used
                filters.append(C("NFHcm", C("Build_hcm_pb", L([]), C("RSInline", cls.rc(r, "rc-shadowed", "s", counter, dup_ok)))))
            filters.append(hcm)
        if r.random() < 0.3:
            filters.append(C("NFUnknownUrl"))
        r.shuffle(filters)
        if r.random() < 0.5:
            lis = C("Build_listener_pb", "svc-listener", L([C("Build_fchain_pb", None, L(filters))]), None)
        else:
            cut = r.randint(0, len(filters))
            lis = C("Build_listener_pb", "svc-listener", L([C("Build_fchain_pb", Some(80), L(filters[:cut]))]), Some(C("Build_fchain_pb", None, L(filters[cut:]))))
        calls = []
        for _ in range(r.choice([2, 3, 4])):
            md = []
            for k in cls.KEYS:
                if r.random() < 0.7:
                    md.append([k, r.choice(cls.VALS)])
            extractor = r.random() < 0.5
            if not extractor:
                md = [kv for kv in md if kv[1] != ""]
            pkg = r.choice(["pkg", "pkg", ""])
            m = r.choice(cls.METHODS)
            decoy = []
            if extractor:
                # the context of a call with a custom extractor also carries metainfo values (which must be ignored);
                # the extractor itself often returns nothing
                if r.random() < 0.4:
                    md = []
                decoy = [[k, r.choice(["canary", "v1", "v12", "pre-canary"])] for k in cls.KEYS if r.random() < 0.8]
            elif r.random() < 0.4:
                # default extractor: persistent metainfo values (lane / gray tags) are not what the conditions are about;
                # often there is no transient value at all
                if r.random() < 0.5:
                    md = []
                decoy = [[k, r.choice(["canary", "v1", "v12", "pre-canary"])] for k in cls.KEYS if r.random() < 0.8]
            calls.append({"service": "", "pkg": pkg, "svc": "svc", "method": m, "to_method": m if r.random() < 0.9 else "Other",
                          "grpc": r.random() < 0.35, "md": md, "extractor": extractor, "decoy": decoy})
        c = {"lds": C("RGood", lis), "named": named, "calls": calls, "repeat": 1}
        if r.random() < 0.03:
            c["lds"] = None
        if not getattr(cls, "_nested", False) and r.random() < 0.25:
            # an earlier push of the listener that every router has already been used with; it is then replaced by the
            # tables above - or removed altogether: routing must follow what is in force now
            cls._nested = True
            try:
                c["prev_lds"] = cls.gen_case(r, dup_ok)["lds"]
            finally:
                cls._nested = False
            if r.random() < 0.4:
                c["lds"] = None
        elif not getattr(cls, "_nested", False) and named and r.random() < 0.2:
            # the named route tables were there (and used) earlier and have been withdrawn since
            c["prev_named"] = named
            c["named"] = []
        return c

    @classmethod
    def gen_cases(cls, rng, tier):
        n = 700 if tier == "quick" else 12000
        return [cls.gen_case(rng, dup_ok=(rng.random() < 0.25)) for _ in range(n)]

    @staticmethod
    def to_harness(c):
        return {"lds": c["lds"], "named": c["named"], "calls": c["calls"], "repeat": c.get("repeat", 1), "prev_lds": c.get("prev_lds"), "prev_named": c.get("prev_named") or []}

    @staticmethod
    def gcall(k):
        return "(Build_call %s %s %s %s %s %s %s)" % (gstr("svc-listener" if not k["service"] else k["service"]), gstr(k["pkg"]), gstr(k["svc"]),
                                                       gstr(k["method"]), gstr(k["to_method"]), gbool(k["grpc"]),
                                                       glist(k["md"], lambda kv: gpair(gstr(kv[0]), gstr(kv[1]))))

    @classmethod
    def to_gallina(cls, c, o):
        if o.get("decode_err"):
            return "Build_route_case [] [] None [] GErr [] []"
        pairs = []
        for k, rs in zip(c["calls"], o["results"] or []):
            for r in rs:
                res = "None" if (r["err"] or r["panic"]) else "(Some (%s, %s))" % (gstr(r["cluster"]), gZ(r["timeout"]))
                pairs.append("(%s, Build_route_obs %s %s)" % (cls.gcall(k), res, gbool(bool(r["panic"]))))
        return "Build_route_case %s %s %s %s %s %s %s" % (tj(o["re_valid"]), tj(o["re_match"]), tj(o["src_lis"]), tj(o["src_named"]),
                                                          tj(o["lis"]), tj(o["named"]), "[" + "; ".join(pairs) + "]")

    @staticmethod
    def _header_lists(x, out):
        if isinstance(x, list):
            if x and isinstance(x[0], str) and x[0] in ("Build_rmatch_pb", "Build_tmatch_pb"):
                out.append(x[2]["l"])
            for e in x:
                Route._header_lists(e, out)
        elif isinstance(x, dict):
            for v in x.values():
                Route._header_lists(v, out)
        return out

    @classmethod
    def has_dup_header(cls, o):
        for hs in cls._header_lists([None, o.get("src_lis"), o.get("src_named")], []):
            names = []
            for h in hs:
                sp = h[2]
                if sp[0] == "HSString" and sp[1][0] in ("SMExact", "SMPrefix", "SMRegex") and sp[1][1] != "":
                    names.append(h[1])
            if len(names) != len(set(names)):
                return True
        return False

    @classmethod
    def classify(cls, c, o):
        # D12: sound because the faithful model equals the spec whenever supported header names are distinct per route (theorem C08_spec_when_distinct)
        return "D12-dup-header-name" if cls.has_dup_header(o) else None

    @staticmethod
    def nontrivial(c, o):
        if o.get("decode_err") or not o.get("results"):
            return None
        s = json.dumps(o["src_lis"]) + json.dumps(o["src_named"])
        if s.count("Build_route_pb") + s.count("Build_troute_pb") >= 2:
            return json.dumps([o["src_lis"], o["src_named"], c["calls"]], sort_keys=True)
        return None

    @staticmethod
    def describe(c, o):
        d = {"listener": c["lds"], "named": c["named"], "calls": c["calls"], "results": o.get("results")}
        t = json.dumps(d)
        return d if len(t) < 2500 else {"truncated": t[:2400]}

    @staticmethod
    def shrink(c):
        calls = c["calls"]
        for i in range(len(calls)):
            if len(calls) > 1:
                yield dict(c, calls=calls[:i] + calls[i + 1:])
        from .decode_common import shrink as dshrink
        if c["lds"] is not None:
            for cand in dshrink({"kind": "lds", "resources": [c["lds"]]}):
                if cand["resources"]:
                    yield dict(c, lds=cand["resources"][0])
        for cand in dshrink({"kind": "rds", "resources": c["named"]}):
            yield dict(c, named=cand["resources"])
        for i, k in enumerate(calls):
            for j in range(len(k["md"])):
                k2 = dict(k, md=k["md"][:j] + k["md"][j + 1:])
                yield dict(c, calls=calls[:i] + [k2] + calls[i + 1:])

    @classmethod
    def model_view(cls, c, o, tier):
        from . import core
        term = cls.to_gallina(c, o)
        return core.coq_show(PROP, tier, cls.IMPORTS,
                             "let c := %s in map (fun ko => (option_map (fun r => (r_clusters r, r_timeout r)) (match_route (rk_oracle c) (fst ko) (rk_lis c) (named_fun (rk_named c))), "
                             "src_route (rk_oracle c) (fst ko) (rk_src_lis c) (fun n => aget n (rk_src_named c)))) (rk_calls c)" % term)[:3000]

    @staticmethod
    def histogram(cases, obs):
        h = {"tables": len(cases), "calls": 0, "grpc_calls": 0, "extractor_calls": 0, "errors": 0, "routed": 0, "panics": 0,
             "with_thrift": 0, "with_named": 0, "dup_header_tables": 0, "decode_err": 0}
        for c in cases:
            o = obs[c["id"]]
            if o.get("decode_err"):
                h["decode_err"] += 1
                continue
            h["with_thrift"] += 1 if "NFThrift" in json.dumps(c["lds"]) else 0
            h["with_named"] += 1 if c["named"] else 0
            h["dup_header_tables"] += 1 if Route.has_dup_header(o) else 0
            for k, rs in zip(c["calls"], o["results"] or []):
                h["calls"] += 1
                h["grpc_calls"] += 1 if k["grpc"] else 0
                h["extractor_calls"] += 1 if k["extractor"] else 0
                for r in rs:
                    if r["panic"]:
                        h["panics"] += 1
                    elif r["err"]:
                        h["errors"] += 1
                    else:
                        h["routed"] += 1
        return h


PARTS = [Route]
