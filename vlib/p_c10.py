"""C10 — resolution returns exactly the control plane's endpoints for the cluster (resolver.go, eds.go, cds.go)."""
import json
from . import sysgen, p_c01, p_c15

PROP = "C10"
PROP_FILE = "Properties/C10.v"
RULE = ("(history) CDS/EDS update histories against the real manager (clusters EDS / inline / static, with and without service name; load assignments of "
        "0..2 localities x 0..2 endpoints; full CDS pushes, partial EDS pushes, removals) interleaved with XDSResolver.Resolve calls on the real manager; "
        "(pure) the resolver on a fault-injecting manager with generated clusters and load assignments (0..3 localities x 0..3 endpoints, IPv4/IPv6, "
        "weights 0..2^32-1, absent assignments, failing lookups). distinct_nontrivial = distinct histories with a successful resolution, plus distinct pure cases with a cluster")
ASSUMPTIONS = p_c01.ASSUMPTIONS + ["instance weights are reported as Kitex's discovery.NewInstance keeps them (0 = unset is passed on)"]


class Hist(p_c01.Part):
    NAME = "history"
    N_QUICK, N_THOROUGH = 160, 3000

    @classmethod
    def gen_cases(cls, rng, tier):
        n = cls.N_QUICK if tier == "quick" else cls.N_THOROUGH
        cases = []
        for _ in range(n):
            g = sysgen.SysGen(rng)
            c = g.history(rng.choice([10, 16, 24]), istio=False, lds_warm=False)
            ops = []
            for op in c["ops"]:
                # only cluster / endpoint traffic and resolutions
                if op["op"] == "resp" and op["rt"] in ("lds", "rds"):
                    op, _ = g.resp(rng.choice(["cds", "eds"]), False, {})
                if op["op"] == "lookup":
                    if rng.random() < 0.7:
                        op = {"op": "resolve", "name": rng.choice(g.NAMES["cds"])}
                    else:
                        rt = rng.choice(["cds", "eds"])
                        op = {"op": "lookup", "rt": rt, "name": rng.choice(g.NAMES[rt] + (["eds-%d" % rng.randint(1, 12)] if rt == "eds" else []))}
                ops.append(op)
            c["ops"] = ops
            cases.append(c)
        return cases

    @staticmethod
    def PROJECT(v, c, o):
        (cache, lookup, reqs, watched, acks, table, closed, s1, s2, s3, s4, s10, s19) = v
        return (lookup and cache and watched, s10)

    @classmethod
    def model_view(cls, c, o, tier):
        return sysgen.model_view(PROP, c, o, tier)

    @staticmethod
    def nontrivial(c, o):
        if o.get("fatal"):
            return None
        ok = any(st.get("lookup") and st["lookup"][0] == "LResolved" and st["lookup"][1] for st in o["steps"])
        return json.dumps(c["ops"], sort_keys=True) if ok else None


class Pure(p_c15.Resolve):
    NAME = "pure"

    @classmethod
    def model_view(cls, c, o, tier):
        from . import core
        return core.coq_show(PROP, tier, cls.IMPORTS, "let c := %s in resolve (rs_cluster c) (eds_fun (rs_eds c))" % cls.to_gallina(c, o))[:2000]


PARTS = [Hist, Pure]
