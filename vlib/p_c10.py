"""C10 — resolution returns exactly the control plane's endpoints for the cluster (resolver.go, eds.go, cds.go)."""
import json
from . import sysgen, p_c01, p_c15

PROP = "C10"
PROP_FILE = "Properties/C10.v"
RULE = ("(history) CDS/EDS update histories against the real manager (clusters EDS / inline / static, with and without service name; load assignments of "
        "0..2 localities x 0..2 endpoints; full CDS pushes, partial EDS pushes, removals) interleaved with XDSResolver.Resolve calls on the real manager; "
        "(pure) the resolver on a fault-injecting manager with generated clusters and load assignments (0..3 localities x 0..3 endpoints, IPv4/IPv6, "
        "weights 0..2^32-1, absent assignments, failing lookups). distinct_nontrivial = distinct histories with a successful resolution, plus distinct pure cases with a cluster")
ASSUMPTIONS = p_c01.ASSUMPTIONS + ["instance weights are reported as Kitex's discovery.NewInstance keeps them (0 = unset is passed on)"]


class Hist(p_c01.Part):
    NAME = "history"
    N_QUICK, N_THOROUGH = 160, 3000

    @classmethod
    def gen_cases(cls, rng, tier):
        n = cls.N_QUICK if tier == "quick" else cls.N_THOROUGH
        cases = []
        for _ in range(n):
            g = sysgen.SysGen(rng)
            c = g.history(rng.choice([10, 16, 24]), istio=False, lds_warm=False)
            ops = []
            for op in c["ops"]:
                # only cluster / endpoint traffic and resolutions
                if op["op"] == "resp" and op["rt"] in ("lds", "rds"):
                    op, _ = g.resp(rng.choice(["cds", "eds"]), False, {})
                if op["op"] == "lookup":
                    if rng.random() < 0.7:
                        op = {"op": "resolve", "name": rng.choice(g.NAMES["cds"])}
                    else:
                        rt = rng.choice(["cds", "eds"])
                        op = {"op": "lookup", "rt": rt, "name": rng.choice(g.NAMES[rt] + (["eds-%d" % rng.randint(1, 12)] if rt == "eds" else []))}
                ops.append(op)
            c["ops"] = ops
            cases.append(c)
        # scripted life cycles of one cluster and the endpoint set it names: fetched, resolved, then emptied /
        # replaced / renamed / turned inline / removed, resolved again after every change
        for _ in range(n // 2):
            g = sysgen.SysGen(rng)
            c = g.history(4, istio=False, lds_warm=False)
            c["ops"] = cls.lifecycle(rng, g)
            cases.append(c)
        return cases

    @staticmethod
    def lifecycle(rng, g):
        from .sysgen import C, L, Some, endpoints
        ver = [100]

        def resp(rt, resources):
            ver[0] += 1
            return {"op": "resp", "rt": rt, "version": "v%d" % ver[0], "nonce": "n%d" % ver[0], "resources": [C("RGood", r) for r in resources]}

        def cl(name, svc, inline=None, outlier=None):
            return C("Build_cluster_pb", name, Some(3), 0, None if svc is None else Some(svc),
                     None if outlier is None else Some(C("Build_outlier_pb", Some(outlier[0]), Some(outlier[1]))),
                     None if inline is None else Some(inline))

        cname = rng.choice(g.NAMES["cds"])
        other = rng.choice([x for x in g.NAMES["cds"] if x != cname])
        svc = rng.choice([None, "", "svc-%s" % cname, "shared-svc"])
        ep = svc if svc else cname
        st = rng.randint(1, 500)
        res = {"op": "resolve", "name": cname}
        ops = [res, resp("cds", [cl(cname, svc)] + ([cl(other, "shared-svc")] if rng.random() < 0.5 else [])), res,
               resp("eds", [endpoints(ep, st, nloc=rng.choice([1, 2]), nep=rng.choice([1, 2]))]), res]
        for _ in range(rng.choice([1, 2, 3])):
            k = rng.choice(["emptied", "empty-localities", "replaced", "renamed", "inline", "inline-empty", "removed", "other-eds", "readded"])
            st += 1
            if k == "emptied":
                ops.append(resp("eds", [endpoints(ep, st, nloc=0)]))
            elif k == "empty-localities":
                ops.append(resp("eds", [endpoints(ep, st, nloc=rng.choice([1, 2]), nep=0)]))
            elif k == "replaced":
                ops.append(resp("eds", [endpoints(ep, st, nloc=rng.choice([1, 2]), nep=rng.choice([1, 2]))]))
            elif k == "renamed":
                svc = "svc2-%s" % cname
                ep = svc
                ops += [resp("cds", [cl(cname, svc)]), res, resp("eds", [endpoints(ep, st, nloc=1, nep=rng.choice([1, 2]))])]
            elif k == "inline":
                ops.append(resp("cds", [cl(cname, svc, inline=endpoints(cname, st, nloc=rng.choice([1, 2]), nep=rng.choice([1, 2])))]))
            elif k == "inline-empty":
                ops.append(resp("cds", [cl(cname, svc, inline=endpoints(cname, st, nloc=rng.choice([0, 1]), nep=0))]))
            elif k == "removed":
                ops.append(resp("cds", [cl(other, None)]))
            elif k == "other-eds":
                ops.append(resp("eds", [endpoints("unrelated", st, nloc=1, nep=1)]))
            else:
                ops += [resp("cds", [cl(other, None)]), res, resp("cds", [cl(cname, svc)])]
            ops.append(res)
            if rng.random() < 0.3:
                ops.append({"op": "resolve", "name": other})
        return ops

    @staticmethod
    def PROJECT(v, c, o):
        (cache, lookup, reqs, watched, acks, table, closed, s1, s2, s3, s4, s10, s19, sfull) = v
        return (lookup and cache and watched, s10)

    @classmethod
    def model_view(cls, c, o, tier):
        return sysgen.model_view(PROP, c, o, tier)

    @staticmethod
    def nontrivial(c, o):
        if o.get("fatal"):
            return None
        ok = any(st.get("lookup") and st["lookup"][0] == "LResolved" and st["lookup"][1] for st in o["steps"])
        return json.dumps(c["ops"], sort_keys=True) if ok else None


class Pure(p_c15.Resolve):
    NAME = "pure"

    @classmethod
    def model_view(cls, c, o, tier):
        from . import core
        return core.coq_show(PROP, tier, cls.IMPORTS, "let c := %s in (resolve (rs_cluster c) (eds_fun (rs_eds c)), \"expected from the messages sent:\"%%string, resolve (src_cluster (%s)) (src_eds (%s)))" % (cls.to_gallina_case(c, o), cls.to_gallina(c, o), cls.to_gallina(c, o)))[:2000]


PARTS = [Hist, Pure]
