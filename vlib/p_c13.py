"""C13 — decoders are total: hostile payloads produce errors, never panics (all five decoders)."""
from .astgen import Gen
from .decode_common import KindPart

PROP = "C13"
PROP_FILE = "Properties/C13.v"
RULE = ("two streams per decoder: (i) structured: valid messages mixed with structurally invalid ones (routes without match/action, unparsable nested "
        "Any payloads, wrong type urls, empty NDS, empty route-config names); (ii) bytes: truncations, bit flips, byte overwrites, appended garbage and "
        "type-url swaps of marshalled valid messages. For (ii) the harness re-parses the mutated bytes with proto.Unmarshal and an independent summariser "
        "reports what they contain; the model's verdict on that content is compared with the decoder's. Panics are caught per call. "
        "distinct_nontrivial = distinct responses (as parsed) containing at least one parsable resource")
ASSUMPTIONS = ["the byte-level parser is google.golang.org/protobuf's and is not modelled: 'all byte strings' is proved for everything after proto.Unmarshal "
               "and differentially tested for the bytes->tree step (partial)",
               "pointers protobuf-go guarantees non-nil (message inside a set oneof member, repeated-field elements, map values) are non-optional in Model/Proto.v"]


def project(v, c, o):
    if o.get("unmodelled"):
        return (True, True)
    verdict, content, total, preserved = v
    return (verdict, total)


def gen(kind, rng, tier):
    n_struct = 200 if tier == "quick" else 3000
    n_bytes = 400 if tier == "quick" else 20000
    cases = []
    g = Gen(rng, bad=0.5, sparse=0.3)
    for i in range(n_struct):
        g.bad = rng.choice([0.1, 0.3, 0.6])
        cases.append({"kind": kind, "resources": g.response(kind)})
    g2 = Gen(rng, bad=0.0, sparse=0.2)
    for i in range(n_bytes):
        rs = g2.response(kind)
        if not rs:
            rs = [g2.resource(kind)]
        muts = []
        for _ in range(rng.choice([1, 1, 2, 3])):
            muts.append({"res": rng.randrange(len(rs)), "kind": rng.choice(["truncate", "flip", "flip", "flip", "zero", "append", "swapurl"]),
                         "pos": rng.randrange(1 << 16), "arg": rng.randrange(256)})
        cases.append({"kind": kind, "resources": rs, "mutations": muts})
    return cases


PARTS = [KindPart(PROP, k, gen, project) for k in ("lds", "rds", "cds", "eds", "nds")]
