"""C01 — served cache equals the fold of accepted responses (client.go handle*, manager.go UpdateResource)."""
import json
from . import sysgen

PROP = "C01"
PROP_FILE = "Properties/C01.v"
RULE = ("histories of 8..40 operations against the real manager+client around an in-memory ADS client: lookups (2..5 names per type from pools, so "
        "unsolicited names occur), responses of every type in any order (full, partial, empty, with extras, duplicate names, occasionally corrupt => NACK), "
        "unknown type urls, never-subscribed types; both configurations (name table required / not), with and without the inbound-listener warm-up, "
        "name-table changes between listener pushes. Resources carry unique stamps. After every operation the complete cache, interest sets, versions, "
        "nonces, name table and the requests sent are read back and compared with the model; the per-key fold (spec) is evaluated on the implementation's "
        "snapshots. distinct_nontrivial = distinct histories in which an accepted response changed the answer of a later lookup")
ASSUMPTIONS = ["each operation is applied with barriers (response handled <=> Recv re-entered; requests sent <=> flush marker seen), so the history is sequential; concurrency is C05-C07",
               "the control plane is scripted; lookups use an already-cancelled context (miss => subscribe + error)"]


class Part:
    NAME = "sys"
    ENGINE = "sys"
    IMPORTS = sysgen.IMPORTS + "\nFrom Xds Require Import Model.FullView."
    FN = "sys_check_full"
    TY = "sys_case"
    SHARD = 25
    HARNESS_SHARDS = 16
    SHRINK_WIDTH = 30
    SHRINK_ROUNDS = 6
    FAULTS = False
    N_QUICK, N_THOROUGH = 240, 4000

    @classmethod
    def gen_cases(cls, rng, tier):
        n = cls.N_QUICK if tier == "quick" else cls.N_THOROUGH
        cases = []
        for i in range(n):
            g = sysgen.SysGen(rng, faults=cls.FAULTS)
            cases.append(g.history(rng.choice([8, 12, 20, 30, 40]), istio=rng.random() < 0.5, lds_warm=rng.random() < 0.4))
        return cases

    to_harness = staticmethod(sysgen.to_harness)
    to_gallina = staticmethod(sysgen.to_gallina)
    describe = staticmethod(sysgen.describe)
    shrink = staticmethod(sysgen.shrink)
    histogram = staticmethod(sysgen.histogram)

    @staticmethod
    def PROJECT(v, c, o):
        (cache, lookup, reqs, watched, acks, table, closed, s1, s2, s3, s4, s10, s19, sfull) = v
        # s1: the fold kv_step (C01_refinement); sfull: the complete per-key fold fv_step (C01_refinement_full)
        return (cache and lookup and table, s1 and sfull)

    @classmethod
    def model_view(cls, c, o, tier):
        return sysgen.model_view(PROP, c, o, tier)

    @staticmethod
    def nontrivial(c, o):
        if o.get("fatal"):
            return None
        hit = any(st.get("lookup") and st["lookup"][0] == "LHit" for st in o["steps"])
        return json.dumps(c["ops"], sort_keys=True) if hit else None


PARTS = [Part]
