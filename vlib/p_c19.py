"""C19 — idle resources are evicted and unsubscribed; used and reserved ones stay (manager.go cleaner, client.go Watch)."""
import json
from . import sysgen, core
from .sysgen import SysGen, gop, gstep, merge_oracles, RT
from .astgen import tj, C
from .core import gbool, gstr, gN, glist

PROP = "C19"
PROP_FILE = "Properties/C19.v"
RULE = ("scenarios run in parallel, each on its own real manager, through REAL sweeps of the cleaner (one 30 s tick in the quick tier, three in the thorough "
        "tier): resources of all four types are subscribed, delivered, and then looked up again or not; each cached entry is either made idle (its recorded "
        "access time is shifted 60 s into the past with the tagged helper) or used again 5..8 s before the tick, so the 30 s boundary itself is never in play; "
        "the reserved inbound listener is included, idle or not; after the sweep evicted names are looked up again and re-delivered. Interest sets, cache, "
        "and every request are read back after each operation. distinct_nontrivial = distinct scenarios in which at least one entry was evicted and one stayed")
ASSUMPTIONS = ["ticker jitter below the 5 s margins; the 30 s period is observed (a sweep is awaited at t0 + 30 s + 1.5 s), not parsed",
               "eviction racing with lookups/updates is covered structurally (the sweep is one write-section of the manager's lock: C07), not by this run",
               "with several evictions of one type in one sweep the order of the unsubscribe requests follows Go's map order: such scenarios are compared on final state and checked by the spec only"]


def scenario(rng, ticks):
    g = SysGen(rng)
    lds_warm = rng.random() < 0.5
    c = {"cfg": {"nds": False, "lds": lds_warm, "ns": "default", "dom": "cluster.local"}, "ops": []}
    if lds_warm:
        g.version += 1
        c["init_lds"] = {"op": "resp", "rt": "lds", "version": "v%d" % g.version, "nonce": "n%d" % g.version,
                         "resources": [C("RGood", sysgen.listener("virtualInbound", g.next_stamp(), port=8888, tokens=9))]}
    ops = c["ops"]
    multi = rng.random() < 0.25
    plan = {}
    early = set()   # entries whose only lookup before the first sweep comes a few seconds after delivery
    soon = set()    # entries looked up at delivery and AGAIN 3-4.5 s later, then not until after the first sweep: the second
                    # lookup (25.5-27 s before the sweep) counts although it follows the first one closely
    for rt in ("lds", "rds", "cds", "eds"):
        # the same name occurs in several types (a cluster and its endpoint set usually share their name)
        pool = ["l1", "l2", "l3"] if rt == "lds" else g.NAMES[rt][:3] + ["shared"]
        names = [n for n in pool if rng.random() < 0.6]
        if rt == "lds" and not lds_warm and rng.random() < 0.5:
            names.append("virtualInbound")
        if not names:
            continue
        for n in names:
            ops.append({"op": "lookup", "rt": rt, "name": n})
        g.version += 1
        res = []
        for n in names:
            st = g.next_stamp()
            res.append(C("RGood", {"lds": lambda: sysgen.listener(n, st), "rds": lambda: sysgen.route_config(n, st),
                                   "cds": lambda: sysgen.cluster(n, st), "eds": lambda: sysgen.endpoints(n, st)}[rt]()))
        ops.append({"op": "resp", "rt": rt, "version": "v%d" % g.version, "nonce": "n%d" % g.version, "resources": res})
        idle_budget = 99 if multi else 1
        for n in names:
            accessed = rng.random() < 0.7
            if accessed:
                ops.append({"op": "lookup", "rt": rt, "name": n})
            idle = rng.random() < 0.5 and idle_budget > 0
            if idle:
                idle_budget -= 1
            elif rng.random() < 0.35:
                early.add((rt, n))
            elif accessed and rng.random() < 0.3:
                soon.add((rt, n))
            plan[(rt, n)] = idle
    if lds_warm:
        plan[("lds", "virtualInbound")] = rng.random() < 0.5      # the reserved listener: idle or not, it must stay
        ops.append({"op": "lookup", "rt": "lds", "name": "virtualInbound"})
    for (rt, n), idle in plan.items():
        if idle:
            ops.append({"op": "backdate", "rt": rt, "name": n, "ms": 60000})
        elif (rt, n) in early:
            # the entry is a little older than the manager (as after a restart of the sweeper); a lookup a few seconds
            # later must still count for the whole expiry period
            ops.append({"op": "backdate", "rt": rt, "name": n, "ms": 3000})
    if soon:
        ops.append({"op": "sleep_until", "ms": rng.choice([3000, 3800, 4500])})
        for (rt, n) in sorted(soon):
            ops.append({"op": "lookup", "rt": rt, "name": n})
    if early:
        ops.append({"op": "sleep_until", "ms": rng.choice([5000, 6000, 7000])})
        for (rt, n) in sorted(early):
            ops.append({"op": "lookup", "rt": rt, "name": n})
    for k in range(1, ticks + 1):
        ops.append({"op": "sleep_until", "ms": 30000 * k - rng.choice([8000, 6500, 5000])})
        for (rt, n), idle in plan.items():
            if not idle and not (k == 1 and ((rt, n) in early or (rt, n) in soon)):
                ops.append({"op": "lookup", "rt": rt, "name": n})
        # the control plane pushes again shortly before the sweep: an update is not a lookup, idle entries stay idle
        for rt in ("lds", "rds", "cds", "eds"):
            names = [n for (t, n) in plan if t == rt]
            if names and rng.random() < 0.5:
                g.version += 1
                res = []
                for n in names:
                    st = g.next_stamp()
                    if rt == "lds" and n == "virtualInbound" and lds_warm:
                        res += c["init_lds"]["resources"]
                        continue
                    res.append(C("RGood", {"lds": lambda: sysgen.listener(n, st), "rds": lambda: sysgen.route_config(n, st),
                                           "cds": lambda: sysgen.cluster(n, st), "eds": lambda: sysgen.endpoints(n, st)}[rt]()))
                ops.append({"op": "resp", "rt": rt, "version": "v%d" % g.version, "nonce": "n%d" % g.version, "resources": res})
        if rng.random() < 0.5:
            ops.append({"op": "dump"})      # Dump() renders every cached resource shortly before the sweep: not a lookup
        ops.append({"op": "await_sweep", "ms": k})
        evicted = [(rt, n) for (rt, n), idle in plan.items() if idle and not (rt == "lds" and n == "virtualInbound")]
        # the control plane answers the unsubscription: a response of a type that may have no names left is still acknowledged
        for rt in sorted({rt for rt, _ in evicted}):
            if rng.random() < 0.6:
                g.version += 1
                st = g.next_stamp()
                other = {"lds": lambda: sysgen.listener("unrelated", st), "rds": lambda: sysgen.route_config("unrelated", st),
                         "cds": lambda: sysgen.cluster("unrelated", st), "eds": lambda: sysgen.endpoints("unrelated", st)}[rt]()
                keep = []
                if rt in ("lds", "cds"):   # full-state types: repeat what must stay cached
                    keep = [r for op in ops if op["op"] == "resp" and op["rt"] == rt for r in op["resources"] if r[0] == "RGood" and (rt, r[1][1]) in plan and not plan[(rt, r[1][1])]]
                    if rt == "lds" and lds_warm:
                        keep += c["init_lds"]["resources"]
                ops.append({"op": "resp", "rt": rt, "version": "v%d" % g.version, "nonce": "n%d" % g.version,
                            "resources": [C("RGood", other)] + keep if rng.random() < 0.8 else [C("RUnparsable")]})
        # refetch: an evicted name is looked up again and re-delivered
        for (rt, n) in evicted[:2]:
            ops.append({"op": "lookup", "rt": rt, "name": n})
            g.version += 1
            st = g.next_stamp()
            body = {"lds": lambda: sysgen.listener(n, st), "rds": lambda: sysgen.route_config(n, st),
                    "cds": lambda: sysgen.cluster(n, st), "eds": lambda: sysgen.endpoints(n, st)}[rt]()
            extra = []
            if rt in ("lds", "cds"):   # full-state types: keep what is cached
                extra = [r for op in ops if op["op"] == "resp" and op["rt"] == rt for r in op["resources"] if r[0] == "RGood" and r[1][1] != n and (rt, r[1][1]) in plan and not plan[(rt, r[1][1])]]
                if rt == "lds" and lds_warm:
                    extra += c["init_lds"]["resources"]
            ops.append({"op": "resp", "rt": rt, "version": "v%d" % g.version, "nonce": "n%d" % g.version, "resources": [C("RGood", body)] + extra})
            ops.append({"op": "lookup", "rt": rt, "name": n})
            plan[(rt, n)] = False if k < ticks else plan[(rt, n)]
            if k < ticks and rng.random() < 0.5:
                plan[(rt, n)] = True
                ops.append({"op": "backdate", "rt": rt, "name": n, "ms": 60000})
    c["multi"] = multi
    return c


class Part:
    NAME = "sweep"
    ENGINE = "sweep"
    IMPORTS = sysgen.IMPORTS + "\nFrom Xds Require Import Model.FullView."
    FN = "sys_check_full"
    TY = "sys_case"
    SHARD = 6

    @staticmethod
    def gen_cases(rng, tier):
        n, ticks = (24, 1) if tier == "quick" else (96, 3)
        cases = [scenario(rng, ticks) for _ in range(n)]
        for c in cases:
            c["ticks"] = ticks
        return cases

    @staticmethod
    def run_impl(cases):
        ticks = max(c.get("ticks", 1) for c in cases)
        batch = {"id": 0, "scenarios": [dict(sysgen.to_harness(c), id=c["id"]) for c in cases]}
        res = core.run_harness("sweep", [batch], timeout=60 + 35 * ticks, shards=1, extra_env={"VERIF_CASE_TIMEOUT_S": str(50 + 35 * ticks)})
        out = {}
        r0 = res[0]
        if r0.get("fatal"):
            return {c["id"]: {"fatal": r0["fatal"], "steps": []} for c in cases}
        for c, o in zip(cases, r0["results"]):
            out[c["id"]] = o
        return out

    @staticmethod
    def to_gallina(c, o):
        cfg = c["cfg"]
        gcfg = "(Build_scfg %s (Build_fcfg %s %s))" % (gbool(cfg["nds"]), gstr(cfg["ns"]), gstr(cfg["dom"]))
        if o.get("fatal") and (not o.get("steps") or any(st.get("state") is None for st in o["steps"])):
            return "Build_sys_case %s [] [] [] None [] true true" % gcfg
        steps = o["steps"]
        for st in steps:
            st["reqs"] = st.get("reqs") or []
        nstart = 2 if cfg["lds"] else 0
        startup = ['OSubscribe TLis "virtualInbound"%string', gop(c["init_lds"], steps[1])] if cfg["lds"] else []
        start_obs = "None" if nstart == 0 else "(Some %s)" % gstep(steps[nstart - 1])
        rv, rt = merge_oracles(steps)
        trace = []
        clock = 0
        prev_state = steps[nstart - 1]["state"] if nstart else None
        empty = '(Build_snap [[]; []; []; []] [None; None; None; None; None] [""%string; ""%string; ""%string; ""%string; ""%string] [""%string; ""%string; ""%string; ""%string; ""%string] [] false)'

        def quiet(state):
            return "(Build_step_obs [] None %s false)" % (tj(state) if state is not None else empty)
        for op, st in zip(c["ops"], steps[nstart:]):
            k = op["op"]
            if k == "sleep_until":
                continue
            if k == "await_sweep":
                tick_at = 30000 * op["ms"]
                trace.append("(OTick %s, %s)" % (gN(max(0, tick_at - clock)), quiet(prev_state)))
                clock = max(clock, tick_at)
                trace.append("(OSweep, %s)" % gstep(st))
            else:
                at = st["at_ms"]
                if at > clock:
                    trace.append("(OTick %s, %s)" % (gN(at - clock), quiet(prev_state)))
                    clock = at
                if k == "backdate":
                    trace.append("(OBackdate %s %s %s, %s)" % (RT[op["rt"]], gstr(op["name"]), gN(op["ms"]), gstep(st)))
                else:
                    trace.append("(%s, %s)" % (gop(op, st), gstep(st)))
            prev_state = st["state"]
        nodes_ok = all(q["node_id"] == "node-" + cfg["ns"] for st in steps for q in st["reqs"])
        return "Build_sys_case %s %s %s %s %s %s %s %s" % (gcfg, tj(rv), tj(rt), "[" + "; ".join(startup) + "]", start_obs,
                                                        "[" + ";\n ".join(trace) + "]", gbool(nodes_ok), gbool(bool(o.get("fatal"))))

    @staticmethod
    def PROJECT(v, c, o):
        (cache, lookup, reqs, watched, acks, table, closed, s1, s2, s3, s4, s10, s19, sfull) = v
        # s19: the sweep monitor; sfull: content and interest of every key follow the complete per-key fold (C01_refinement_full)
        return ((cache and lookup and watched and (reqs or c.get("multi", False))), s19 and sfull)

    @staticmethod
    def describe(c, o):
        d = sysgen.describe(c, o)
        d["ops"] = [("%s %s %s" % (op["op"], op.get("rt", ""), op.get("name", op.get("ms", "")))) for op in c["ops"]]
        d["multi_eviction"] = c.get("multi")
        sweeps = [st for op, st in zip(c["ops"], (o.get("steps") or [])[(2 if c["cfg"]["lds"] else 0):]) if op["op"] == "await_sweep"]
        d["requests_at_sweeps"] = [[(q["type"], q["names"]) for q in st.get("reqs") or []] for st in sweeps]
        return d

    @staticmethod
    def nontrivial(c, o):
        if o.get("fatal"):
            return None
        steps = (o.get("steps") or [])[(2 if c["cfg"]["lds"] else 0):]
        ev = any(op["op"] == "await_sweep" and (st.get("reqs") or []) for op, st in zip(c["ops"], steps))
        stay = any(op["op"] == "await_sweep" and any(m["l"] for m in st["state"][1]["l"]) for op, st in zip(c["ops"], steps))
        return json.dumps(c["ops"], sort_keys=True) if ev and stay else None

    @staticmethod
    def histogram(cases, obs):
        h = {"scenarios": len(cases), "multi_eviction": 0, "evictions_requests": 0, "backdated": 0, "fatal": 0, "ticks": max(c.get("ticks", 1) for c in cases)}
        for c in cases:
            o = obs[c["id"]]
            h["multi_eviction"] += 1 if c.get("multi") else 0
            h["fatal"] += 1 if o.get("fatal") else 0
            h["backdated"] += sum(1 for op in c["ops"] if op["op"] == "backdate")
            steps = (o.get("steps") or [])[(2 if c["cfg"]["lds"] else 0):]
            h["evictions_requests"] += sum(len(st.get("reqs") or []) for op, st in zip(c["ops"], steps) if op["op"] == "await_sweep")
        return h

    @classmethod
    def model_view(cls, c, o, tier):
        term = cls.to_gallina(c, o)
        return core.coq_show(PROP, tier, cls.IMPORTS,
                             "let k := %s in let '(s0, _) := run (sk_cfg k) (sk_oracle k) init_state (sk_startup k) in "
                             "let '(s1, outs) := run (sk_cfg k) (sk_oracle k) s0 (map fst (sk_trace k)) in "
                             "(map (fun xo => (match fst xo with OSweep => 1 | _ => 0 end, o_reqs (snd xo))) (combine (map fst (sk_trace k)) outs), s_watched s1, map (fun t => map fst (tget t (s_cache s1))) data_types, s_meta s1, s_now s1)" % term)[-3500:]


PARTS = [Part]
