"""C12 — cluster, endpoint and name-table decoding preserves meaning (cds.go, eds.go, nds.go)."""
from .astgen import Gen
from .decode_common import KindPart
from . import p_c11

PROP = "C12"
PROP_FILE = "Properties/C12.v"
RULE = ("structurally valid Cluster / ClusterLoadAssignment / NameTable messages: every discovery type and lb policy value, custom cluster type, "
        "absent optional sub-messages at every link (eds config, outlier detection and its wrappers, load assignment, endpoint/address/socket address, "
        "named ports, pipes), IPv4/IPv6/empty addresses, 0..3 localities x 0..3 endpoints, multi-resource responses with duplicate names. "
        "distinct_nontrivial = distinct responses with at least one well-formed resource")
ASSUMPTIONS = p_c11.ASSUMPTIONS[:1]


def gen(kind, rng, tier):
    n = 350 if tier == "quick" else 5000
    g = Gen(rng, bad=0.0, sparse=0.25)
    cases = []
    for i in range(n):
        g.sparse = rng.choice([0.0, 0.1, 0.25, 0.5, 0.8])
        cases.append({"kind": kind, "resources": g.response(kind)})
    return cases


PARTS = [KindPart(PROP, k, gen, p_c11.project) for k in ("cds", "eds", "nds")]
