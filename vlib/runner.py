"""Generic decision procedure of a check (DESIGN.md section 1.2).

A property module provides PROP, PROP_FILE and either the attributes of one *part* itself or
PARTS = [part, ...].  A part provides:
  NAME (optional), ENGINE, IMPORTS, FN, TY
  gen_cases(rng, tier) -> list of case dicts
  to_harness(case) -> dict sent to the Go harness
  to_gallina(case, obs) -> Gallina term of type TY (case input + implementation observation);
      FN : TY -> bool * bool  = (model agrees with implementation, executable spec holds of implementation)
  nontrivial(case, obs) -> hashable key (distinct non-trivial case) or None
  describe(case, obs) -> JSON-able sample
optional:
  CORPUS, classify(case, obs) -> known-finding id or None, shrink(case) -> candidates,
  extra_search(rng, round) -> cases, RULE, ASSUMPTIONS, histogram(cases, obs), model_view(case, obs, tier),
  run_impl(cases) -> {id: obs}   (instead of ENGINE, for parts that drive the harness themselves)
"""
import json, os, random, sys, time, traceback
from . import core


def part_name(part):
    return getattr(part, "NAME", None) or getattr(part, "ENGINE", "part")


def evaluate(prop, part, tier, cases, tag="cases"):
    """Run implementation and model on the cases; returns (obs, verdicts) with verdicts[id] = (agree, spec)."""
    if not cases:
        return {}, {}
    if hasattr(part, "run_impl"):
        obs = part.run_impl(cases)
    else:
        hcases = []
        for c in cases:
            h = dict(part.to_harness(c))
            h["id"] = c["id"]
            hcases.append(h)
        obs = core.run_harness(part.ENGINE, hcases, timeout=getattr(part, "HARNESS_TIMEOUT", 400),
                               shards=getattr(part, "HARNESS_SHARDS", None),
                               extra_env=getattr(part, "HARNESS_ENV", None))
    # a case on which the code under test panicked inside the harness: the panic is the observation, the model never panics
    live = [c for c in cases if not panicked(obs.get(c["id"]))]
    terms = [part.to_gallina(c, obs[c["id"]]) for c in live]
    res = core.coq_eval(prop, tier, part.IMPORTS, part.FN, terms, part.TY,
                        shard_size=getattr(part, "SHARD", 300), tag=part_name(part) + "_" + tag) if live else []
    proj = getattr(part, "PROJECT", None)
    verdicts = {c["id"]: (proj(res[i], c, obs[c["id"]]) if proj else res[i]) for i, c in enumerate(live)}
    for c in cases:
        if c["id"] not in verdicts:
            verdicts[c["id"]] = (False, False)
    return obs, verdicts


def panicked(o):
    return isinstance(o, dict) and "engine_panic" in o


def shrink_case(prop, part, tier, case, want):
    """Greedy shrinking: keep a smaller candidate while predicate want(verdict) stays true."""
    if not hasattr(part, "shrink"):
        return case
    cur = case
    rounds = int(os.environ.get("VERIF_SHRINK_ROUNDS", getattr(part, "SHRINK_ROUNDS", 12)))
    for _ in range(rounds):
        cands = [dict(c) for c in list(part.shrink(cur))[:getattr(part, "SHRINK_WIDTH", 120)]]
        if not cands:
            break
        for i, c in enumerate(cands):
            c["id"] = i
        try:
            obs, ver = evaluate(prop, part, tier, cands, tag="shrink")
        except Exception:
            break
        nxt = None
        for c in cands:
            if want(ver[c["id"]]):
                nxt = c
                break
        if nxt is None:
            break
        cur = nxt
    return cur


def strip(case):
    return {k: v for k, v in case.items() if not k.startswith("_")}


def run_property(mod, tier, seed, replay=None):
    t0 = time.time()
    prop = mod.PROP
    parts = getattr(mod, "PARTS", None) or [mod]
    rng = random.Random(seed * 1000003 + sum(map(ord, prop)))
    problems = []          # things that make the property "no longer shown"
    ok_coq, coq_log = core.build_coq()
    ok_h, h_log = core.build_harness()
    st = core.theorem_status(prop, mod.PROP_FILE)
    if not core.theorems_closed(st):
        problems.append({"kind": "theorem", "what": "proof obligations of %s do not check" % mod.PROP_FILE,
                         "files_not_compiled": st["failed_files"], "forbidden": st["forbidden"],
                         "assumptions": st["assumptions"], "log_tail": coq_log[-1500:] if not ok_coq else ""})
    extra_info = None
    if hasattr(mod, "extra_problems"):
        try:
            ps, extra_info = mod.extra_problems(tier)
        except Exception as e:
            ps, extra_info = [{"kind": "theorem", "what": "extra proof obligations could not be checked: %s" % e}], None
        problems += ps
        if extra_info:
            st["obligations"] += extra_info.get("obligations", 0)
            st["discharged"] += extra_info.get("discharged", 0)
            st["theorems"] = st["theorems"] + extra_info.get("theorems", [])
            st["assumptions"].update(extra_info.get("assumptions", {}))
    if tier == "thorough" and core.theorems_closed(st) and not problems and not os.environ.get("VERIF_NO_COQCHK"):
        try:
            okc, summ = core.coqchk(mod.PROP_FILE, getattr(mod, "COQCHK_EXTRA", ()))
        except Exception as e:
            okc, summ = False, {"error": str(e)}
        st["coqchk"] = summ
        if not okc:
            problems.append({"kind": "theorem", "what": "coqchk does not accept the compiled development of %s or reports axioms" % mod.PROP_FILE, "coqchk": summ})
    if not ok_h:
        core.write_evidence(prop, tier, seed, st, {"evaluations": 0, "distinct_nontrivial": 0, "rule": getattr(mod, "RULE", ""),
                            "samples": [], "explanation": "harness build failed"}, time.time() - t0, 1)
        core.violation(prop, {"property": prop, "kind": "harness-build-failed",
                              "what": "the Go harness does not build against /repo's working tree with -tags verif; "
                                      "correspondence of the model with the code cannot be established",
                              "log": h_log[-3000:]}, no_input=True)
        return 1
    kf = core.known_findings()
    open_ids = {e["id"]: e for e in kf.get("open", []) if e.get("property") == prop}
    rp = json.load(open(replay)) if replay else None

    def known(part, c, o):
        k = part.classify(c, o) if hasattr(part, "classify") else None
        return k if (k is not None and k in open_ids) else None

    rc, nviol = 0, 0
    total_eval, keys, samples, hist = 0, set(), [], {}
    agree_n = spec_n = 0
    known_total = {}
    unshown = []   # (part, disagreeing cases) without failing input
    reported = False
    for part in parts:
        pn = part_name(part)
        if rp is not None:
            if rp.get("part", pn) != pn:
                continue
            cases = [dict(rp["case"])] if "case" in rp else []
        else:
            cases = [dict(c) for c in getattr(part, "CORPUS", [])] + part.gen_cases(rng, tier)
        for i, c in enumerate(cases):
            c["id"] = i
        if not cases:
            continue
        obs, ver = evaluate(prop, part, tier, cases)
        total_eval += len(cases)
        agree_n += sum(1 for c in cases if ver[c["id"]][0])
        spec_n += sum(1 for c in cases if ver[c["id"]][1])
        known_hits, unknown, disagree_unexpl = {}, [], []
        for c in cases:
            a, s = ver[c["id"]][0], ver[c["id"]][1]
            if a and s:
                continue
            # a known finding explains a failing case only if the (code-faithful) model agrees with the
            # implementation on it: any further deviation on the same input is still reported
            k = known(part, c, obs[c["id"]]) if a and not panicked(obs[c["id"]]) else None
            if k is not None:
                known_hits.setdefault(k, []).append(c)
            elif not s:
                c["_obs"] = obs[c["id"]]
                unknown.append(c)
            else:
                disagree_unexpl.append(c)
        extra = 0
        if (disagree_unexpl or problems) and not unknown and rp is None:
            for rnd in range(getattr(part, "EXTRA_ROUNDS", 2)):
                more = (part.extra_search(rng, rnd) if hasattr(part, "extra_search") else part.gen_cases(rng, tier))
                for i, c in enumerate(more):
                    c["id"] = i
                try:
                    o2, v2 = evaluate(prop, part, tier, more, tag="search")
                except Exception:
                    break
                extra += len(more)
                bad = [c for c in more if not v2[c["id"]][1] and not (v2[c["id"]][0] and known(part, c, o2[c["id"]]) is not None)]
                if bad:
                    for c in bad:
                        c["_obs"] = o2[c["id"]]
                    unknown.extend(bad)
                    break
        total_eval += extra
        for k, cs in sorted(known_hits.items()):
            known_total[k] = known_total.get(k, 0) + len(cs)
            print("KNOWN-FINDING: property=%s %s (%d case(s) this run, e.g. %s)" % (
                prop, open_ids[k].get("what", k), len(cs), json.dumps(part.describe(cs[0], obs[cs[0]["id"]]))[:400]))
        if unknown and not reported:
            c0 = unknown[0]
            if getattr(part, "NONDETERMINISTIC", False):
                # a run that depends on real interleavings is not re-run for the report: the observation that failed is kept
                small, ob, vv = strip(c0), c0.get("_obs"), (None, False)
                small["id"] = 0
            else:
                small = shrink_case(prop, part, tier, strip(c0), lambda v: not v[1])
                small["id"] = 0
                try:
                    o3, v3 = evaluate(prop, part, tier, [small], tag="final")
                    ob, vv = o3[0], v3[0]
                except Exception:
                    ob, vv = c0.get("_obs"), (None, False)
            mv = ""
            if hasattr(part, "model_view"):
                try:
                    mv = part.model_view(small, ob, tier)
                except Exception as e:
                    mv = "unavailable: %s" % e
            core.violation(prop, {"property": prop, "part": pn, "kind": "spec-false-on-implementation",
                                  "case": strip(small), "implementation_observation": ob, "verdict_agree_spec": vv,
                                  "model_expects": mv, "seed": seed, "tier": tier,
                                  "failing_cases_this_run": len(unknown), "repo": core.repo_head(),
                                  "how_to_replay": "./check %s --replay <this file>" % prop})
            reported = True
            rc = 1
            nviol += len(unknown)
        elif disagree_unexpl:
            unshown.append((part, disagree_unexpl, len(cases), extra))
        shown = [c for c in cases if not panicked(obs[c["id"]])]
        for c in shown:
            k = part.nontrivial(c, obs[c["id"]])
            if k is not None:
                keys.add((pn, k))
        picks = shown[:2] + shown[len(shown) // 2: len(shown) // 2 + 1]
        samples += [{"part": pn, "case": part.describe(c, obs[c["id"]])} for c in picks]
        if hasattr(part, "histogram") and shown:
            hist[pn] = part.histogram(shown, obs)
            if len(shown) < len(cases):
                hist[pn]["panicked_inside_the_harness"] = len(cases) - len(shown)
    if not reported and (unshown or problems):
        desc = {"property": prop, "kind": "not-shown", "seed": seed, "tier": tier, "repo": core.repo_head(),
                "no_longer_checks": [p["what"] for p in problems], "problems": problems}
        for part, dis, n, extra in unshown:
            pn = part_name(part)
            desc["no_longer_checks"].append("correspondence %s (Coq function %s vs implementation): they differ on %d of %d cases; "
                                            "%d further cases searched with the executable spec, none failed" % (pn, part.FN, len(dis), n, extra))
        if unshown:
            part, dis, n, extra = unshown[0]
            small = shrink_case(prop, part, tier, strip(dis[0]), lambda v: not v[0])
            small["id"] = 0
            desc["part"] = part_name(part)
            desc["case"] = strip(small)
            try:
                o3, v3 = evaluate(prop, part, tier, [small], tag="final")
                desc["implementation_observation"] = o3[0]
                if hasattr(part, "model_view"):
                    desc["model_expects"] = part.model_view(small, o3[0], tier)
            except Exception as e:
                desc["note"] = "re-evaluation failed: %s" % e
        core.violation(prop, desc, no_input=True)
        rc = 1
        nviol += max(1, sum(len(d) for _, d, _, _ in unshown))
    cov = {"evaluations": total_eval, "distinct_nontrivial": len(keys),
           "rule": getattr(mod, "RULE", ""), "samples": samples,
           "agree": agree_n, "spec_true": spec_n, "known_finding_cases": known_total, "repo": core.repo_head(),
           "input_distribution": hist}
    if extra_info:
        cov["generated_model"] = extra_info.get("info")
    core.write_evidence(prop, tier, seed, st, cov, time.time() - t0, nviol,
                        assumptions=getattr(mod, "ASSUMPTIONS", []))
    if rc == 0:
        print("OK property=%s tier=%s cases=%d distinct_nontrivial=%d theorems=%d closed wall=%.1fs" % (
            prop, tier, total_eval, len(keys), len(st["theorems"]), time.time() - t0))
    return rc
