"""Generic decision procedure of a check (DESIGN.md section 1.2).

A property module provides:
  PROP, PROP_FILE, ENGINE, IMPORTS, FN, TY
  gen_cases(rng, tier) -> list of case dicts (each gets an 'id')
  to_harness(case) -> dict sent to the Go harness
  to_gallina(case, obs) -> Gallina term of type TY (case input + implementation observation)
  nontrivial(case, obs) -> hashable key (distinct non-trivial case) or None
  describe(case, obs) -> JSON-able sample
optional:
  CORPUS: list of cases run first
  classify(case, obs) -> id of a known finding this failure is an instance of, or None
  shrink(case) -> iterable of smaller candidate cases
  extra_search(rng, round) -> further cases when model and implementation disagree
  RULE: text for the evidence
  ASSUMPTIONS: list of strings
  histogram(cases, obs) -> dict
  post(ctx): further verdict lines
"""
import json, os, random, sys, time, traceback
from . import core


def evaluate(mod, tier, cases, tag="cases"):
    """Run implementation and model on the cases; returns (obs, verdicts) with verdicts[id] = (agree, spec)."""
    hcases = []
    for c in cases:
        h = dict(mod.to_harness(c))
        h["id"] = c["id"]
        hcases.append(h)
    obs = core.run_harness(mod.ENGINE, hcases, timeout=getattr(mod, "HARNESS_TIMEOUT", 900),
                           shards=getattr(mod, "HARNESS_SHARDS", None),
                           extra_env=getattr(mod, "HARNESS_ENV", None))
    terms = [mod.to_gallina(c, obs[c["id"]]) for c in cases]
    res = core.coq_eval(mod.PROP, tier, mod.IMPORTS, mod.FN, terms, mod.TY,
                        shard_size=getattr(mod, "SHARD", 300), tag=tag)
    verdicts = {c["id"]: res[i] for i, c in enumerate(cases)}
    return obs, verdicts


def shrink_case(mod, tier, case, want):
    """Greedy shrinking: keep a smaller candidate while predicate want(verdict) stays true."""
    if not hasattr(mod, "shrink"):
        return case
    cur = case
    for _ in range(12):
        cands = list(mod.shrink(cur))[:200]
        if not cands:
            break
        for i, c in enumerate(cands):
            c["id"] = i
        try:
            obs, ver = evaluate(mod, tier, cands, tag="shrink")
        except Exception:
            break
        nxt = None
        for c in cands:
            if want(ver[c["id"]]):
                nxt = c
                break
        if nxt is None:
            break
        cur = nxt
    return cur


def run_property(mod, tier, seed, replay=None):
    t0 = time.time()
    prop = mod.PROP
    rng = random.Random((seed * 1000003) ^ hash(prop) % 65536 if False else seed * 1000003 + sum(map(ord, prop)))
    problems = []          # things that make the property "no longer shown"
    # 1 builds
    ok_coq, coq_log = core.build_coq()
    ok_h, h_log = core.build_harness()
    st = core.theorem_status(prop, mod.PROP_FILE)
    if not core.theorems_closed(st):
        problems.append({"kind": "theorem", "what": "proof obligations of %s do not check" % mod.PROP_FILE,
                         "files_not_compiled": st["failed_files"], "forbidden": st["forbidden"],
                         "assumptions": st["assumptions"], "log_tail": coq_log[-1500:] if not ok_coq else ""})
    if not ok_h:
        core.write_evidence(prop, tier, seed, st, {"evaluations": 0, "distinct_nontrivial": 0, "rule": getattr(mod, "RULE", ""),
                            "samples": [], "explanation": "harness build failed"}, time.time() - t0, 1)
        core.violation(prop, {"property": prop, "kind": "harness-build-failed",
                              "what": "the Go harness does not build against /repo's working tree with -tags verif; "
                                      "correspondence of the model with the code cannot be established",
                              "log": h_log[-3000:]}, no_input=True)
        return 1
    # 2 cases
    if replay:
        rp = json.load(open(replay))
        cases = rp.get("cases") or [rp["case"]]
    else:
        cases = list(getattr(mod, "CORPUS", [])) + mod.gen_cases(rng, tier)
    for i, c in enumerate(cases):
        c["id"] = i
    obs, ver = evaluate(mod, tier, cases)
    kf = core.known_findings()
    open_ids = {e["id"]: e for e in kf.get("open", []) if e.get("property") == prop}
    spec_fail = [c for c in cases if not ver[c["id"]][1]]
    disagree = [c for c in cases if not ver[c["id"]][0]]
    known_hits, unknown = {}, []
    for c in spec_fail:
        k = mod.classify(c, obs[c["id"]]) if hasattr(mod, "classify") else None
        if k is not None and k in open_ids:
            known_hits.setdefault(k, []).append(c)
        else:
            unknown.append(c)
    # disagreements that are explained by a known finding do not count
    disagree_unexpl = []
    for c in disagree:
        k = mod.classify(c, obs[c["id"]]) if hasattr(mod, "classify") else None
        if not (k is not None and k in open_ids):
            disagree_unexpl.append(c)
    extra_evals = 0
    if (disagree_unexpl or problems) and not unknown and not replay and hasattr(mod, "gen_cases"):
        # the property is no longer shown; search harder for a concrete failing input
        for rnd in range(getattr(mod, "EXTRA_ROUNDS", 3)):
            more = (mod.extra_search(rng, rnd) if hasattr(mod, "extra_search") else mod.gen_cases(rng, tier))
            for i, c in enumerate(more):
                c["id"] = i
            try:
                o2, v2 = evaluate(mod, tier, more, tag="search")
            except Exception as e:
                break
            extra_evals += len(more)
            bad = [c for c in more if not v2[c["id"]][1] and not
                   (hasattr(mod, "classify") and mod.classify(c, o2[c["id"]]) in open_ids)]
            if bad:
                for c in bad:
                    obs[("x", rnd, c["id"])] = o2[c["id"]]
                    c["_obs"] = o2[c["id"]]
                unknown.extend(bad)
                break
    rc = 0
    nviol = 0
    for k, cs in sorted(known_hits.items()):
        print("KNOWN-FINDING: property=%s %s (%d case(s) this run, e.g. %s)" % (
            prop, open_ids[k].get("what", k), len(cs), json.dumps(mod.describe(cs[0], obs[cs[0]["id"]]))[:300]))
    if unknown:
        c0 = unknown[0]
        small = shrink_case(mod, tier, dict(c0), lambda v: not v[1])
        small["id"] = 0
        try:
            o3, v3 = evaluate(mod, tier, [small], tag="final")
            ob, vv = o3[0], v3[0]
        except Exception as e:
            ob, vv = c0.get("_obs") or obs.get(c0["id"]), (None, False)
        model_view = ""
        if hasattr(mod, "model_view"):
            try:
                model_view = mod.model_view(small, ob, tier)
            except Exception as e:
                model_view = "unavailable: %s" % e
        core.violation(prop, {"property": prop, "kind": "spec-false-on-implementation",
                              "case": {k: v for k, v in small.items() if not k.startswith("_")},
                              "implementation_observation": ob, "verdict_agree_spec": vv,
                              "model_expects": model_view, "seed": seed, "tier": tier,
                              "failing_cases_this_run": len(unknown), "repo": core.repo_head(),
                              "how_to_replay": "./check %s --replay <this file>" % prop})
        rc = 1
        nviol = len(unknown)
    elif disagree_unexpl or problems:
        c0 = disagree_unexpl[0] if disagree_unexpl else None
        desc = {"property": prop, "kind": "not-shown", "seed": seed, "tier": tier, "repo": core.repo_head(),
                "no_longer_checks": ([p["what"] for p in problems] +
                                     (["correspondence %s: model %s and implementation differ on %d of %d cases"
                                       % (mod.ENGINE, mod.FN, len(disagree_unexpl), len(cases))] if disagree_unexpl else [])),
                "problems": problems, "search": "%d further cases evaluated with the executable spec, none failed" % extra_evals}
        if c0 is not None:
            small = shrink_case(mod, tier, dict(c0), lambda v: not v[0])
            desc["case"] = {k: v for k, v in small.items() if not k.startswith("_")}
            small["id"] = 0
            try:
                o3, v3 = evaluate(mod, tier, [small], tag="final")
                desc["implementation_observation"] = o3[0]
                if hasattr(mod, "model_view"):
                    desc["model_expects"] = mod.model_view(small, o3[0], tier)
            except Exception as e:
                desc["implementation_observation"] = obs.get(c0["id"])
        core.violation(prop, desc, no_input=True)
        rc = 1
        nviol = max(1, len(disagree_unexpl))
    # evidence
    keys = set()
    for c in cases:
        k = mod.nontrivial(c, obs[c["id"]])
        if k is not None:
            keys.add(k)
    samples = [mod.describe(c, obs[c["id"]]) for c in cases[:3]] + \
              [mod.describe(c, obs[c["id"]]) for c in cases[len(cases) // 2: len(cases) // 2 + 2]]
    cov = {"evaluations": len(cases) + extra_evals, "distinct_nontrivial": len(keys),
           "rule": getattr(mod, "RULE", ""), "samples": samples,
           "agree": sum(1 for c in cases if ver[c["id"]][0]), "spec_true": sum(1 for c in cases if ver[c["id"]][1]),
           "known_finding_cases": {k: len(v) for k, v in known_hits.items()},
           "repo": core.repo_head()}
    if hasattr(mod, "histogram"):
        cov["input_distribution"] = mod.histogram(cases, obs)
    core.write_evidence(prop, tier, seed, st, cov, time.time() - t0, nviol,
                        assumptions=getattr(mod, "ASSUMPTIONS", []))
    if rc == 0:
        print("OK property=%s tier=%s cases=%d distinct_nontrivial=%d theorems=%d closed wall=%.1fs" % (
            prop, tier, len(cases), len(keys), len(st["theorems"]), time.time() - t0))
    return rc
