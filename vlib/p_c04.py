"""C04 — stream failures: resubscribe, per-stream nonces, cache kept, clean stop (client.go sender/receiver/reconnect)."""
import json
from . import sysgen, p_c01

PROP = "C04"
PROP_FILE = "Properties/C04.v"
RULE = ("histories as in C01 with a fault script: Recv errors (ordinary and authentication rejections) at random positions, failing stream creation "
        "(0..2 attempts) before the reconnect succeeds, Send failures (followed by the Recv failure of the same stream), repeated failures; plus fixed "
        "scenarios: an authentication rejection followed by a burst of 1100 lookups of distinct missing names (queue capacity 1024), and the same burst on a "
        "stream whose Send failed. Per-stream request logs, lookup results (with a 3 s watchdog) and the cache are compared with the model after every operation. "
        "distinct_nontrivial = distinct histories with at least one reconnect after which a response was accepted")
ASSUMPTIONS = p_c01.ASSUMPTIONS + ["a stream whose Send failed also fails its Recv (the fault script always follows a Send failure by a Recv failure)",
                                   "back-off timing, the real gRPC transport and the classification of real transport errors are not modelled; errors are produced with Kitex's own status.Err",
                                   "races between an in-flight ACK and the stream dying are not driven (the history is sequential)"]


class Part(p_c01.Part):
    FAULTS = True
    N_QUICK, N_THOROUGH = 200, 3000

    @classmethod
    def gen_cases(cls, rng, tier):
        cases = super().gen_cases(rng, tier)
        names = ["m%d" % i for i in range(1100)]
        base = {"cfg": {"nds": False, "lds": False, "ns": "default", "dom": "cluster.local"}}
        fixed = [
            dict(base, ops=[{"op": "lookup", "rt": "cds", "name": "c1"}, {"op": "recverr", "auth": True},
                            {"op": "lookups", "rt": "eds", "names": names}, {"op": "lookup", "rt": "cds", "name": "c1"}]),
            dict(base, ops=[{"op": "lookup", "rt": "cds", "name": "c1"}, {"op": "senderr"}, {"op": "lookups", "rt": "eds", "names": names[:300]},
                            {"op": "recverr", "auth": False, "connectfail": 1}, {"op": "lookup", "rt": "cds", "name": "c2"}]),
        ]
        fixed += [
            # the sender is held in a Send on the dying stream while two streams fail in a row: the live (third) stream must still get the re-requests
            dict(base, ops=[{"op": "lookup", "rt": "cds", "name": "c1"}, {"op": "lookup", "rt": "eds", "name": "e1"}, {"op": "block_send"},
                            {"op": "lookup", "rt": "rds", "name": "rc-a"},
                            {"op": "recverr", "auth": False, "connectfail": 0, "nowait": True}, {"op": "recverr", "auth": False, "connectfail": 0, "nowait": True},
                            {"op": "unblock_send"}, {"op": "lookup", "rt": "cds", "name": "c2"}]),
            # an authentication rejection that arrives wrapped by the transport still stops the client
            dict(base, ops=[{"op": "lookup", "rt": "cds", "name": "c1"}, {"op": "recverr", "auth": True, "wrapped": True},
                            {"op": "lookup", "rt": "cds", "name": "c2"}, {"op": "lookup", "rt": "cds", "name": "c1"}]),
        ]
        return fixed + cases

    @staticmethod
    def PROJECT(v, c, o):
        (cache, lookup, reqs, watched, acks, table, closed, s1, s2, s3, s4, s10, s19, sfull) = v
        return (reqs and closed and lookup and cache and acks, s4)

    @classmethod
    def model_view(cls, c, o, tier):
        return sysgen.model_view(PROP, c, o, tier)

    @staticmethod
    def nontrivial(c, o):
        if o.get("fatal"):
            return None
        streams = {q["stream"] for st in o["steps"] for q in (st.get("reqs") or [])}
        acked_after = any(q["stream"] > 0 and q["nonce"] != "" and not q["error"] for st in o["steps"] for q in (st.get("reqs") or []))
        return json.dumps(c["ops"], sort_keys=True) if len(streams) >= 2 and acked_after else None


PARTS = [Part]
