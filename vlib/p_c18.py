"""C18 — policy consumer 'limiter' tracks the manager's updates (xdssuite)."""
from .polgen import PolPart

PROP = "C18"
PROP_FILE = "Properties/C18.v"
RULE = ("histories against the real manager+client (as C01) with the real xdssuite consumer registered through the public options at a random position "
        "(before the first update, in the middle, at the end), biased towards lds pushes: additions, removals, re-additions, value changes, zeros, "
        "partial and full pushes, rejected responses; policies are read back through public Kitex plumbing after every operation and compared with the "
        "model; the specification is evaluated on the implementation's own cache snapshots. distinct_nontrivial = distinct histories in which the "
        "consumer's state took at least three different values")
ASSUMPTIONS = ["Kitex's own normalisation (retry error rate outside (0,0.3] -> 0.1) is modelled as library behaviour",
               "handlers run inside UpdateResource under the manager's lock (C07); the history is sequential"]
PARTS = [PolPart(PROP, "limiter", "lds", 2)]
