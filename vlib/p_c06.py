"""C06 — lookups under concurrency (core/manager/manager.go Get / UpdateResource)."""
import json
from .concgen import ConcPart
from . import sysgen, p_c01

PROP = "C06"
PROP_FILE = "Properties/C06.v"
RULE = ("schedules of 1..3 concurrent lookups (same and different names, a full-state type and a merge type, an unknown kind) with 1..2 deliveries "
        "(incl. full responses that remove the name again) and the firing of each caller's deadline, at the granularity of Get's lock-free gaps: "
        "every interleaving is enumerated per configuration (DFS) up to a budget, random walks beyond it, plus prefixes; real Get goroutines are parked "
        "at the four tagged yield points by a deterministic scheduler and UpdateResource / cancellations are placed between their sections; each lookup "
        "left unfinished is then drained, firing its deadline only if it cannot return otherwise (reported). distinct_nontrivial = distinct schedules with a lookup and a delivery")
ASSUMPTIONS = ["atomicity of the sections between yield points (each runs under m.mu) is what the generated lock skeleton of C07 states",
               "real time is not modelled: 'bounded time' is bounded steps + progress; wall-clock is not measured here (partial)",
               "Go's runtime scheduler inside an atomic section is irrelevant by construction; a select that finds both channels ready may take either branch: the model follows the branch observed"]


class E2EGen(sysgen.SysGen):
    E2E = 0.25


class E2E(p_c01.Part):
    """end to end: a lookup that really waits (Get with a deadline) on the real manager + client, the next response arrives
    through the stream, the waiting caller returns.  Model, comparison and per-key specification are C01's: the waiting
    caller must return exactly what a lookup at that moment returns when the resource is cached by then, and an error
    when it is not."""
    NAME = "e2e"
    N_QUICK, N_THOROUGH = 80, 800
    RULE = ("e2e part: histories as in C01 (both configurations) in which every fourth operation is a lookup that WAITS (a real Get with a 1.5 s "
            "deadline; the step ends when its notifier is registered), followed by a response of (mostly) its type through the fake stream and by "
            "the return of the waiting caller, whose result is compared with the model's lookup at that moment when the resource is cached by "
            "then (the caller was woken, or reads the cache when its deadline passes) and must be an error when it is not")

    @classmethod
    def gen_cases(cls, rng, tier):
        n = cls.N_QUICK if tier == "quick" else cls.N_THOROUGH
        return [E2EGen(rng).history(rng.choice([8, 12, 20]), istio=rng.random() < 0.5, lds_warm=rng.random() < 0.3) for _ in range(n)]

    @staticmethod
    def PROJECT(v, c, o):
        (cache, lookup, reqs, watched, acks, table, closed, s1, s2, s3, s4, s10, s19, sfull) = v
        return (cache and lookup and reqs and watched, s1 and sfull)

    @classmethod
    def model_view(cls, c, o, tier):
        return sysgen.model_view(PROP, c, o, tier)

    @staticmethod
    def nontrivial(c, o):
        if o.get("fatal"):
            return None
        woken = any(st.get("joined") == "cached" for st in o["steps"])
        return json.dumps(c["ops"], sort_keys=True) if woken else None


RULE = "conc part: " + RULE + "; " + E2E.RULE
ASSUMPTIONS = ASSUMPTIONS + ["e2e part: " + a for a in p_c01.ASSUMPTIONS] + [
    "e2e part: whether the waiting caller was woken by the notification or read the cache when its deadline passed is not distinguished (its elapsed time is not compared)"]
PARTS = [ConcPart(PROP, 1), E2E]
