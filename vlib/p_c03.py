"""C03 — requests always carry exactly the current interest set of their type (client.go Watch / prepareRequest)."""
import json
from . import sysgen, p_c01

PROP = "C03"
PROP_FILE = "Properties/C03.v"
RULE = p_c01.RULE.replace("distinct_nontrivial = distinct histories in which an accepted response changed the answer of a later lookup",
                          "Every DiscoveryRequest the in-memory stream receives is recorded (type, version, nonce, sorted names, error detail, node id) and the "
                          "interest sets are read back after every operation; reconnects are included. distinct_nontrivial = distinct histories with at least three "
                          "requests whose name lists differ")
ASSUMPTIONS = p_c01.ASSUMPTIONS + ["in the reconnect-window scenarios the request log is not compared with the sequential model (the sender's select between the queued request and the new stream is a coin flip); only the interest sets, the cache, the lookups and the quiescence clause are",
                                   "evictions (interest shrinking) are exercised by C19's real sweeps, not here",
                                   "concurrent callers are reduced to atomic steps (each runs under c.mu: C07)"]


class Part(p_c01.Part):
    FAULTS = True

    @classmethod
    def gen_cases(cls, rng, tier):
        cases = super().gen_cases(rng, tier)
        base = {"cfg": {"nds": False, "lds": False, "ns": "default", "dom": "cluster.local"}}
        names = ["q%d" % i for i in range(1040)]
        fixed = [
            # the sender is held in a Send; more requests than the queue holds (1024) pile up behind a request of another type;
            # once the sender is released every subscription change must still reach the stream
            dict(base, ops=[{"op": "block_send"}, {"op": "lookup", "rt": "eds", "name": "e-first"}, {"op": "lookup", "rt": "cds", "name": "c-x"},
                            {"op": "burst_unblock", "rt": "eds", "names": names}, {"op": "lookup", "rt": "rds", "name": "rc-a"}]),
        ]
        # an interest change in the window between the receiver's reconnect and the sender's switch to the new stream
        # (the sender is held in a Send on the dying stream, the stream fails, THEN a lookup misses, then the sender is
        # released).  Which of the two ready channels the sender's select takes first is a coin flip, so the request of
        # the lookup may go out on the old or on the new stream: the request log of these cases is not compared with
        # the (sequential) model ("loose_wire"); the specification is: once the sender is released, the last request of
        # every subscribed type on the live stream lists the interest set.  Each shape is run several times.
        window = []
        for rep in range(4 if tier == "quick" else 12):
            for t1, held, new in (("cds", "eds", "cds"), ("eds", "cds", "eds"), ("rds", "cds", "rds"), ("cds", "rds", "eds")):
                ops = [{"op": "lookup", "rt": t1, "name": "w-1"}, {"op": "lookup", "rt": new, "name": "w-2"},
                       {"op": "block_send"}, {"op": "lookup", "rt": held, "name": "held-%d" % rep},
                       {"op": "recverr", "auth": False, "connectfail": 0, "nowait": True}]
                ops += [{"op": "lookup", "rt": new, "name": "late-%d" % i} for i in range(1 + rep % 2)]
                ops += [{"op": "unblock_send"}, {"op": "lookup", "rt": t1, "name": "w-1"}]
                window.append(dict(base, ops=ops, loose_wire=True))
        return fixed + window + cases

    @staticmethod
    def PROJECT(v, c, o):
        (cache, lookup, reqs, watched, acks, table, closed, s1, s2, s3, s4, s10, s19, sfull) = v
        if c.get("loose_wire"):
            return (watched and cache and lookup, s3)
        return (reqs and watched, s3)

    @classmethod
    def model_view(cls, c, o, tier):
        return sysgen.model_view(PROP, c, o, tier)

    @staticmethod
    def nontrivial(c, o):
        if o.get("fatal"):
            return None
        sets = {(q["type"], tuple(q["names"])) for st in o["steps"] for q in (st.get("reqs") or [])}
        return json.dumps(c["ops"], sort_keys=True) if len(sets) >= 3 else None


PARTS = [Part]
