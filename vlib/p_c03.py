"""C03 — requests always carry exactly the current interest set of their type (client.go Watch / prepareRequest)."""
import json
from . import sysgen, p_c01

PROP = "C03"
PROP_FILE = "Properties/C03.v"
RULE = p_c01.RULE.replace("distinct_nontrivial = distinct histories in which an accepted response changed the answer of a later lookup",
                          "Every DiscoveryRequest the in-memory stream receives is recorded (type, version, nonce, sorted names, error detail, node id) and the "
                          "interest sets are read back after every operation; reconnects are included. distinct_nontrivial = distinct histories with at least three "
                          "requests whose name lists differ")
ASSUMPTIONS = p_c01.ASSUMPTIONS + ["evictions (interest shrinking) are exercised by C19's real sweeps, not here",
                                   "concurrent callers are reduced to atomic steps (each runs under c.mu: C07)"]


class Part(p_c01.Part):
    FAULTS = True

    @classmethod
    def gen_cases(cls, rng, tier):
        cases = super().gen_cases(rng, tier)
        base = {"cfg": {"nds": False, "lds": False, "ns": "default", "dom": "cluster.local"}}
        names = ["q%d" % i for i in range(1040)]
        fixed = [
            # the sender is held in a Send; more requests than the queue holds (1024) pile up behind a request of another type;
            # once the sender is released every subscription change must still reach the stream
            dict(base, ops=[{"op": "block_send"}, {"op": "lookup", "rt": "eds", "name": "e-first"}, {"op": "lookup", "rt": "cds", "name": "c-x"},
                            {"op": "burst_unblock", "rt": "eds", "names": names}, {"op": "lookup", "rt": "rds", "name": "rc-a"}]),
        ]
        return fixed + cases

    @staticmethod
    def PROJECT(v, c, o):
        (cache, lookup, reqs, watched, acks, table, closed, s1, s2, s3, s4, s10, s19, sfull) = v
        return (reqs and watched, s3)

    @classmethod
    def model_view(cls, c, o, tier):
        return sysgen.model_view(PROP, c, o, tier)

    @staticmethod
    def nontrivial(c, o):
        if o.get("fatal"):
            return None
        sets = {(q["type"], tuple(q["names"])) for st in o["steps"] for q in (st.get("reqs") or [])}
        return json.dumps(c["ops"], sort_keys=True) if len(sets) >= 3 else None


PARTS = [Part]
