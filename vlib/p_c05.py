"""C05 — lookups under concurrency (core/manager/manager.go Get / UpdateResource)."""
from .concgen import ConcPart

PROP = "C05"
PROP_FILE = "Properties/C05.v"
RULE = ("schedules of 1..3 concurrent lookups (same and different names, a full-state type and a merge type, an unknown kind) with 1..2 deliveries "
        "(incl. full responses that remove the name again) and the firing of each caller's deadline, at the granularity of Get's lock-free gaps: "
        "every interleaving is enumerated per configuration (DFS) up to a budget, random walks beyond it, plus prefixes; real Get goroutines are parked "
        "at the four tagged yield points by a deterministic scheduler and UpdateResource / cancellations are placed between their sections; each lookup "
        "left unfinished is then drained, firing its deadline only if it cannot return otherwise (reported). distinct_nontrivial = distinct schedules with a lookup and a delivery")
ASSUMPTIONS = ["atomicity of the sections between yield points (each runs under m.mu) is what the generated lock skeleton of C07 states",
               "real time is not modelled: 'bounded time' is bounded steps + progress; wall-clock is not measured here (partial)",
               "Go's runtime scheduler inside an atomic section is irrelevant by construction; a select that finds both channels ready may take either branch: the model follows the branch observed"]


class Deadline:
    """wall-clock monitor (partial): real lookups with real timers"""
    NAME = "deadline"
    NONDETERMINISTIC = True
    ENGINE = "deadline"
    IMPORTS = "From Xds Require Import Model.Base Model.Conc Model.ConcCheck."
    FN = "dl_check"
    TY = "dl_case"

    @staticmethod
    def gen_cases(rng, tier):
        n = 40 if tier == "quick" else 200
        items = []
        for _ in range(n):
            ft = rng.choice([150, 300, 450])
            caller = rng.choice(["none", "deadline", "deadline", "cancel"])
            cm = rng.choice([100, 250, 600, 900])
            d = min(ft, cm) if caller != "none" else ft
            dv = rng.choice([-1, -1, max(20, d - 120), d + 150])
            items.append({"ft_ms": ft, "caller": caller, "caller_ms": cm, "deliver_ms": dv, "join_ms": 0})
        # configured fetch timeouts below a millisecond are timeouts, not "unset"
        for us in ((500, 999) if tier == "quick" else (1, 100, 500, 999, 500, 999)):
            items.append({"ft_ms": 1, "ft_us": us, "caller": rng.choice(["none", "deadline"]), "caller_ms": 700, "deliver_ms": -1, "join_ms": 0})
        # a second caller joining a lookup already in flight has its OWN deadline: delivered after the first caller's
        # deadline and before its own it gets the value; never delivered it returns at its own deadline, not earlier
        for _ in range(4 if tier == "quick" else 24):
            ft = rng.choice([400, 600])
            join = rng.choice([ft // 2, ft // 3])
            dv = rng.choice([-1, ft + (join // 2), ft + 20 + join // 3])
            items.append({"ft_ms": ft, "caller": "none", "caller_ms": 0, "deliver_ms": dv, "join_ms": join})
        return [{"item": it} for it in items]

    @staticmethod
    def run_impl(cases):
        from . import core
        res = core.run_harness("deadline", [{"id": 0, "items": [c["item"] for c in cases]}], timeout=120, shards=1)
        out = {c["id"]: r for c, r in zip(cases, res[0]["results"])}
        # scheduling noise: an item that returned much later than its target is measured once more on its own
        # (the better of the two measurements is kept; a lookup that is really late is late both times)
        def target(it):
            d = min(it["ft_ms"], it["caller_ms"]) if it["caller"] != "none" else it["ft_ms"]
            dv = it["deliver_ms"] - it.get("join_ms", 0) if it["deliver_ms"] >= 0 else -1
            return dv if 0 <= dv < d else d
        late = [c for c in cases if out[c["id"]]["elapsed_ms"] > target(c["item"]) + 200]
        for c in late[:10]:
            r2 = core.run_harness("deadline", [{"id": 0, "items": [c["item"]]}], timeout=60, shards=1)[0]["results"][0]
            if r2["kind"] == out[c["id"]]["kind"] and r2["elapsed_ms"] < out[c["id"]]["elapsed_ms"]:
                out[c["id"]] = r2
        return out

    @staticmethod
    def to_gallina(c, o):
        from .core import gN
        it = c["item"]
        caller = "None" if it["caller"] == "none" else "(Some %s)" % gN(it["caller_ms"])
        # for a joiner everything is measured from its own start
        rel = it["deliver_ms"] - it.get("join_ms", 0) if it["deliver_ms"] >= 0 else -1
        dv = "None" if rel < 0 else "(Some %s)" % gN(rel)
        res = {"val": "(Some (RVal 7))", "err": "(Some RErr)", "nil": "(Some RNil)", "bad": "(Some RBad)", "hang": "None"}[o["kind"]]
        return "Build_dl_case %s %s %s %s %s" % (gN(it["ft_ms"]), caller, dv, gN(o["elapsed_ms"]), res)

    @staticmethod
    def nontrivial(c, o):
        import json
        return json.dumps(c["item"], sort_keys=True)

    @staticmethod
    def describe(c, o):
        return {"lookup": c["item"], "returned_after_ms": o["elapsed_ms"], "result": o["kind"]}


PARTS = [ConcPart(PROP, 0), Deadline]
